/-
Invariant of the concurrent growable-array model (Model/QbArrayConc.lean) and its preservation by
every step of every thread — the induction step of the all-interleavings theorems in
Props/C19Conc.lean.  Holds for both variants of the model (code as it is / repaired); the only
clause that needs the repair is `nofree`.
-/
import QbVerif.Model.QbArrayConc
import QbVerif.Lemmas.QbArray

namespace QbVerif.QbArrayConc
open QbVerif.QbArray (EPB MAXBINS MAXELEMS binNum elemNum binAt binsFor Err binAt_grow binAt_set binAt_lt
  binNum_eq elemNum_eq binsFor_eq MAXELEMS_eq MAXBINS_eq)

/-! ### the invariant -/

/-- global part: the array fields (`M0` = size the array was created with) -/
structure GI (M0 : Nat) (sh : Shared) : Prop where
  len : sh.bins.length = sh.numBins
  maxle : sh.maxElements ≤ MAXELEMS
  m0 : M0 ≤ sh.maxElements
  alloc : ∀ b k, binAt sh.bins b = some k → k < sh.nblk
  inj : ∀ b b' k, binAt sh.bins b = some k → binAt sh.bins b' = some k → b = b'
  /-- outside the realloc window the table covers every index below the size -/
  enough : sh.binPtr = sh.liveTbl → binsFor sh.maxElements ≤ sh.numBins
  /-- `a->bin` dangles only while somebody holds the lock -/
  win : sh.binPtr ≠ sh.liveTbl → sh.lock ≠ none
  /-- repaired code: no access through a freed table ever happened -/
  nofree : sh.fixed = true → sh.freedRead = false

/-- what a thread at `pc` relies on -/
def PcOk (M0 : Nat) (sh : Shared) : Pc → Prop
  | .iUnlockErange i => sh.autogrow = 0 ∧ M0 ≤ i
  | .iUnlockGrow i => M0 ≤ i
  | .gEntry n k => ∀ i, k = some i → n = i + 1 ∧ M0 ≤ i
  | .gLock n k => n ≤ MAXELEMS ∧ ∀ i, k = some i → n = i + 1
  | .gCs n k => n ≤ MAXELEMS ∧ ∀ i, k = some i → n = i + 1
  | .gStore newN k => sh.binPtr ≠ sh.liveTbl ∧ sh.numBins ≤ newN ∧ binsFor sh.maxElements ≤ newN ∧
      ∀ i, k = some i → i < sh.maxElements
  | .gUnlock k => ∀ i, k = some i → i < sh.maxElements
  | .iAfterGrow i => i < sh.maxElements
  | .iLock2 i => i < sh.maxElements
  | .iCs2 i => i < sh.maxElements
  | .iStore i newN => sh.binPtr ≠ sh.liveTbl ∧ sh.numBins ≤ newN ∧ binsFor sh.maxElements ≤ newN ∧
      i < sh.maxElements ∧ binNum i < newN
  | .iUnlockTail i bin => i < sh.maxElements ∧ ∃ k, binAt sh.bins (binNum i) = some k ∧ (sh.fixed = true → bin = some k)
  | .iTailTbl i => i < sh.maxElements ∧ sh.fixed = false ∧ ∃ k, binAt sh.bins (binNum i) = some k
  | .iTailBin i _ => i < sh.maxElements ∧ sh.fixed = false ∧ ∃ k, binAt sh.bins (binNum i) = some k
  | _ => True

/-- the call a thread at `pc` is executing -/
def pcReq (pc : Pc) (q : Req) : Prop :=
  match pc with
  | .idle => True
  | .iLock1 i | .iCs1 i | .iUnlockErange i | .iUnlockGrow i | .iAfterGrow i | .iLock2 i | .iCs2 i
  | .iStore i _ | .iUnlockTail i _ | .iTailTbl i | .iTailBin i _ => q = .index (i : Int)
  | .gEntry n k | .gLock n k | .gCs n k =>
    match k with
    | some i => q = .index (i : Int)
    | none => q = .grow n
  | .gStore _ k | .gUnlock k =>
    match k with
    | some i => q = .index (i : Int)
    | none => ∃ n, q = .grow n ∧ n ≤ MAXELEMS
  | .nLock | .nCs | .nUnlock _ => q = .numBins

def ReqOk (prog : List Req) (pc : Pc) : Prop :=
  match prog with
  | [] => pc = .idle
  | q :: _ => pcReq pc q

/-- per-thread part -/
structure Local (M0 : Nat) (sh : Shared) (t : Nat) (prog : List Req) (pc : Pc) : Prop where
  holds : pc.holds = true → sh.lock = some t
  nowin : pc.holds = true → pc.window = false → sh.binPtr = sh.liveTbl
  ok : PcOk M0 sh pc
  req : ReqOk prog pc

/-- a completed call and its result -/
def EntryOk (M0 : Nat) (sh : Shared) : Entry → Prop
  | (_, .index idx, .addr k off) =>
      0 ≤ idx ∧ idx.toNat < sh.maxElements ∧ binAt sh.bins (idx.toNat / 16) = some k ∧
      off = sh.elementSize * (idx.toNat % 16)
  | (_, .index idx, .err _) => idx < 0 ∨ (M0 ≤ idx.toNat ∧ (sh.autogrow = 0 ∨ MAXELEMS ≤ idx.toNat))
  | (_, .index idx, .uaf) => sh.fixed = false ∧ 0 ≤ idx ∧ idx.toNat < sh.maxElements
  | (_, .grow n, .rc0) => n ≤ MAXELEMS
  | (_, .grow n, .err e) => n > MAXELEMS ∧ e = .einval
  | (_, .numBins, .num _) => True
  | _ => False

/-- monotone change of the array: nothing handed out is taken back -/
structure Mono (sh sh' : Shared) : Prop where
  fixed : sh'.fixed = sh.fixed
  esz : sh'.elementSize = sh.elementSize
  auto : sh'.autogrow = sh.autogrow
  max : sh.maxElements ≤ sh'.maxElements
  bins : ∀ b k, binAt sh.bins b = some k → binAt sh'.bins b = some k

theorem Mono.refl (sh : Shared) : Mono sh sh := ⟨rfl, rfl, rfl, Nat.le_refl _, fun _ _ h => h⟩

theorem Mono.trans {a b c : Shared} (h1 : Mono a b) (h2 : Mono b c) : Mono a c :=
  ⟨h2.fixed.trans h1.fixed, h2.esz.trans h1.esz, h2.auto.trans h1.auto, Nat.le_trans h1.max h2.max,
   fun x k h => h2.bins x k (h1.bins x k h)⟩

/-- the array fields proper are untouched -/
structure SameArr (sh sh' : Shared) : Prop where
  fixed : sh'.fixed = sh.fixed
  esz : sh'.elementSize = sh.elementSize
  auto : sh'.autogrow = sh.autogrow
  max : sh'.maxElements = sh.maxElements
  numBins : sh'.numBins = sh.numBins
  binPtr : sh'.binPtr = sh.binPtr
  liveTbl : sh'.liveTbl = sh.liveTbl
  bins : sh'.bins = sh.bins
  nblk : sh'.nblk = sh.nblk

theorem SameArr.mono {sh sh' : Shared} (h : SameArr sh sh') : Mono sh sh' :=
  ⟨h.fixed, h.esz, h.auto, by rw [h.max]; exact Nat.le_refl _, fun b k hk => by rw [h.bins]; exact hk⟩

theorem EntryOk.mono {M0 : Nat} {sh sh' : Shared} (h : Mono sh sh') {e : Entry} (he : EntryOk M0 sh e) :
    EntryOk M0 sh' e := by
  obtain ⟨t, q, r⟩ := e
  cases q <;> cases r <;> simp only [EntryOk] at he ⊢
  · obtain ⟨h0, h1, h2, h3⟩ := he
    exact ⟨h0, Nat.lt_of_lt_of_le h1 h.max, h.bins _ _ h2, by rw [h.esz]; exact h3⟩
  · rw [h.auto]; exact he
  · rw [h.fixed]; exact ⟨he.1, he.2.1, Nat.lt_of_lt_of_le he.2.2 h.max⟩
  · exact he
  · exact he

theorem PcOk.sameArr {M0 : Nat} {sh sh' : Shared} (h : SameArr sh sh') {pc : Pc} (hp : PcOk M0 sh pc) :
    PcOk M0 sh' pc := by
  cases pc <;> simp only [PcOk, h.fixed, h.auto, h.max, h.numBins, h.binPtr, h.liveTbl, h.bins] at hp ⊢ <;>
    exact hp

/-- the facts of a thread that does not hold the lock survive any monotone change -/
theorem PcOk.mono {M0 : Nat} {sh sh' : Shared} (h : Mono sh sh') {pc : Pc} (hh : pc.holds = false)
    (hp : PcOk M0 sh pc) : PcOk M0 sh' pc := by
  cases pc <;> simp [Pc.holds] at hh <;> simp only [PcOk] at hp ⊢ <;> try exact hp
  · exact Nat.lt_of_lt_of_le hp h.max
  · exact Nat.lt_of_lt_of_le hp h.max
  · obtain ⟨h1, h2, k, h3⟩ := hp
    exact ⟨Nat.lt_of_lt_of_le h1 h.max, by rw [h.fixed]; exact h2, k, h.bins _ _ h3⟩
  · obtain ⟨h1, h2, k, h3⟩ := hp
    exact ⟨Nat.lt_of_lt_of_le h1 h.max, by rw [h.fixed]; exact h2, k, h.bins _ _ h3⟩

/-- Frame: a step of thread `t` keeps the local facts of every other thread, provided the array
    changed monotonically, only the lock holder changed array fields, and the lock changed hands only
    by `t` taking a free lock or giving up its own. -/
theorem Local.frame {M0 : Nat} {sh sh' : Shared} {t t' : Nat} {prog : List Req} {pc : Pc}
    (hne : t' ≠ t) (hm : Mono sh sh')
    (hlock : sh'.lock = sh.lock ∨ sh.lock = none ∨ sh.lock = some t)
    (hsame : sh.lock ≠ some t → SameArr sh sh')
    (hL : Local M0 sh t' prog pc) : Local M0 sh' t' prog pc := by
  cases hh : pc.holds with
  | true =>
    have hl := hL.holds hh
    have hnt : sh.lock ≠ some t := by rw [hl]; intro e; injection e with e; exact hne e
    have hs := hsame hnt
    have hl' : sh'.lock = some t' := by
      rcases hlock with h | h | h
      · rw [h]; exact hl
      · rw [hl] at h; cases h
      · exact absurd h hnt
    exact ⟨fun _ => hl', fun h1 h2 => (by rw [hs.binPtr, hs.liveTbl]; exact hL.nowin h1 h2), hL.ok.sameArr hs, hL.req⟩
  | false =>
    exact ⟨fun h => (by rw [hh] at h; cases h), fun h => (by rw [hh] at h; cases h), hL.ok.mono hm hh, hL.req⟩


theorem SameArr.refl (sh : Shared) : SameArr sh sh := ⟨rfl, rfl, rfl, rfl, rfl, rfl, rfl, rfl, rfl⟩

/-! ### effect of the elementary updates on the global invariant -/

theorem touch_eq {sh : Shared} (h : sh.binPtr = sh.liveTbl) : touch sh = sh := by
  simp [touch, h]

theorem gi_lock {M0 : Nat} {sh : Shared} (hG : GI M0 sh) (x : Option Nat)
    (hx : sh.binPtr ≠ sh.liveTbl → x ≠ none) : GI M0 { sh with lock := x } :=
  ⟨hG.len, hG.maxle, hG.m0, hG.alloc, hG.inj, hG.enough, hx, hG.nofree⟩

theorem gi_release {M0 : Nat} {sh : Shared} (hG : GI M0 sh) (h : sh.binPtr = sh.liveTbl) : GI M0 (release sh) :=
  gi_lock hG none (fun hn => absurd h hn)

theorem gi_freed {M0 : Nat} {sh : Shared} (hG : GI M0 sh) (h : sh.fixed = false) :
    GI M0 { sh with freedRead := true } :=
  ⟨hG.len, hG.maxle, hG.m0, hG.alloc, hG.inj, hG.enough, hG.win, fun hf => by rw [h] at hf; cases hf⟩

theorem realloc_eq {sh : Shared} (h : sh.binPtr = sh.liveTbl) :
    realloc sh = { sh with liveTbl := sh.liveTbl + 1 } := by
  simp [realloc, touch_eq h]

theorem gi_realloc {M0 : Nat} {sh : Shared} (hG : GI M0 sh) (h : sh.binPtr = sh.liveTbl) (hl : sh.lock ≠ none) :
    GI M0 (realloc sh) := by
  rw [realloc_eq h]
  exact ⟨hG.len, hG.maxle, hG.m0, hG.alloc, hG.inj, fun he => by simp only at he; omega, fun _ => hl, hG.nofree⟩

theorem binAt_storeTbl {sh : Shared} (hl : sh.bins.length = sh.numBins) {newN : Nat} (hn : sh.numBins ≤ newN)
    (b : Nat) : binAt (storeTbl sh newN).bins b = binAt sh.bins b := by
  simp only [storeTbl]
  exact binAt_grow _ _ _ _ (by omega)

theorem gi_store {M0 : Nat} {sh : Shared} (hG : GI M0 sh) {newN : Nat} (hn : sh.numBins ≤ newN)
    (he : binsFor sh.maxElements ≤ newN) : GI M0 (storeTbl sh newN) := by
  have hb := binAt_storeTbl hG.len hn
  refine ⟨?_, hG.maxle, hG.m0, ?_, ?_, fun _ => he, fun h => absurd rfl h, hG.nofree⟩
  · have := hG.len
    simp [storeTbl, List.length_take]
    omega
  · intro b k h; rw [hb] at h; exact hG.alloc b k h
  · intro b b' k h h'; rw [hb] at h h'; exact hG.inj b b' k h h'

theorem mono_store {sh : Shared} (hl : sh.bins.length = sh.numBins) {newN : Nat} (hn : sh.numBins ≤ newN) :
    Mono sh (storeTbl sh newN) :=
  ⟨rfl, rfl, rfl, Nat.le_refl _, fun b k h => by rw [binAt_storeTbl hl hn]; exact h⟩

theorem gi_calloc {M0 : Nat} {sh : Shared} (hG : GI M0 sh) (b : Nat) :
    GI M0 { sh with bins := sh.bins.set b (some sh.nblk), nblk := sh.nblk + 1 } := by
  have hlen := hG.len
  refine ⟨by simp [hlen], hG.maxle, hG.m0, ?_, ?_, hG.enough, hG.win, hG.nofree⟩
  · intro b' k hb'
    show k < sh.nblk + 1
    simp only [binAt_set] at hb'
    split at hb'
    · injection hb' with e; omega
    · have := hG.alloc b' k hb'; omega
  · intro b1 b2 k h1 h2
    simp only [binAt_set] at h1 h2
    split at h1 <;> split at h2
    · omega
    · injection h1 with e; have := hG.alloc b2 k h2; omega
    · injection h2 with e; have := hG.alloc b1 k h1; omega
    · exact hG.inj b1 b2 k h1 h2

theorem mono_calloc {sh : Shared} {b : Nat} (hk : binAt sh.bins b = none) :
    Mono sh { sh with bins := sh.bins.set b (some sh.nblk), nblk := sh.nblk + 1 } := by
  refine ⟨rfl, rfl, rfl, Nat.le_refl _, ?_⟩
  intro b' k' h
  simp only [binAt_set]
  split
  · rename_i hh; rw [hh.1, hk] at h; cases h
  · exact h


theorem Local.free {M0 : Nat} {sh : Shared} {t : Nat} {prog : List Req} {pc : Pc} (hh : pc.holds = false)
    (ok : PcOk M0 sh pc) (req : ReqOk prog pc) : Local M0 sh t prog pc :=
  ⟨fun h => (by rw [hh] at h; cases h), fun h => (by rw [hh] at h; cases h), ok, req⟩

/-! ### one step of one thread -/

/-- what a step of thread `t` (outcome `o` of `next`) guarantees -/
structure Post (M0 : Nat) (sh : Shared) (t : Nat) (prog : List Req) (o : Shared × Pc × Option Res) : Prop where
  gi : GI M0 o.1
  mono : Mono sh o.1
  lock : o.1.lock = sh.lock ∨ sh.lock = none ∨ sh.lock = some t
  same : sh.lock ≠ some t → SameArr sh o.1
  cont : o.2.2 = none → Local M0 o.1 t prog o.2.1
  fin : ∀ res, o.2.2 = some res → ∃ q rest, prog = q :: rest ∧ EntryOk M0 o.1 (t, q, res)

theorem Post.stay {M0 : Nat} {sh : Shared} {t : Nat} {prog : List Req} (hG : GI M0 sh) {pc' : Pc}
    (hL : Local M0 sh t prog pc') : Post M0 sh t prog (sh, pc', none) :=
  ⟨hG, Mono.refl _, .inl rfl, fun _ => SameArr.refl _, fun _ => hL, fun _ h => (by cases h)⟩

theorem Post.ret {M0 : Nat} {sh : Shared} {t : Nat} {prog : List Req} (hG : GI M0 sh) {res : Res}
    {q : Req} {rest : List Req} (hp : prog = q :: rest) (he : EntryOk M0 sh (t, q, res)) :
    Post M0 sh t prog (sh, .idle, some res) :=
  ⟨hG, Mono.refl _, .inl rfl, fun _ => SameArr.refl _, fun h => (by cases h),
   fun r h => (by injection h with h; subst h; exact ⟨q, rest, hp, he⟩)⟩

theorem sameArr_lock (sh : Shared) (x : Option Nat) : SameArr sh { sh with lock := x } :=
  ⟨rfl, rfl, rfl, rfl, rfl, rfl, rfl, rfl, rfl⟩

theorem Post.acq {M0 : Nat} {sh : Shared} {t : Nat} {prog : List Req} (hG : GI M0 sh) {stay nxt : Pc}
    (hL : Local M0 sh t prog stay)
    (hok : PcOk M0 sh nxt) (hreq : ReqOk prog nxt) : Post M0 sh t prog (acquire sh t stay nxt) := by
  unfold acquire
  by_cases hl : sh.lock = none
  · rw [if_pos hl]
    have hs := sameArr_lock sh (some t)
    have hb : sh.binPtr = sh.liveTbl := by
      by_cases hb : sh.binPtr = sh.liveTbl
      · exact hb
      · exact absurd hl (hG.win hb)
    refine ⟨gi_lock hG _ (fun _ => (by simp)), hs.mono, .inr (.inl hl), fun _ => hs, fun _ => ?_, fun _ h => (by cases h)⟩
    exact ⟨fun _ => rfl, fun _ _ => hb, hok.sameArr hs, hreq⟩
  · rw [if_neg hl]
    exact Post.stay hG hL

theorem Post.rel {M0 : Nat} {sh : Shared} {t : Nat} {prog : List Req} (hG : GI M0 sh)
    (hl : sh.lock = some t) (hb : sh.binPtr = sh.liveTbl) (pc' : Pc) (r : Option Res)
    (hc : r = none → pc'.holds = false ∧ PcOk M0 sh pc' ∧ ReqOk prog pc')
    (hf : ∀ res, r = some res → ∃ q rest, prog = q :: rest ∧ EntryOk M0 sh (t, q, res)) :
    Post M0 sh t prog (release sh, pc', r) := by
  have hs : SameArr sh (release sh) := sameArr_lock sh none
  refine ⟨gi_release hG hb, hs.mono, .inr (.inr hl), fun _ => hs, ?_, ?_⟩
  · intro hr
    obtain ⟨h1, h2, h3⟩ := hc hr
    exact ⟨fun h => (by rw [h1] at h; cases h), fun h => (by rw [h1] at h; cases h), h2.sameArr hs, h3⟩
  · intro res hr
    obtain ⟨q, rest, hp, he⟩ := hf res hr
    exact ⟨q, rest, hp, he.mono hs.mono⟩

/-- head of the program of a thread that is inside a call -/
theorem ReqOk.head {prog : List Req} {pc : Pc} (h : ReqOk prog pc) (hne : pc ≠ .idle) :
    ∃ q rest, prog = q :: rest ∧ pcReq pc q := by
  cases prog with
  | nil => exact absurd h hne
  | cons q rest => exact ⟨q, rest, rfl, h⟩

theorem ReqOk.of_head {prog : List Req} {pc pc' : Pc} (h : ReqOk prog pc) (hne : pc ≠ .idle)
    (hq : ∀ q, pcReq pc q → pcReq pc' q) : ReqOk prog pc' := by
  obtain ⟨q, rest, hp, hr⟩ := h.head hne
  subst hp
  exact hq q hr


theorem bin_in_table {M0 : Nat} {sh : Shared} (hG : GI M0 sh) (hb : sh.binPtr = sh.liveTbl) {i : Nat}
    (hi : i < sh.maxElements) : binNum i < sh.numBins ∧ binNum i < MAXBINS := by
  have h1 := hG.enough hb
  have h2 := hG.maxle
  rw [binsFor_eq] at h1
  rw [MAXELEMS_eq] at h2
  rw [binNum_eq, MAXBINS_eq]
  omega

theorem cs3_of_none {sh : Shared} {i : Nat} (hb : sh.binPtr = sh.liveTbl) (hk : binAt sh.bins (binNum i) = none) :
    cs3 sh i = ({ sh with bins := sh.bins.set (binNum i) (some sh.nblk), nblk := sh.nblk + 1 },
                .iUnlockTail i (if sh.fixed then some sh.nblk else none), none) := by
  simp [cs3, touch_eq hb, hk]

theorem cs3_of_some {sh : Shared} {i k : Nat} (hb : sh.binPtr = sh.liveTbl) (hk : binAt sh.bins (binNum i) = some k) :
    cs3 sh i = (sh, .iUnlockTail i (if sh.fixed then some k else none), none) := by
  simp [cs3, touch_eq hb, hk]

/-- second half of the critical section of `qb_array_index` -/
theorem cs3_post {M0 : Nat} {sh : Shared} {t : Nat} {prog : List Req} (hG : GI M0 sh) (hl : sh.lock = some t)
    (hb : sh.binPtr = sh.liveTbl) {i : Nat} (hi : i < sh.maxElements) (hbn : binNum i < sh.numBins)
    (hreq : ReqOk prog (.iCs2 i)) :
    GI M0 (cs3 sh i).1 ∧ Mono sh (cs3 sh i).1 ∧ (cs3 sh i).1.lock = sh.lock ∧ (cs3 sh i).2.2 = none ∧
    Local M0 (cs3 sh i).1 t prog (cs3 sh i).2.1 := by
  cases hk : binAt sh.bins (binNum i) with
  | none =>
    rw [cs3_of_none hb hk]
    have hlen : binNum i < sh.bins.length := by rw [hG.len]; exact hbn
    refine ⟨gi_calloc hG _, mono_calloc hk, rfl, rfl, fun _ => hl, fun _ _ => hb, ?_,
      hreq.of_head (by intro h; cases h) (fun q hq => hq)⟩
    refine ⟨hi, sh.nblk, ?_, fun hf => (by have hf' : sh.fixed = true := hf; simp [hf'])⟩
    simp [binAt_set, hlen]
  | some k =>
    rw [cs3_of_some hb hk]
    refine ⟨hG, Mono.refl _, rfl, rfl, fun _ => hl, fun _ _ => hb, ?_,
      hreq.of_head (by intro h; cases h) (fun q hq => hq)⟩
    exact ⟨hi, k, hk, fun hf => (by have hf' : sh.fixed = true := hf; simp [hf'])⟩

theorem toNat_cast (i : Nat) : ((i : Int)).toNat = i := by omega

/-- **Step lemma.**  One step of thread `t` from a state satisfying the invariant. -/
theorem next_post {M0 : Nat} {sh : Shared} {t : Nat} {prog : List Req} {pc : Pc}
    (hG : GI M0 sh) (hL : Local M0 sh t prog pc) : Post M0 sh t prog (next sh t prog.head? pc) := by
  have hreq := hL.req
  cases pc with
  | idle =>
    cases prog with
    | nil => exact Post.stay hG hL
    | cons q rest =>
      cases q with
      | index idx =>
        simp only [next, List.head?_cons]
        by_cases hneg : idx < 0
        · rw [if_pos hneg]
          exact Post.ret hG rfl (.inl hneg)
        · rw [if_neg hneg]
          refine Post.stay hG (Local.free rfl trivial ?_)
          show Req.index idx = Req.index ((idx.toNat : Nat) : Int)
          congr 1
          omega
      | grow n =>
        exact Post.stay hG (Local.free rfl (fun i h => (by cases h)) rfl)
      | numBins =>
        exact Post.stay hG (Local.free rfl trivial rfl)
  | iLock1 i =>
    exact Post.acq hG hL trivial (hreq.of_head (by intro h; cases h) (fun q hq => hq))
  | iCs1 i =>
    have hl := hL.holds rfl
    have hb := hL.nowin rfl rfl
    have hm0 := hG.m0
    simp only [next]
    by_cases h1 : i ≥ sh.maxElements
    · rw [if_pos h1]
      by_cases h2 : sh.autogrow = 0
      · rw [if_pos h2]
        exact Post.stay hG ⟨fun _ => hl, fun _ _ => hb, ⟨h2, (by omega)⟩, (hreq.of_head (by intro h; cases h) (fun q hq => hq))⟩
      · rw [if_neg h2]
        exact Post.stay hG ⟨fun _ => hl, fun _ _ => hb, (by show M0 ≤ i; omega), (hreq.of_head (by intro h; cases h) (fun q hq => hq))⟩
    · rw [if_neg h1]
      exact Post.stay hG ⟨fun _ => hl, fun _ _ => hb, (by show i < sh.maxElements; omega), (hreq.of_head (by intro h; cases h) (fun q hq => hq))⟩
  | iUnlockErange i =>
    have hl := hL.holds rfl
    have hb := hL.nowin rfl rfl
    obtain ⟨h1, h2⟩ := hL.ok
    obtain ⟨q, rest, hp, hq⟩ := hreq.head (by intro h; cases h)
    refine Post.rel hG hl hb _ _ (fun h => (by cases h)) (fun res hr => ?_)
    injection hr with hr
    subst hr
    refine ⟨q, rest, hp, ?_⟩
    have hq' : q = .index (i : Int) := hq
    rw [hq']
    exact .inr ⟨(by rw [toNat_cast]; exact h2), .inl h1⟩
  | iUnlockGrow i =>
    have hl := hL.holds rfl
    have hb := hL.nowin rfl rfl
    have h2 : M0 ≤ i := hL.ok
    refine Post.rel hG hl hb _ _ (fun _ => ⟨rfl, ?_, ?_⟩) (fun _ h => (by cases h))
    · intro i' hi'
      injection hi' with hi'
      subst hi'
      exact ⟨rfl, h2⟩
    · exact hreq.of_head (by intro h; cases h) (fun q hq => hq)
  | gEntry n k =>
    have hok : ∀ i, k = some i → n = i + 1 ∧ M0 ≤ i := hL.ok
    simp only [next]
    by_cases h1 : n > MAXELEMS
    · rw [if_pos h1]
      obtain ⟨q, rest, hp, hq⟩ := hreq.head (by intro h; cases h)
      refine Post.ret hG hp ?_
      cases k with
      | none =>
        have hq' : q = .grow n := hq
        rw [hq']
        exact ⟨h1, rfl⟩
      | some i =>
        have hq' : q = .index (i : Int) := hq
        obtain ⟨e1, e2⟩ := hok i rfl
        rw [hq']
        exact .inr ⟨(by rw [toNat_cast]; exact e2), .inr (by rw [toNat_cast]; omega)⟩
    · rw [if_neg h1]
      refine Post.stay hG (Local.free rfl ⟨(by omega), fun i hi => (hok i hi).1⟩ ?_)
      exact hreq.of_head (by intro h; cases h) (fun q hq => hq)
  | gLock n k =>
    exact Post.acq hG hL hL.ok (hreq.of_head (by intro h; cases h) (fun q hq => hq))
  | gCs n k =>
    have hl := hL.holds rfl
    have hb := hL.nowin rfl rfl
    obtain ⟨hn, hk⟩ := hL.ok
    have hreq' : ReqOk prog (.gUnlock k) := by
      refine hreq.of_head (by intro h; cases h) (fun q hq => ?_)
      cases k with
      | none => exact ⟨n, hq, hn⟩
      | some i => exact hq
    simp only [next]
    by_cases h1 : n ≤ sh.maxElements
    · rw [if_pos h1]
      refine Post.stay hG ⟨fun _ => hl, fun _ _ => hb, ?_, hreq'⟩
      intro i hi
      have := hk i hi
      omega
    · rw [if_neg h1]
      have hm0 := hG.m0
      by_cases h2 : binsFor n > sh.numBins
      · have h3 : binsFor n ≥ sh.numBins := by omega
        rw [if_pos h2, if_pos h3]
        have hb1 : ({ sh with maxElements := n } : Shared).binPtr = ({ sh with maxElements := n } : Shared).liveTbl := hb
        rw [realloc_eq hb1]
        refine ⟨⟨hG.len, hn, (by show M0 ≤ n; omega), hG.alloc, hG.inj, fun he => ?_, fun _ => (by rw [hl]; simp),
                 hG.nofree⟩,
          ⟨rfl, rfl, rfl, (by show sh.maxElements ≤ n; omega), fun _ _ h => h⟩, .inl rfl, fun h => absurd hl h,
          fun _ => ⟨fun _ => hl, fun _ h => (by cases h), ?_, ?_⟩, fun _ h => (by cases h)⟩
        · simp only at he; omega
        · refine ⟨?_, ?_, ?_, ?_⟩
          · show sh.binPtr ≠ sh.liveTbl + 1; omega
          · show sh.numBins ≤ binsFor n + 1; omega
          · show binsFor n ≤ binsFor n + 1; omega
          · intro i hi
            have := hk i hi
            show i < n
            omega
        · exact hreq.of_head (by intro h; cases h) (fun q hq => by
            cases k with
            | none => exact ⟨n, hq, hn⟩
            | some i => exact hq)
      · rw [if_neg h2]
        refine ⟨⟨hG.len, hn, (by show M0 ≤ n; omega), hG.alloc, hG.inj, fun _ => (by show binsFor n ≤ sh.numBins; omega),
                 hG.win, hG.nofree⟩,
          ⟨rfl, rfl, rfl, (by show sh.maxElements ≤ n; omega), fun _ _ h => h⟩, .inl rfl, fun h => absurd hl h,
          fun _ => ⟨fun _ => hl, fun _ _ => hb, ?_, hreq'⟩, fun _ h => (by cases h)⟩
        intro i hi
        have := hk i hi
        show i < n
        omega
  | gStore newN k =>
    have hl := hL.holds rfl
    obtain ⟨h1, h2, h3, h4⟩ := hL.ok
    refine ⟨gi_store hG h2 h3, mono_store hG.len h2, .inl rfl, fun h => absurd hl h,
      fun _ => ⟨fun _ => hl, fun _ _ => rfl, h4, ?_⟩, fun _ h => (by cases h)⟩
    exact hreq.of_head (by intro h; cases h) (fun q hq => hq)
  | gUnlock k =>
    have hl := hL.holds rfl
    have hb := hL.nowin rfl rfl
    have hok : ∀ i, k = some i → i < sh.maxElements := hL.ok
    obtain ⟨q, rest, hp, hq⟩ := hreq.head (by intro h; cases h)
    cases k with
    | none =>
      obtain ⟨n, hq1, hq2⟩ := hq
      refine Post.rel hG hl hb _ _ (fun h => (by cases h)) (fun res hr => ?_)
      injection hr with hr
      subst hr
      exact ⟨q, rest, hp, (by rw [hq1]; exact hq2)⟩
    | some i =>
      refine Post.rel hG hl hb _ _ (fun _ => ⟨rfl, hok i rfl, ?_⟩) (fun _ h => (by cases h))
      rw [hp]; exact hq
  | iAfterGrow i =>
    have hok : i < sh.maxElements := hL.ok
    exact Post.stay hG (Local.free rfl hok (hreq.of_head (by intro h; cases h) (fun q hq => hq)))
  | iLock2 i =>
    exact Post.acq hG hL hL.ok (hreq.of_head (by intro h; cases h) (fun q hq => hq))
  | iCs2 i =>
    have hl := hL.holds rfl
    have hb := hL.nowin rfl rfl
    have hi : i < sh.maxElements := hL.ok
    obtain ⟨hb1, hb2⟩ := bin_in_table hG hb hi
    have h1 : ¬ ¬ binNum i < MAXBINS := by omega
    have h2 : ¬ binNum i ≥ sh.numBins := by omega
    simp only [next]
    rw [if_neg h1, if_neg h2]
    obtain ⟨c1, c2, c3, c4, c5⟩ := cs3_post (M0 := M0) (prog := prog) hG hl hb hi hb1 hreq
    exact ⟨c1, c2, .inl c3, fun h => absurd hl h, fun _ => c5, fun res hr => (by rw [c4] at hr; cases hr)⟩
  | iStore i newN =>
    have hl := hL.holds rfl
    obtain ⟨h1, h2, h3, h4, h5⟩ := hL.ok
    have hG1 := gi_store hG h2 h3
    have hM1 := mono_store hG.len h2
    have hreq2 : ReqOk prog (.iCs2 i) := hreq.of_head (by intro h; cases h) (fun q hq => hq)
    obtain ⟨c1, c2, c3, c4, c5⟩ := cs3_post (M0 := M0) (prog := prog) (sh := storeTbl sh newN) hG1 hl rfl h4 h5 hreq2
    exact ⟨c1, hM1.trans c2, .inl c3, fun h => absurd hl h, fun _ => c5, fun res hr => (by
      have : (next sh t prog.head? (.iStore i newN)).2.2 = (cs3 (storeTbl sh newN) i).2.2 := rfl
      rw [this, c4] at hr; cases hr)⟩
  | iUnlockTail i bin =>
    have hl := hL.holds rfl
    have hb := hL.nowin rfl rfl
    obtain ⟨hi, k, hk, hbin⟩ := hL.ok
    obtain ⟨q, rest, hp, hq⟩ := hreq.head (by intro h; cases h)
    have hq' : q = .index (i : Int) := hq
    simp only [next]
    by_cases hf : sh.fixed = true
    · rw [if_pos hf]
      refine Post.rel hG hl hb _ _ (fun h => (by cases h)) (fun res hr => ?_)
      injection hr with hr
      subst hr
      refine ⟨q, rest, hp, ?_⟩
      rw [hq', hbin hf]
      show 0 ≤ (i : Int) ∧ _
      rw [toNat_cast, ← binNum_eq, ← elemNum_eq]
      exact ⟨(by omega), hi, hk, rfl⟩
    · rw [if_neg hf]
      have hf' : sh.fixed = false := by cases h : sh.fixed <;> simp_all
      refine Post.rel hG hl hb _ _ (fun _ => ⟨rfl, ⟨hi, hf', k, hk⟩, ?_⟩) (fun _ h => (by cases h))
      rw [hp]; exact hq
  | iTailTbl i =>
    have hok := hL.ok
    exact Post.stay hG (Local.free rfl hok (hreq.of_head (by intro h; cases h) (fun q hq => hq)))
  | iTailBin i tb =>
    obtain ⟨hi, hf, k, hk⟩ := hL.ok
    obtain ⟨q, rest, hp, hq⟩ := hreq.head (by intro h; cases h)
    have hq' : q = .index (i : Int) := hq
    simp only [next]
    by_cases h1 : tb = sh.liveTbl
    · rw [if_pos h1]
      refine Post.ret hG hp ?_
      rw [hq', hk]
      show 0 ≤ (i : Int) ∧ _
      rw [toNat_cast, ← binNum_eq, ← elemNum_eq]
      exact ⟨(by omega), hi, hk, rfl⟩
    · rw [if_neg h1]
      have hs : SameArr sh { sh with freedRead := true } := ⟨rfl, rfl, rfl, rfl, rfl, rfl, rfl, rfl, rfl⟩
      refine ⟨gi_freed hG hf, hs.mono, .inl rfl, fun _ => hs, fun h => (by cases h), fun res hr => ?_⟩
      injection hr with hr
      subst hr
      exact ⟨q, rest, hp, (by rw [hq']; exact ⟨hf, by omega, by rw [toNat_cast]; exact hi⟩)⟩
  | nLock =>
    exact Post.acq hG hL trivial (hreq.of_head (by intro h; cases h) (fun q hq => hq))
  | nCs =>
    have hl := hL.holds rfl
    have hb := hL.nowin rfl rfl
    exact Post.stay hG ⟨fun _ => hl, fun _ _ => hb, trivial, hreq.of_head (by intro h; cases h) (fun q hq => hq)⟩
  | nUnlock v =>
    have hl := hL.holds rfl
    have hb := hL.nowin rfl rfl
    obtain ⟨q, rest, hp, hq⟩ := hreq.head (by intro h; cases h)
    have hq' : q = .numBins := hq
    refine Post.rel hG hl hb _ _ (fun h => (by cases h)) (fun res hr => ?_)
    injection hr with hr
    subst hr
    exact ⟨q, rest, hp, (by rw [hq']; trivial)⟩


/-! ### configurations and schedules -/

/-- the invariant of a configuration -/
structure CInv (M0 : Nat) (c : Conf) : Prop where
  gi : GI M0 c.sh
  loc : ∀ t, Local M0 c.sh t (c.th t).prog (c.th t).pc
  log : ∀ e ∈ c.log, EntryOk M0 c.sh e

theorem step_eq_none {c : Conf} {t : Nat} {sh' : Shared} {pc' : Pc}
    (h : next c.sh t (c.th t).prog.head? (c.th t).pc = (sh', pc', none)) :
    step c t = { c with sh := sh', th := fun x => if x = t then { (c.th t) with pc := pc' } else c.th x } := by
  simp only [step, h]

theorem step_eq_some {c : Conf} {t : Nat} {sh' : Shared} {pc' : Pc} {r : Res} {q : Req} {rest : List Req}
    (h : next c.sh t (c.th t).prog.head? (c.th t).pc = (sh', pc', some r)) (hp : (c.th t).prog = q :: rest) :
    step c t = { sh := sh', th := fun x => if x = t then { prog := rest, pc := .idle } else c.th x,
                 log := c.log ++ [(t, q, r)] } := by
  rw [hp] at h
  simp only [step, hp, h]

theorem step_inv {M0 : Nat} {c : Conf} (h : CInv M0 c) (t : Nat) : CInv M0 (step c t) := by
  have hp := next_post h.gi (h.loc t)
  rcases hn : next c.sh t (c.th t).prog.head? (c.th t).pc with ⟨sh', pc', r⟩
  rw [hn] at hp
  have frame : ∀ t', t' ≠ t → Local M0 sh' t' (c.th t').prog (c.th t').pc :=
    fun t' hne => (h.loc t').frame hne hp.mono hp.lock hp.same
  cases r with
  | none =>
    rw [step_eq_none hn]
    refine ⟨hp.gi, ?_, fun e he => (h.log e he).mono hp.mono⟩
    intro t'
    by_cases ht : t' = t
    · subst ht
      simp only
      exact hp.cont rfl
    · simp only [if_neg ht]
      exact frame t' ht
  | some res =>
    obtain ⟨q, rest, hprog, he⟩ := hp.fin res rfl
    rw [step_eq_some hn hprog]
    refine ⟨hp.gi, ?_, ?_⟩
    · intro t'
      by_cases ht : t' = t
      · subst ht
        simp only
        exact Local.free rfl trivial (by cases rest <;> simp [ReqOk, pcReq])
      · simp only [if_neg ht]
        exact frame t' ht
    · intro e hm
      rcases List.mem_append.mp hm with hm | hm
      · exact (h.log e hm).mono hp.mono
      · simp only [List.mem_singleton] at hm
        rw [hm]; exact he

theorem step_mono {M0 : Nat} {c : Conf} (h : CInv M0 c) (t : Nat) : Mono c.sh (step c t).sh := by
  have hp := next_post h.gi (h.loc t)
  rcases hn : next c.sh t (c.th t).prog.head? (c.th t).pc with ⟨sh', pc', r⟩
  rw [hn] at hp
  cases r with
  | none => rw [step_eq_none hn]; exact hp.mono
  | some res =>
    obtain ⟨q, rest, hprog, _⟩ := hp.fin res rfl
    rw [step_eq_some hn hprog]; exact hp.mono

theorem run_mono {M0 : Nat} {c : Conf} (h : CInv M0 c) (sched : List Nat) : Mono c.sh (run c sched).sh := by
  induction sched generalizing c with
  | nil => exact Mono.refl _
  | cons t ts ih => exact (step_mono h t).trans (ih (step_inv h t))

theorem run_inv {M0 : Nat} {c : Conf} (h : CInv M0 c) (sched : List Nat) : CInv M0 (run c sched) := by
  induction sched generalizing c with
  | nil => exact h
  | cons t ts ih => exact ih (step_inv h t)

theorem binAt_replicate_none (n b : Nat) : binAt (List.replicate n (none : Option Nat)) b = none := by
  unfold binAt
  by_cases h : b < n <;> simp [h]

theorem init_inv (fixed : Bool) {m : Nat} (e g : Nat) (progs : List (List Req)) (hm : m ≤ MAXELEMS) :
    CInv m (init fixed m e g progs) := by
  refine ⟨⟨?_, hm, Nat.le_refl _, ?_, ?_, fun _ => Nat.le_refl _, fun h => absurd rfl h, fun _ => rfl⟩, ?_, ?_⟩
  · simp [init, initShared]
  · intro b k h
    have : binAt (List.replicate (binsFor m) (none : Option Nat)) b = some k := h
    rw [binAt_replicate_none] at this; cases this
  · intro b b' k h
    have : binAt (List.replicate (binsFor m) (none : Option Nat)) b = some k := h
    rw [binAt_replicate_none] at this; cases this
  · intro t
    exact Local.free rfl trivial (by
      show ReqOk (progs.getD t []) .idle
      cases progs.getD t [] <;> simp [ReqOk, pcReq])
  · intro e he
    simp [init] at he

end QbVerif.QbArrayConc
