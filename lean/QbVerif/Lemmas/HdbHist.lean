/-
The invariant `Track` along whole histories (C20): one call (`Track.step`), induction over the
operation list (`track_run`), the state right after the create (`track_init`), the global invariant
along histories, nonce freshness as "the value is never issued again", and the decomposition of a
history at the create of a given object.
-/
import QbVerif.Lemmas.HdbRun

namespace QbVerif.Hdb
open QbVerif.Gen

/-! ### `St.step` per operation -/

theorem step_create (st : St) (d : List Nat) :
    st.step (.create d) = ((st.create d).1, [(st.create d).2]) := rfl
theorem step_createFail (st : St) :
    st.step .createFail = (st.createFail.1, [st.createFail.2]) := rfl
theorem step_get (st : St) (h : Nat) :
    st.step (.get h) = ((st.get h).1, [.got (st.get h).2.1 (st.get h).2.2]) := rfl
theorem step_getAlways (st : St) (h : Nat) :
    st.step (.getAlways h) = ((st.get h).1, [.got (st.get h).2.1 (st.get h).2.2]) := rfl
theorem step_put (st : St) (h : Nat) : st.step (.put h) = st.put h := rfl
theorem step_destroy (st : St) (h : Nat) : st.step (.destroy h) = st.destroy h := rfl
theorem step_refcount (st : St) (h : Nat) : st.step (.refcount h) = (st, [.rc (st.refcountGet h)]) := rfl
theorem step_iterReset (st : St) : st.step .iterReset = ({ st with iterator := 0 }, [.unit]) := rfl
theorem step_iterNext (st : St) :
    st.step .iterNext = (st.iterNext.1, [.iter st.iterNext.2.1 st.iterNext.2.2.1 st.iterNext.2.2.2]) := rfl

/-! ### the global invariant along histories -/

theorem G_init : G St.init where
  hcMax := by decide
  maxLe := by decide
  checkLt j := by show (Tbl.get #[] j).check < 2^32; rw [Tbl.get_empty]; decide
  instLt j k := by show (Tbl.get #[] j).inst = some k → _; rw [Tbl.get_empty]; intro hh; cases hh
  activeInst j := by
    show (Tbl.get #[] j).state = ACTIVE → _; rw [Tbl.get_empty]; intro hh; exact absurd hh zero_active

theorem G_iterLoop {st : St} (g : G st) (n : Nat) (res : Int) : G (st.iterLoop n res).1 := by
  induction n generalizing st res with
  | zero => exact g
  | succ n ih =>
    by_cases hlt : st.iterator < st.handleCount
    · by_cases hy : st.getOk (mkHandle (st.tbl.get st.iterator).check st.iterator)
      · rw [iterLoop_hit g n res hlt hy]
        exact g.setEntry _ _ _ (g.checkLt _) (g.instLt _) (g.activeInst _)
      · rw [iterLoop_miss g n res hlt hy]
        exact ih (g.setIter _) EBADF
    · rw [iterLoop_end _ _ hlt]; exact g

theorem G_step {st : St} (g : G st) (op : Op) : G (st.step op).1 := by
  cases op with
  | create d => exact G_create g d
  | createFail => exact G_createFail g
  | get h => exact G_get g h
  | getAlways h => exact G_get g h
  | put h => exact G_put g h
  | destroy h => exact G_destroy g h
  | refcount h => exact g
  | iterReset => exact g.setIter 0
  | iterNext => exact G_iterLoop g _ _

theorem runFrom_cons (st : St) (op : Op) (ops : List Op) :
    runFrom st (op :: ops) = runFrom (st.step op).1 ops := rfl

theorem runFrom_append (st : St) (a b : List Op) : runFrom st (a ++ b) = runFrom (runFrom st a) b := by
  unfold runFrom; rw [List.foldl_append]

theorem G_runFrom {st : St} (g : G st) (ops : List Op) : G (runFrom st ops) := by
  induction ops generalizing st with
  | nil => exact g
  | cons op ops ih => rw [runFrom_cons]; exact ih (G_step g op)

theorem G_run (ops : List Op) : G (run ops) := G_runFrom G_init ops

/-- the history up to and including the create = the state `after` -/
theorem run_split (pre : List Op) (d : List Nat) (post : List Op) :
    run (pre ++ .create d :: post) = runFrom (after pre d) post := by
  unfold run; rw [runFrom_append, runFrom_cons]; rfl

/-! ### ledger steps without the liveness side condition -/

theorem stateOf_congr {L L' : Ledger} (h : L'.destroys = L.destroys) : L'.stateOf = L.stateOf := by
  unfold Ledger.stateOf; rw [h]

theorem dtorCount_single_ne (K : Nat) (o : Out) (hne : ∀ i, o ≠ .dtor i) : dtorCount K [o] = 0 := by
  unfold dtorCount
  rw [List.count_singleton]
  split
  · rename_i hb
    have := (beq_iff_eq).mp hb
    exact absurd this (hne _)
  · rfl

/-- a create whose allocation fails outputs a return code, never a destructor event -/
theorem createFail_out_ne {st : St} (g : G st) : ∀ i, st.createFail.2 ≠ .dtor i := by
  intro i hh
  rcases createFail_spec g with ⟨rc, _, he⟩ | ⟨j, _, _, he⟩ | ⟨m, _, _, he⟩ <;> (rw [he] at hh; cases hh)

/-- one call keeps the invariant (the ledger advances by what the call returned) -/
theorem Track.step {fresh : Bool} {h K : Nat} {st : St} {L : Ledger} (T : Track fresh h K st L) (op : Op)
    (hnr : fresh = true → ∀ d', op = .create d' → (st.create d').2 ≠ .created 0 h) :
    Track fresh h K (st.step op).1 (L.step h K op (st.step op).2) := by
  unfold Track at T ⊢
  have hdt := ledger_step_dtors h K L op (st.step op).2
  by_cases ha : 0 < L.count
  · -- the object is alive before the call
    cases op with
    | create d =>
      rw [step_create] at hdt ⊢
      obtain ⟨hc, hd⟩ := ledger_step_other (h := h) (K := K) (L := L) (.create d) [(st.create d).2] (Or.inl ⟨d, rfl⟩)
      rw [hc, stateOf_congr hd, hdt, dtorCount_single_ne K _ (by
        intro i hh
        rcases create_spec T.g d with ⟨rc, _, he, _⟩ | ⟨j, _, ho, _⟩
        · rw [he] at hh; cases hh
        · rw [ho] at hh; cases hh)]
      refine TrackS.create T d ?_ (fun hf => hnr hf d rfl)
      unfold Ledger.stateOf; split
      · exact pending_ne_empty
      · exact active_ne_empty
    | createFail =>
      rw [step_createFail] at hdt ⊢
      obtain ⟨hc, hd⟩ := ledger_step_other (h := h) (K := K) (L := L) .createFail [st.createFail.2]
        (Or.inr (Or.inr (Or.inr rfl)))
      rw [hc, stateOf_congr hd, hdt, dtorCount_single_ne K _ (createFail_out_ne T.g)]
      refine TrackS.createFail T ?_
      unfold Ledger.stateOf; split
      · exact pending_ne_empty
      · exact active_ne_empty
    | get h' =>
      rw [step_get] at hdt ⊢
      obtain ⟨hc, hd⟩ := ledger_step_get (h := h) (K := K) ha h' (st.get h').2.1 (st.get h').2.2
      rw [stateOf_congr hd, hdt, dtorCount_single_ne K _ (by intro i hh; cases hh)]
      exact TrackS.get T h' hc
    | getAlways h' =>
      rw [step_getAlways] at hdt ⊢
      obtain ⟨hc, hd⟩ := ledger_step_getAlways (h := h) (K := K) ha h' (st.get h').2.1 (st.get h').2.2
      rw [stateOf_congr hd, hdt, dtorCount_single_ne K _ (by intro i hh; cases hh)]
      exact TrackS.get T h' hc
    | put h' =>
      rw [step_put] at hdt ⊢
      obtain ⟨hc, hd⟩ := ledger_step_put (h := h) (K := K) ha h' (st.put h').2
      rw [stateOf_congr hd]
      exact TrackS.put T h' hc hdt
    | destroy h' =>
      rw [step_destroy] at hdt ⊢
      obtain ⟨hc, hd⟩ := ledger_step_destroy (h := h) (K := K) ha h' (st.destroy h').2
      refine TrackS.destroy T h' hc hdt ?_
      unfold Ledger.stateOf
      rw [hd]
      by_cases hcond : 0 < L.count ∧ addresses h' h = true ∧ Out.rc 0 ∈ (st.destroy h').2
      · rw [if_pos hcond, if_pos hcond, if_pos (by omega)]
      · rw [if_neg hcond, if_neg hcond]
    | refcount h' =>
      rw [step_refcount] at hdt ⊢
      obtain ⟨hc, hd⟩ := ledger_step_other (h := h) (K := K) (L := L) (.refcount h') [.rc (st.refcountGet h')]
        (Or.inr (Or.inl ⟨h', rfl⟩))
      rw [hc, stateOf_congr hd, hdt, dtorCount_single_ne K _ (by intro i hh; cases hh)]
      exact T
    | iterReset =>
      rw [step_iterReset] at hdt ⊢
      obtain ⟨hc, hd⟩ := ledger_step_other (h := h) (K := K) (L := L) .iterReset [.unit] (Or.inr (Or.inr (Or.inl rfl)))
      rw [hc, stateOf_congr hd, hdt, dtorCount_single_ne K _ (by intro i hh; cases hh)]
      exact T.setIter 0
    | iterNext =>
      rw [step_iterNext] at hdt ⊢
      obtain ⟨hc, hd⟩ := ledger_step_iter (h := h) (K := K) ha st.iterNext.2.1 st.iterNext.2.2.1 st.iterNext.2.2.2
      rw [stateOf_congr hd, hdt, dtorCount_single_ne K _ (by intro i hh; cases hh)]
      exact TrackS.iterLoop T _ _ hc
  · -- the object is gone: the ledger only counts destructor runs (there are none)
    obtain ⟨hc, hd⟩ := ledger_step_dead (h := h) (K := K) ha op (st.step op).2
    rw [hc, stateOf_congr hd]
    cases op with
    | create d =>
      rw [step_create] at hdt ⊢
      rw [hdt, dtorCount_single_ne K _ (by
        intro i hh
        rcases create_spec T.g d with ⟨rc, _, he, _⟩ | ⟨j, _, ho, _⟩
        · rw [he] at hh; cases hh
        · rw [ho] at hh; cases hh)]
      refine TrackS.create T d ?_ (fun hf => hnr hf d rfl)
      unfold Ledger.stateOf; split
      · exact pending_ne_empty
      · exact active_ne_empty
    | createFail =>
      rw [step_createFail] at hdt ⊢
      rw [hdt, dtorCount_single_ne K _ (createFail_out_ne T.g)]
      refine TrackS.createFail T ?_
      unfold Ledger.stateOf; split
      · exact pending_ne_empty
      · exact active_ne_empty
    | get h' =>
      rw [step_get] at hdt ⊢
      rw [hdt, dtorCount_single_ne K _ (by intro i hh; cases hh)]
      exact TrackS.get T h' (by simp [ha])
    | getAlways h' =>
      rw [step_getAlways] at hdt ⊢
      rw [hdt, dtorCount_single_ne K _ (by intro i hh; cases hh)]
      exact TrackS.get T h' (by simp [ha])
    | put h' =>
      rw [step_put] at hdt ⊢
      exact TrackS.put T h' (by simp [ha]) hdt
    | destroy h' =>
      rw [step_destroy] at hdt ⊢
      exact TrackS.destroy T h' (by simp [ha]) hdt (by simp [ha])
    | refcount h' =>
      rw [step_refcount] at hdt ⊢
      rw [hdt, dtorCount_single_ne K _ (by intro i hh; cases hh)]
      exact T
    | iterReset =>
      rw [step_iterReset] at hdt ⊢
      rw [hdt, dtorCount_single_ne K _ (by intro i hh; cases hh)]
      exact T.setIter 0
    | iterNext =>
      rw [step_iterNext] at hdt ⊢
      rw [hdt, dtorCount_single_ne K _ (by intro i hh; cases hh)]
      exact TrackS.iterLoop T _ _ (by simp [ha])

/-! ### nonce freshness: the value `h` is not issued again -/

/-- no create of the history `ops` (run from `st`) returns the handle value `h` -/
def NoReissue (h : Nat) : St → List Op → Prop
  | _, [] => True
  | st, op :: ops =>
    (∀ d', op = .create d' → (st.create d').2 ≠ .created 0 h) ∧ NoReissue h (st.step op).1 ops

theorem issuedFrom_cons (st : St) (op : Op) (ops : List Op) :
    issuedFrom st (op :: ops) =
      (match op with
        | .create d => (match (st.create d).2 with | .created 0 h => [h] | _ => [])
        | _ => []) ++ issuedFrom (st.step op).1 ops := rfl

theorem issuedFrom_append (st : St) (a b : List Op) :
    issuedFrom st (a ++ b) = issuedFrom st a ++ issuedFrom (runFrom st a) b := by
  induction a generalizing st with
  | nil => rfl
  | cons op a ih =>
    rw [List.cons_append, issuedFrom_cons, issuedFrom_cons, ih, runFrom_cons, List.append_assoc]

theorem noReissue_of_not_mem {h : Nat} {st : St} {ops : List Op} (hn : h ∉ issuedFrom st ops) :
    NoReissue h st ops := by
  induction ops generalizing st with
  | nil => trivial
  | cons op ops ih =>
    rw [issuedFrom_cons, List.mem_append, not_or] at hn
    refine ⟨?_, ih hn.2⟩
    intro d' hop hc
    subst hop
    apply hn.1
    simp only [hc]
    exact List.mem_singleton.mpr rfl

/-- under `Fresh`, the value returned by the create after `pre` is never returned again in `post` -/
theorem noReissue_of_fresh {pre : List Op} {d : List Nat} {K h : Nat} {post : List Op}
    (hI : Issues pre d K h) (hf : Fresh (pre ++ .create d :: post)) :
    NoReissue h (after pre d) post := by
  apply noReissue_of_not_mem
  unfold Fresh at hf
  rw [issuedFrom_append, issuedFrom_cons] at hf
  have hc : ((runFrom St.init pre).create d).2 = .created 0 h := hI.1
  simp only [hc] at hf
  have h2 := (List.nodup_append.mp hf).2.1
  have h3 := (List.nodup_append.mp h2).2.2
  intro hm
  exact h3 h (List.mem_singleton.mpr rfl) h hm rfl

/-! ### the invariant along a history -/

theorem track_run {fresh : Bool} {h K : Nat} {st : St} {L : Ledger} (T : Track fresh h K st L)
    (ops : List Op) (hnr : fresh = true → NoReissue h st ops) :
    Track fresh h K (runFrom st ops) (ledgerFrom h K st L ops) := by
  induction ops generalizing st L with
  | nil => exact T
  | cons op ops ih =>
    rw [runFrom_cons]
    show Track fresh h K _ (ledgerFrom h K (st.step op).1 (L.step h K op (st.step op).2) ops)
    exact ih (T.step op (fun hf => (hnr hf).1)) (fun hf => (hnr hf).2)

/-- the invariant holds right after the create that issues `h` for object `K` -/
theorem track_init (fresh : Bool) {pre : List Op} {d : List Nat} {K h : Nat} (hI : Issues pre d K h) :
    Track fresh h K (after pre d) {} := by
  have g : G (run pre) := G_run pre
  obtain ⟨hout, hK⟩ := hI
  unfold Track after
  rcases create_spec g d with ⟨rc, hrc, he, _⟩ | ⟨j, hj, ho, hn, ht, hh, hm1, hm2, _⟩
  · rw [he] at hout; cases hout; exact absurd rfl hrc
  · rw [ho] at hout
    have hhv : mkHandle (drawCheck d) j = h := by cases hout; rfl
    have hjlt : j < 2^32 := by
      have : j ≤ (run pre).handleCount := by
        rcases hj with ⟨h1, _⟩ | ⟨h1, _⟩ <;> omega
      have := g.hcMax; have := g.maxLe; have := maxelems_le; omega
    have hs : hSlot h = j := by rw [← hhv]; exact hSlot_mk hjlt
    have hk : hCheck h = drawCheck d := by rw [← hhv]; exact hCheck_mk (drawCheck_lt d) hjlt
    refine ⟨G_create g d, ?_, ?_, ?_, ?_, ?_, ?_⟩
    · rw [hs, hk]; exact hhv
    · rw [hs, hh]; rcases hj with ⟨h1, _⟩ | ⟨h1, _⟩
      · split <;> omega
      · rw [if_pos h1]; omega
    · rw [hn, hK]; omega
    · intro i hi
      rw [ht, hs] at *
      rw [if_neg hi]
      intro hc
      have := g.instLt i K hc
      omega
    · intro _
      refine ⟨?_, rfl⟩
      rw [ht, hs, if_pos rfl, hk, hK]
      rfl
    · intro hn0
      exact absurd (by decide : (0 : Int) < ({} : Ledger).count) hn0

/-- **the invariant after every history**: `pre`, the create that issues `h` for object `K`, then any `post` -/
theorem track_post {pre : List Op} {d : List Nat} {K h : Nat} (hI : Issues pre d K h) (post : List Op)
    (fresh : Bool) (hf : fresh = true → Fresh (pre ++ .create d :: post)) :
    Track fresh h K (runFrom (after pre d) post) (ledger pre d post h K) :=
  track_run (track_init fresh hI) post (fun hfr => noReissue_of_fresh hI (hf hfr))

/-! ### every object of a history was created by one of its creates -/

theorem nextObj_step {st : St} (g : G st) (op : Op) :
    (st.step op).1.nextObj = st.nextObj ∨
    (∃ d hv, op = .create d ∧ (st.create d).2 = .created 0 hv ∧ (st.step op).1.nextObj = st.nextObj + 1) := by
  cases op with
  | create d =>
    rcases create_spec g d with ⟨rc, _, he, _⟩ | ⟨j, _, ho, hn, _⟩
    · left; rw [step_create, he]
    · right; exact ⟨d, _, rfl, ho, by rw [step_create]; exact hn⟩
  | createFail =>
    left; rw [step_createFail]
    rcases createFail_spec g with ⟨rc, _, he⟩ | ⟨j, _, _, he⟩ | ⟨m, _, _, he⟩ <;> rw [he]
  | get h =>
    left; rw [step_get]
    by_cases hy : st.getOk h
    · rw [get_accepted g hy]
    · rw [get_refused g hy]
  | getAlways h =>
    left; rw [step_getAlways]
    by_cases hy : st.getOk h
    · rw [get_accepted g hy]
    · rw [get_refused g hy]
  | put h =>
    left; rw [step_put]
    by_cases hy : st.lookOk h
    · rw [put_accepted g hy]; split <;> rfl
    · rw [put_refused g hy]
  | destroy h =>
    left; rw [step_destroy]
    by_cases hy : st.lookOk h
    · rw [destroy_accepted g hy, put_accepted (G_marked g h) (marked_lookOk hy)]; split <;> rfl
    · rw [destroy_refused g hy]
  | refcount h => left; rfl
  | iterReset => left; rfl
  | iterNext =>
    left; rw [step_iterNext]
    show (st.iterLoop _ _).1.nextObj = _
    generalize (st.handleCount - st.iterator) = n
    generalize (-1 : Int) = res
    induction n generalizing st res with
    | zero => rfl
    | succ n ih =>
      by_cases hlt : st.iterator < st.handleCount
      · by_cases hy : st.getOk (mkHandle (st.tbl.get st.iterator).check st.iterator)
        · rw [iterLoop_hit g n res hlt hy]
        · rw [iterLoop_miss g n res hlt hy]
          exact ih (g.setIter _) EBADF
      · rw [iterLoop_end _ _ hlt]

/-- an object number below `nextObj` that did not exist in `st` was issued by a create of `ops` -/
theorem issued_decomp {st : St} (g : G st) (ops : List Op) {K : Nat}
    (hlo : st.nextObj ≤ K) (hhi : K < (runFrom st ops).nextObj) :
    ∃ p d q hv, ops = p ++ .create d :: q ∧ ((runFrom st p).create d).2 = .created 0 hv ∧
      K = (runFrom st p).nextObj := by
  induction ops generalizing st with
  | nil => exact absurd hhi (by simp only [runFrom, List.foldl_nil]; omega)
  | cons op ops ih =>
    rw [runFrom_cons] at hhi
    by_cases hK : (st.step op).1.nextObj ≤ K
    · obtain ⟨p, d, q, hv, he, hc, hk⟩ := ih (G_step g op) hK hhi
      exact ⟨op :: p, d, q, hv, by rw [he]; rfl, hc, hk⟩
    · rcases nextObj_step g op with hs | ⟨d, hv, hop, hc, hs⟩
      · omega
      · exact ⟨[], d, ops, hv, by rw [hop]; rfl, hc, by show K = st.nextObj; omega⟩

theorem init_nextObj : St.init.nextObj = 0 := rfl

/-- every object number below `nextObj` has its create in the history -/
theorem issued_decomp_run (ops : List Op) {K : Nat} (hhi : K < (run ops).nextObj) :
    ∃ pre d post hv, ops = pre ++ .create d :: post ∧ Issues pre d K hv := by
  obtain ⟨p, d, q, hv, he, hc, hk⟩ := issued_decomp G_init ops (Nat.zero_le K) hhi
  exact ⟨p, d, q, hv, he, hc, hk⟩

end QbVerif.Hdb
