/-
C13, "follows the format spec": both format loops of lib/log_format.c, as modelled with explicit buffers
and indices (`fmtLoop`, `staticLoop`), append exactly `gCut …` (Lemmas/LogFormatSpec.lean) to the output
buffer, and `gRender` of the two `switch` tables is the specification `render` / `renderStatic`.
-/
import QbVerif.Lemmas.LogFormatSpec

namespace QbVerif.LogFormat
open QbVerif.Gen

/-! ### one loop for both formatters -/

/-- the `while` loop shared (textually) by qb_log_target_format and qb_log_target_format_static -/
def gLoop (v : Variant) (arg : ArgFn) (M : Nat) : List Item → Nat → Mem → Nat × Mem × Bool
  | [], idx, m => (idx, m, false)
  | .lit c :: rest, idx, m =>
    if subSZ M 1 ≤ idx + 1 then (idx + 1, m.write idx c, false) else gLoop v arg M rest (idx + 1) (m.write idx c)
  | .dir ralign digits ch :: rest, idx, m =>
    let a := arg ralign digits ch rest
    let r := m.cutoffAt v idx a.1 a.2.1 a.2.2 (subSZ M idx)
    if subSZ M 1 ≤ idx + r.2 then (idx + r.2, r.1, false)
    else match ch with
      | none => (idx + r.2, r.1, !v.d9d)
      | some _ => gLoop v arg M rest (idx + r.2) r.1

theorem fmtLoop_eq_gLoop (v : Variant) (fl : Fields) (M : Nat) : ∀ (items : List Item) (idx : Nat) (m : Mem),
    fmtLoop v fl M items idx m = gLoop v (fmtArg fl) M items idx m := by
  intro items
  induction items with
  | nil => intro idx m; rfl
  | cons it rest ih =>
    intro idx m
    cases it with
    | lit c => simp only [fmtLoop, gLoop]; split <;> simp [ih]
    | dir r ds ch =>
      cases ch with
      | none => simp only [fmtLoop, gLoop, fmtArg]; rfl
      | some c => simp only [fmtLoop, gLoop, fmtArg, ih]; rfl

theorem staticLoop_eq_gLoop (v : Variant) (sf : SFields) (M : Nat) : ∀ (items : List Item) (idx : Nat) (m : Mem),
    staticLoop v sf M items idx m = gLoop v (staticArg sf) M items idx m := by
  intro items
  induction items with
  | nil => intro idx m; rfl
  | cons it rest ih =>
    intro idx m
    cases it with
    | lit c => simp only [staticLoop, gLoop]; split <;> simp [ih]
    | dir r ds ch =>
      cases ch with
      | none => simp only [staticLoop, gLoop]
      | some c => simp only [staticLoop, gLoop, ih]

/-! ### `_strcpy_cutoff` is `padTo` -/

theorem strcpyCutoff_eq_padTo (v : Variant) (src : Bytes) (cutoff : Nat) (ralign : Bool) (bufLen : Nat)
    (h2 : 2 ≤ bufLen) :
    strcpyCutoff v src cutoff ralign bufLen
      = some (padTo src (min (argWidth (src, cutoff, ralign)) (bufLen - 1)) ralign) := by
  have h1 : ¬ bufLen ≤ 1 := by omega
  unfold strcpyCutoff padTo argWidth
  simp only [h1, if_false, blanks]

/-- the call on a buffer with room: returned length and the bytes in front of the new index -/
theorem cutoffAt_data (m : Mem) (v : Variant) (idx : Nat) (src : Bytes) (cutoff : Nat) (ralign : Bool)
    (bufLen : Nat) (h2 : 2 ≤ bufLen) (hcap : idx + bufLen ≤ m.cap) :
    (m.cutoffAt v idx src cutoff ralign bufLen).2 = min (argWidth (src, cutoff, ralign)) (bufLen - 1) ∧
    (m.cutoffAt v idx src cutoff ralign bufLen).1.cap = m.cap ∧
    (m.cutoffAt v idx src cutoff ralign bufLen).1.data.toList.take
        (idx + min (argWidth (src, cutoff, ralign)) (bufLen - 1))
      = m.data.toList.take idx ++ padTo src (min (argWidth (src, cutoff, ralign)) (bufLen - 1)) ralign := by
  unfold Mem.cutoffAt
  rw [strcpyCutoff_eq_padTo v src cutoff ralign bufLen h2]
  generalize hw : min (argWidth (src, cutoff, ralign)) (bufLen - 1) = w
  have hwle : w ≤ bufLen - 1 := by omega
  generalize hm' : ({ m with cuts := bufLen :: m.cuts } : Mem) = m'
  have hd : m'.data = m.data := by subst hm'; rfl
  have hc : m'.cap = m.cap := by subst hm'; rfl
  refine ⟨by simp, by rw [Mem.writeAll_cap, hc], ?_⟩
  simp only []
  have hlen : idx + (padTo src w ralign ++ [0]).length ≤ m'.cap := by rw [hc]; simp; omega
  rw [Mem.writeAll_toList _ idx _ hlen, hd]
  have hidx : idx ≤ m.data.toList.length := by rw [Array.length_toList]; unfold Mem.cap at hcap; omega
  have hl : (List.take idx m.data.toList).length = idx := by rw [List.length_take]; omega
  rw [List.append_assoc, List.take_append, List.take_of_length_le (by omega), hl]
  congr 1
  have : idx + w - idx = w := by omega
  rw [this, List.append_assoc, List.take_append_of_le_length (by simp), List.take_of_length_le (by simp)]

/-! ### the loop appends `gCut` -/

theorem gLoop_cut (arg : ArgFn) (M : Nat) (hM : 2 ≤ M) : ∀ (items : List Item) (idx : Nat) (m : Mem),
    idx < M - 1 → M ≤ m.cap →
    (gLoop .repaired arg M items idx m).1 = idx + (gCut arg items (M - 1 - idx)).length ∧
    (gLoop .repaired arg M items idx m).2.1.cap = m.cap ∧
    (gLoop .repaired arg M items idx m).2.2 = false ∧
    (gLoop .repaired arg M items idx m).2.1.data.toList.take (idx + (gCut arg items (M - 1 - idx)).length)
      = m.data.toList.take idx ++ gCut arg items (M - 1 - idx) := by
  intro items
  have hs1 : subSZ M 1 = M - 1 := subSZ_of_le (by omega)
  induction items with
  | nil => intro idx m _ _; simp [gLoop, gCut]
  | cons it rest ih =>
    intro idx m hi hcap
    have hR : ¬ (M - 1 - idx = 0) := by omega
    have hlen : idx < m.data.toList.length := by simp [Mem.cap] at hcap ⊢; omega
    cases it with
    | lit c =>
      have htk : (m.write (idx : Int) c).data.toList.take (idx + 1) = m.data.toList.take idx ++ [c] := by
        rw [Mem.write_toList, list_set_take _ _ _ hlen]
      simp only [gLoop, gCut, hs1, if_neg hR]
      split
      · have h0 : M - 1 - idx - 1 = 0 := by omega
        rw [h0, gCut_zero]
        exact ⟨rfl, by simp, rfl, by simpa using htk⟩
      · obtain ⟨e1, e2, e3, e4⟩ := ih (idx + 1) (m.write (idx : Int) c) (by omega) (by simpa using hcap)
        have hsub : M - 1 - (idx + 1) = M - 1 - idx - 1 := by omega
        rw [hsub] at e1 e4
        refine ⟨by rw [e1]; simp; omega, by rw [e2]; simp, e3, ?_⟩
        have : idx + (c :: gCut arg rest (M - 1 - idx - 1)).length
            = idx + 1 + (gCut arg rest (M - 1 - idx - 1)).length := by simp; omega
        rw [this, e4, htk]; simp
    | dir r ds ch =>
      have hsi : subSZ M idx = M - idx := subSZ_of_le (by omega)
      obtain ⟨c1, c2, c3⟩ := cutoffAt_data m .repaired idx (arg r ds ch rest).1 (arg r ds ch rest).2.1
        (arg r ds ch rest).2.2 (M - idx) (by omega) (by omega)
      have hb : M - idx - 1 = M - 1 - idx := by omega
      have hA : argWidth ((arg r ds ch rest).1, (arg r ds ch rest).2.1, (arg r ds ch rest).2.2)
          = argWidth (arg r ds ch rest) := rfl
      rw [hb, hA] at c1 c3
      simp only [gLoop, gCut, hs1, hsi, if_neg hR]
      generalize hw : min (argWidth (arg r ds ch rest)) (M - 1 - idx) = w at c1 c3
      generalize m.cutoffAt .repaired idx (arg r ds ch rest).1 (arg r ds ch rest).2.1 (arg r ds ch rest).2.2
        (M - idx) = res at c1 c2 c3
      rw [c1]
      split
      · have h0 : M - 1 - idx - w = 0 := by omega
        cases ch <;> simp only [h0, gCut_zero, List.append_nil] <;>
          exact ⟨by simp, c2, by simp, by simpa using c3⟩
      · cases ch with
        | none => exact ⟨by simp, c2, by simp, by simpa using c3⟩
        | some x =>
          obtain ⟨e1, e2, e3, e4⟩ := ih (idx + w) res.1 (by omega) (by omega)
          have hsub : M - 1 - (idx + w) = M - 1 - idx - w := by omega
          rw [hsub] at e1 e4
          refine ⟨by rw [e1]; simp; omega, by rw [e2, c2], e3, ?_⟩
          have : idx + (padTo (arg r ds (some x) rest).1 w (arg r ds (some x) rest).2.2 ++
              gCut arg rest (M - 1 - idx - w)).length = idx + w + (gCut arg rest (M - 1 - idx - w)).length := by
            simp; omega
          simp only [this, e4, c3, List.append_assoc]

/-! ### the two `switch` tables are the specification -/

theorem specValue_eq_expansion (fl : Fields) (ch : Option Nat) : specValue fl ch = expansion fl ch := by
  cases ch with
  | none => rfl
  | some c =>
    by_cases h1 : c = 110
    · subst h1; rfl
    by_cases h2 : c = 102
    · subst h2; rfl
    by_cases h3 : c = 108
    · subst h3; rfl
    by_cases h4 : c = 112
    · subst h4; rfl
    by_cases h5 : c = 116
    · subst h5; rfl
    by_cases h6 : c = 84
    · subst h6; rfl
    by_cases h7 : c = 98
    · subst h7; rfl
    by_cases h8 : c = 103
    · subst h8; rfl
    have : specValue fl (some c) = [] := by simp [specValue, Char.toNat, h1, h2, h3, h4, h5, h6, h7, h8]
    rw [this]
    unfold expansion
    split <;> first | rfl | (exfalso; simp_all)

theorem gRender_fmt (fl : Fields) : ∀ items : List Item, gRender (fmtArg fl) items = renderItems fl items := by
  intro items
  induction items with
  | nil => rfl
  | cons it rest ih =>
    cases it with
    | lit c => simp [gRender, renderItems, Item.render, ih]
    | dir r ds ch =>
      simp [gRender, renderItems, Item.render, ih, fmtArg, fieldText, argWidth, specValue_eq_expansion]
      rfl

theorem Item.src_length (r : Bool) (ds : List Nat) (ch : Option Nat) :
    (Item.dir r ds ch).src.length = 1 + (if r then 1 else 0) + ds.length + (if ch.isSome then 1 else 0) := by
  cases r <;> cases ch <;> simp [Item.src] <;> omega

theorem gRender_static (sf : SFields) : ∀ items : List Item, NoneLast items →
    gRender (staticArg sf) items = renderStaticItems sf items := by
  intro items
  induction items with
  | nil => intro _; rfl
  | cons it rest ih =>
    intro hn
    cases it with
    | lit c => simp [gRender, renderStaticItems, Item.renderStatic, ih hn]
    | dir r ds ch =>
      cases ch with
      | none =>
        have hr : rest = [] := hn
        subst hr
        have hl := Item.src_length r ds none
        have hne : ¬ (1 + (if r = true then 1 else 0) + ds.length + 1 = 0) := by omega
        simp only [gRender, renderStaticItems, Item.renderStatic, staticArg, detok, List.append_nil, argWidth]
        rw [if_neg hne]
        simp only [padTo, Bool.false_eq_true, if_false]
        have h1 : min (Item.dir r ds none).src.length (1 + (if r = true then 1 else 0) + ds.length + 1)
            = (Item.dir r ds none).src.length := by simp at hl; omega
        rw [h1, List.take_length]
        simp [blanks] at hl ⊢
        have : (1 + if r = true then 1 else 0) + ds.length + 1 - List.length (Item.dir r ds none).src = 1 := by omega
        rw [this]; rfl
      | some c =>
        have hn' : NoneLast rest := hn
        simp only [gRender, renderStaticItems, Item.renderStatic, ih hn']
        congr 1
        by_cases hP : c = 80
        · subst hP; simp [staticArg, fieldText, argWidth]
        · by_cases hN : c = 78
          · subst hN; simp [staticArg, fieldText, argWidth]
          · by_cases hH : c = 72
            · subst hH; simp [staticArg, fieldText, argWidth]
            · have hl := Item.src_length r ds (some c)
              have harg : staticArg sf r ds (some c) rest
                  = ((Item.dir r ds (some c)).src ++ detok rest,
                     1 + (if r then 1 else 0) + ds.length + 1, false) := by
                unfold staticArg
                split <;> simp_all
              rw [harg]
              have hne : ¬ (1 + (if r = true then 1 else 0) + ds.length + 1 = 0) := by omega
              simp only [Char.toNat, argWidth]
              rw [if_neg hne]
              have e1 : ¬ c = 'P'.val.toNat := by simpa using hP
              have e2 : ¬ c = 'N'.val.toNat := by simpa using hN
              have e3 : ¬ c = 'H'.val.toNat := by simpa using hH
              simp only [e1, e2, e3, if_false]
              simp only [padTo, Bool.false_eq_true, if_false]
              have h1 : min ((Item.dir r ds (some c)).src ++ detok rest).length
                  (1 + (if r = true then 1 else 0) + ds.length + 1) = (Item.dir r ds (some c)).src.length := by
                simp at hl ⊢; omega
              rw [h1]
              simp [blanks] at hl ⊢
              omega

end QbVerif.LogFormat
