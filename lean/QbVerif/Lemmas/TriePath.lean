/-
Paths in the trie model (Model/Trie.lean) and what `trie_lookup` computes, for EVERY store `t`
(no invariant needed: `Start`/`Path` are defined through the same child relation the code walks).

* `Start t id p`: `p` is the string spelled from the root up to and including the index character
  of node `id` (`path(parent) ++ segment(parent) ++ [char of idx]`); `Path t id k`: `k` is the
  string up to the end of `id`'s segment — DESIGN.md's `path(node)`.
* `lookup_complete` / `lookup_sound` / `lookup_iff_path`: `trie_lookup(key, exact)` returns the node
  whose path spells the key, and only that one.  `path_unique_key`: at most one node spells a key.
-/
import QbVerif.Model.Trie

namespace QbVerif.Trie
open QbVerif.Map

/-- `p` = the string from the root up to and including the index character of `id` -/
inductive Start (t : T) : Nat → List Nat → Prop
  | root : Start t 0 []
  | edge {par id : Nat} {pp : List Nat} {c : Nat} :
      Start t par pp → (t.nd par).child (charIdx c) = some id → c < 256 →
      Start t id (pp ++ (t.nd par).seg ++ [c])

/-- `path(node)`: the string from the root to the end of the node's segment -/
def Path (t : T) (id : Nat) (k : List Nat) : Prop := ∃ p, Start t id p ∧ k = p ++ (t.nd id).seg

theorem charIdx_inj {a b : Nat} (ha : a < 256) (hb : b < 256) (h : charIdx a = charIdx b) : a = b := by
  unfold charIdx at h
  split at h <;> split at h <;> omega

theorem charIdx_lt {a : Nat} (ha : a < 256) : charIdx a < 256 := by
  unfold charIdx; split <;> omega

/-! ### the loop of `trie_lookup` -/

theorem lookupLoop_nil (t : T) (cur sc : Nat) : t.lookupLoop cur sc [] = some (cur, sc) := rfl

theorem lookupLoop_seg (t : T) (cur sc c : Nat) (rest : List Nat) (h : sc < (t.nd cur).seg.length) :
    t.lookupLoop cur sc (c :: rest) =
      if (t.nd cur).seg.getD sc 0 == c then t.lookupLoop cur (sc + 1) rest else none := by
  have h0 : (t.nd cur).seg.length > 0 := by omega
  simp [T.lookupLoop, h, h0]

theorem lookupLoop_child (t : T) (cur sc c : Nat) (rest : List Nat) (h : ¬ sc < (t.nd cur).seg.length) :
    t.lookupLoop cur sc (c :: rest) =
      ((t.nd cur).child (charIdx c)).bind fun ch => t.lookupLoop ch 0 rest := by
  simp only [T.lookupLoop, h, decide_false, Bool.and_false, Bool.false_eq_true, if_false]
  cases (t.nd cur).child (charIdx c) <;> rfl

theorem lookupLoop_append (t : T) (a b : List Nat) : ∀ cur sc,
    t.lookupLoop cur sc (a ++ b) = (t.lookupLoop cur sc a).bind fun r => t.lookupLoop r.1 r.2 b := by
  induction a with
  | nil => intro cur sc; simp [lookupLoop_nil]
  | cons c rest ih =>
    intro cur sc
    by_cases h : sc < (t.nd cur).seg.length
    · rw [List.cons_append, lookupLoop_seg t cur sc c _ h, lookupLoop_seg t cur sc c _ h]
      split
      · exact ih cur (sc + 1)
      · rfl
    · rw [List.cons_append, lookupLoop_child t cur sc c _ h, lookupLoop_child t cur sc c _ h]
      cases (t.nd cur).child (charIdx c) with
      | none => rfl
      | some ch => simp only [Option.bind_some]; exact ih ch 0

/-- walking through (the rest of) the node's own segment -/
theorem lookupLoop_own_seg (t : T) (cur : Nat) : ∀ (l : List Nat) (sc : Nat),
    sc ≤ (t.nd cur).seg.length → l = (t.nd cur).seg.drop sc →
    t.lookupLoop cur sc l = some (cur, (t.nd cur).seg.length) := by
  intro l
  induction l with
  | nil =>
    intro sc hsc hl
    have : (t.nd cur).seg.length ≤ sc := by
      have := congrArg List.length hl; simp at this; omega
    have : sc = (t.nd cur).seg.length := by omega
    rw [lookupLoop_nil, this]
  | cons c rest ih =>
    intro sc hsc hl
    have hlt : sc < (t.nd cur).seg.length := by
      have := congrArg List.length hl; simp at this; omega
    rw [lookupLoop_seg t cur sc c rest hlt]
    have hd : (t.nd cur).seg.drop sc = (t.nd cur).seg[sc] :: (t.nd cur).seg.drop (sc + 1) := by
      rw [List.getElem_cons_drop]
    rw [hd] at hl
    injection hl with h1 h2
    have : (t.nd cur).seg.getD sc 0 = c := by
      simp [List.getD_eq_getElem?_getD, List.getElem?_eq_getElem hlt, h1]
    simp only [this, beq_self_eq_true, if_true]
    exact ih (sc + 1) (by omega) h2

/-- completeness of the walk: the string up to a node's index character leads to that node -/
theorem lookupLoop_start {t : T} {id : Nat} {p : List Nat} (h : Start t id p) :
    t.lookupLoop 0 0 p = some (id, 0) := by
  induction h with
  | root => rfl
  | @edge par id pp c _ hc _ ih =>
    rw [List.append_assoc, lookupLoop_append, ih]
    simp only [Option.bind_some]
    rw [lookupLoop_append, lookupLoop_own_seg t par _ 0 (by omega) (by simp)]
    simp only [Option.bind_some]
    rw [lookupLoop_child t par _ c [] (by omega), hc]
    rfl

theorem lookupLoop_path {t : T} {id : Nat} {k : List Nat} (h : Path t id k) :
    t.lookupLoop 0 0 k = some (id, (t.nd id).seg.length) := by
  obtain ⟨p, hp, rfl⟩ := h
  rw [lookupLoop_append, lookupLoop_start hp]
  simp only [Option.bind_some]
  exact lookupLoop_own_seg t id _ 0 (by omega) (by simp)

/-- `trie_lookup` finds the node whose path spells the key (exact or not) -/
theorem lookup_complete {t : T} {id : Nat} {k : List Nat} (h : Path t id k) (exact : Bool) :
    t.lookup k exact = some id := by
  simp [T.lookup, lookupLoop_path h]

/-- soundness of the walk -/
theorem lookupLoop_sound (t : T) : ∀ (key : List Nat) (cur sc : Nat) (p : List Nat) (id sc' : Nat),
    Start t cur p → sc ≤ (t.nd cur).seg.length → (∀ c ∈ key, c < 256) →
    t.lookupLoop cur sc key = some (id, sc') →
    ∃ p', Start t id p' ∧ sc' ≤ (t.nd id).seg.length ∧
      p ++ (t.nd cur).seg.take sc ++ key = p' ++ (t.nd id).seg.take sc' := by
  intro key
  induction key with
  | nil =>
    intro cur sc p id sc' hs hsc _ h
    rw [lookupLoop_nil] at h
    injection h with h; injection h with h1 h2
    subst h1; subst h2
    exact ⟨p, hs, hsc, by simp⟩
  | cons c rest ih =>
    intro cur sc p id sc' hs hsc hb h
    have hc : c < 256 := hb c (by simp)
    have hb' : ∀ x ∈ rest, x < 256 := fun x hx => hb x (by simp [hx])
    by_cases hlt : sc < (t.nd cur).seg.length
    · rw [lookupLoop_seg t cur sc c rest hlt] at h
      split at h
      · rename_i heq
        obtain ⟨p', hp', hle, he⟩ := ih cur (sc + 1) p id sc' hs (by omega) hb' h
        refine ⟨p', hp', hle, ?_⟩
        rw [← he]
        have hget : (t.nd cur).seg[sc] = c := by
          have := beq_iff_eq.1 heq
          simpa [List.getD_eq_getElem?_getD, List.getElem?_eq_getElem hlt] using this
        rw [List.take_add_one, List.getElem?_eq_getElem hlt, hget]
        simp
      · exact absurd h (by simp)
    · rw [lookupLoop_child t cur sc c rest hlt] at h
      cases hch : (t.nd cur).child (charIdx c) with
      | none => rw [hch] at h; exact absurd h (by simp)
      | some ch =>
        rw [hch] at h
        simp only [Option.bind_some] at h
        obtain ⟨p', hp', hle, he⟩ := ih ch 0 _ id sc' (Start.edge hs hch hc) (by omega) hb' h
        refine ⟨p', hp', hle, ?_⟩
        rw [← he, List.take_of_length_le (by omega)]
        simp

/-- `trie_lookup(key, exact)` only returns the node whose path spells the key -/
theorem lookup_sound {t : T} {id : Nat} {k : List Nat} (hb : ∀ c ∈ k, c < 256)
    (h : t.lookup k true = some id) : Path t id k := by
  unfold T.lookup at h
  cases hl : t.lookupLoop 0 0 k with
  | none => rw [hl] at h; exact absurd h (by simp)
  | some r =>
    obtain ⟨cur, sc⟩ := r
    rw [hl] at h
    simp only at h
    split at h
    · exact absurd h (by simp)
    · rename_i hne
      injection h with h; subst h
      obtain ⟨p', hp', hle, he⟩ := lookupLoop_sound t k 0 0 [] cur sc Start.root (by omega) hb hl
      refine ⟨p', hp', ?_⟩
      have hge : (t.nd cur).seg.length ≤ sc := by
        by_cases h0 : (t.nd cur).seg.length > 0
        · simp [h0] at hne; omega
        · omega
      simp at he
      rw [he, List.take_of_length_le hge]

/-- a key is found exactly at the node whose path spells it -/
theorem lookup_iff_path {t : T} {id : Nat} {k : List Nat} (hb : ∀ c ∈ k, c < 256) :
    t.lookup k true = some id ↔ Path t id k :=
  ⟨lookup_sound hb, fun h => lookup_complete h true⟩

/-- at most one node spells a given key -/
theorem path_unique_key {t : T} {id id' : Nat} {k : List Nat} (h : Path t id k) (h' : Path t id' k) :
    id = id' := by
  have := lookup_complete h true
  rw [lookup_complete h' true] at this
  injection this with this
  exact this.symm

/-- `trie_get` reads the node whose path spells the key -/
theorem get_eq_of_path {t : T} {id : Nat} {k : List Nat} (h : Path t id k) :
    t.get k = if (t.nd id).removed || (t.nd id).val == 0 then none else some (t.nd id).val := by
  simp [T.get, lookup_complete h true]

theorem get_none_of_no_path {t : T} {k : List Nat} (hb : ∀ c ∈ k, c < 256) (h : ∀ id, ¬ Path t id k) :
    t.get k = none := by
  unfold T.get
  cases hl : t.lookup k true with
  | none => rfl
  | some id => exact absurd (lookup_sound hb hl) (h id)

end QbVerif.Trie
