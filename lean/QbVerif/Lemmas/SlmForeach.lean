/-
Skiplist: `qb_map_foreach` (iterator under key 0: create, loop, free) in any
state satisfying `Inv` — whatever other iterators are open — visits the chain in order, complete
or abandoned at the `stop`-th callback, emits nothing, touches allocated memory only, and leaves a
state satisfying `Inv` for the same entries with the same open iterators.
-/
import QbVerif.Lemmas.SlmIter

namespace QbVerif.Skiplist
open QbVerif.Map
set_option linter.unusedSimpArgs false

def kv (e : Entry) : Key × Val := (e.key, e.val)

/-- the pairs a traversal that stops at the `stop`-th callback hands out -/
def takeStop (stop : Nat) (l : List (Key × Val)) : List (Key × Val) := if stop = 0 then l else l.take stop

theorem loop_inv {ids es g} (stop : Nat) : ∀ (es_r : List Entry) (ids_r : List NodeId) (p : NodeId) (t : SL)
    (vis : List (Key × Val)) (fuel : Nat),
    Inv t ids es g → (0, some p) ∈ t.iters → Chain t p ids_r es_r → (∀ j ∈ ids_r, j ∈ ids) →
    ids_r.length < fuel → (stop = 0 ∨ vis.length < stop) →
    ∃ t' pos', SL.foreachLoop fuel t stop [] vis =
        .ok (t', [], takeStop stop (vis ++ es_r.map kv), !(decide (stop = 0) || decide (vis.length + es_r.length < stop))) ∧
      Inv t' ids es g ∧ t'.iters = setIter t.iters 0 pos' ∧ RcOnly t t'
  | [], [], p, t, vis, fuel, h, hm, hc, _, hf, hst => by
    obtain ⟨f, rfl⟩ : ∃ f, fuel = f + 1 := ⟨fuel - 1, by omega⟩
    have h0 : next0 t p = none := hc
    obtain ⟨t', hn, hi', hit, hR⟩ := (iterNext_inv h hm).2 h0
    refine ⟨t', none, ?_, hi', hit, hR⟩
    simp only [SL.foreachLoop, lookup_of_mem h.ikeys hm, hn, bind, Except.bind]
    have h1 : takeStop stop (vis ++ List.map kv []) = vis := by
      unfold takeStop
      simp only [List.map_nil, List.append_nil]
      split
      · rfl
      · rcases hst with h | h
        · contradiction
        · exact List.take_of_length_le (by omega)
    have h2 : (decide (stop = 0) || decide (vis.length + ([] : List Entry).length < stop)) = true := by
      rcases hst with h | h <;> simp [h]
    rw [h1, h2]
    rfl
  | e :: es_r, i :: ids_r, p, t, vis, fuel, h, hm, hc, hsub, hf, hst => by
    obtain ⟨f, rfl⟩ : ∃ f, fuel = f + 1 := ⟨fuel - 1, by omega⟩
    obtain ⟨h1, hiok, h2⟩ := hc
    obtain ⟨e', he', hok', hni, t1, hn, hi1, hit1, R⟩ := (iterNext_inv h hm).1 i h1
    have hee : e' = e := by
      obtain ⟨_, _, _, _, _, _, _, hn1, _⟩ := hok'
      obtain ⟨_, _, _, _, _, _, _, hn2, _⟩ := hiok
      rw [hn1] at hn2
      cases e; cases e'
      simp only [Option.some.injEq, Node.mk.injEq] at hn2
      obtain ⟨hk, hv, _, _, _, hns⟩ := hn2
      simp_all
    subst hee
    simp only [SL.foreachLoop, lookup_of_mem h.ikeys hm, hn, bind, Except.bind]
    by_cases hcnd : (decide (stop > 0) && decide (vis.length + 1 ≥ stop)) = true
    · simp only [hcnd, if_true]
      simp only [Bool.and_eq_true, decide_eq_true_eq] at hcnd
      have hs : stop = vis.length + 1 := by rcases hst with h | h <;> omega
      refine ⟨t1, some i, ?_, hi1, hit1, R⟩
      have : vis ++ List.map kv (e' :: es_r) = (vis ++ [(e'.key, e'.val)]) ++ List.map kv es_r := by simp [kv]
      have h3 : takeStop stop (vis ++ List.map kv (e' :: es_r)) = vis ++ [(e'.key, e'.val)] := by
        unfold takeStop
        rw [if_neg (by omega), this, hs, List.take_left' (by simp)]
      have h4 : (decide (stop = 0) || decide (vis.length + (e' :: es_r).length < stop)) = false := by
        simp [hs]
      rw [h3, h4]
      rfl
    · simp only [hcnd, Bool.false_eq_true, if_false]
      simp only [Bool.and_eq_true, decide_eq_true_eq, not_and] at hcnd
      have hst' : stop = 0 ∨ (vis ++ [(e'.key, e'.val)]).length < stop := by
        simp only [List.length_append, List.length_singleton]
        by_cases h0 : stop = 0
        · exact Or.inl h0
        · right; have := hcnd (by omega); omega
      have hm1 : (0, some i) ∈ t1.iters := by rw [hit1]; exact mem_setIter_self hm
      have hc1 : Chain t1 i ids_r es_r := R.chain h2 (fun j hj => by
        rw [hi1.rc j (List.mem_cons_of_mem _ (hsub j (List.mem_cons_of_mem _ hj)))]; omega)
      obtain ⟨t', pos', hl, hi', hit', hR'⟩ := loop_inv stop es_r ids_r i t1 (vis ++ [(e'.key, e'.val)]) f hi1 hm1 hc1
        (fun j hj => hsub j (List.mem_cons_of_mem _ hj)) (by simp at hf; omega) hst'
      refine ⟨t', pos', ?_, hi', by rw [hit', hit1, setIter_setIter], R.trans hR'⟩
      simp only [List.append_nil] at hl ⊢
      rw [hl]
      simp [kv, Nat.add_assoc, Nat.add_comm 1]
  | [], _ :: _, _, _, _, _, _, _, hc, _, _, _ => by cases hc
  | _ :: _, [], _, _, _, _, _, _, hc, _, _, _ => by cases hc

/-- `qb_map_foreach` -/
theorem foreach_eq {s ids es g} (h : Inv s ids es g) (h0 : 0 ∉ s.iters.map (·.1)) (stop : Nat) :
    ∃ s', s.foreach stop = .ok (s', ⟨[], .visited (takeStop stop (es.map kv)) (stop = 0 || es.length < stop)⟩) ∧
      Inv s' ids es g ∧ s'.iters = s.iters ∧ RcOnly s s' := by
  obtain ⟨s0, hc, hi0, hit0, hR0⟩ := iterCreate_inv h 0 h0
  have hm0 : (0, some s.header) ∈ s0.iters := by rw [hit0]; simp
  have hhd : s0.header = s.header := by
    have := hc
    simp only [SL.iterCreate, SL.node, bind, Except.bind] at this
    split at this
    · cases this
    · cases this; rfl
  have hch : Chain s0 s.header ids es := by rw [← hhd]; exact hi0.chain
  obtain ⟨t', pos', hl, hi', hit', hR1⟩ := loop_inv stop es ids s.header s0 [] (s.length + 2) hi0 hm0 hch (fun j hj => hj)
    (by rw [h.len, h.chain.length_eq]; omega) (by
      by_cases h0 : stop = 0
      · exact Or.inl h0
      · right; simp; omega)
  have hmt : (0, pos') ∈ t'.iters := by rw [hit']; exact mem_setIter_self hm0
  obtain ⟨s', hfr, hi'', hit'', hR2⟩ := iterFree_inv hi' hmt
  refine ⟨s', ?_, hi'', ?_, (hR0.trans hR1).trans hR2⟩
  · have hlen : s0.length = s.length := by
      have := hc
      simp only [SL.iterCreate, SL.node, bind, Except.bind] at this
      split at this
      · cases this
      · cases this; rfl
    simp only [SL.foreach, hc, bind, Except.bind]
    simp only [List.nil_append, List.length_nil, Nat.zero_add] at hl
    rw [hl]
    simp only [lookup_of_mem hi'.ikeys hmt, Option.getD_some, hfr]
    simp
  · rw [hit'', hit', hit0]
    have : setIter ((0, some s.header) :: s.iters) 0 pos' = (0, pos') :: s.iters := by
      show (if ((0, some s.header) : Nat × Option NodeId).1 == 0 then (0, pos') else (0, some s.header)) :: setIter s.iters 0 pos' = _
      have : setIter s.iters 0 pos' = s.iters := by
        unfold setIter
        have : s.iters.map (fun p => if p.1 == 0 then (0, pos') else p) = s.iters.map id := by
          apply List.map_congr_left
          intro p hp
          have : p.1 ≠ 0 := fun he => h0 (he ▸ List.mem_map.2 ⟨p, hp, rfl⟩)
          simp [this]
        rw [this, List.map_id]
      simp [this]
    rw [this]
    simp only [List.filter_cons, beq_self_eq_true, Bool.not_true, Bool.false_eq_true, if_false]
    apply List.filter_eq_self.2
    intro p hp
    have : p.1 ≠ 0 := fun he => h0 (he ▸ List.mem_map.2 ⟨p, hp, rfl⟩)
    simp [this]

end QbVerif.Skiplist
