/-
Helper lemmas for Props/C06.lean about Model/Wire.lean (core Lean only).
-/
import QbVerif.Model.Wire

namespace QbVerif.Wire
open QbVerif.Gen

/-! ### facts about the regenerated constants (re-checked against /repo on every run) -/
theorem hdr_le_resp : HDR ≤ RESP := by decide
theorem req_le_resp : REQ ≤ RESP := by decide
theorem hdr_le_req : HDR ≤ REQ := by decide
theorem hdr_pos : 0 < HDR := by decide
theorem req_pos : 0 < REQ := by decide
theorem id_in_hdr : IPC_HDR_ID_OFF + 4 ≤ HDR := by decide
theorem size_in_hdr : IPC_HDR_SIZE_OFF + 4 ≤ HDR := by decide
theorem max_in_req : IPC_CONNREQ_MAX_OFF + 4 ≤ REQ := by decide

/-! ### integer conversions -/
theorem toSizeT_zero : toSizeT 0 = 0 := by decide

theorem toSizeT_nonneg {i : Int} (h0 : 0 ≤ i) (h1 : i < 18446744073709551616) :
    toSizeT i = i.toNat := by
  unfold toSizeT
  rw [Int.emod_eq_of_lt h0 h1]

theorem u32le_lt (bs : List Nat) (off : Nat) : u32le bs off < 4294967296 := by
  unfold u32le
  omega

theorem i32_lt {u : Nat} (h : u < 4294967296) : i32 u < 2147483648 := by
  unfold i32; split <;> omega

theorem hdrSize_lt (bs : List Nat) : hdrSize bs < 2147483648 := i32_lt (u32le_lt _ _)

/-! ### qb_ipc_us_recv_at_most -/
theorem peekLen_le_hdr (d : List Nat) : peekLen d ≤ HDR := Nat.min_le_left _ _
theorem peekLen_le_len (d : List Nat) : peekLen d ≤ d.length := Nat.min_le_right _ _

theorem toRecv_lt (d : List Nat) : toRecv d < 2147483648 := by
  unfold toRecv; split
  · exact hdrSize_lt d
  · decide

theorem recvAtMost_peek (f : Bool) (len : Nat) (d : List Nat) :
    (recvAtMost f len d).peek = peekLen d := by
  unfold recvAtMost; split <;> rfl

/-- the second recv never stores more than the datagram holds -/
theorem recvAtMost_written_le_dgram (f : Bool) (len : Nat) (d : List Nat) :
    (recvAtMost f len d).written ≤ d.length := by
  unfold recvAtMost; split
  · exact Nat.min_le_right _ _
  · exact Nat.min_le_right _ _

/-- with fixes/D21 the second recv stays inside a buffer that holds at least a header -/
theorem recvAtMost_written_le_buf (len : Nat) (d : List Nat) (h : HDR ≤ len) :
    (recvAtMost true len d).written ≤ len := by
  unfold recvAtMost
  by_cases hb : tooBig len d = true
  · simp only [hb, Bool.and_self, ite_true]
    have := peekLen_le_hdr d
    omega
  · simp only [hb, Bool.and_false]
    show min (toSizeT (toRecv d)) d.length ≤ len
    unfold tooBig at hb
    simp only [Bool.and_eq_true, decide_eq_true_eq, Bool.or_eq_true, not_and, not_or, Int.not_lt,
      Nat.not_lt] at hb
    by_cases hp : HDR ≤ peekLen d
    · have := (hb hp).2
      omega
    · unfold toRecv
      simp only [hp, ite_false, toSizeT_zero]
      omega

theorem recvAtMost_inBounds (len : Nat) (d : List Nat) (h : HDR ≤ len) :
    (recvAtMost true len d).inBounds len = true := by
  unfold RecvRes.inBounds
  simp only [Bool.and_eq_true, decide_eq_true_eq]
  refine ⟨?_, recvAtMost_written_le_buf len d h⟩
  rw [recvAtMost_peek]
  have := peekLen_le_hdr d
  omega

theorem recvAtMost_size {f : Bool} {len : Nat} {d : List Nat} {n : Nat}
    (h : (recvAtMost f len d).ret = .size n) : n ≤ d.length := by
  unfold recvAtMost at h
  split at h
  · simp only [] at h
    split at h <;> cases h
  · simp only [] at h
    split at h
    · cases h
    · cases h
      exact Nat.min_le_right _ _

/-! ### _process_request_ -/

theorem procHdr_deliver {maxMsg size : Nat} {id sz : Int} {n : Nat}
    (h : procHdr true maxMsg size id sz = .deliver n) (hsz : sz < 2147483648) :
    n ≤ size ∧ n ≤ maxMsg ∧ HDR ≤ size := by
  unfold procHdr at h
  split at h
  · cases h
  · split at h
    · cases h
    · rename_i hc
      simp only [Bool.true_and, Bool.or_eq_true, decide_eq_true_eq, not_or, Nat.not_lt, Int.not_lt] at hc
      cases h
      obtain ⟨⟨⟨h1, h2⟩, h3⟩, h4⟩ := hc
      rw [toSizeT_nonneg h2 (by omega)]
      omega

theorem procSock_deliver {fix : Fix} {maxMsg : Nat} {d : List Nat} {n : Nat} (h22 : fix.d22 = true)
    (h : procSock fix maxMsg d = .deliver n) : n ≤ d.length ∧ n ≤ maxMsg := by
  unfold procSock at h
  split at h
  · cases h
  · rename_i m hm
    rw [h22] at h
    have := procHdr_deliver h (hdrSize_lt d)
    have := recvAtMost_size hm
    omega

theorem procShm_deliver {fix : Fix} {maxMsg : Nat} {d stale : List Nat} {n : Nat} (h22 : fix.d22 = true)
    (h : procShm fix maxMsg d stale = .deliver n) : n ≤ d.length ∧ n ≤ maxMsg := by
  unfold procShm at h
  split at h
  · cases h
  · rw [h22] at h
    have := procHdr_deliver h (hdrSize_lt _)
    omega

/-! ### the dispatch loop -/

/-- a `msg` callback whose reported length respects what was received and what was negotiated -/
def MsgOk (c : Cb) : Prop := ∃ m r L, c = Cb.msg m r L ∧ m ≤ r ∧ m ≤ L

def AllMsgOk (cbs : List Cb) : Prop := ∀ c ∈ cbs, MsgOk c

theorem AllMsgOk.nil : AllMsgOk [] := by intro c hc; cases hc

theorem AllMsgOk.cons {c : Cb} {cbs : List Cb} (h : MsgOk c) (hs : AllMsgOk cbs) : AllMsgOk (c :: cbs) := by
  intro x hx
  cases hx with
  | head => exact h
  | tail _ hx => exact hs x hx

theorem AllMsgOk.append {a b : List Cb} (ha : AllMsgOk a) (hb : AllMsgOk b) : AllMsgOk (a ++ b) := by
  intro x hx
  rcases List.mem_append.mp hx with h | h
  · exact ha x h
  · exact hb x h

/-- with fixes/D22 every callback of the loop is a well-bounded `msg`, unless the loop ended in `oob` -/
theorem serveReqs_ok (cfg : Cfg) (h22 : cfg.fix.d22 = true) (L : Nat) :
    ∀ (n : Nat) (rq : List Req), (serveReqs cfg L n rq).2.2.2 ≠ Serve.oob → AllMsgOk (serveReqs cfg L n rq).2.1 := by
  intro n
  induction n with
  | zero => intro rq _; unfold serveReqs; exact AllMsgOk.nil
  | succ n ih =>
    intro rq
    cases rq with
    | nil => intro _; unfold serveReqs; exact AllMsgOk.nil
    | cons r rest =>
      unfold serveReqs
      by_cases hs : cfg.shm = true
      · simp only [hs, ite_true]
        cases hp : procShm cfg.fix L r.d r.stale with
        | again => intro _; exact AllMsgOk.nil
        | disc e => intro _; exact AllMsgOk.nil
        | deliver m =>
          simp only []
          intro hne
          have hb := procShm_deliver h22 hp
          exact AllMsgOk.cons ⟨m, r.d.length, L, rfl, hb.1, hb.2⟩ (ih rest hne)
      · simp only [hs]
        by_cases hib : (recvAtMost cfg.fix.d21 L r.d).inBounds L = true
        · simp only [hib, Bool.not_true]
          cases hp : procSock cfg.fix L r.d with
          | again => intro _; exact AllMsgOk.nil
          | disc e => intro _; exact AllMsgOk.nil
          | deliver m =>
            simp only []
            intro hne
            have hb := procSock_deliver h22 hp
            exact AllMsgOk.cons ⟨m, r.d.length, L, rfl, hb.1, hb.2⟩ (ih rest hne)
        · simp only [hib]
          intro hne
          exact absurd rfl hne

/-- with fixes/D21 and a buffer that holds a header the loop never ends in `oob` -/
theorem serveReqs_no_oob (cfg : Cfg) (h21 : cfg.fix.d21 = true) (L : Nat) (hL : HDR ≤ L) :
    ∀ (n : Nat) (rq : List Req), (serveReqs cfg L n rq).2.2.2 ≠ Serve.oob := by
  intro n
  induction n with
  | zero => intro rq; unfold serveReqs; simp
  | succ n ih =>
    intro rq
    cases rq with
    | nil => unfold serveReqs; simp
    | cons r rest =>
      unfold serveReqs
      by_cases hs : cfg.shm = true
      · simp only [hs, ite_true]
        cases hp : procShm cfg.fix L r.d r.stale with
        | again => simp
        | disc e => simp
        | deliver m => simp only []; exact ih rest
      · simp only [hs]
        have hib : (recvAtMost cfg.fix.d21 L r.d).inBounds L = true := by
          rw [h21]; exact recvAtMost_inBounds L r.d hL
        simp only [hib, Bool.not_true]
        cases hp : procSock cfg.fix L r.d with
        | again => simp
        | disc e => simp
        | deliver m => simp only []; exact ih rest

end QbVerif.Wire
