import QbVerif.Lemmas.IpcsLifeInvTop3

/-! C04 — handle_new_connection (`connect`): allocation, accept (refusal), the created bracket. -/
namespace QbVerif.IpcsLife

theorem same_ok (s : St) : Same s s.ok ∧ s.ok.nconn = s.nconn := by
  unfold St.ok; split
  · exact ⟨Same.refl s, rfl⟩
  · exact ⟨same_emit s _, rfl⟩

@[simp] theorem halt_cb (s : St) (k : Kind) (c : Nat) (r : Int) : (s.cb k c r).halt = s.halt := rfl
@[simp] theorem halt_pop (s : St) (k : Kind) : (s.pop k).2.halt = s.halt := by
  cases k <;> simp only [St.pop] <;> split <;> rfl
@[simp] theorem halt_connA (s : St) : (connA s).halt = s.halt := rfl

/-- only the created bracket of `c` holds a reference -/
def BrC (s : St) (c : Nat) : Prop :=
  ∀ i, Brs (s.conns i) = if i = c then (true, false, false) else (false, false, false)

theorem BrC.frame {s s' : St} {c : Nat} (h : BrC s c) (hf : Frame s s') : BrC s' c :=
  fun i => by rw [hf.brs i]; exact h i

/-- allocation + connection_accept invoked -/
theorem connAlloc_ok {s : St} (h : Core s) (hnb : NB s) (p : Entry × St)
    (hp : (connA s).pop .accept = p) :
    Core (p.2.cb .accept (s.nconn + 1) p.1.ret) ∧ NB (p.2.cb .accept (s.nconn + 1) p.1.ret) ∧
    (p.2.cb .accept (s.nconn + 1) p.1.ret).halt = s.halt ∧
    ((p.2.cb .accept (s.nconn + 1) p.1.ret).conns (s.nconn + 1)).phase = .accepting ∧
    (p.2.cb .accept (s.nconn + 1) p.1.ret).list = s.list ∧
    (p.2.cb .accept (s.nconn + 1) p.1.ret).nconn = s.nconn + 1 := by
  have hsp := same_pop (connA s) .accept
  rw [hp] at hsp
  obtain ⟨hpa, hpha, hba, hcla⟩ := P.alloc p.1.ret _ rfl
  have hold := h.fresh (s.nconn + 1) (by omega)
  have holdp := (h.inv.conn (s.nconn + 1)).ph
  simp only [PhaseOk, hold] at holdp
  have hu : UpdOf s (s.nconn + 1) (monitor .accept p.1.ret { rc := 1, init := true })
      (p.2.cb .accept (s.nconn + 1) p.1.ret) :=
    ⟨by simp [cb_eq, hsp.conns, connA], fun i hi => by simp [cb_eq, hsp.conns, connA, hi],
     hsp.list, hsp.jobs, hsp.f1, hsp.f2, hsp.f3⟩
  have hi' := hu.inv h.inv hpa (fun _ => by rw [hpha]; simp) (by rw [hcla, holdp.2.1])
  have hnc : (p.2.cb .accept (s.nconn + 1) p.1.ret).nconn = s.nconn + 1 := by
    rw [nconn_cb, ← hp, nconn_pop]; rfl
  refine ⟨⟨hi', fun i hi => ?_, by rw [hu.list]; exact h.nodup, fun x hx => ?_, fun x hx => ?_⟩, fun i => ?_, ?_, ?_, hu.list, hnc⟩
  · rw [hnc] at hi
    rw [hu.other i (by omega)]; exact h.fresh i (by omega)
  · rw [hnc]; rw [hu.list] at hx; have := h.bound x hx; omega
  · rw [hu.list] at hx
    have := h.bound x hx
    rw [hu.other x (by omega)]; exact h.lnn x hx
  · by_cases hc : i = s.nconn + 1
    · subst hc; rw [hu.at_c]; exact hba
    · rw [hu.other i hc]; exact hnb i
  · rw [← hp]; simp
  · rw [hu.at_c]; exact hpha

theorem same_connRejPost (s : St) (r : Int) :
    Same s (connRejPost s r) ∧ (connRejPost s r).nconn = s.nconn := by
  unfold connRejPost; split
  · exact ⟨Same.refl s, rfl⟩
  · exact ⟨(same_svcUnref s).trans (same_emit _ _), by simp⟩

theorem same_connFin (s : St) (K c : Nat) : Same s (connFin s K c) ∧ (connFin s K c).nconn = s.nconn := by
  unfold connFin; split
  · exact ⟨Same.refl s, rfl⟩
  · simp only []
    split
    · have h := same_ok { s.svcUnref with clients := (K, c) :: s.svcUnref.clients }
      have h0 : Same s { s.svcUnref with clients := (K, c) :: s.svcUnref.clients } :=
        (same_svcUnref s).trans ⟨rfl, rfl, rfl, rfl, rfl, rfl⟩
      exact ⟨h0.trans h.1, by rw [h.2]; simp⟩
    · have h := same_ok s.svcUnref
      exact ⟨(same_svcUnref s).trans h.1, by rw [h.2]; simp⟩

/-- accept refused: the initial reference goes, `destroyed` unless the application took a reference -/
theorem connRej_ok {s : St} (h : Core s) (c : Nat) (hh : s.halt = false) (hnb : NB s)
    (hph : (s.conns c).phase = .accepting) (r : Int) :
    Core (connRejPost (exec FUEL (connRejPre s c) (.zero c)) r) ∧
    NB (connRejPost (exec FUEL (connRejPre s c) (.zero c)) r) := by
  obtain ⟨hp, hrc, hfr, h1, h2, h3⟩ := (h.inv.conn c).reject hph _ rfl
  have he : connRejPre s c = s.upd c fun k => { k with phase := .rejected, rc := k.rc - 1, init := false } := by
    unfold connRejPre
    rw [dec_eq _ _ _ (by simpa using hh) (by simpa using hfr) (by simpa using hrc), upd_upd]
  have hu := updOf_upd s c fun k => { k with phase := .rejected, rc := k.rc - 1, init := false }
  have hi' := hu.inv h.inv hp (fun _ => by simp) (by simp)
  have hn : (s.conns c).phase ≠ .none := by rw [hph]; simp
  have hc1 : Core (connRejPre s c) := by rw [he]; exact h.updOf hu rfl hi' hn (by simp)
  have hnb1 : NB (connRejPre s c) := by
    rw [he]; intro i
    by_cases hc : i = c
    · subst hc; simp only [upd_conns, ↓reduceIte]; rw [h3]; exact hnb i
    · simp [hc]; exact hnb i
  have hok : CallOk (connRejPre s c) (.zero c) := by rw [he]; simp [CallOk]
  have hex := hc1.exec FUEL (.zero c) hok
  have hsm := same_connRejPost (exec FUEL (connRejPre s c) (.zero c)) r
  exact ⟨hex.1.same hsm.1 hsm.2, fun i => by rw [hsm.1.conns]; exact (hnb1.frame hex.2) i⟩

/-- accepted: ACTIVE, in the list, temporary reference, connection_created invoked -/
theorem connAct_ok {s : St} (h : Core s) (c : Nat) (hnb : NB s)
    (hph : (s.conns c).phase = .accepting) (hnl : c ∉ s.list) :
    Core (connActPre s c) ∧ BrC (connActPre s c) c ∧ (connActPre s c).halt = s.halt := by
  have hbc := hnb c; simp [Brs] at hbc
  obtain ⟨hp, hfr, h1, h2, h3, h4, h5⟩ := (h.inv.conn c).activate hph hbc.1 _ rfl
  have hn : (s.conns c).phase ≠ .none := by rw [hph]; simp
  have hle := h.le hn
  have hi0 : Inv { s with list := c :: s.list } :=
    ⟨h.inv.fix, h.inv.conn, fun x hx => by
      rcases List.mem_cons.mp hx with hx | hx
      · subst hx; show (s.conns x).phase ≠ .dead; rw [hph]; simp
      · exact h.inv.lst x hx, h.inv.jnd, h.inv.job⟩
  have hu : UpdOf { s with list := c :: s.list } c
      ({ monitor .created 0 { s.conns c with st := .active, rc := (s.conns c).rc + 1, brCreated := true } with
        created := true }) (connActPre s c) :=
    ⟨by simp [connActPre, cb_eq], fun i hi => by simp [connActPre, cb_eq, hi], rfl, rfl, rfl, rfl, rfl⟩
  have hi' := hu.inv hi0 hp (fun _ => by rw [h1]; simp) (by rw [h2])
  refine ⟨⟨hi', fun i hi => ?_, ?_, fun x hx => ?_, fun x hx => ?_⟩, fun i => ?_, rfl⟩
  · have hi2 : s.nconn < i := hi
    rw [hu.other i (by omega)]; exact h.fresh i hi2
  · show (c :: s.list).Nodup
    exact List.nodup_cons.mpr ⟨hnl, h.nodup⟩
  · have hx' : x ∈ c :: s.list := hx
    show x ≤ s.nconn
    rcases List.mem_cons.mp hx' with hx' | hx'
    · subst hx'; exact hle
    · exact h.bound x hx'
  · have hx' : x ∈ c :: s.list := hx
    by_cases hc : x = c
    · subst hc; rw [hu.at_c, h1]; simp
    · rw [hu.other x hc]
      rcases List.mem_cons.mp hx' with hx' | hx'
      · exact absurd hx' hc
      · exact h.lnn x hx'
  · by_cases hc : i = c
    · subst hc; rw [hu.at_c, if_pos rfl]
      exact Prod.ext h3 (Prod.ext (h4.trans hbc.2.1) (h5.trans hbc.2.2))
    · rw [hu.other i hc]; simp [hc]; exact hnb i

/-- created returned: ESTABLISHED unless dropped meanwhile, the temporary reference goes -/
theorem connEst_ok {s : St} (h : Core s) (c : Nat) (hh : s.halt = false) (hb : BrC s c) (K : Nat) :
    Core (connFin (exec FUEL (connEstPre s c) (.zero c)) K c) ∧
    NB (connFin (exec FUEL (connEstPre s c) (.zero c)) K c) := by
  have hbc := hb c; simp [Brs] at hbc
  obtain ⟨hp, hrc, hfr, h1, hn, hd, h2, h3, h4, h5⟩ := (h.inv.conn c).establish hbc.1 _ rfl
  have he : connEstPre s c = s.upd c fun k =>
      { (if k.st = .active then { k with st := .established } else k) with
        rc := (if k.st = .active then { k with st := .established } else k).rc - 1, brCreated := false } := by
    unfold connEstPre
    rw [dec_eq _ _ _ (by simpa using hh) (by simp; split <;> simpa using hfr) (by simp; split <;> simpa using hrc),
      upd_upd]
  have hu := updOf_upd s c fun k =>
      { (if k.st = .active then { k with st := .established } else k) with
        rc := (if k.st = .active then { k with st := .established } else k).rc - 1, brCreated := false }
  have hi' := hu.inv h.inv hp (fun hx => by rw [h1]; exact h.inv.lst c hx) (by rw [h2])
  have hc1 : Core (connEstPre s c) := by rw [he]; exact h.updOf hu rfl hi' hn (by rw [h1]; exact hn)
  have hnb1 : NB (connEstPre s c) := by
    rw [he]; intro i
    by_cases hc : i = c
    · subst hc; rw [hu.at_c]
      exact Prod.ext h3 (Prod.ext (h4.trans hbc.2.1) (h5.trans hbc.2.2))
    · rw [hu.other i hc]; have := hb i; simp [hc] at this; exact this
  have hok : CallOk (connEstPre s c) (.zero c) := by
    rw [he]; show _ ≠ _ ∧ _ ≠ _; rw [hu.at_c, h1]; exact ⟨hn, hd⟩
  have hex := hc1.exec FUEL (.zero c) hok
  have hsm := same_connFin (exec FUEL (connEstPre s c) (.zero c)) K c
  exact ⟨hex.1.same hsm.1 hsm.2, fun i => by rw [hsm.1.conns]; exact (hnb1.frame hex.2) i⟩

end QbVerif.IpcsLife
