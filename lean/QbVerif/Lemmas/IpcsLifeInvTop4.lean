import QbVerif.Lemmas.IpcsLifeInvTop3

/-! C04 — handle_new_connection (`connect`): allocation, accept (refusal), the created bracket. -/
namespace QbVerif.IpcsLife

theorem same_ok (s : St) : Same s s.ok ∧ s.ok.nconn = s.nconn := by
  unfold St.ok; split
  · exact ⟨Same.refl s, rfl⟩
  · exact ⟨same_emit s _, rfl⟩

/-- only the created bracket of `c` holds a reference -/
def BrC (s : St) (c : Nat) : Prop :=
  ∀ i, Brs (s.conns i) = if i = c then (true, false, false) else (false, false, false)

theorem BrC.frame {s s' : St} {c : Nat} (h : BrC s c) (hf : Frame s s') : BrC s' c :=
  fun i => by rw [hf.brs i]; exact h i

/-- allocation + connection_accept invoked -/
theorem connAlloc_ok {s : St} (h : Core s) (hnb : NB s) (p : Entry × St)
    (hp : (connA s).pop .accept = p) :
    Core (p.2.cb .accept (s.nconn + 1) p.1.ret) ∧ NB (p.2.cb .accept (s.nconn + 1) p.1.ret) ∧
    (p.2.cb .accept (s.nconn + 1) p.1.ret).halt = s.halt ∧
    ((p.2.cb .accept (s.nconn + 1) p.1.ret).conns (s.nconn + 1)).phase = .accepting ∧
    (p.2.cb .accept (s.nconn + 1) p.1.ret).list = s.list ∧
    (p.2.cb .accept (s.nconn + 1) p.1.ret).nconn = s.nconn + 1 := by
  have hsp := same_pop (connA s) .accept
  rw [hp] at hsp
  obtain ⟨hpa, hpha, hba, hcla⟩ := P.alloc p.1.ret _ rfl
  have hold := h.fresh (s.nconn + 1) (by omega)
  have holdp := (h.inv.conn (s.nconn + 1)).ph
  simp only [PhaseOk, hold] at holdp
  have hu : UpdOf s (s.nconn + 1) (monitor .accept p.1.ret { rc := 1, init := true })
      (p.2.cb .accept (s.nconn + 1) p.1.ret) :=
    ⟨by simp [cb_eq, hsp.conns, connA], fun i hi => by simp [cb_eq, hsp.conns, connA, hi],
     hsp.list, hsp.jobs, hsp.f1, hsp.f2, hsp.f3⟩
  have hi' := hu.inv h.inv hpa (fun _ => by rw [hpha]; simp) (by rw [hcla, holdp.2.1])
  have hnc : (p.2.cb .accept (s.nconn + 1) p.1.ret).nconn = s.nconn + 1 := by
    rw [nconn_cb, ← hp, nconn_pop]; rfl
  refine ⟨⟨hi', fun i hi => ?_, by rw [hu.list]; exact h.nodup, fun x hx => ?_⟩, fun i => ?_, ?_, ?_, hu.list, hnc⟩
  · rw [hnc] at hi
    rw [hu.other i (by omega)]; exact h.fresh i (by omega)
  · rw [hnc]; rw [hu.list] at hx; have := h.bound x hx; omega
  · by_cases hc : i = s.nconn + 1
    · subst hc; rw [hu.at_c]; exact hba
    · rw [hu.other i hc]; exact hnb i
  · rw [← hp]; cases hk : (connA s).pop .accept; simp [St.cb, St.emit, St.upd]
    have := congrArg (fun q => q.2.halt) hk
    sorry
  · rw [hu.at_c]; exact hpha

end QbVerif.IpcsLife
