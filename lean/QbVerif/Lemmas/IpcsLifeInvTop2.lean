import QbVerif.Lemmas.IpcsLifeInvTop

/-! C04 — `exec` only removes entries from the service's list; the invariant of whole histories. -/
namespace QbVerif.IpcsLife

@[simp] theorem list_touch (s : St) (c : Nat) : (s.touch c).list = s.list := rfl
@[simp] theorem list_cb (s : St) (k : Kind) (c : Nat) (r : Int) : (s.cb k c r).list = s.list := rfl
@[simp] theorem list_touchSvc (s : St) : s.touchSvc.list = s.list := (same_touchSvc s).list
@[simp] theorem list_svcUnref (s : St) : s.svcUnref.list = s.list := (same_svcUnref s).list
@[simp] theorem list_dec (s : St) (c : Nat) (g : Conn → Conn) : (s.dec c g).list = s.list := by
  simp only [St.dec]; split
  · simp
  · split <;> simp
@[simp] theorem list_ref (s : St) (c : Nat) (g : Conn → Conn) : (s.ref c g).list = s.list := by
  simp only [St.ref]; split <;> simp
@[simp] theorem list_pop (s : St) (k : Kind) : (s.pop k).2.list = s.list := (same_pop s k).list
@[simp] theorem list_zeroPre (s : St) (c : Nat) : (zeroPre s c).list = s.list.filter (· != c) := rfl
@[simp] theorem list_zeroPost (s : St) (c : Nat) : (zeroPost s c).list = s.list := by
  simp only [zeroPost]; split
  · rfl
  · split <;> simp
@[simp] theorem list_discActive (s : St) (c : Nat) : (discActive s c).list = s.list := by simp [discActive]
@[simp] theorem list_closedPre (s : St) (c : Nat) (r : Int) : (closedPre s c r).list = s.list := rfl
@[simp] theorem list_closedRetry (s : St) (c : Nat) : (closedRetry s c).list = s.list := rfl
@[simp] theorem list_closedDone (s : St) (c : Nat) : (closedDone s c).list = s.list := by simp [closedDone]
@[simp] theorem list_appD (s : St) (c : Nat) : (appD s c).list = s.list := rfl
@[simp] theorem list_appR (s : St) (c : Nat) : (appR s c).list = s.list := by simp [appR]
@[simp] theorem list_appU (s : St) (c : Nat) : (appU s c).list = s.list := by simp [appU]
@[simp] theorem list_appE (s : St) (c : Nat) : (appE s c).list = s.list := rfl
theorem list_touchAll (l : List Nat) (s : St) : (l.foldl (fun s c => s.touch c) s).list = s.list := by
  induction l generalizing s with
  | nil => rfl
  | cons a r ih => simp [List.foldl_cons, ih]
@[simp] theorem list_appI (s : St) : (appI s).list = s.list := by
  simp [appI, list_touchAll]

theorem exec_sublist : ∀ (f : Nat) (s : St) (call : Call), (exec f s call).list.Sublist s.list
  | 0, _, _ => List.Sublist.refl _
  | f+1, s, call => by
    have ih := exec_sublist f
    simp only [exec]
    split
    · exact List.Sublist.refl _
    · cases call with
      | ops self os =>
        cases os with
        | nil => exact List.Sublist.refl _
        | cons o os => exact (ih _ _).trans (ih _ _)
      | zero c =>
        simp only []
        split
        · exact List.Sublist.refl _
        · rw [list_zeroPost]
          refine (ih _ _).trans ?_
          rw [list_pop, list_zeroPre]
          exact List.filter_sublist
      | disc c =>
        simp only []
        split
        · simp
        · split
          · simp
          · refine (ih _ _).trans ?_; simp
          · split
            · simp
            · split
              · refine (ih _ _).trans ?_; simp
              · split
                · refine (ih _ _).trans ?_; simp
                · split
                  · rw [list_closedRetry, list_touch]; refine (ih _ _).trans ?_; simp
                  · refine (ih _ _).trans ?_
                    rw [list_closedDone, list_touch]; refine (ih _ _).trans ?_; simp
      | app self o =>
        cases o <;> simp only [] <;> split <;> (try simp) <;> (refine (ih _ _).trans ?_; simp)

end QbVerif.IpcsLife
