/-
The per-object invariant `Track` for the handle database (C20) and its preservation by every call:
it ties the observable ledger of ONE issued handle (gets, puts, destroys, destructor runs, computed
from the calls' return values only) to the table entry the model keeps for it.
-/
import QbVerif.Lemmas.HdbOps

namespace QbVerif.Hdb
open QbVerif.Gen

/-- the state field the entry of a tracked live object must show -/
def Ledger.stateOf (L : Ledger) : Nat := if 0 < L.destroys then PENDING else ACTIVE

/-- the per-object invariant in raw form: `cnt` = the ledger's count, `dt` = its destructor runs,
    `sx` = the expected state field of the entry while the object lives
    (`Track` below instantiates these; inside `qb_hdb_handle_destroy` `sx` is PENDING one step early) -/
structure TrackS (fresh : Bool) (h K : Nat) (sx : Nat) (st : St) (cnt : Int) (dt : Nat) : Prop where
  g : G st
  hform : mkHandle (hCheck h) (hSlot h) = h
  slotLt : hSlot h < st.handleCount
  kLt : K < st.nextObj
  others : ∀ j, j ≠ hSlot h → (st.tbl.get j).inst ≠ some K
  live : 0 < cnt → st.tbl.get (hSlot h) = ⟨sx, some K, hCheck h, cnt⟩ ∧ dt = 0
  dead : ¬ 0 < cnt → (st.tbl.get (hSlot h)).inst ≠ some K ∧ dt = 1 ∧ cnt = 0 ∧
          (fresh = true → GoodCheck h → (st.tbl.get (hSlot h)).check ≠ hCheck h)

/-- the invariant relating the ledger of (h, K) to the model state -/
def Track (fresh : Bool) (h K : Nat) (st : St) (L : Ledger) : Prop :=
  TrackS fresh h K L.stateOf st L.count L.dtors

variable {fresh : Bool} {h K sx : Nat} {st : St} {cnt : Int} {dt : Nat}

/-- no entry at all carries the instance of a dead object -/
theorem TrackS.dead_no_inst (T : TrackS fresh h K sx st cnt dt) (hd : ¬ 0 < cnt) (j : Nat) :
    (st.tbl.get j).inst ≠ some K := by
  by_cases hj : j = hSlot h
  · subst hj; exact (T.dead hd).1
  · exact T.others j hj

theorem goodCheck_ne_zero (hg : GoodCheck h) : (0 : Nat) ≠ hCheck h := by
  intro h0
  unfold GoodCheck at hg
  rw [← h0] at hg
  exact absurd hg (by decide)

/-- changing only the iterator keeps the invariant -/
theorem TrackS.setIter (T : TrackS fresh h K sx st cnt dt) (it : Nat) :
    TrackS fresh h K sx { st with iterator := it } cnt dt :=
  ⟨T.g.setIter it, T.hform, T.slotLt, T.kLt, T.others, T.live, T.dead⟩

/-- the expected state field is irrelevant once the object is gone -/
theorem TrackS.sx_dead (T : TrackS fresh h K sx st cnt dt) (hd : ¬ 0 < cnt) (sx' : Nat) :
    TrackS fresh h K sx' st cnt dt :=
  ⟨T.g, T.hform, T.slotLt, T.kLt, T.others, fun ha => absurd ha hd, T.dead⟩

/-! ### three ways to rebuild the invariant after one table entry was overwritten -/

/-- an entry other than the tracked one is overwritten by something that is not object `K` -/
theorem TrackS.setOther (T : TrackS fresh h K sx st cnt dt) {i : Nat} (hi : i ≠ hSlot h) (e : Entry)
    (it : Nat) (hc : e.check < 2^32) (hk : ∀ k, e.inst = some k → k < st.nextObj)
    (ha : e.state = ACTIVE → e.inst ≠ none) (hne : e.inst ≠ some K) :
    TrackS fresh h K sx { st with tbl := st.tbl.set i e, iterator := it } cnt dt where
  g := T.g.setEntry i e it hc hk ha
  hform := T.hform
  slotLt := T.slotLt
  kLt := T.kLt
  others j hj := by
    show ((st.tbl.set i e).get j).inst ≠ some K
    rw [Tbl.get_set]; split
    · exact hne
    · exact T.others j hj
  live hp := by
    show (st.tbl.set i e).get (hSlot h) = _ ∧ _
    rw [Tbl.get_set_ne _ _ (Ne.symm hi)]; exact T.live hp
  dead hn := by
    show ((st.tbl.set i e).get _).inst ≠ _ ∧ _ ∧ _ ∧ (_ → _ → ((st.tbl.set i e).get _).check ≠ _)
    rw [Tbl.get_set_ne _ _ (Ne.symm hi)]; exact T.dead hn

/-- the tracked entry is rewritten as a live entry of `K` with count `cnt'` -/
theorem TrackS.setSelfLive (T : TrackS fresh h K sx st cnt dt) (sx' : Nat) (cnt' : Int) (it : Nat)
    (hpos : 0 < cnt') :
    TrackS fresh h K sx'
      { st with tbl := st.tbl.set (hSlot h) ⟨sx', some K, hCheck h, cnt'⟩, iterator := it } cnt' 0 where
  g := T.g.setEntry _ _ it (hCheck_lt h) (by intro k hk; cases hk; exact T.kLt) (by intro _ hc; cases hc)
  hform := T.hform
  slotLt := T.slotLt
  kLt := T.kLt
  others j hj := by
    show ((st.tbl.set _ _).get j).inst ≠ some K
    rw [Tbl.get_set_ne _ _ hj]; exact T.others j hj
  live _ := by
    refine ⟨?_, rfl⟩
    show (st.tbl.set _ _).get _ = _
    rw [Tbl.get_set_eq]
  dead hn := absurd hpos hn

/-- the tracked entry is overwritten by something that is not `K`: the object is gone -/
theorem TrackS.setSelfDead (T : TrackS fresh h K sx st cnt dt) (sx' : Nat) (e : Entry) (it : Nat)
    (hc : e.check < 2^32) (hk : ∀ k, e.inst = some k → k < st.nextObj)
    (ha : e.state = ACTIVE → e.inst ≠ none) (hne : e.inst ≠ some K)
    (hchk : fresh = true → GoodCheck h → e.check ≠ hCheck h) :
    TrackS fresh h K sx' { st with tbl := st.tbl.set (hSlot h) e, iterator := it } 0 1 where
  g := T.g.setEntry _ e it hc hk ha
  hform := T.hform
  slotLt := T.slotLt
  kLt := T.kLt
  others j hj := by
    show ((st.tbl.set _ e).get j).inst ≠ some K
    rw [Tbl.get_set_ne _ _ hj]; exact T.others j hj
  live hp := absurd hp (by decide)
  dead _ := by
    show ((st.tbl.set _ e).get _).inst ≠ _ ∧ _ ∧ _ ∧ (_ → _ → ((st.tbl.set _ e).get _).check ≠ _)
    rw [Tbl.get_set_eq]
    exact ⟨hne, rfl, rfl, hchk⟩

theorem zero_inst_ne (K : Nat) : Entry.zero.inst ≠ some K := by intro h; cases h

/-! ### a reference is taken on slot `i` (accepted get, or the get inside iterator_next) -/

theorem TrackS.bump (T : TrackS fresh h K sx st cnt dt) (i it : Nat) {cnt' : Int}
    (hc : cnt' = if 0 < cnt ∧ (st.tbl.get i).inst = some K then cnt + 1 else cnt) :
    TrackS fresh h K sx
      { st with tbl := st.tbl.set i ({ (st.tbl.get i) with refCount := (st.tbl.get i).refCount + 1 }),
                iterator := it } cnt' dt := by
  by_cases hi : i = hSlot h
  · subst hi
    by_cases ha : 0 < cnt
    · obtain ⟨he, hd⟩ := T.live ha
      have hinst : (st.tbl.get (hSlot h)).inst = some K := by rw [he]
      simp only [ha, hinst, and_self, if_true] at hc
      subst hc; subst hd
      have := T.setSelfLive sx (cnt + 1) it (by omega)
      rw [he]; exact this
    · obtain ⟨h1, h2, h3, h4⟩ := T.dead ha
      simp only [ha, false_and, if_false] at hc
      subst hc; subst h2; subst h3
      exact T.setSelfDead sx _ it (T.g.checkLt _) (T.g.instLt _)
        (by intro hs; exact T.g.activeInst _ hs) h1 h4
  · have hne : (st.tbl.get i).inst ≠ some K := T.others i hi
    simp only [hne, and_false, if_false] at hc
    subst hc
    exact T.setOther hi _ it (T.g.checkLt _) (T.g.instLt _) (by intro hs; exact T.g.activeInst _ hs) hne

/-! ### get -/

theorem TrackS.get (T : TrackS fresh h K sx st cnt dt) (h' : Nat) {cnt' : Int}
    (hc : cnt' = if 0 < cnt ∧ (st.get h').2.1 = 0 ∧ (st.get h').2.2 = some K then cnt + 1 else cnt) :
    TrackS fresh h K sx (st.get h').1 cnt' dt := by
  by_cases hy : st.getOk h'
  · rw [get_accepted T.g hy] at hc ⊢
    simp only [true_and] at hc
    exact T.bump (hSlot h') st.iterator hc
  · rw [get_refused T.g hy] at hc ⊢
    simp only [ebadf_ne_zero, false_and, and_false, if_false] at hc
    subst hc
    exact T

/-! ### put -/

/-- an accepted handle value on the tracked slot addresses the tracked handle while the object lives -/
theorem TrackS.addresses_of_lookOk (T : TrackS fresh h K sx st cnt dt) (ha : 0 < cnt) {h' : Nat}
    (hy : st.lookOk h') (hs : hSlot h' = hSlot h) : addresses h' h = true := by
  obtain ⟨he, _⟩ := T.live ha
  unfold St.lookOk at hy
  rw [hs, he] at hy
  unfold addresses
  simp only [hs, beq_self_eq_true, Bool.true_and, Bool.or_eq_true, beq_iff_eq]
  rcases hy.2 with h1 | h1
  · exact Or.inr h1
  · exact Or.inl h1

theorem addresses_slot {h' h : Nat} (ha : addresses h' h = true) : hSlot h' = hSlot h := by
  unfold addresses at ha
  simp only [Bool.and_eq_true, beq_iff_eq] at ha
  exact ha.1

theorem TrackS.put (T : TrackS fresh h K sx st cnt dt) (h' : Nat) {cnt' : Int} {dt' : Nat}
    (hc : cnt' = if 0 < cnt ∧ addresses h' h = true ∧ (Out.rc 0) ∈ (st.put h').2 then cnt - 1 else cnt)
    (hdt : dt' = dt + dtorCount K (st.put h').2) :
    TrackS fresh h K sx (st.put h').1 cnt' dt' := by
  by_cases hy : st.lookOk h'
  · have hp := put_accepted T.g hy
    by_cases hs : hSlot h' = hSlot h
    · -- the tracked slot
      rw [hs] at hp
      by_cases ha : 0 < cnt
      · obtain ⟨he, hd⟩ := T.live ha
        have hadr := T.addresses_of_lookOk ha hy hs
        rw [he] at hp
        simp only at hp
        by_cases h1 : cnt = 1
        · -- last reference: destructor, entry zeroed
          rw [if_pos h1] at hp
          rw [hp] at hc hdt ⊢
          simp [ha, hadr, dtorCount, hd] at hc hdt
          subst hc; subst hdt
          have : cnt - 1 = 0 := by omega
          rw [this]
          exact T.setSelfDead sx Entry.zero st.iterator (by decide) (by intro k hk; cases hk)
            (by intro h; exact absurd h zero_active) (zero_inst_ne K)
            (by intro _ hg; exact goodCheck_ne_zero hg)
        · rw [if_neg h1] at hp
          rw [hp] at hc hdt ⊢
          simp [ha, hadr, dtorCount, hd] at hc hdt
          subst hc; subst hdt
          exact T.setSelfLive sx (cnt - 1) st.iterator (by omega)
      · -- the object is gone; whatever lives in the slot now is somebody else's
        obtain ⟨h1, h2, h3, h4⟩ := T.dead ha
        simp only [ha, false_and, if_false] at hc
        subst hc; subst h2; subst h3
        by_cases hr : (st.tbl.get (hSlot h)).refCount = 1
        · rw [if_pos hr] at hp
          rw [hp] at hdt ⊢
          simp [dtorCount, h1] at hdt
          subst hdt
          exact T.setSelfDead sx Entry.zero st.iterator (by decide) (by intro k hk; cases hk)
            (by intro h; exact absurd h zero_active) (zero_inst_ne K)
            (by intro _ hg; exact goodCheck_ne_zero hg)
        · rw [if_neg hr] at hp
          rw [hp] at hdt ⊢
          simp [dtorCount] at hdt
          subst hdt
          exact T.setSelfDead sx _ st.iterator (T.g.checkLt _) (T.g.instLt _)
            (by intro hs; exact T.g.activeInst _ hs) h1 h4
    · -- another slot
      have hadr : ¬ addresses h' h = true := fun hc => hs (addresses_slot hc)
      have hoth := T.others (hSlot h') hs
      simp [hadr] at hc
      subst hc
      by_cases hr : (st.tbl.get (hSlot h')).refCount = 1
      · rw [if_pos hr] at hp
        rw [hp] at hdt ⊢
        simp [dtorCount, hoth] at hdt
        subst hdt
        exact T.setOther hs Entry.zero st.iterator (by decide) (by intro k hk; cases hk)
          (by intro h; exact absurd h zero_active) (zero_inst_ne K)
      · rw [if_neg hr] at hp
        rw [hp] at hdt ⊢
        simp [dtorCount] at hdt
        subst hdt
        refine T.setOther hs _ st.iterator ?_ ?_ ?_ ?_
        · exact T.g.checkLt _
        · exact T.g.instLt _
        · exact T.g.activeInst _
        · exact hoth
  · rw [put_refused T.g hy] at hc hdt ⊢
    have : ¬ (Out.rc 0 ∈ [Out.rc EBADF]) := by
      simp only [List.mem_singleton, Out.rc.injEq]; exact fun h => ebadf_ne_zero h.symm
    simp only [this, and_false, if_false] at hc
    simp [dtorCount] at hdt
    subst hc; subst hdt
    exact T

theorem put_rc0_of_lookOk {st : St} (g : G st) {h' : Nat} (hy : st.lookOk h') :
    Out.rc 0 ∈ (st.put h').2 := by
  rw [put_accepted g hy]; split <;> simp

theorem put_rc0_iff {st : St} (g : G st) (h' : Nat) : Out.rc 0 ∈ (st.put h').2 ↔ st.lookOk h' := by
  constructor
  · intro hm
    by_cases hy : st.lookOk h'
    · exact hy
    · rw [put_refused g hy] at hm
      simp only [List.mem_singleton, Out.rc.injEq] at hm
      exact absurd hm.symm ebadf_ne_zero
  · exact put_rc0_of_lookOk g

/-! ### destroy -/

theorem TrackS.destroy (T : TrackS fresh h K sx st cnt dt) (h' : Nat) {cnt' : Int} {dt' sx' : Nat}
    (hc : cnt' = if 0 < cnt ∧ addresses h' h = true ∧ (Out.rc 0) ∈ (st.destroy h').2 then cnt - 1 else cnt)
    (hdt : dt' = dt + dtorCount K (st.destroy h').2)
    (hsx : sx' = if 0 < cnt ∧ addresses h' h = true ∧ (Out.rc 0) ∈ (st.destroy h').2 then PENDING else sx) :
    TrackS fresh h K sx' (st.destroy h').1 cnt' dt' := by
  by_cases hy : st.lookOk h'
  · rw [destroy_accepted T.g hy] at hc hdt hsx ⊢
    have hrc : Out.rc 0 ∈ ((st.marked h').put h').2 := put_rc0_of_lookOk (G_marked T.g h') (marked_lookOk hy)
    by_cases hs : hSlot h' = hSlot h
    · by_cases ha : 0 < cnt
      · obtain ⟨he, hd⟩ := T.live ha
        have hadr := T.addresses_of_lookOk ha hy hs
        simp only [ha, hadr, hrc, and_self, if_true] at hsx
        subst hsx; subst hd
        have Tm : TrackS fresh h K PENDING (st.marked h') cnt 0 := by
          have := T.setSelfLive PENDING cnt st.iterator ha
          unfold St.marked; rw [hs, he]; exact this
        exact Tm.put h' hc hdt
      · have hcond : ¬ (0 < cnt ∧ addresses h' h = true ∧ (Out.rc 0) ∈ ((st.marked h').put h').2) :=
          fun hc => ha hc.1
        simp only [hcond, if_false] at hsx
        rw [hsx]
        obtain ⟨h1, h2, h3, h4⟩ := T.dead ha
        subst h2; subst h3
        have Tm : TrackS fresh h K sx (st.marked h') 0 1 := by
          unfold St.marked; rw [hs]
          refine T.setSelfDead sx _ st.iterator ?_ ?_ ?_ ?_ ?_
          · exact T.g.checkLt _
          · exact T.g.instLt _
          · intro hp; exact absurd hp pending_ne_active
          · exact h1
          · exact h4
        exact Tm.put h' hc hdt
    · have hadr : ¬ addresses h' h = true := fun hc => hs (addresses_slot hc)
      have hcond : ¬ (0 < cnt ∧ addresses h' h = true ∧ (Out.rc 0) ∈ ((st.marked h').put h').2) :=
        fun hc => hadr hc.2.1
      simp only [hcond, if_false] at hsx
      rw [hsx]
      have Tm : TrackS fresh h K sx (st.marked h') cnt dt := by
        unfold St.marked
        refine T.setOther hs _ st.iterator ?_ ?_ ?_ ?_
        · exact T.g.checkLt _
        · exact T.g.instLt _
        · intro hp; exact absurd hp pending_ne_active
        · exact T.others _ hs
      exact Tm.put h' hc hdt
  · rw [destroy_refused T.g hy] at hc hdt hsx ⊢
    have : ¬ (Out.rc 0 ∈ [Out.rc EBADF]) := by
      simp only [List.mem_singleton, Out.rc.injEq]; exact fun h => ebadf_ne_zero h.symm
    simp only [this, and_false, if_false] at hc hsx
    simp [dtorCount] at hdt
    subst hc; subst hdt; rw [hsx]
    exact T

theorem destroy_rc0_iff {st : St} (g : G st) (h' : Nat) : Out.rc 0 ∈ (st.destroy h').2 ↔ st.lookOk h' := by
  constructor
  · intro hm
    by_cases hy : st.lookOk h'
    · exact hy
    · rw [destroy_refused g hy] at hm
      simp only [List.mem_singleton, Out.rc.injEq] at hm
      exact absurd hm.symm ebadf_ne_zero
  · intro hy
    rw [destroy_accepted g hy]
    exact put_rc0_of_lookOk (G_marked g h') (marked_lookOk hy)

/-! ### create -/

theorem TrackS.create (T : TrackS fresh h K sx st cnt dt) (d : List Nat) (hsx : sx ≠ EMPTY)
    (hnr : fresh = true → (st.create d).2 ≠ .created 0 h) :
    TrackS fresh h K sx (st.create d).1 cnt dt := by
  rcases create_spec T.g d with ⟨rc, _, he, _⟩ | ⟨j, hj, hout, hn, ht, hh, _, _, _⟩
  · rw [he]; exact T
  · have hnew : (newEntry st d).inst ≠ some K := by
      intro hc; cases hc; exact absurd T.kLt (Nat.lt_irrefl _)
    refine ⟨G_create T.g d, T.hform, ?_, ?_, ?_, ?_, ?_⟩
    · rw [hh]; have := T.slotLt; split <;> omega
    · rw [hn]; have := T.kLt; omega
    · intro i hi; rw [ht]; split
      · exact hnew
      · exact T.others i hi
    · intro ha
      have hl := T.live ha
      have hjs : hSlot h ≠ j := by
        intro hjs; subst hjs
        rcases hj with ⟨_, hem⟩ | ⟨heq, _⟩
        · rw [hl.1] at hem; exact hsx hem
        · have := T.slotLt; omega
      rw [ht, if_neg hjs]; exact hl
    · intro ha
      obtain ⟨h1, h2, h3, h4⟩ := T.dead ha
      rw [ht]
      split
      · rename_i hjs
        refine ⟨hnew, h2, h3, ?_⟩
        intro hf _ hck
        apply hnr hf
        have hck' : drawCheck d = hCheck h := hck
        rw [hout, ← hjs, hck', T.hform]
      · exact ⟨h1, h2, h3, h4⟩

/-! ### create with a failing `malloc` -/

theorem TrackS.createFail (T : TrackS fresh h K sx st cnt dt) (hsx : sx ≠ EMPTY) :
    TrackS fresh h K sx st.createFail.1 cnt dt := by
  rcases createFail_spec T.g with ⟨rc, _, he⟩ | ⟨j, _, hem, he⟩ | ⟨m, hm1, hm2, he⟩
  · rw [he]; exact T
  · rw [he]
    refine T.bump j st.iterator ?_
    have hcond : ¬ (0 < cnt ∧ (st.tbl.get j).inst = some K) := by
      rintro ⟨ha, hin⟩
      have hjs : j = hSlot h := Classical.byContradiction fun hne => T.others j hne hin
      have hl := (T.live ha).1
      rw [← hjs] at hl
      rw [hl] at hem
      exact hsx hem
    rw [if_neg hcond]
  · rw [he]
    refine ⟨⟨hm1, hm2, T.g.checkLt, T.g.instLt, T.g.activeInst⟩, T.hform, ?_, T.kLt, T.others, T.live, T.dead⟩
    have := T.slotLt
    show hSlot h < st.handleCount + 1
    omega

/-! ### iterator_next -/

theorem iterLoop_zero (st : St) (res : Int) : st.iterLoop 0 res = (st, res, none, 0) := rfl

theorem iterLoop_end {st : St} (n : Nat) (res : Int) (hlt : ¬ st.iterator < st.handleCount) :
    st.iterLoop n res = (st, res, none, 0) := by
  cases n with
  | zero => rfl
  | succ n => rw [St.iterLoop]; simp [hlt]

/-- one round of the loop in qb_hdb_iterator_next, entry under the cursor ACTIVE: take a reference, stop -/
theorem iterLoop_hit {st : St} (g : G st) (n : Nat) (res : Int) (hlt : st.iterator < st.handleCount)
    (hy : st.getOk (mkHandle (st.tbl.get st.iterator).check st.iterator)) :
    st.iterLoop (n + 1) res =
      ({ st with tbl := st.tbl.set st.iterator ({ (st.tbl.get st.iterator) with
                          refCount := (st.tbl.get st.iterator).refCount + 1 }),
                 iterator := st.iterator + 1 },
       0, (st.tbl.get st.iterator).inst, mkHandle (st.tbl.get st.iterator).check st.iterator) := by
  have hs : hSlot (mkHandle (st.tbl.get st.iterator).check st.iterator) = st.iterator :=
    hSlot_mk (by have := g.slot_small hlt; omega)
  rw [St.iterLoop]
  simp only [hlt, if_true, arrayIndex_ok g hlt, ne_eq, not_true_eq_false, if_false]
  rw [get_accepted g hy, hs]
  simp

/-- one round of the loop, entry under the cursor not ACTIVE: `get` refuses, the cursor moves on -/
theorem iterLoop_miss {st : St} (g : G st) (n : Nat) (res : Int) (hlt : st.iterator < st.handleCount)
    (hy : ¬ st.getOk (mkHandle (st.tbl.get st.iterator).check st.iterator)) :
    st.iterLoop (n + 1) res = St.iterLoop n { st with iterator := st.iterator + 1 } EBADF := by
  rw [St.iterLoop]
  simp only [hlt, if_true, arrayIndex_ok g hlt, ne_eq, not_true_eq_false, if_false]
  rw [get_refused g hy]
  simp [ebadf_ne_zero]

/-- the handle composed by iterator_next for the slot under the cursor is accepted iff the entry is ACTIVE -/
theorem iter_getOk_iff {st : St} (g : G st) (hlt : st.iterator < st.handleCount) :
    st.getOk (mkHandle (st.tbl.get st.iterator).check st.iterator) ↔
      (st.tbl.get st.iterator).state = ACTIVE := by
  have hsm : st.iterator < 2^32 := by have := g.slot_small hlt; omega
  have hs : hSlot (mkHandle (st.tbl.get st.iterator).check st.iterator) = st.iterator := hSlot_mk hsm
  have hk : hCheck (mkHandle (st.tbl.get st.iterator).check st.iterator) = (st.tbl.get st.iterator).check :=
    hCheck_mk (g.checkLt _) hsm
  unfold St.getOk
  rw [hs, hk]
  simp [hlt]

theorem TrackS.iterLoop (T : TrackS fresh h K sx st cnt dt) (n : Nat) (res : Int) {cnt' : Int}
    (hc : cnt' = if 0 < cnt ∧ (st.iterLoop n res).2.1 = 0 ∧ (st.iterLoop n res).2.2.1 = some K
                 then cnt + 1 else cnt) :
    TrackS fresh h K sx (st.iterLoop n res).1 cnt' dt := by
  induction n generalizing st res with
  | zero =>
    rw [iterLoop_zero] at hc ⊢
    simp at hc
    subst hc; exact T
  | succ n ih =>
    by_cases hlt : st.iterator < st.handleCount
    · by_cases hy : st.getOk (mkHandle (st.tbl.get st.iterator).check st.iterator)
      · rw [iterLoop_hit T.g n res hlt hy] at hc ⊢
        simp only [true_and] at hc
        exact T.bump _ _ hc
      · rw [iterLoop_miss T.g n res hlt hy] at hc ⊢
        exact ih (T.setIter (st.iterator + 1)) EBADF hc
    · rw [iterLoop_end _ _ hlt] at hc ⊢
      simp at hc
      subst hc; exact T

end QbVerif.Hdb
