/-
C01 — writer steps, fourth part: publishing the chunk (`MAGIC` store, `sem_post`) and the
master lemma for writer steps.
-/
import QbVerif.Lemmas.RingConcW3

namespace QbVerif.RingConcLemmas
open QbVerif.Ring QbVerif.RingSpec QbVerif.RingLemmas QbVerif.RingConc

theorem CInv.rflags_nil {c : Conf} {q} (h : CInv c q) (hq : q = []) : rclr c.rpc = false ∧ rdead c.rpc = false := by
  subst hq
  have := h.rf
  unfold RFacts at this
  cases hr : c.rprog with
  | nil => rw [hr] at this; rw [this]; exact ⟨rfl, rfl⟩
  | cons op rest => rw [hr] at this; exact QbVerif.RingConcLemmas.rflags_nil this

theorem post_none {r : Rb} (h : r.sem = none) : r.post = r := by
  cases r; simp only at h; subst h; rfl

theorem post_some {r : Rb} {n} (h : r.sem = some n) : r.post = { r with sem := some (n + 1) } := by
  unfold Rb.post; rw [h]; rfl

section
variable {c : Conf} {q : List (List Nat)} {op : WOp} {rest : List WOp}

/-- the chunk the writer has completed at `TW` is a stored chunk -/
theorem stored_new {m : Array Nat} {W TW : Nat} {d : List Nat} (h1 : word m W TW = d.length)
    (h2 : word m W (TW + 1) = MAGIC) (h3 : Payload m W TW d) : Stored m W TW [d] :=
  ⟨h1, h2, h3, trivial⟩

theorem w_cmMg_nosem {old} (h : CInv c q) (hp : c.wprog = op :: rest) (hpc : c.wpc = .cmMg old)
    (hsem : c.rb.sem = none) : CInv (wstep c) (q ++ [op.data]) := by
  have e : wstep c = { c with rb := c.rb.setMagic old MAGIC, wpc := .cmPost, writesOk := c.writesOk ++ [op.data], lin := c.lin ++ [(.write op.data, .wrote op.data.length)] } := by
    unfold wstep; simp only [hp, hpc, hsem]; rfl
  rw [e]
  have hwf := WFacts_get hp h.wf
  rw [hpc] at hwf
  obtain ⟨h1, hf, hpay, hsz, hnx⟩ := hwf
  have ha : wAdv c = cw op.data.length := by unfold wAdv curLen; rw [hpc, hp]
  have hW := h.wpos
  have hfl := fits_le hf
  have h2 := cw_ge op.data.length
  have hlo := cw_lo op.data.length
  have hwp := h.hwp
  rw [ha] at hwp
  subst h1
  rw [setMagic_abs]
  refine ⟨by simp; exact h.size, h.wge, h.wlt, ?_, h.hrp, ?_, ?_, ?_, ?_, ?_, WFacts_of' (c := c) hp rfl ?_,
    RFacts_append _ h.rf rfl rfl rfl (fun _ => hsem) rfl rfl⟩
  · show c.writesOk ++ [op.data] = c.readsOk ++ (q ++ [op.data])
    rw [h.hq, List.append_assoc]
  · show c.rb.wp = (TR c + total (q ++ [op.data]) + (if c.rb.sem.isSome then _ else 0)) % c.rb.W
    rw [hsem, total_append, hwp]; simp only [Option.isSome_none, Bool.false_eq_true, if_false]; congr 1; omega
  · show total (q ++ [op.data]) + 1 ≤ c.rb.W
    rw [total_append]; omega
  · show QStored (setWord c.rb.mem c.rb.W (TR c + total q + 1) MAGIC) c.rb.W (TR c) (rclr c.rpc) (rdead c.rpc) (q ++ [op.data])
    apply QStored_append (fun hq => h.rflags_nil hq)
    · exact QStored_frame hW (fun a ha hb => cell_setWord_ne hW (by omega)) h.stored
    · apply stored_new
      · rw [word_setWord_ne hW (by unfold Apart; omega)]; exact hsz
      · rw [word_setWord_eq h.size hW]; decide
      · exact Payload_frame (fun a ha hb => cell_setWord_ne hW (by omega)) hpay
  · intro _
    show word (setWord c.rb.mem c.rb.W _ MAGIC) c.rb.W (TR c + total (q ++ [op.data]) + 1) ≠ MAGIC
    rw [total_append, ← Nat.add_assoc, word_setWord_ne hW (by unfold Apart; omega)]
    exact hnx
  · intro n hn; rw [show _ = c.rb.sem from rfl, hsem] at hn; cases hn
  · intro hs; rw [show _ = c.rb.sem.isSome from rfl, hsem] at hs; cases hs

theorem w_cmMg_sem {old n} (h : CInv c q) (hp : c.wprog = op :: rest) (hpc : c.wpc = .cmMg old)
    (hsem : c.rb.sem = some n) : CInv (wstep c) q := by
  have e : wstep c = { c with rb := c.rb.setMagic old MAGIC, wpc := .cmPost } := by
    unfold wstep; simp only [hp, hpc, hsem]
  rw [e]
  have hwf := WFacts_get hp h.wf
  rw [hpc] at hwf
  obtain ⟨h1, hf, hpay, hsz, hnx⟩ := hwf
  have ha : wAdv c = cw op.data.length := by unfold wAdv curLen; rw [hpc, hp]
  have hW := h.wpos
  have hfl := fits_le hf
  have h2 := cw_ge op.data.length
  have hlo := cw_lo op.data.length
  subst h1
  rw [setMagic_abs]
  refine h.wstore _ _ (by simp) ?_ ?_ ?_ (WFacts_of' (c := c) hp rfl ?_)
  · intro a ha hb; exact cell_setWord_ne hW (by omega)
  · rw [ha]; unfold wAdv curLen; simp only [hp, hsem, Option.isSome_some, if_true]
  · intro hh; unfold pend at hh; simp only [hsem, Option.isSome_some] at hh; cases hh
  · intro _
    refine ⟨hf, Payload_frame (fun a ha hb => cell_setWord_ne hW (by omega)) hpay, ?_, ?_, ?_⟩
    · show word (setWord c.rb.mem c.rb.W _ MAGIC) c.rb.W (TR c + total q) = _
      rw [word_setWord_ne hW (by unfold Apart; omega)]; exact hsz
    · show word (setWord c.rb.mem c.rb.W _ MAGIC) c.rb.W (TR c + total q + 1) = _
      rw [word_setWord_eq h.size hW]; decide
    · show word (setWord c.rb.mem c.rb.W _ MAGIC) c.rb.W (TR c + total q + cw op.data.length + 1) ≠ _
      rw [word_setWord_ne hW (by unfold Apart; omega)]; exact hnx

theorem w_cmPost_nosem (h : CInv c q) (hp : c.wprog = op :: rest) (hpc : c.wpc = .cmPost)
    (hsem : c.rb.sem = none) : CInv (wstep c) q := by
  have e : wstep c = c.wDone (.wrote op.data.length) := by
    unfold wstep Conf.wDone; simp only [hp, hpc, hsem, post_none hsem, List.tail_cons]
  rw [e]
  exact h.wdone _ (by unfold wAdv; rw [hpc, hsem]; rfl) (by unfold pend; rw [hpc, hsem]; rfl)

theorem w_cmPost_sem {n} (h : CInv c q) (hp : c.wprog = op :: rest) (hpc : c.wpc = .cmPost)
    (hsem : c.rb.sem = some n) : CInv (wstep c) (q ++ [op.data]) := by
  have e : wstep c = { c with rb := { c.rb with sem := some (n + 1) }, wpc := .idle, wprog := rest, wOuts := c.wOuts ++ [.wrote op.data.length], writesOk := c.writesOk ++ [op.data], lin := c.lin ++ [(.write op.data, .wrote op.data.length)] } := by
    unfold wstep; simp only [hp, hpc, hsem, post_some hsem]; rfl
  rw [e]
  have hwf := WFacts_get hp h.wf
  rw [hpc] at hwf
  obtain ⟨hf, hpay, hsz, hmg, hnx⟩ := hwf (by rw [hsem]; rfl)
  have ha : wAdv c = cw op.data.length := by unfold wAdv curLen; rw [hpc, hp, hsem]; rfl
  have hfl := fits_le hf
  have hwp := h.hwp
  rw [ha] at hwp
  refine ⟨h.size, h.wge, h.wlt, ?_, h.hrp, ?_, ?_, ?_, ?_, ?_, ?_,
    RFacts_append _ h.rf rfl rfl rfl (fun hh => by rw [hsem] at hh; cases hh) rfl rfl⟩
  · show c.writesOk ++ [op.data] = c.readsOk ++ (q ++ [op.data])
    rw [h.hq, List.append_assoc]
  · show c.rb.wp = (TR c + total (q ++ [op.data]) + 0) % c.rb.W
    rw [total_append, hwp]; congr 1; omega
  · show total (q ++ [op.data]) + 1 ≤ c.rb.W
    rw [total_append]; omega
  · show QStored c.rb.mem c.rb.W (TR c) (rclr c.rpc) (rdead c.rpc) (q ++ [op.data])
    exact QStored_append (fun hq => h.rflags_nil hq) h.stored (stored_new hsz hmg hpay)
  · intro _
    show word c.rb.mem c.rb.W (TR c + total (q ++ [op.data]) + 1) ≠ MAGIC
    rw [total_append, ← Nat.add_assoc]; exact hnx
  · intro k hk
    have : k = n + 1 := by
      have : some (n + 1) = some k := hk
      exact (Option.some.inj this).symm
    have := h.semc n hsem
    simp only [List.length_append, List.length_cons, List.length_nil]
    show k + rtok c.rpc = _
    omega
  · unfold WFacts
    cases rest with
    | nil => rfl
    | cons o r => trivial

/-- **Every writer step preserves the invariant**; the queue of unconsumed chunks stays the
    same or grows by the chunk being published. -/
theorem wstep_inv (h : CInv c q) : CInv (wstep c) q ∨
    (∃ op rest, c.wprog = op :: rest ∧ CInv (wstep c) (q ++ [op.data])) := by
  cases hp : c.wprog with
  | nil =>
    left
    have e : wstep c = c := by unfold wstep; simp only [hp]
    rw [e]; exact h
  | cons op rest =>
    cases hpc : c.wpc with
    | idle => exact .inl (w_idle h hp hpc)
    | sfRd ws => exact .inl (w_sfRd h hp hpc)
    | sfCmp ws rs b => exact .inl (w_sfCmp h hp hpc)
    | alWp => exact .inl (w_alWp h hp hpc)
    | alSz wp => exact .inl (w_alSz h hp hpc)
    | alMg wp => exact .inl (w_alMg h hp hpc)
    | copy wp j => exact .inl (w_copy h hp hpc)
    | cmWp => exact .inl (w_cmWp h hp hpc)
    | cmSz old => exact .inl (w_cmSz h hp hpc)
    | cmStep old => exact .inl (w_cmStep h hp hpc)
    | cmNext old new => exact .inl (w_cmNext h hp hpc)
    | cmSetWp old new => exact .inl (w_cmSetWp h hp hpc)
    | cmMg old =>
      cases hsem : c.rb.sem with
      | none => exact .inr ⟨op, rest, rfl, w_cmMg_nosem h hp hpc hsem⟩
      | some n => exact .inl (w_cmMg_sem h hp hpc hsem)
    | cmPost =>
      cases hsem : c.rb.sem with
      | none => exact .inl (w_cmPost_nosem h hp hpc hsem)
      | some n => exact .inr ⟨op, rest, rfl, w_cmPost_sem h hp hpc hsem⟩

end
end QbVerif.RingConcLemmas
