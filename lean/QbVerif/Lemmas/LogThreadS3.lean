import QbVerif.Lemmas.LogThreadS2

/-! `SInv`: the remaining steps of the application threads (controller inside an operation, producer),
every step, every schedule. -/
namespace QbVerif.LogThread

set_option linter.unusedSimpArgs false
set_option linter.unusedVariables false

set_option maxHeartbeats 1000000 in
theorem sinv_cStep_pc (cfg : Cfg) (hf : Fixed cfg) (s : St) (g : SFacts s) (h : SInv s)
    (hen : enabledApp s .C = true) (hpc : s.c.pc ≠ .idle) : SInv (appStep cfg s .C) := by
  obtain ⟨hf1, hf2, hf3⟩ := hf
  obtain ⟨inited, tgtOpen, tgtEnabled, tgtThreaded, active, shouldExit, lock, owner, sem, startSem, queue,
    mem, droppedCtr, ⟨pcC, progC⟩, ⟨pcP, progP⟩, pcW, nextSeq, ignored, syncWritten, accepted, dropTotal,
    popped, written, discarded, reports, outcome, evs⟩ := s
  obtain ⟨g1, g2, g3, g4, g5, g6, g7, g8, g9⟩ := g
  obtain ⟨h1, h2, h3, h4, h5, h6⟩ := h
  simp only [Pdone] at *
  cases pcC
  case idle => exact absurd rfl hpc
  case finiGetvalue => exact absurd rfl g7
  case logLock r =>
    by_cases hm : mem + r.total > cfg.limit <;> cases lock <;>
      simp [appStep, St.app, St.setApp, St.setPc, St.ret, St.emit, St.crash, hm] <;>
      (constructor <;> simp_all)
  case ctlLock en =>
    have hen' := h3 en rfl
    cases en with
    | none =>
      cases lock <;>
        simp [appStep, St.app, St.setApp, St.setPc, St.ret, St.emit, St.crash, ctlBody] <;>
        (constructor <;> simp_all)
    | some b =>
      cases b
      · simp at hen'
      · cases lock <;>
          simp [appStep, St.app, St.setApp, St.setPc, St.ret, St.emit, St.crash, ctlBody] <;>
          (constructor <;> simp_all)
  case finiLock =>
    cases lock <;>
      simp [appStep, St.app, St.setApp, St.setPc, St.ret, St.emit, St.crash] <;>
      (constructor <;> simp_all)
  case finiJoin =>
    have hw : pcW = .done := by simpa [enabledApp, St.app] using hen
    have hq : queue = [] := g6 rfl hw
    have hP := g5 rfl
    obtain ⟨rfl, rfl⟩ := hP
    subst hq
    cases outcome <;> cases lock <;> cases sem <;> cases startSem <;>
      simp [appStep, St.app, St.setApp, St.setPc, St.ret, St.emit, St.crash, destroyAll, finiRest, hf3] <;>
      (constructor <;> simp_all)
  case logPost =>
    cases sem <;>
      simp [appStep, St.app, St.setApp, St.setPc, St.ret, St.emit, St.crash] <;>
      (constructor <;> simp_all)
  case finiPost =>
    cases sem <;>
      simp [appStep, St.app, St.setApp, St.setPc, St.ret, St.emit, St.crash] <;>
      (constructor <;> simp_all)
  case startWait =>
    cases startSem <;>
      simp [appStep, St.app, St.setApp, St.setPc, St.ret, St.emit, St.crash] <;>
      (constructor <;> simp_all)
  all_goals
    simp [appStep, St.app, St.setApp, St.setPc, St.ret, St.emit, St.crash]
    constructor <;> simp_all

set_option maxHeartbeats 1000000 in
theorem sinv_pStep (cfg : Cfg) (hf : Fixed cfg) (s : St) (g : SFacts s) (h : SInv s) :
    SInv (appStep cfg s .P) := by
  obtain ⟨hf1, hf2, hf3⟩ := hf
  obtain ⟨inited, tgtOpen, tgtEnabled, tgtThreaded, active, shouldExit, lock, owner, sem, startSem, queue,
    mem, droppedCtr, ⟨pcC, progC⟩, ⟨pcP, progP⟩, pcW, nextSeq, ignored, syncWritten, accepted, dropTotal,
    popped, written, discarded, reports, outcome, evs⟩ := s
  obtain ⟨g1, g2, g3, g4, g5, g6, g7, g8, g9⟩ := g
  obtain ⟨h1, h2, h3, h4, h5, h6⟩ := h
  simp only [Pdone] at *
  cases pcP
  case idle =>
    cases progP with
    | nil => simpa [appStep, St.app] using (⟨h1, h2, h3, h4, h5, h6⟩ : SInv _)
    | cons op rest =>
      obtain ⟨len, rfl⟩ := Op.isLog_elim (g9 op (by simp))
      have hrest : ∀ op ∈ rest, op.steady = true := fun o ho => h2 o (by simp [ho])
      -- P has work left, so the controller is not inside qb_log_fini
      have hcf : pcC.inFini = false := by
        cases hh : pcC.inFini
        · rfl
        · have := (g5 hh).2; simp at this
      cases inited <;> cases tgtOpen <;> cases tgtEnabled <;> cases tgtThreaded <;> cases lock <;>
        simp [appStep, St.app, St.setApp, beginOp, St.lockCheck, St.ret, St.setPc,
          St.emit, St.crash, hf2, hf3] <;> (constructor <;> simp_all)
  case logLock r =>
    by_cases hm : mem + r.total > cfg.limit <;> cases lock <;>
      simp [appStep, St.app, St.setApp, St.setPc, St.ret, St.emit, St.crash, hm] <;>
      (constructor <;> simp_all)
  case logPost =>
    cases sem <;>
      simp [appStep, St.app, St.setApp, St.setPc, St.ret, St.emit, St.crash] <;>
      (constructor <;> simp_all)
  case logUnlock =>
    simp [appStep, St.app, St.setApp, St.setPc, St.ret, St.emit, St.crash]
    constructor <;> simp_all
  case logUnlockDrop =>
    simp [appStep, St.app, St.setApp, St.setPc, St.ret, St.emit, St.crash]
    constructor <;> simp_all
  all_goals simp at g8

theorem sinv_step (cfg : Cfg) (hf : Fixed cfg) (s : St) (g : Inv cfg s) (h : SInv s) (t : Tid) :
    SInv (step cfg s t) := by
  unfold step
  by_cases hc : (s.outcome == .running && enabled s t) = true
  · rw [if_pos hc]
    have hen : enabled s t = true := by
      simp only [Bool.and_eq_true] at hc
      exact hc.2
    cases t
    · by_cases hpc : s.c.pc = .idle
      · exact sinv_cStep_idle cfg hf s g.sfacts h hpc
      · exact sinv_cStep_pc cfg hf s g.sfacts h hen hpc
    · exact sinv_pStep cfg hf s g.sfacts h
    · exact sinv_wStep cfg s h
  · rw [if_neg hc]; exact h

theorem sinv_run (cfg : Cfg) (hf : Fixed cfg) (sched : List Tid) :
    ∀ s, Good cfg s → SInv s → SInv (run cfg s sched) := by
  induction sched with
  | nil => intro s _ h; exact h
  | cons t rest ih => intro s g h; exact ih _ (good_step cfg hf s g t) (sinv_step cfg hf s g.inv h t)

end QbVerif.LogThread
