/-
C08: `JLe` (no job added, nothing dispatched) for every function of Model/Loop.lean other than
qb_loop_job_add and the pop of qb_loop_run_level.  Core Lean only.
-/
import QbVerif.Lemmas.LoopJobs

namespace QbVerif.Loop
open QbVerif.Gen

/-- a step that leaves the levels and the dispatch log alone -/
structure LvSame (s s' : St) : Prop where
  lo : s'.lo = s.lo
  me : s'.me = s.me
  hi : s'.hi = s.hi
  dlog : s'.dlog = s.dlog
  next : s.nextAid ≤ s'.nextAid

theorem LvSame.jle {s s' : St} (h : LvSame s s') : JLe s s' := JLe.of_eq h.lo h.me h.hi h.dlog h.next

theorem LvSame.refl (s : St) : LvSame s s := ⟨rfl, rfl, rfl, rfl, Nat.le_refl _⟩

theorem LvSame.ite {s a b : St} {c : Prop} [Decidable c] (ha : LvSame s a) (hb : LvSame s b) :
    LvSame s (if c then a else b) := by split <;> assumption

theorem jobDel_jle (s : St) (p id : Nat) : JLe s (s.jobDel p id).1 := by
  unfold St.jobDel
  split
  · exact JLe.refl s
  · dsimp only
    split
    · rename_i aid d _
      refine JLe.trans (b := s.setLv p { s.lv p with wait := (s.lv p).wait.erase (.job aid d) }) ?_ ?_
      · apply JLe.setLv
        exact pendOf_sub (List.Sublist.refl _) List.erase_sublist
      · exact JLe.of_eq rfl rfl rfl rfl (Nat.le_refl _)
    · split
      · exact itemDel_jle s p _
      · exact JLe.refl s

theorem timerAdd_same (s : St) (p d h id : Nat) : LvSame s (s.timerAdd p d h id).1 := by
  unfold St.timerAdd
  refine ⟨?_, ?_, ?_, ?_, ?_⟩ <;> simp

theorem timerDel_jle (s : St) (h : Nat) : JLe s (s.timerDel h).1 := by
  unfold St.timerDel
  split
  · exact JLe.refl s
  · dsimp only
    split
    · exact JLe.refl s
    · split
      · exact JLe.refl s
      · rename_i i _ _ _
        generalize hs1 : (if (s.timerSlot i).state == EState.joblist then s.itemDel (s.timerSlot i).prio (.timer i) else s) = s1
        have h1 : JLe s s1 := by
          subst hs1; split
          · exact itemDel_jle _ _ _
          · exact JLe.refl s
        refine JLe.trans h1 (JLe.of_eq ?_ ?_ ?_ ?_ ?_) <;> (simp; split <;> simp)

theorem epAdd_same (s : St) (n : Bool) (fd ev chk slot : Nat) : LvSame s (s.epAdd n fd ev chk slot).1 := by
  unfold St.epAdd
  dsimp only
  exact LvSame.ite ⟨rfl, rfl, rfl, rfl, Nat.le_refl _⟩ (LvSame.refl s)

theorem epMod_same (s : St) (n : Bool) (fd ev chk slot : Nat) : LvSame s (s.epMod n fd ev chk slot).1 := by
  unfold St.epMod
  dsimp only
  exact LvSame.ite ⟨rfl, rfl, rfl, rfl, Nat.le_refl _⟩ (LvSame.refl s)

theorem epDel_same (s : St) (n : Bool) (fd : Nat) : LvSame s (s.epDel n fd).1 := by
  unfold St.epDel
  dsimp only
  exact LvSame.ite ⟨rfl, rfl, rfl, rfl, Nat.le_refl _⟩ (LvSame.refl s)

theorem LvSame.trans {a b c : St} (h1 : LvSame a b) (h2 : LvSame b c) : LvSame a c :=
  ⟨h2.lo.trans h1.lo, h2.me.trans h1.me, h2.hi.trans h1.hi, h2.dlog.trans h1.dlog, Nat.le_trans h1.next h2.next⟩

theorem setPe_same (s : St) (i : Nat) (e : PollEntry) : LvSame s (s.setPe i e) :=
  ⟨by simp, by simp, by simp, by simp, by simp⟩

theorem setTimer_same (s : St) (i : Nat) (t : TimerSlot) : LvSame s (s.setTimer i t) :=
  ⟨by simp, by simp, by simp, by simp, by simp⟩

theorem draw_same (s : St) : LvSame s s.draw.2 := ⟨rfl, rfl, rfl, rfl, Nat.le_refl _⟩

theorem touch_same (s : St) (a : Nat) : LvSame s (s.touch a) := ⟨by simp, by simp, by simp, by simp, by simp⟩

theorem pollAddCore_same (s : St) (n : Bool) (p fd ev id : Nat) : LvSame s (s.pollAddCore n p fd ev id).1 := by
  unfold St.pollAddCore
  dsimp only
  have h2 := (draw_same s).trans (setPe_same s.draw.2 (firstEmptyP s.pes)
    { s.pe (firstEmptyP s.pes) with state := .active, check := s.draw.1, fd := fd, events := ev, revents := 0, data := id, prio := p })
  have h3 := h2.trans (epAdd_same _ n fd ev s.draw.1 (firstEmptyP s.pes))
  split
  · exact h3
  · split
    · exact h3.trans (setPe_same _ _ _)
    · exact h3.trans (setPe_same _ _ _)

theorem pollAdd_same (s : St) (n : Bool) (p fd ev id : Nat) : LvSame s (s.pollAdd n p fd ev id).1 := by
  unfold St.pollAdd
  have h := pollAddCore_same s n p fd ev id
  generalize s.pollAddCore n p fd ev id = r at h ⊢
  obtain ⟨s1, res, i, evs⟩ := r
  dsimp only at h ⊢
  split
  · exact h
  · exact h.trans (setPe_same _ _ _)

theorem pollMod_same (s : St) (n : Bool) (p fd ev id : Nat) : LvSame s (s.pollMod n p fd ev id).1 := by
  unfold St.pollMod
  split
  · exact LvSame.refl s
  · dsimp only
    split
    · exact LvSame.refl s
    · split
      · exact ((setPe_same s _ _).trans (epMod_same _ n fd ev _ _)).trans (setPe_same _ _ _)
      · exact setPe_same s _ _

theorem pollDel_jle (s : St) (n : Bool) (fd : Nat) : JLe s (s.pollDel n fd).1 := by
  unfold St.pollDel
  split
  · exact JLe.refl s
  · dsimp only
    split
    · exact JLe.refl s
    · rename_i i _ _
      generalize hs1 : (if (s.pe i).state == EState.joblist then s.itemDel (s.pe i).prio (.fd i) else s) = s1
      have h1 : JLe s s1 := by
        subst hs1; split
        · exact itemDel_jle _ _ _
        · exact JLe.refl s
      exact h1.trans ((epDel_same s1 n fd).trans (setPe_same _ _ _)).jle

theorem sigAdd_same (s : St) (p sg h id : Nat) : LvSame s (s.sigAdd p sg h id).1 := by
  unfold St.sigAdd
  split
  · exact LvSame.refl s
  · exact ⟨rfl, rfl, rfl, rfl, Nat.le_succ _⟩

theorem sigMod_same (s : St) (p sg aid id : Nat) : LvSame s (s.sigMod p sg aid id).1 := by
  unfold St.sigMod
  split
  · exact LvSame.refl s
  · exact (touch_same s aid).trans ⟨rfl, rfl, rfl, rfl, Nat.le_refl _⟩

theorem dropClones_jle (s : St) (reg : Nat) : JLe s (s.dropClones reg) := by
  unfold St.dropClones
  exact ⟨pendOf_sub List.filter_sublist (List.Sublist.refl _), pendOf_sub List.filter_sublist (List.Sublist.refl _),
    pendOf_sub List.filter_sublist (List.Sublist.refl _), rfl, Nat.le_refl _⟩

theorem sigDel_jle (s : St) (aid : Nat) : JLe s (s.sigDel aid).1 := by
  unfold St.sigDel
  dsimp only
  generalize hs1 : (if (s.touch aid).cfg.fixSigDel = true then (s.touch aid).dropClones aid else _) = s1
  have h1 : JLe (s.touch aid) s1 := by
    subst hs1; split
    · exact dropClones_jle _ _
    · split
      · exact itemDel_jle _ _ _
      · exact JLe.refl _
  exact ((touch_same s aid).jle.trans h1).trans (JLe.of_eq rfl rfl rfl rfl (Nat.le_refl _))

end QbVerif.Loop
