import QbVerif.Lemmas.IpcsLifeInvExec3

/-! C04 — top-level operations: `exec` leaves the connection counter alone; the invariant of whole
    histories (`TopInv`) and its preservation by the external operations proved so far. -/
namespace QbVerif.IpcsLife

@[simp] theorem nconn_upd (s : St) (c : Nat) (f : Conn → Conn) : (s.upd c f).nconn = s.nconn := rfl
@[simp] theorem nconn_emit (s : St) (e : Ev) : (s.emit e).nconn = s.nconn := rfl
@[simp] theorem nconn_touch (s : St) (c : Nat) : (s.touch c).nconn = s.nconn := rfl
@[simp] theorem nconn_cb (s : St) (k : Kind) (c : Nat) (r : Int) : (s.cb k c r).nconn = s.nconn := rfl
@[simp] theorem nconn_touchSvc (s : St) : s.touchSvc.nconn = s.nconn := by
  unfold St.touchSvc; split <;> rfl
@[simp] theorem nconn_svcUnref (s : St) : s.svcUnref.nconn = s.nconn := by
  simp only [St.svcUnref]; split
  · simp
  · split <;> simp
@[simp] theorem nconn_dec (s : St) (c : Nat) (g : Conn → Conn) : (s.dec c g).nconn = s.nconn := by
  simp only [St.dec]; split
  · simp
  · split <;> simp
@[simp] theorem nconn_ref (s : St) (c : Nat) (g : Conn → Conn) : (s.ref c g).nconn = s.nconn := by
  simp only [St.ref]; split <;> simp
@[simp] theorem nconn_pop (s : St) (k : Kind) : (s.pop k).2.nconn = s.nconn := by
  cases k <;> simp only [St.pop] <;> split <;> rfl
@[simp] theorem nconn_zeroPre (s : St) (c : Nat) : (zeroPre s c).nconn = s.nconn := rfl
@[simp] theorem nconn_zeroPost (s : St) (c : Nat) : (zeroPost s c).nconn = s.nconn := by
  simp only [zeroPost]; split
  · rfl
  · split <;> simp
@[simp] theorem nconn_discActive (s : St) (c : Nat) : (discActive s c).nconn = s.nconn := by simp [discActive]
@[simp] theorem nconn_closedPre (s : St) (c : Nat) (r : Int) : (closedPre s c r).nconn = s.nconn := rfl
@[simp] theorem nconn_closedRetry (s : St) (c : Nat) : (closedRetry s c).nconn = s.nconn := rfl
@[simp] theorem nconn_closedDone (s : St) (c : Nat) : (closedDone s c).nconn = s.nconn := by simp [closedDone]
@[simp] theorem nconn_appD (s : St) (c : Nat) : (appD s c).nconn = s.nconn := rfl
@[simp] theorem nconn_appR (s : St) (c : Nat) : (appR s c).nconn = s.nconn := by simp [appR]
@[simp] theorem nconn_appU (s : St) (c : Nat) : (appU s c).nconn = s.nconn := by simp [appU]
@[simp] theorem nconn_appE (s : St) (c : Nat) : (appE s c).nconn = s.nconn := rfl
theorem nconn_touchAll (l : List Nat) (s : St) : (l.foldl (fun s c => s.touch c) s).nconn = s.nconn := by
  induction l generalizing s with
  | nil => rfl
  | cons a r ih => simp [List.foldl_cons, ih]
@[simp] theorem nconn_appI (s : St) : (appI s).nconn = s.nconn := by
  simp [appI, nconn_touchAll]

theorem exec_nconn : ∀ (f : Nat) (s : St) (call : Call), (exec f s call).nconn = s.nconn
  | 0, _, _ => rfl
  | f+1, s, call => by
    have ih := exec_nconn f
    simp only [exec]
    split
    · rfl
    · cases call with
      | ops self os => cases os <;> simp [ih]
      | zero c => simp only []; split <;> simp [ih]
      | disc c =>
        simp only []
        split
        · simp
        · split
          · simp
          · simp [ih]
          · split
            · simp
            · split
              · simp [ih]
              · split
                · simp [ih]
                · split <;> simp [ih]
      | app self o =>
        cases o <;> simp only [] <;> split <;> simp [ih]

/-- external operations covered so far: script definitions and the application's API calls
    (disconnect / ref / unref / event_send / list walk) from outside any callback -/
def ApiOp : Op → Prop
  | .script _ _ => True
  | .app _ => True
  | _ => False

theorem ok_inv {s : St} (hi : Inv s) : Inv s.ok := by
  unfold St.ok; split
  · exact hi
  · exact (same_emit s _).inv hi

theorem step_api_inv (s : St) (op : Op) (hi : Inv s) (h : ApiOp op) : Inv (step s op) := by
  unfold step
  split
  · exact hi
  · cases op with
    | script k es =>
      apply ok_inv
      cases k <;> exact ⟨hi.fix, hi.conn, hi.lst, hi.jnd, hi.job⟩
    | app o => exact ok_inv (exec_inv FUEL s (.app 0 o) hi trivial)
    | _ => exact absurd h (by simp [ApiOp])

theorem run_api_inv (ops : List Op) : ∀ (s : St), Inv s → (∀ op, op ∈ ops → ApiOp op) → Inv (run s ops) := by
  induction ops with
  | nil => intro s hi _; exact hi
  | cons o r ih =>
    intro s hi h
    simp only [run, List.foldl_cons]
    exact ih (step s o) (step_api_inv s o hi (h o (by simp))) (fun op hop => h op (by simp [hop]))

end QbVerif.IpcsLife
