/-
Helper lemmas for the sequential growable-array model (Model/QbArray.lean): the array invariant,
monotonicity of the bin table, and the frame property of the heap.  Used by Props/C19.lean.
-/
import QbVerif.Model.QbArray

namespace QbVerif.QbArray

/-! ### constants (re-checked against the regenerated `Gen/ArrayConsts.lean` on every build) -/
theorem EPB_eq : EPB = 16 := rfl
theorem MAXBINS_eq : MAXBINS = 4096 := rfl
theorem MAXELEMS_eq : MAXELEMS = 65536 := rfl
theorem EBITS_eq : EBITS = 4 := rfl

theorem binNum_eq (i : Nat) : binNum i = i / 16 := by
  simp [binNum, EBITS_eq, Nat.shiftRight_eq_div_pow]

theorem elemNum_eq (i : Nat) : elemNum i = i % 16 := by
  have := Nat.and_two_pow_sub_one_eq_mod i 4
  simpa [elemNum, EPB_eq] using this

theorem binsFor_eq (m : Nat) : binsFor m = min (m / 16 + 1) 4096 := by
  simp [binsFor, EPB_eq, MAXBINS_eq]

/-! ### `binAt` -/
theorem binAt_lt {l : List (Option Nat)} {b k : Nat} (h : binAt l b = some k) : b < l.length := by
  unfold binAt at h
  split at h
  · rename_i hh
    exact (List.getElem?_eq_some_iff.mp hh).1
  · cases h

theorem binAt_of_ge {l : List (Option Nat)} {b : Nat} (h : l.length ≤ b) : binAt l b = none := by
  unfold binAt
  rw [List.getElem?_eq_none h]

theorem binAt_grow (l : List (Option Nat)) (n m b : Nat) (h : l.length ≤ n) :
    binAt (l.take n ++ List.replicate m none) b = binAt l b := by
  rw [List.take_of_length_le h]
  by_cases hb : b < l.length
  · unfold binAt
    rw [List.getElem?_append_left hb]
  · have hb' : l.length ≤ b := Nat.le_of_not_lt hb
    rw [binAt_of_ge hb']
    unfold binAt
    rw [List.getElem?_append_right hb']
    by_cases h2 : b - l.length < m
    · simp [h2]
    · simp [h2]

theorem binAt_set (l : List (Option Nat)) (b b' k : Nat) :
    binAt (l.set b (some k)) b' = if b' = b ∧ b < l.length then some k else binAt l b' := by
  unfold binAt
  by_cases h : b' = b
  · subst h
    by_cases h2 : b' < l.length
    · simp [h2]
    · simp [h2]
  · have : b ≠ b' := fun e => h e.symm
    simp [h, List.getElem?_set_ne this]


/-! ### the array invariant -/

/-- Invariant of `struct qb_array`, part 1 (`nblk` = number of blocks calloc'ed so far). -/
structure ArrInv0 (a : Arr) (nblk : Nat) : Prop where
  /-- the table has `num_bins` entries -/
  len : a.bins.length = a.numBins
  maxle : a.maxElements ≤ MAXELEMS
  esz : 1 ≤ a.elementSize
  /-- every non-NULL entry points to an allocated block -/
  alloc : ∀ b k, binAt a.bins b = some k → k < nblk
  /-- no block is shared by two bins -/
  inj : ∀ b b' k, binAt a.bins b = some k → binAt a.bins b' = some k → b = b'

/-- Invariant of `struct qb_array`: part 1 + the table covers every index below `max_elements`. -/
structure ArrInv (a : Arr) (nblk : Nat) : Prop extends ArrInv0 a nblk where
  enough : binsFor a.maxElements ≤ a.numBins

/-- what may change between two states of the array: nothing that was handed out -/
structure ArrExt (a a' : Arr) : Prop where
  esz : a'.elementSize = a.elementSize
  auto : a'.autogrow = a.autogrow
  max : a.maxElements ≤ a'.maxElements
  bins : ∀ b k, binAt a.bins b = some k → binAt a'.bins b = some k

theorem ArrExt.refl (a : Arr) : ArrExt a a := ⟨rfl, rfl, Nat.le_refl _, fun _ _ h => h⟩

theorem ArrExt.trans {a b c : Arr} (h1 : ArrExt a b) (h2 : ArrExt b c) : ArrExt a c :=
  ⟨h2.esz.trans h1.esz, h2.auto.trans h1.auto, Nat.le_trans h1.max h2.max,
   fun x k h => h2.bins x k (h1.bins x k h)⟩

theorem binAt_growBinArray (a : Arr) (n b : Nat) (hl : a.bins.length = a.numBins) (hn : a.numBins ≤ n) :
    binAt (growBinArray a n).bins b = binAt a.bins b := by
  simp only [growBinArray]
  exact binAt_grow _ _ _ _ (by omega)

theorem growBinArray_len (a : Arr) (n : Nat) (hl : a.bins.length = a.numBins) (hn : a.numBins ≤ n) :
    (growBinArray a n).bins.length = n := by
  simp [growBinArray, List.length_take]
  omega

theorem growBinArray_inv0 {a : Arr} {nblk n : Nat} (h : ArrInv0 a nblk) (hn : a.numBins ≤ n) :
    ArrInv0 (growBinArray a n) nblk := by
  refine ⟨?_, ?_, ?_, ?_, ?_⟩
  · rw [growBinArray_len a n h.len hn]; rfl
  · exact h.maxle
  · exact h.esz
  · intro b k hb
    rw [binAt_growBinArray a n b h.len hn] at hb
    exact h.alloc b k hb
  · intro b b' k hb hb'
    rw [binAt_growBinArray a n _ h.len hn] at hb hb'
    exact h.inj b b' k hb hb'

theorem growBinArray_inv {a : Arr} {nblk n : Nat} (h : ArrInv a nblk) (hn : a.numBins ≤ n) :
    ArrInv (growBinArray a n) nblk :=
  ⟨growBinArray_inv0 h.toArrInv0 hn, by have := h.enough; show binsFor a.maxElements ≤ n; omega⟩

theorem growBinArray_ext {a : Arr} (n : Nat) (hl : a.bins.length = a.numBins) (hn : a.numBins ≤ n) :
    ArrExt a (growBinArray a n) :=
  ⟨rfl, rfl, Nat.le_refl _, fun b k h => by rw [binAt_growBinArray a n b hl hn]; exact h⟩

/-! ### `qb_array_create_2` -/
theorem create_inv {junk : Nat → Nat → Nat} {m e g : Nat} {s : St} (h : create junk m e g = .ok s) :
    ArrInv s.a s.nblk ∧ s.a.maxElements = m ∧ s.a.elementSize = e ∧ s.a.autogrow = g ∧ s.nblk = 0 ∧
    s.mem = junk ∧ (∀ b, binAt s.a.bins b = none) ∧ m ≤ MAXELEMS ∧ g ≤ EPB := by
  unfold create at h
  split at h
  · cases h
  split at h
  · cases h
  split at h
  · cases h
  rename_i h1 h2 h3
  injection h with h
  subst h
  have hall : ∀ b, binAt (growBinArray (emptyArr m e g) (binsFor m)).bins b = none := by
    intro b
    rw [binAt_growBinArray _ _ _ rfl (Nat.zero_le _)]
    simp [binAt, emptyArr]
  refine ⟨⟨⟨?_, ?_, ?_, ?_, ?_⟩, ?_⟩, rfl, rfl, rfl, rfl, rfl, hall, by omega, by omega⟩
  · simp [growBinArray, emptyArr]
  · simp only [growBinArray, emptyArr]; omega
  · simp only [growBinArray, emptyArr]; omega
  · intro b k hb; rw [hall b] at hb; cases hb
  · intro b b' k hb; rw [hall b] at hb; cases hb
  · simp [growBinArray, emptyArr]

/-! ### `qb_array_grow` -/
theorem grow_of_gt {a : Arr} {n : Nat} (h : n > MAXELEMS) : grow a n = (a, .err .einval) := by
  simp [grow, h]

theorem grow_of_le {a : Arr} {n : Nat} (h : n ≤ MAXELEMS) (h2 : n ≤ a.maxElements) : grow a n = (a, .rc0) := by
  have : ¬ n > MAXELEMS := by omega
  simp [grow, this, h2]

theorem grow_of_table {a : Arr} {n : Nat} (h : n ≤ MAXELEMS) (h2 : ¬ n ≤ a.maxElements)
    (h3 : binsFor n > a.numBins) :
    grow a n = (growBinArray { a with maxElements := n } (binsFor n + 1), .rc0) := by
  have h1 : ¬ n > MAXELEMS := by omega
  have h4 : a.numBins ≤ binsFor n := by omega
  have h5 : a.numBins < binsFor n := h3
  simp [grow, h1, h2, h4, h5]

theorem grow_of_notable {a : Arr} {n : Nat} (h : n ≤ MAXELEMS) (h2 : ¬ n ≤ a.maxElements)
    (h3 : ¬ binsFor n > a.numBins) :
    grow a n = ({ a with maxElements := n }, .rc0) := by
  have h1 : ¬ n > MAXELEMS := by omega
  have h5 : ¬ a.numBins < binsFor n := h3
  simp [grow, h1, h2, h5]

theorem grow_res (a : Arr) (n : Nat) :
    (n > MAXELEMS ∧ grow a n = (a, .err .einval)) ∨ (n ≤ MAXELEMS ∧ (grow a n).2 = .rc0) := by
  by_cases h : n > MAXELEMS
  · exact .inl ⟨h, grow_of_gt h⟩
  · right
    refine ⟨by omega, ?_⟩
    by_cases h2 : n ≤ a.maxElements
    · rw [grow_of_le (by omega) h2]
    · by_cases h3 : binsFor n > a.numBins
      · rw [grow_of_table (by omega) h2 h3]
      · rw [grow_of_notable (by omega) h2 h3]

theorem grow_spec {a : Arr} {nblk : Nat} (h : ArrInv a nblk) (n : Nat) :
    ArrInv (grow a n).1 nblk ∧ ArrExt a (grow a n).1 ∧
    (∀ b, binAt (grow a n).1.bins b = binAt a.bins b) ∧ (grow a n).1.hasCb = a.hasCb ∧
    (n ≤ MAXELEMS → (grow a n).1.maxElements = max a.maxElements n) := by
  by_cases h1 : n > MAXELEMS
  · rw [grow_of_gt h1]
    exact ⟨h, ArrExt.refl a, fun _ => rfl, rfl, fun h => by omega⟩
  by_cases h2 : n ≤ a.maxElements
  · rw [grow_of_le (by omega) h2]
    exact ⟨h, ArrExt.refl a, fun _ => rfl, rfl, fun _ => by show a.maxElements = _; omega⟩
  have hmax : max a.maxElements n = n := by omega
  have hI0 : ArrInv0 { a with maxElements := n } nblk :=
    ⟨h.len, by show n ≤ MAXELEMS; omega, h.esz, h.alloc, h.inj⟩
  by_cases h3 : binsFor n > a.numBins
  · rw [grow_of_table (by omega) h2 h3]
    have hn : ({ a with maxElements := n } : Arr).numBins ≤ binsFor n + 1 := by show a.numBins ≤ _; omega
    have hb : ∀ b, binAt (growBinArray { a with maxElements := n } (binsFor n + 1)).bins b = binAt a.bins b :=
      fun b => binAt_growBinArray _ _ b h.len hn
    refine ⟨⟨growBinArray_inv0 hI0 hn, ?_⟩, ⟨rfl, rfl, ?_, ?_⟩, hb, rfl, fun _ => by rw [hmax]; rfl⟩
    · show binsFor n ≤ binsFor n + 1; omega
    · show a.maxElements ≤ n; omega
    · intro b k hk; rw [hb b]; exact hk
  · rw [grow_of_notable (by omega) h2 h3]
    refine ⟨⟨hI0, by show binsFor n ≤ a.numBins; omega⟩,
      ⟨rfl, rfl, by show a.maxElements ≤ n; omega, fun _ _ h => h⟩, fun _ => rfl, rfl, fun _ => by rw [hmax]⟩


/-! ### `qb_array_index`, first part -/
theorem indexPre_inrange {a : Arr} {i : Nat} (h : i < a.maxElements) : indexPre a i = .ok a := by
  have : ¬ i ≥ a.maxElements := by omega
  simp [indexPre, this]

theorem indexPre_erange {a : Arr} {i : Nat} (h : i ≥ a.maxElements) (hg : a.autogrow = 0) :
    indexPre a i = .error (.err .erange) := by
  simp [indexPre, h, hg]

theorem indexPre_einval {a : Arr} {i : Nat} (h : i ≥ a.maxElements) (hg : a.autogrow ≠ 0)
    (hi : i ≥ MAXELEMS) : indexPre a i = .error (.err .einval) := by
  have : grow a (i + 1) = (a, .err .einval) := grow_of_gt (by omega)
  simp [indexPre, h, hg, this]

theorem indexPre_autogrow {a : Arr} {i : Nat} (h : i ≥ a.maxElements) (hg : a.autogrow ≠ 0)
    (hi : i < MAXELEMS) : indexPre a i = .ok (grow a (i + 1)).1 := by
  have h2 : (grow a (i + 1)).2 = .rc0 := by
    rcases grow_res a (i + 1) with ⟨h1, _⟩ | ⟨_, h2⟩
    · omega
    · exact h2
  have : grow a (i + 1) = ((grow a (i + 1)).1, .rc0) := by rw [← h2]
  simp only [indexPre, h, hg, if_true, if_false]
  rw [this]

/-- the bin of an index below `max_elements` is inside the table -/
theorem bin_lt_numBins {a : Arr} {nblk i : Nat} (h : ArrInv a nblk) (hi : i < a.maxElements) :
    i / 16 < a.numBins ∧ i / 16 < 4096 := by
  have h1 := h.enough
  have h2 := h.maxle
  rw [binsFor_eq] at h1
  rw [MAXELEMS_eq] at h2
  omega

/-! ### `qb_array_index`, second part -/
theorem indexBody_hit {s : St} {a : Arr} {i k : Nat} (h : ArrInv a s.nblk) (hi : i < a.maxElements)
    (hk : binAt a.bins (i / 16) = some k) :
    indexBody s a i = ⟨{ s with a := a }, [], .addr k (a.elementSize * (i % 16))⟩ := by
  have ⟨hb1, hb2⟩ := bin_lt_numBins h hi
  have h1 : ¬ (i / 16 ≥ a.numBins) := by omega
  simp [indexBody, binNum_eq, elemNum_eq, MAXBINS_eq, hb2, h1, hk]

theorem indexBody_miss {s : St} {a : Arr} {i : Nat} (h : ArrInv a s.nblk) (hi : i < a.maxElements)
    (hk : binAt a.bins (i / 16) = none) :
    indexBody s a i =
      ⟨{ a := { a with bins := a.bins.set (i / 16) (some s.nblk) }, nblk := s.nblk + 1,
         mem := callocZero s.mem s.nblk (EPB * a.elementSize) },
       if a.hasCb then [i / 16] else [], .addr s.nblk (a.elementSize * (i % 16))⟩ := by
  have ⟨hb1, hb2⟩ := bin_lt_numBins h hi
  have h1 : ¬ (i / 16 ≥ a.numBins) := by omega
  simp [indexBody, binNum_eq, elemNum_eq, MAXBINS_eq, hb2, h1, hk]

/-- allocating the block of bin `b` keeps the invariant -/
theorem set_inv {a : Arr} {nblk : Nat} (b : Nat) (h : ArrInv a nblk) :
    ArrInv { a with bins := a.bins.set b (some nblk) } (nblk + 1) := by
  have hlen := h.len
  refine ⟨⟨?_, h.maxle, h.esz, ?_, ?_⟩, h.enough⟩
  · simp [hlen]
  · intro b' k hb'
    simp only [binAt_set] at hb'
    split at hb'
    · injection hb' with e; omega
    · have := h.alloc b' k hb'; omega
  · intro b1 b2 k h1 h2
    simp only [binAt_set] at h1 h2
    split at h1 <;> split at h2
    · omega
    · injection h1 with e; have := h.alloc b2 k h2; omega
    · injection h2 with e; have := h.alloc b1 k h1; omega
    · exact h.inj b1 b2 k h1 h2

theorem set_ext {a : Arr} {b k : Nat} (hk : binAt a.bins b = none) :
    ArrExt a { a with bins := a.bins.set b (some k) } := by
  refine ⟨rfl, rfl, Nat.le_refl _, ?_⟩
  intro b' k' h
  simp only [binAt_set]
  split
  · rename_i hh; rw [hh.1, hk] at h; cases h
  · exact h


/-! ### byte addresses inside a block -/
theorem cell_inj {e x y o o' : Nat} (ho : o < e) (ho' : o' < e) (h : e * x + o = e * y + o') :
    x = y ∧ o = o' := by
  rcases Nat.lt_trichotomy x y with hxy | hxy | hxy
  · have := Nat.mul_le_mul_left e (show x + 1 ≤ y from hxy)
    rw [Nat.mul_succ] at this
    omega
  · subst hxy; omega
  · have := Nat.mul_le_mul_left e (show y + 1 ≤ x from hxy)
    rw [Nat.mul_succ] at this
    omega

theorem cell_in_block {e x o : Nat} (hx : x < 16) (ho : o < e) : e * x + o < 16 * e := by
  have := Nat.mul_le_mul_left e (show x + 1 ≤ 16 from hx)
  rw [Nat.mul_succ] at this
  omega

/-! ### the whole of `qb_array_index` -/

/-- the array state `a'` with which the second part of `qb_array_index i` runs -/
structure PreOk (a : Arr) (nblk i : Nat) (a' : Arr) : Prop where
  inv : ArrInv a' nblk
  ext : ArrExt a a'
  same : ∀ b, binAt a'.bins b = binAt a.bins b
  lt : i < a'.maxElements
  cb : a'.hasCb = a.hasCb
  how : (i < a.maxElements ∧ a' = a) ∨
        (a.maxElements ≤ i ∧ a.autogrow ≠ 0 ∧ i < MAXELEMS ∧ a'.maxElements = i + 1)

/-- Complete case analysis of `qb_array_index` on a state satisfying the invariant. -/
inductive IndexCase (s : St) (idx : Int) (o : IndexOut) : Prop
  | err (e : Err) (hs : o.s = s) (hr : o.res = .err e) (hn : o.newBins = [])
      (hc : (idx < 0 ∧ e = .erange) ∨
            (0 ≤ idx ∧ s.a.maxElements ≤ idx.toNat ∧ s.a.autogrow = 0 ∧ e = .erange) ∨
            (0 ≤ idx ∧ s.a.maxElements ≤ idx.toNat ∧ MAXELEMS ≤ idx.toNat ∧ s.a.autogrow ≠ 0 ∧ e = .einval))
  | hit (a' : Arr) (k : Nat) (h0 : 0 ≤ idx) (hpre : PreOk s.a s.nblk idx.toNat a')
      (hk : binAt a'.bins (idx.toNat / 16) = some k)
      (hs : o.s = { s with a := a' }) (hn : o.newBins = [])
      (hr : o.res = .addr k (s.a.elementSize * (idx.toNat % 16)))
  | miss (a' : Arr) (h0 : 0 ≤ idx) (hpre : PreOk s.a s.nblk idx.toNat a')
      (hk : binAt a'.bins (idx.toNat / 16) = none)
      (hs : o.s = { a := { a' with bins := a'.bins.set (idx.toNat / 16) (some s.nblk) }, nblk := s.nblk + 1,
                    mem := callocZero s.mem s.nblk (16 * s.a.elementSize) })
      (hn : o.newBins = if s.a.hasCb then [idx.toNat / 16] else [])
      (hr : o.res = .addr s.nblk (s.a.elementSize * (idx.toNat % 16)))

theorem index_cases {s : St} (h : ArrInv s.a s.nblk) (idx : Int) : IndexCase s idx (index s idx) := by
  by_cases hneg : idx < 0
  · have : index s idx = ⟨s, [], .err .erange⟩ := by simp [index, hneg]
    rw [this]
    exact .err .erange rfl rfl rfl (.inl ⟨hneg, rfl⟩)
  have h0 : 0 ≤ idx := by omega
  have hidx : index s idx = indexCont s idx.toNat (indexPre s.a idx.toNat) := by
    unfold index; rw [if_neg hneg]
  rw [hidx]
  -- the second part, given the state after the first
  have body : ∀ a', PreOk s.a s.nblk idx.toNat a' → IndexCase s idx (indexBody s a' idx.toNat) := by
    intro a' hp
    have he : a'.elementSize = s.a.elementSize := hp.ext.esz
    cases hk : binAt a'.bins (idx.toNat / 16) with
    | some k =>
      rw [indexBody_hit hp.inv hp.lt hk]
      exact .hit a' k h0 hp hk rfl rfl (by simp [he])
    | none =>
      rw [indexBody_miss hp.inv hp.lt hk]
      exact .miss a' h0 hp hk (by simp [he, EPB_eq]) (by simp [hp.cb]) (by simp [he])
  by_cases hin : idx.toNat < s.a.maxElements
  · rw [indexPre_inrange hin]
    show IndexCase s idx (indexBody s s.a idx.toNat)
    exact body s.a ⟨h, ArrExt.refl _, fun _ => rfl, hin, rfl, .inl ⟨hin, rfl⟩⟩
  have hge : idx.toNat ≥ s.a.maxElements := by omega
  by_cases hg : s.a.autogrow = 0
  · rw [indexPre_erange hge hg]
    show IndexCase s idx ⟨s, [], .err .erange⟩
    exact .err .erange rfl rfl rfl (.inr (.inl ⟨h0, hge, hg, rfl⟩))
  by_cases hbig : idx.toNat ≥ MAXELEMS
  · rw [indexPre_einval hge hg hbig]
    show IndexCase s idx ⟨s, [], .err .einval⟩
    exact .err .einval rfl rfl rfl (.inr (.inr ⟨h0, hge, hbig, hg, rfl⟩))
  have hlt : idx.toNat < MAXELEMS := by omega
  rw [indexPre_autogrow hge hg hlt]
  have ⟨g1, g2, g3, g4, g5⟩ := grow_spec h (idx.toNat + 1)
  have hm : (grow s.a (idx.toNat + 1)).1.maxElements = idx.toNat + 1 := by
    rw [g5 (by omega)]; omega
  show IndexCase s idx (indexBody s _ idx.toNat)
  exact body _ ⟨g1, g2, g3, by omega, g4, .inr ⟨hge, hg, hlt, hm⟩⟩


/-- an index below the size whose bin has its block: the call returns that block's slot and only
    normalises nothing else -/
theorem index_hit {s : St} (h : ArrInv s.a s.nblk) {idx : Int} {k : Nat} (h0 : 0 ≤ idx)
    (hlt : idx.toNat < s.a.maxElements) (hk : binAt s.a.bins (idx.toNat / 16) = some k) :
    (index s idx).res = .addr k (s.a.elementSize * (idx.toNat % 16)) := by
  have hneg : ¬ idx < 0 := by omega
  unfold index
  rw [if_neg hneg, indexPre_inrange hlt]
  show (indexBody s s.a idx.toNat).res = _
  rw [indexBody_hit h hlt hk]

/-! ### one operation: invariant, monotonicity, heap frame -/

/-- state invariant -/
def Inv (s : St) : Prop := ArrInv s.a s.nblk

/-- what `qb_array_index` guarantees about the state it leaves and the pointer it returns -/
structure IndexSpec (s : St) (idx : Int) (o : IndexOut) : Prop where
  inv : Inv o.s
  ext : ArrExt s.a o.s.a
  nblk : s.nblk ≤ o.s.nblk
  /-- a bin that gets its block now gets a block that did not exist before -/
  fresh : ∀ b k, binAt s.a.bins b = none → binAt o.s.a.bins b = some k → s.nblk ≤ k
  /-- existing blocks are not written -/
  old : ∀ k c, k < s.nblk → o.s.mem k c = s.mem k c
  /-- blocks allocated by this call are zero -/
  new : ∀ k c, s.nblk ≤ k → k < o.s.nblk → c < 16 * s.a.elementSize → o.s.mem k c = 0
  /-- the returned pointer: block of the index's bin, slot offset -/
  addr : ∀ k off, o.res = .addr k off →
    0 ≤ idx ∧ idx.toNat < o.s.a.maxElements ∧ binAt o.s.a.bins (idx.toNat / 16) = some k ∧
    off = s.a.elementSize * (idx.toNat % 16)
  /-- only a pointer or an errno comes back -/
  kind : (∃ k off, o.res = .addr k off) ∨ (∃ e, o.res = .err e ∧ o.s = s)

theorem index_spec {s : St} (h : Inv s) (idx : Int) : IndexSpec s idx (index s idx) := by
  cases index_cases h idx with
  | err e hs hr hn hc =>
    refine ⟨by rw [hs]; exact h, by rw [hs]; exact ArrExt.refl _, by rw [hs]; exact Nat.le_refl _, ?_, ?_, ?_, ?_,
      .inr ⟨e, hr, hs⟩⟩
    · intro b k h1 h2; rw [hs, h1] at h2; cases h2
    · intro k c _; rw [hs]
    · intro k c h1 h2; rw [hs] at h2; omega
    · intro k off h1; rw [hr] at h1; cases h1
  | hit a' k h0 hp hk hs hn hr =>
    refine ⟨by rw [hs]; exact hp.inv, by rw [hs]; exact hp.ext, by rw [hs]; exact Nat.le_refl _, ?_, ?_, ?_, ?_,
      .inl ⟨_, _, hr⟩⟩
    · intro b k' h1 h2; rw [hs] at h2; simp only [hp.same] at h2; rw [h1] at h2; cases h2
    · intro k c _; rw [hs]
    · intro k c h1 h2; rw [hs] at h2; simp only at h2; omega
    · intro k' off h1
      rw [hr] at h1
      injection h1 with e1 e2
      subst e1; subst e2
      rw [hs]
      exact ⟨h0, hp.lt, hk, rfl⟩
  | miss a' h0 hp hk hs hn hr =>
    have hI : ArrInv { a' with bins := a'.bins.set (idx.toNat / 16) (some s.nblk) } (s.nblk + 1) :=
      set_inv (idx.toNat / 16) hp.inv
    have hE : ArrExt a' { a' with bins := a'.bins.set (idx.toNat / 16) (some s.nblk) } := set_ext hk
    have hb := bin_lt_numBins hp.inv hp.lt
    refine ⟨by rw [hs]; exact hI, by rw [hs]; exact hp.ext.trans hE, by rw [hs]; exact Nat.le_succ _, ?_, ?_, ?_, ?_,
      .inl ⟨_, _, hr⟩⟩
    · intro b k' h1 h2
      rw [hs] at h2
      simp only [binAt_set] at h2
      split at h2
      · injection h2 with e; omega
      · rw [hp.same, h1] at h2; cases h2
    · intro k c hk'
      rw [hs]
      simp only [callocZero]
      have : ¬ (k = s.nblk ∧ c < 16 * s.a.elementSize) := by omega
      rw [if_neg this]
    · intro k c h1 h2 h3
      rw [hs] at h2 ⊢
      simp only at h2
      simp only [callocZero]
      have : k = s.nblk ∧ c < 16 * s.a.elementSize := by omega
      rw [if_pos this]
    · intro k' off h1
      rw [hr] at h1
      injection h1 with e1 e2
      subst e1; subst e2
      rw [hs]
      refine ⟨h0, hp.lt, ?_, rfl⟩
      simp only [binAt_set]
      have : idx.toNat / 16 < a'.bins.length := by rw [hp.inv.len]; exact hb.1
      simp [this]


/-- `op` is a store of the user into byte `c` of block `k` (through the pointer it got for `idx`) -/
def Poked (s s' : St) (op : Op) (k c : Nat) : Prop :=
  ∃ idx off v, op = .poke idx off v ∧ 0 ≤ idx ∧ off < s.a.elementSize ∧
    binAt s'.a.bins (idx.toNat / 16) = some k ∧ c = s.a.elementSize * (idx.toNat % 16) + off ∧
    s'.mem k c = v

/-- effect of one operation of a history on array and heap -/
structure StepSpec (s : St) (op : Op) (s' : St) : Prop where
  inv : Inv s'
  ext : ArrExt s.a s'.a
  nblk : s.nblk ≤ s'.nblk
  fresh : ∀ b k, binAt s.a.bins b = none → binAt s'.a.bins b = some k → s.nblk ≤ k
  /-- bytes of existing blocks change only by the user's own store -/
  old : ∀ k c, k < s.nblk → s'.mem k c = s.mem k c ∨ Poked s s' op k c
  /-- bytes of blocks allocated by this operation are zero unless the user stored there -/
  new : ∀ k c, s.nblk ≤ k → k < s'.nblk → c < 16 * s.a.elementSize → s'.mem k c = 0 ∨ Poked s s' op k c

theorem StepSpec.ofIndex {s : St} {idx : Int} {op : Op} (h : IndexSpec s idx (index s idx)) :
    StepSpec s op (index s idx).s :=
  ⟨h.inv, h.ext, h.nblk, h.fresh, fun k c hk => .inl (h.old k c hk), fun k c h1 h2 h3 => .inl (h.new k c h1 h2 h3)⟩

theorem StepSpec.same {s : St} {op : Op} (h : Inv s) : StepSpec s op s :=
  ⟨h, ArrExt.refl _, Nat.le_refl _, fun b k h1 h2 => (by rw [h1] at h2; cases h2), fun _ _ _ => .inl rfl,
   fun k c h1 h2 _ => (by omega)⟩

theorem step_index (s : St) (i : Int) : step s (.index i) = index s i := rfl
theorem step_grow (s : St) (n : Nat) :
    step s (.grow n) = ⟨{ s with a := (grow s.a n).1 }, [], (grow s.a n).2⟩ := rfl
theorem step_numBins (s : St) : step s .numBins = ⟨s, [], .num s.a.numBins⟩ := rfl
theorem step_elemsPerBin (s : St) : step s .elemsPerBin = ⟨s, [], .num EPB⟩ := rfl
theorem step_cbSet (s : St) (on : Bool) : step s (.cbSet on) = ⟨cbSet s on, [], .rc0⟩ := rfl

theorem step_poke_ok {s : St} {i : Int} {off v k base : Nat} (h : (index s i).res = .addr k base)
    (ho : off < s.a.elementSize) :
    step s (.poke i off v) =
      ⟨{ (index s i).s with mem := store (index s i).s.mem k (base + off) v }, (index s i).newBins, .rc0⟩ := by
  simp [step, h, ho]

theorem step_poke_bad {s : St} {i : Int} {off v k base : Nat} (h : (index s i).res = .addr k base)
    (ho : ¬ off < s.a.elementSize) :
    step s (.poke i off v) = ⟨(index s i).s, (index s i).newBins, .badop⟩ := by
  simp [step, h, ho]

theorem step_poke_err {s : St} {i : Int} {off v : Nat} {e : Err} (h : (index s i).res = .err e) :
    step s (.poke i off v) = index s i := by
  simp [step, h]

theorem step_peek_ok {s : St} {i : Int} {k base : Nat} (h : (index s i).res = .addr k base) :
    step s (.peek i) =
      ⟨(index s i).s, (index s i).newBins,
       .bytes ((List.range s.a.elementSize).map fun c => (index s i).s.mem k (base + c))⟩ := by
  simp [step, h]

theorem step_peek_err {s : St} {i : Int} {e : Err} (h : (index s i).res = .err e) :
    step s (.peek i) = index s i := by
  simp [step, h]

theorem step_spec {s : St} (h : Inv s) (op : Op) : StepSpec s op (step s op).s := by
  cases op with
  | index i => exact StepSpec.ofIndex (index_spec h i)
  | grow n =>
    rw [step_grow]
    have ⟨g1, g2, g3, _, _⟩ := grow_spec h n
    refine ⟨g1, g2, Nat.le_refl _, ?_, fun _ _ _ => .inl rfl, ?_⟩
    · intro b k h1 h2
      have h3 : binAt (grow s.a n).1.bins b = some k := h2
      rw [g3, h1] at h3; cases h3
    · intro k c h1 h2 _
      have h3 : k < s.nblk := h2
      omega
  | numBins => exact StepSpec.same h
  | elemsPerBin => exact StepSpec.same h
  | cbSet on =>
    rw [step_cbSet]
    refine ⟨⟨⟨h.len, h.maxle, h.esz, h.alloc, h.inj⟩, h.enough⟩, ⟨rfl, rfl, Nat.le_refl _, fun _ _ h => h⟩,
      Nat.le_refl _, ?_, fun _ _ _ => .inl rfl, ?_⟩
    · intro b k h1 h2
      have h3 : binAt s.a.bins b = some k := h2
      rw [h1] at h3; cases h3
    · intro k c h1 h2 _
      have h3 : k < s.nblk := h2
      omega
  | poke i off v =>
    have hi := index_spec h i
    rcases hi.kind with ⟨k, base, hr⟩ | ⟨e, hr, _⟩
    · by_cases ho : off < s.a.elementSize
      · rw [step_poke_ok hr ho]
        have ⟨h0, _, hb, hbase⟩ := hi.addr k base hr
        have hp : ∀ k' c, k' = k ∧ c = base + off →
            Poked s { (index s i).s with mem := store (index s i).s.mem k (base + off) v } (.poke i off v) k' c := by
          intro k' c ⟨e1, e2⟩
          subst e1; subst e2
          exact ⟨i, off, v, rfl, h0, ho, hb, by rw [hbase], by simp [store]⟩
        refine ⟨hi.inv, hi.ext, hi.nblk, hi.fresh, ?_, ?_⟩
        · intro k' c hk'
          by_cases hc : k' = k ∧ c = base + off
          · exact .inr (hp k' c hc)
          · left
            show store _ _ _ _ _ _ = _
            simp only [store, if_neg hc]
            exact hi.old k' c hk'
        · intro k' c h1 h2 h3
          by_cases hc : k' = k ∧ c = base + off
          · exact .inr (hp k' c hc)
          · left
            show store _ _ _ _ _ _ = _
            simp only [store, if_neg hc]
            exact hi.new k' c h1 h2 h3
      · rw [step_poke_bad hr ho]
        exact StepSpec.ofIndex hi
    · rw [step_poke_err hr]
      exact StepSpec.ofIndex hi
  | peek i =>
    have hi := index_spec h i
    rcases hi.kind with ⟨k, base, hr⟩ | ⟨e, hr, _⟩
    · rw [step_peek_ok hr]
      exact StepSpec.ofIndex hi
    · rw [step_peek_err hr]
      exact StepSpec.ofIndex hi


/-! ### tracking one element through a history -/

/-- byte `off` of element `i` exists (its block is allocated) and holds `v` -/
def CellIs (s : St) (i off v : Nat) : Prop :=
  ∃ k, binAt s.a.bins (i / 16) = some k ∧ s.mem k (s.a.elementSize * (i % 16) + off) = v

/-- if the block of element `i` exists, all bytes of the element are zero -/
def CellZero (s : St) (i : Nat) : Prop :=
  ∀ k, binAt s.a.bins (i / 16) = some k →
    ∀ off, off < s.a.elementSize → s.mem k (s.a.elementSize * (i % 16) + off) = 0

/-- a `Poked` on byte `off` of element `i` is a poke of exactly that index and offset -/
theorem poked_same {s s' : St} {op : Op} {k i off : Nat} (hI : Inv s')
    (hk : binAt s'.a.bins (i / 16) = some k) (ho : off < s.a.elementSize)
    (hp : Poked s s' op k (s.a.elementSize * (i % 16) + off)) :
    ∃ v, op = .poke (i : Int) off v := by
  obtain ⟨idx, off', v, hop, h0, ho', hb, hc, _⟩ := hp
  have hbin : idx.toNat / 16 = i / 16 := hI.inj _ _ k hb hk
  have ⟨hslot, hoff⟩ := cell_inj ho ho' hc
  have hi : idx.toNat = i := by omega
  have : idx = (i : Int) := by omega
  subst hoff
  exact ⟨v, by rw [hop, this]⟩

theorem cellIs_step {s : St} (h : Inv s) {op : Op} {i off v : Nat} (hc : CellIs s i off v)
    (ho : off < s.a.elementSize) (hne : ∀ v', op ≠ .poke (i : Int) off v') :
    CellIs (step s op).s i off v := by
  have sp := step_spec h op
  obtain ⟨k, hk, hv⟩ := hc
  have hk' := sp.ext.bins _ _ hk
  refine ⟨k, hk', ?_⟩
  rw [sp.ext.esz]
  rcases sp.old k (s.a.elementSize * (i % 16) + off) (h.alloc _ _ hk) with he | hp
  · rw [he, hv]
  · obtain ⟨v', hv'⟩ := poked_same sp.inv hk' ho hp
    exact absurd hv' (hne v')

theorem cellZero_step {s : St} (h : Inv s) {op : Op} {i : Nat} (hc : CellZero s i)
    (hne : ∀ off v', op ≠ .poke (i : Int) off v') :
    CellZero (step s op).s i := by
  have sp := step_spec h op
  intro k hk' off ho
  rw [sp.ext.esz] at ho ⊢
  cases hk : binAt s.a.bins (i / 16) with
  | some k0 =>
    have := sp.ext.bins _ _ hk
    rw [hk'] at this
    injection this with e
    subst e
    rcases sp.old k (s.a.elementSize * (i % 16) + off) (h.alloc _ _ hk) with he | hp
    · rw [he]; exact hc k hk off ho
    · obtain ⟨v', hv'⟩ := poked_same sp.inv hk' ho hp
      exact absurd hv' (hne off v')
  | none =>
    have h1 := sp.fresh _ _ hk hk'
    have h2 := sp.inv.alloc _ _ hk'
    have h3 : s.a.elementSize * (i % 16) + off < 16 * s.a.elementSize :=
      cell_in_block (Nat.mod_lt _ (by decide)) ho
    rcases sp.new k _ h1 h2 h3 with he | hp
    · exact he
    · obtain ⟨v', hv'⟩ := poked_same sp.inv hk' ho hp
      exact absurd hv' (hne off v')

theorem run_cons (s : St) (op : Op) (ops : List Op) : run s (op :: ops) = run (step s op).s ops := rfl

theorem run_append (s : St) (ops ops' : List Op) : run s (ops ++ ops') = run (run s ops) ops' := by
  induction ops generalizing s with
  | nil => rfl
  | cons op ops ih => exact ih _

theorem run_inv {s : St} (h : Inv s) (ops : List Op) : Inv (run s ops) := by
  induction ops generalizing s with
  | nil => exact h
  | cons op ops ih => exact ih (step_spec h op).inv

theorem run_ext {s : St} (h : Inv s) (ops : List Op) : ArrExt s.a (run s ops).a := by
  induction ops generalizing s with
  | nil => exact ArrExt.refl _
  | cons op ops ih => exact (step_spec h op).ext.trans (ih (step_spec h op).inv)

theorem cellIs_run {s : St} (h : Inv s) {i off v : Nat} (ops : List Op) (hc : CellIs s i off v)
    (ho : off < s.a.elementSize) (hne : ∀ op ∈ ops, ∀ v', op ≠ .poke (i : Int) off v') :
    CellIs (run s ops) i off v := by
  induction ops generalizing s with
  | nil => exact hc
  | cons op ops ih =>
    have sp := step_spec h op
    exact ih sp.inv (cellIs_step h hc ho (hne op (List.mem_cons_self ..)))
      (by rw [sp.ext.esz]; exact ho) (fun op' hm => hne op' (List.mem_cons_of_mem _ hm))

theorem cellZero_run {s : St} (h : Inv s) {i : Nat} (ops : List Op) (hc : CellZero s i)
    (hne : ∀ op ∈ ops, ∀ off v', op ≠ .poke (i : Int) off v') :
    CellZero (run s ops) i := by
  induction ops generalizing s with
  | nil => exact hc
  | cons op ops ih =>
    exact ih (step_spec h op).inv (cellZero_step h hc (hne op (List.mem_cons_self ..)))
      (fun op' hm => hne op' (List.mem_cons_of_mem _ hm))

end QbVerif.QbArray
