/-
Round trip, decoder half, part 2 (C14): the conversion character (argument read back from the
record, `snprintf` into the remaining space, `location` / `data_pos` advanced, string
re-terminated), "%%", and their composition into one whole conversion
`% flags/width [*] [.prec | .*] [l ll z t j] conv` starting from a synchronised state.
-/
import QbVerif.Lemmas.SerRoundDec1
import QbVerif.Lemmas.SerRoundEnc

namespace QbVerif.Ser
open QbVerif.Gen

/-- the argument as the decoder hands it to `snprintf`: as `dargOf`, except that a `%s` argument is
    the string the encoder kept (cut to a literal precision) -/
def dargRec (d : Dir) (v : Arg) : DArg :=
  match classify d.conv with
  | .strc => .str (storedStr d v)
  | _ => dargOf d v

/-- precision part of the mini format -/
def precMini (d : Dir) (p : Int) : Bytes :=
  match d.prec with
  | .none => []
  | .lit ds => 0x2e :: ds
  | .star => if p < 0 then [] else 0x2e :: decInt p

theorem Dir.mini_eq (d : Dir) (w p : Int) :
    d.mini w p = 0x25 :: (d.pre ++ ((if d.wstar then decInt w else []) ++
      (precMini d p ++ (modChars d.mod ++ [d.conv])))) := by
  unfold Dir.mini precMini
  cases d.prec <;> rfl

section
variable (render : Render) (rec : Bytes) (strLen : Nat)

/-- running over the characters `X` ends in a synchronised state with text `T'`, `data_pos = D'` -/
def DeGoal (s : DeSt) (X tail : Bytes) (T' : Bytes) (D' : Nat) : Prop :=
  ∃ s', deRun R render rec strLen s (X ++ tail) = deRun R render rec strLen s' tail ∧ DeSync strLen s' T' [] D'

theorem DeGoal.pre {s s' : DeSt} {P X tail T' : Bytes} {D' : Nat}
    (e : deRun R render rec strLen s (P ++ (X ++ tail)) = deRun R render rec strLen s' (X ++ tail))
    (g : DeGoal render rec strLen s' X tail T' D') : DeGoal render rec strLen s (P ++ X) tail T' D' := by
  unfold DeGoal at *
  rw [List.append_assoc, e]; exact g

theorem DeGoal.cons {s : DeSt} {X tail T' : Bytes} {D' : Nat} (c : UInt8)
    (g : DeGoal render rec strLen (deStep R render rec strLen s c (X ++ tail).head?) X tail T' D') :
    DeGoal render rec strLen s (c :: X) tail T' D' := g

/-- `snprintf` of a text that fits the remaining space -/
theorem deSnprintf_fit (s : DeSt) (T : Bytes) (c : UInt8) (a : DArg) (hl : s.loc = T.length)
    (hlen : s.buf.data.length = strLen) (hd : s.buf.data.take T.length = T)
    (hfit : T.length + (render (s.mini ++ [c]) a).length < strLen) :
    (deSnprintf R render strLen s c a).ret = s.ret ∧
    (deSnprintf R render strLen s c a).loc = (T ++ render (s.mini ++ [c]) a).length ∧
    (deSnprintf R render strLen s c a).buf.data.length = strLen ∧
    (deSnprintf R render strLen s c a).buf.data.take (T ++ render (s.mini ++ [c]) a).length =
      T ++ render (s.mini ++ [c]) a := by
  unfold deSnprintf miniPush
  simp only []
  have hsz : subSz strLen s.loc = strLen - s.loc := subSz_of_le (by omega)
  rw [hsz]
  have hne : ¬ (strLen - s.loc = 0) := by omega
  have htk : (render (s.mini ++ [c]) a).take (strLen - s.loc - 1) = render (s.mini ++ [c]) a :=
    List.take_of_length_le (by omega)
  simp only [hne, if_false, htk]
  have hst := Buf.store_take s.buf s.loc (render (s.mini ++ [c]) a ++ [0])
    (by simp only [List.length_append, List.length_singleton]; omega)
  refine ⟨trivial, by simp [hl], hst.2.trans hlen, ?_⟩
  have h1 := hst.1
  rw [hl, hd, ← List.append_assoc] at h1
  have h2 : T.length + (render (s.mini ++ [c]) a ++ [0]).length = (T ++ render (s.mini ++ [c]) a).length + 1 := by
    simp only [List.length_append, List.length_singleton]; omega
  rw [h2] at h1
  rw [hl]
  exact take_of_take_succ _ _ _ h1

/-- the code after the `switch`: `string[location] = '\0'` -/
theorem deAfter_sync (t : DeSt) (T' : Bytes) (D' : Nat) (hr : t.ret = none) (hdir : t.inDir = false)
    (hrun : t.run = []) (hl : t.loc = T'.length) (hlen : t.buf.data.length = strLen)
    (hd : t.buf.data.take T'.length = T') (hdp : t.dpos = D') (hfit : T'.length < strLen) :
    DeSync strLen (deAfter R strLen t) T' [] D' := by
  have hge : ¬ (t.loc ≥ strLen) := by omega
  have hs : deAfter R strLen t = { t with loc := t.loc, buf := t.buf.store t.loc [0] } := by
    simp [deAfter, R, Cfg.repaired, hge]
  rw [hs]
  have hst := Buf.store_take t.buf t.loc [0] (by simp only [List.length_singleton]; omega)
  refine ⟨hr, hdir, hl, hrun, hdp, hst.2.trans hlen, ?_⟩
  have h1 := hst.1
  rw [hl, hd] at h1
  rw [hl]
  exact h1

/-- a conversion character, given what the `switch` does with it -/
theorem deGoal_of_step (s : DeSt) (T : Bytes) (D : Nat) (M : Bytes) (tl tll : Bool) (c : UInt8) (a : DArg) (n : Nat)
    (tail : Bytes) (h : DeDir strLen s T D M tl tll)
    (hfit : T.length + (render (M ++ [c]) a).length < strLen)
    (hs : ∀ pk, deStep R render rec strLen s c pk =
      deAfter R strLen { deSnprintf R render strLen s c a with dpos := s.dpos + n, inDir := false, run := [] }) :
    DeGoal render rec strLen s [c] tail (T ++ render (M ++ [c]) a) (D + n) := by
  refine ⟨deStep R render rec strLen s c tail.head?, rfl, ?_⟩
  rw [hs]
  obtain ⟨f1, f2, f3, f4⟩ := deSnprintf_fit render strLen s T c a h.loc h.len h.data (by rw [h.mini]; exact hfit)
  rw [h.mini] at f2 f4
  exact deAfter_sync strLen _ _ _ (f1.trans h.ret) rfl rfl f2 f3 f4 (by simp [h.dpos])
    (by simp only [List.length_append]; omega)

/-- the second '%' of "%%" -/
theorem deGoal_pct2 (s : DeSt) (T : Bytes) (D : Nat) (tail : Bytes) (h : DeDir strLen s T D [0x25] false false)
    (hfit : T.length + 1 < strLen) : DeGoal render rec strLen s [0x25] tail (T ++ [0x25]) D := by
  have hmf := miniFull_false s (by rw [h.mini]; decide)
  have hcls : classify 0x25 = .pct := by decide
  have hcl : R.clamp = true := rfl
  have h1 : subSz strLen 1 = strLen - 1 := subSz_of_le (by omega)
  have hlt : s.loc < strLen - 1 := by rw [h.loc]; omega
  refine ⟨deStep R render rec strLen s 0x25 tail.head?, rfl, ?_⟩
  have hs : deStep R render rec strLen s 0x25 tail.head? =
      deAfter R strLen { s with buf := s.buf.store s.loc [0x25], loc := s.loc + 1, inDir := false, run := [] } := by
    simp [deStep, h.ret, h.dir, hmf, hcls, hcl, h1, hlt]
  rw [hs]
  have hst := Buf.store_take s.buf s.loc [0x25] (by simp only [List.length_singleton]; rw [h.len]; omega)
  refine deAfter_sync strLen _ (T ++ [0x25]) D ?_ rfl rfl ?_ ?_ ?_ ?_ ?_
  · exact h.ret
  · simp [h.loc]
  · exact hst.2.trans h.len
  · have hT : s.buf.data.take s.loc = T := by rw [h.loc]; exact h.data
    have h1 := hst.1
    rw [hT] at h1
    simpa [h.loc] using h1
  · exact h.dpos
  · simp only [List.length_append, List.length_singleton]; omega

/-- **the conversion character**: the decoder finds the argument the encoder stored at `data_pos`,
    prints it with the mini format, and steps over exactly the bytes the encoder used -/
theorem deGoal_conv (s : DeSt) (T : Bytes) (D : Nat) (M : Bytes) (d : Dir) (v : Arg) (Rr tail : Bytes)
    (h : DeDir strLen s T D M (deTl d.mod) (deTll d.mod)) (hM : M.length ≤ 17) (hok : argOk d v = true)
    (hrec : rec.drop D = encArg d v ++ Rr)
    (hfit : T.length + (render (M ++ [d.conv]) (dargRec d v)).length < strLen) :
    DeGoal render rec strLen s [d.conv] tail (T ++ render (M ++ [d.conv]) (dargRec d v))
      (D + (encArg d v).length) := by
  have hmf := miniFull_false s (by rw [h.mini]; exact hM)
  have hsl : v.slot < 18446744073709551616 := by simpa using Arg.slot_lt v
  unfold dargRec at hfit ⊢
  unfold encArg at hrec ⊢
  rcases argOk_cls d v hok with hcls | hcls | hcls | hcls | hcls <;> simp only [hcls] at hrec hfit ⊢
  · -- d i o u x X
    unfold dargOf at hfit ⊢
    simp only [hcls] at hfit ⊢
    cases hm : d.mod <;> simp only [hm, deTl, deTll] at h hrec hfit ⊢
    all_goals
      have hrb := recBytes_of_drop rec _ Rr D hrec
      rw [le_length] at hrb
      rw [le_length]
      simp only [SIZEOF_INT, SIZEOF_LONG, SIZEOF_LLONG] at hrb ⊢
      refine deGoal_of_step render rec strLen s T D M _ _ d.conv _ _ tail h hfit (fun pk => ?_)
      simp [deStep, h.ret, h.dir, hmf, hcls, h.tl, h.tll, h.dpos, hrb, unle_le,
        SIZEOF_LONG, SIZEOF_LLONG, SIZEOF_INT, Nat.mod_eq_of_lt hsl]
  · -- e f g a
    unfold dargOf at hfit ⊢
    simp only [hcls] at hfit ⊢
    have hrb := recBytes_of_drop rec _ Rr D hrec
    rw [le_length] at hrb
    rw [le_length]
    simp only [SIZEOF_DOUBLE] at hrb ⊢
    refine deGoal_of_step render rec strLen s T D M _ _ d.conv _ _ tail h hfit (fun pk => ?_)
    simp [deStep, h.ret, h.dir, hmf, hcls, h.dpos, hrb, unle_le, SIZEOF_DOUBLE, Nat.mod_eq_of_lt hsl]
  · -- c
    unfold dargOf at hfit ⊢
    simp only [hcls] at hfit ⊢
    have hgd := getD_of_drop rec Rr _ D (by simpa [le] using hrec)
    have hgd' : rec[D]?.getD 0 = UInt8.ofNat (v.slot % 256) := by
      simpa [List.getD_eq_getElem?_getD] using hgd
    have hto : (UInt8.ofNat (v.slot % 256)).toNat = v.slot % 256 := by
      simp only [UInt8.toNat_ofNat']
      omega
    rw [le_length]
    refine deGoal_of_step render rec strLen s T D M _ _ d.conv _ _ tail h hfit (fun pk => ?_)
    simp [deStep, h.ret, h.dir, hmf, hcls, h.dpos, hgd', hto]
  · -- s
    have hnz := storedStr_no_zero d v
    have hcs : cstr (rec.drop D) = storedStr d v := by
      rw [hrec, List.append_assoc]
      exact cstr_append_zero _ _ hnz
    have hlen : (storedStr d v ++ [0]).length = (storedStr d v).length + 1 := by simp
    rw [hlen]
    refine deGoal_of_step render rec strLen s T D M _ _ d.conv _ _ tail h hfit (fun pk => ?_)
    simp [deStep, h.ret, h.dir, hmf, hcls, h.dpos, hcs, Nat.add_assoc]
  · -- p
    unfold dargOf at hfit ⊢
    simp only [hcls] at hfit ⊢
    have hrb := recBytes_of_drop rec _ Rr D hrec
    rw [le_length] at hrb
    rw [le_length]
    simp only [SIZEOF_PTRDIFF] at hrb ⊢
    refine deGoal_of_step render rec strLen s T D M _ _ d.conv _ _ tail h hfit (fun pk => ?_)
    simp [deStep, h.ret, h.dir, hmf, hcls, h.dpos, hrb, unle_le, SIZEOF_PTRDIFF, SIZEOF_VOIDP,
      Nat.mod_eq_of_lt hsl]

/-- length modifier and conversion character -/
theorem deGoal_modconv (s : DeSt) (T : Bytes) (D : Nat) (M : Bytes) (d : Dir) (v : Arg) (Rr tail : Bytes)
    (h : DeDir strLen s T D M false false) (hM : M.length + (modChars d.mod).length ≤ 17)
    (hok : argOk d v = true) (hrec : rec.drop D = encArg d v ++ Rr)
    (hfit : T.length + (render (M ++ (modChars d.mod ++ [d.conv])) (dargRec d v)).length < strLen) :
    DeGoal render rec strLen s (modChars d.mod ++ [d.conv]) tail
      (T ++ render (M ++ (modChars d.mod ++ [d.conv])) (dargRec d v)) (D + (encArg d v).length) := by
  obtain ⟨s', e, hs'⟩ := deRun_mod render rec strLen d.mod d.conv tail s T D M h hM (conv_ne_l d v hok)
  refine DeGoal.pre render rec strLen (by simpa using e) ?_
  rw [← List.append_assoc] at hfit ⊢
  exact deGoal_conv render rec strLen s' T D _ d v Rr tail hs' (by simp only [List.length_append]; omega) hok hrec hfit

end
end QbVerif.Ser
