/-
Skiplist, all levels: the search loop of lookup/put/rm over the whole level structure
(`search_levels`): it either returns a node carrying the key, or ends on level 0 with
`update[l]` = the last node of the level-`l` chain whose key is below the key, for every level.
-/
import QbVerif.Lemmas.SlmLevel

namespace QbVerif.Skiplist
open QbVerif.Map
set_option linter.unusedSimpArgs false

/-- the level structure: one pointer chain per level, each a sub-sequence of the one below -/
structure Levels (s : SL) (ids : List NodeId) (ch : Nat → List NodeId) : Prop where
  ch0 : ch 0 = ids
  chain : ∀ l, l < LEVEL_MAX + 1 → LChain s l s.header (ch l)
  sub : ∀ l, (ch (l + 1)).Sublist (ch l)

theorem Levels.sub_ids {s ids ch} (h : Levels s ids ch) : ∀ l, (ch l).Sublist ids
  | 0 => by rw [h.ch0]; exact List.Sublist.refl _
  | l + 1 => (h.sub l).trans (h.sub_ids l)

theorem Levels.sub_le {s ids ch} (h : Levels s ids ch) {a b : Nat} (hab : a ≤ b) : (ch b).Sublist (ch a) := by
  induction hab with
  | refl => exact List.Sublist.refl _
  | step _ ih => exact (h.sub _).trans ih

theorem LChain.from_mem {s : SL} {l : Nat} : ∀ {x L y}, LChain s l x L → y ∈ x :: L →
    ∃ pre R, x :: L = pre ++ y :: R ∧ LChain s l y R
  | x, [], y, h, hy => by
    simp only [List.mem_singleton] at hy
    subst hy
    exact ⟨[], [], rfl, h⟩
  | x, i :: L, y, h, hy => by
    by_cases hyx : y = x
    · subst hyx; exact ⟨[], i :: L, rfl, h⟩
    · have hy' : y ∈ i :: L := by
        rcases List.mem_cons.1 hy with h | h
        · exact absurd h hyx
        · exact h
      obtain ⟨pre, R, he, hc⟩ := LChain.from_mem h.2 hy'
      exact ⟨x :: pre, R, by rw [List.cons_append, ← he], hc⟩

theorem walkL_append (s : SL) (k : Key) : ∀ (A : List NodeId) (x y : NodeId) (R : List NodeId),
    (∀ z ∈ A, keyLt s k z = true) → keyLt s k y = true → walkL s k x (A ++ y :: R) = walkL s k y R
  | [], x, y, R, _, hy => by simp [walkL, hy]
  | a :: A, x, y, R, hA, hy => by
    simp only [List.cons_append, walkL, hA a (by simp), if_true]
    exact walkL_append s k A a y R (fun z hz => hA z (List.mem_cons_of_mem _ hz)) hy

theorem stopL_append (s : SL) (k : Key) : ∀ (A : List NodeId) (R : List NodeId),
    (∀ z ∈ A, keyLt s k z = true) → stopL s k (A ++ R) = stopL s k R
  | [], R, _ => rfl
  | a :: A, R, hA => by
    simp only [List.cons_append, stopL, hA a (by simp), if_true]
    exact stopL_append s k A R (fun z hz => hA z (List.mem_cons_of_mem _ hz))

theorem walkL_or (s : SL) (k : Key) : ∀ (x : NodeId) (L : List NodeId), walkL s k x L = x ∨ keyLt s k (walkL s k x L) = true
  | x, [] => Or.inl rfl
  | x, i :: L => by
    simp only [walkL]
    split
    · next h =>
      rcases walkL_or s k i L with h1 | h1
      · right; rw [h1]; exact h
      · right; exact h1
    · exact Or.inl rfl

theorem stopL_mem {s : SL} {k : Key} : ∀ {L : List NodeId} {i}, stopL s k L = some i → i ∈ L ∧ keyLt s k i = false
  | [], _, h => by simp [stopL] at h
  | a :: L, i, h => by
    simp only [stopL] at h
    split at h
    · obtain ⟨h1, h2⟩ := stopL_mem h
      exact ⟨List.mem_cons_of_mem _ h1, h2⟩
    · next hl => cases h; exact ⟨by simp, by simpa using hl⟩

/-- elements before a keyLt element of a key-monotone list are keyLt -/
theorem prefix_keyLt {s : SL} {k : Key} {A : List NodeId} {y : NodeId} {R : List NodeId}
    (hmono : (A ++ y :: R).Pairwise (fun a b => keyLt s k b = true → keyLt s k a = true)) (hy : keyLt s k y = true) :
    ∀ z ∈ A, keyLt s k z = true := by
  intro z hz
  have := List.pairwise_append.1 hmono
  exact this.2.2 z hz y (by simp) hy

/-- the data the search relies on -/
structure SearchCtx (s : SL) (key : Key) (ids : List NodeId) (ch : Nat → List NodeId) (m : NodeId → Nat) : Prop where
  lv : Levels s ids ch
  hx : XOk s s.header
  alloc : Alloc s ids
  meas : (s.header :: ids).Pairwise (fun a b => m b < m a)
  mono : ids.Pairwise (fun a b => keyLt s key b = true → keyLt s key a = true)
  nodup : (s.header :: ids).Nodup

theorem search_levels {s : SL} {key : Key} (stopEq : Bool) {ids ch m} (C : SearchCtx s key ids ch m) :
    ∀ (lv : Nat), lv ≤ LEVEL_MAX + 1 → ∀ (x : NodeId) (u : Nat → NodeId) (fuel : Nat),
    (lv = 0 ∨ x ∈ s.header :: ch (lv - 1)) → (x = s.header ∨ keyLt s key x = true) → m x + lv + 1 ≤ fuel →
    (stopEq = true ∧ ∃ i ∈ ids, keyIs s key i = true ∧ s.search key stopEq fuel x lv u = .ok (.inl i)) ∨
    (∃ u', s.search key stopEq fuel x lv u = .ok (.inr (if lv = 0 then x else u' 0, u')) ∧
      (∀ l, l < lv → u' l = walkL s key s.header (ch l)) ∧ (∀ l, lv ≤ l → u' l = u l) ∧
      (stopEq = true → 1 ≤ lv → ¬∃ i, stopL s key (ch 0) = some i ∧ keyIs s key i = true))
  | 0, _, x, u, fuel, _, _, hf => by
    obtain ⟨f, rfl⟩ : ∃ f, fuel = f + 1 := ⟨fuel - 1, by omega⟩
    right
    exact ⟨u, by simp [SL.search], fun l hl => by omega, fun l _ => rfl, fun _ h => by omega⟩
  | l + 1, hl, x, u, fuel, hxm, hxk, hf => by
    have hxm' : x ∈ s.header :: ch l := by
      rcases hxm with h | h
      · omega
      · simpa using h
    have hl9 : l < LEVEL_MAX + 1 := by omega
    obtain ⟨pre, R, hsplit, hcR⟩ := LChain.from_mem (C.lv.chain l hl9) hxm'
    have hsubl : (s.header :: ch l).Sublist (s.header :: ids) := (C.lv.sub_ids l).cons_cons _
    have hsuf : (x :: R).Sublist (s.header :: ch l) := by rw [hsplit]; exact List.sublist_append_right _ _
    have hxok : XOk s x := by
      rcases List.mem_cons.1 ((hsuf.trans hsubl).subset (by simp : x ∈ x :: R)) with h | h
      · rw [h]; exact C.hx
      · obtain ⟨n, a, kk, h1, h2, _⟩ := C.alloc x h; exact ⟨n, a, h1, h2⟩
    have hRids : ∀ j ∈ R, j ∈ ids := by
      intro j hj
      have hj1 : j ∈ s.header :: ch l := hsuf.subset (List.mem_cons_of_mem _ hj)
      have hj2 : j ∈ x :: R := List.mem_cons_of_mem _ hj
      have hnd : (s.header :: ch l).Nodup := List.Nodup.sublist hsubl C.nodup
      rw [hsplit] at hnd hj1
      -- j is not the header: the header can only be the first element of the split
      rcases List.mem_cons.1 (hsubl.subset (hsuf.subset hj2)) with h | h
      · exfalso
        subst h
        cases pre with
        | nil =>
          simp only [List.nil_append, List.cons.injEq] at hsplit
          rw [← hsplit.1] at hnd
          exact (List.nodup_cons.1 (by simpa using hnd)).1 (by rw [hsplit.1] at hj ⊢; exact hj)
        | cons p pre' =>
          simp only [List.cons_append, List.cons.injEq] at hsplit
          have : p = s.header := hsplit.1.symm
          subst this
          simp only [List.cons_append, List.nodup_cons, List.mem_append, List.mem_cons, not_or] at hnd
          exact hnd.1.2.2 hj
      · exact h
    have halR : Alloc s R := fun j hj => C.alloc j (hRids j hj)
    have hmR : (x :: R).Pairwise (fun a b => m b < m a) := List.Pairwise.sublist (hsuf.trans hsubl) C.meas
    -- the walk from the header over the whole chain ends where the walk from `x` over `R` ends
    have hcanon : walkL s key s.header (ch l) = walkL s key x R ∧ stopL s key (ch l) = stopL s key R := by
      cases pre with
      | nil =>
        simp only [List.nil_append, List.cons.injEq] at hsplit
        rw [hsplit.1, hsplit.2]; exact ⟨rfl, rfl⟩
      | cons p pre' =>
        simp only [List.cons_append, List.cons.injEq] at hsplit
        obtain ⟨hp, hch⟩ := hsplit
        subst hp
        have hxk' : keyLt s key x = true := by
          rcases hxk with h | h
          · exfalso
            have hnd : (s.header :: ch l).Nodup := List.Nodup.sublist hsubl C.nodup
            rw [hch] at hnd
            simp only [List.nodup_cons, List.mem_append, List.mem_cons, not_or] at hnd
            exact hnd.1.2.1 h.symm
          · exact h
        have hmono : (pre' ++ x :: R).Pairwise (fun a b => keyLt s key b = true → keyLt s key a = true) := by
          rw [← hch]; exact List.Pairwise.sublist (C.lv.sub_ids l) C.mono
        have hpre := prefix_keyLt hmono hxk'
        rw [hch]
        refine ⟨walkL_append s key pre' s.header x R hpre hxk', ?_⟩
        have : pre' ++ x :: R = (pre' ++ [x]) ++ R := by simp
        rw [this]
        exact stopL_append s key (pre' ++ [x]) R (by
          intro z hz
          rcases List.mem_append.1 hz with h | h
          · exact hpre z h
          · simp only [List.mem_singleton] at h; rw [h]; exact hxk')
    rcases level_walk s key stopEq m l R x fuel u hcR hxok halR hmR (by omega) with
      ⟨hs, i, hi1, hi2, hi3⟩ | ⟨hno, f', u1, hf', hsr, hu1, hu2⟩
    · left
      exact ⟨hs, i, hRids i (stopL_mem hi1).1, hi2, hi3⟩
    · have hw := walkL_mem s key x R
      have hwk : walkL s key x R = s.header ∨ keyLt s key (walkL s key x R) = true := by
        rcases walkL_or s key x R with h | h
        · rw [h]; exact hxk
        · exact Or.inr h
      have hwm : l = 0 ∨ walkL s key x R ∈ s.header :: ch (l - 1) := by
        by_cases hl0 : l = 0
        · exact Or.inl hl0
        · right
          have h1 : walkL s key x R ∈ s.header :: ch l := hsuf.subset hw
          have h2 : (s.header :: ch l).Sublist (s.header :: ch (l - 1)) := by
            have := C.lv.sub (l - 1)
            have he : l - 1 + 1 = l := by omega
            rw [he] at this
            exact this.cons_cons _
          exact h2.subset h1
      rcases search_levels stopEq C l (by omega) (walkL s key x R) u1 f' hwm hwk hf' with
        ⟨hs, i, hi1, hi2, hi3⟩ | ⟨u2, hs2, hu21, hu22, hu23⟩
      · left; exact ⟨hs, i, hi1, hi2, by rw [hsr, hi3]⟩
      · right
        refine ⟨u2, ?_, ?_, ?_, ?_⟩
        · rw [hsr, hs2]
          by_cases hl0 : l = 0
          · subst hl0
            simp only [if_true, Nat.zero_add, Nat.add_one_ne_zero, if_false]
            rw [hu22 0 (Nat.le_refl 0), hu1]
          · simp [hl0]
        · intro l' hl'
          by_cases h : l' < l
          · exact hu21 l' h
          · have : l' = l := by omega
            subst this
            rw [hu22 l' (Nat.le_refl _), hu1, hcanon.1]
        · intro l' hl'
          rw [hu22 l' (by omega), hu2 l' (by omega)]
        · intro hse _
          by_cases hl0 : l = 0
          · subst hl0
            rw [hcanon.2]
            intro ⟨i, h1, h2⟩
            exact hno ⟨hse, i, h1, h2⟩
          · exact hu23 hse (by omega)

end QbVerif.Skiplist
