/-
C01 — the ghost histories `writesOk` / `readsOk` of the concurrent ring model are what the two
threads observe: `readsOk` = the chunks returned by the completed reader calls, `writesOk` = the
payloads of the completed writer calls that returned success (plus the call in progress once
it has stored MAGIC, without semaphore).  Purely syntactic invariants (no memory reasoning).
-/
import QbVerif.Model.RingConc

namespace QbVerif.RingConcLemmas
open QbVerif.Ring QbVerif.RingConc

/-- the chunks returned by a list of reader results -/
def okReads (outs : List Out) : List (List Nat) :=
  outs.filterMap (fun o => match o with | .data bs => some bs | _ => none)

/-- the payloads of the writer calls that returned success -/
def okWrites (prog : List WOp) (outs : List Out) : List (List Nat) :=
  (prog.zip outs).filterMap (fun po => match po.2 with | .wrote _ => some po.1.data | _ => none)

theorem okReads_append (a b : List Out) : okReads (a ++ b) = okReads a ++ okReads b := by
  unfold okReads; rw [List.filterMap_append]

/-- what a completed call adds to the successful writes -/
def addOf (op : WOp) (o : Out) : List (List Nat) := match o with | .wrote _ => [op.data] | _ => []

theorem okWrites_snoc (prog : List WOp) (outs : List Out) (op : WOp) (o : Out)
    (h : prog.length = outs.length) :
    okWrites (prog ++ [op]) (outs ++ [o]) = okWrites prog outs ++ addOf op o := by
  unfold okWrites addOf
  rw [List.zip_append h, List.filterMap_append]
  congr 1
  cases o <;> rfl

/-! ### reader -/

theorem okReads_snoc_data (a : List Out) (bs : List Nat) : okReads (a ++ [.data bs]) = okReads a ++ [bs] := by
  rw [okReads_append]; rfl

theorem okReads_snoc_err (a : List Out) (e : Err) : okReads (a ++ [.err e]) = okReads a := by
  rw [okReads_append]; simp [okReads]

theorem okReads_snoc_timedOut (a : List Out) : okReads (a ++ [.timedOut]) = okReads a := by
  rw [okReads_append]; simp [okReads]

theorem rstep_obs (c : Conf) (h : c.readsOk = okReads c.rOuts) :
    (rstep c).readsOk = okReads (rstep c).rOuts := by
  unfold rstep
  repeat' split
  all_goals (try dsimp only)
  all_goals (repeat' split)
  all_goals first
    | (simp [Conf.rDone, Conf.addLin, okReads_snoc_data, okReads_snoc_err, okReads_snoc_timedOut, h]; done)
    | (cases c.rb.sem <;>
        simp [Conf.rDone, Conf.addLin, okReads_snoc_data, okReads_snoc_err, okReads_snoc_timedOut, h]; done)

theorem wstep_robs (c : Conf) : (wstep c).readsOk = c.readsOk ∧ (wstep c).rOuts = c.rOuts := by
  unfold wstep
  repeat' split
  all_goals (try dsimp only)
  all_goals (repeat' split)
  all_goals first
    | (simp [Conf.wDone, Conf.addLin, Conf.linWrite]; done)
    | (cases c.rb.sem <;> simp [Conf.wDone, Conf.addLin, Conf.linWrite]; done)

theorem sem_isSome_post (r : Rb) : r.post.sem.isSome = r.sem.isSome := by
  unfold Rb.post; cases r.sem <;> rfl

theorem sem_none_post {r : Rb} : r.post.sem = none ↔ r.sem = none := by
  unfold Rb.post; cases r.sem <;> simp

theorem sem_none_tryWait {r r1 : Rb} (h : r.tryWait = some r1) : r1.sem = none ↔ r.sem = none := by
  unfold Rb.tryWait at h
  split at h
  · cases h; rfl
  · cases h
  · rename_i n hs; cases h; simp [hs]

/-- a reader step leaves the writer's side alone; of the semaphore it keeps the mode -/
theorem rstep_wside (c : Conf) : (rstep c).writesOk = c.writesOk ∧ (rstep c).wOuts = c.wOuts ∧
    (rstep c).wprog = c.wprog ∧ (rstep c).wpc = c.wpc ∧ ((rstep c).rb.sem = none ↔ c.rb.sem = none) := by
  unfold rstep
  repeat' split
  all_goals (try dsimp only)
  all_goals (repeat' split)
  all_goals first
    | (simp [Conf.rDone, Conf.addLin, Rb.setMagic, sem_none_post]; done)
    | (rename_i hw _; simp [Conf.rDone, Conf.addLin, sem_none_tryWait hw]; done)
    | (cases c.rb.sem <;> simp [Conf.rDone, Conf.addLin, Rb.setMagic, sem_none_post]; done)

/-! ### writer -/

/-- the write in progress has taken effect but has not returned yet -/
def inflightW (c : Conf) : List (List Nat) :=
  match c.wpc, c.wprog, c.rb.sem with
  | .cmPost, op :: _, none => [op.data]
  | _, _, _ => []

/-- writer-side observation invariant relative to the initial program `prog0` -/
def WObs (prog0 : List WOp) (c : Conf) : Prop :=
  ∃ doneOps, prog0 = doneOps ++ c.wprog ∧ doneOps.length = c.wOuts.length ∧
    c.writesOk = okWrites doneOps c.wOuts ++ inflightW c

theorem inflightW_of_ne {c : Conf} (h : c.wpc ≠ .cmPost) : inflightW c = [] := by
  unfold inflightW; split
  · rename_i e _ _; exact absurd e h
  · rfl

theorem WObs.local {prog0 : List WOp} {c c' : Conf} (h : WObs prog0 c) (h1 : c'.wprog = c.wprog)
    (h2 : c'.wOuts = c.wOuts) (h3 : c'.writesOk = c.writesOk) (h4 : inflightW c' = inflightW c) :
    WObs prog0 c' := by
  obtain ⟨d, a, b, e⟩ := h
  exact ⟨d, by rw [h1]; exact a, by rw [h2]; exact b, by rw [h3, h2, h4]; exact e⟩

/-- the call in progress returns -/
theorem WObs.done {prog0 : List WOp} {c : Conf} {op : WOp} {rest : List WOp} (h : WObs prog0 c)
    (hp : c.wprog = op :: rest) (o : Out) (c' : Conf) (h1 : c'.wprog = rest) (h2 : c'.wOuts = c.wOuts ++ [o])
    (hi : inflightW c' = [])
    (h3 : ∀ pre, c.writesOk = pre ++ inflightW c → c'.writesOk = pre ++ addOf op o) :
    WObs prog0 c' := by
  obtain ⟨d, a, b, e⟩ := h
  refine ⟨d ++ [op], by rw [h1, a, hp]; simp, by rw [h2]; simp [b], ?_⟩
  rw [h2, okWrites_snoc _ _ _ _ b, hi, List.append_nil]
  exact h3 _ e

theorem wstep_wobs (prog0 : List WOp) (c : Conf) (h : WObs prog0 c) : WObs prog0 (wstep c) := by
  cases hp : c.wprog with
  | nil =>
    have e : wstep c = c := by unfold wstep; simp only [hp]
    rw [e]; exact h
  | cons op rest =>
    cases hpc : c.wpc with
    | sfCmp ws rs b =>
      by_cases hf : freeSeen c.rb ws rs < op.data.length + MARGIN
      · have e : wstep c = c.wDone (.err .eagain) := by unfold wstep; simp only [hp, hpc, hf, if_true]
        rw [e]
        refine h.done hp (.err .eagain) _ (by simp [Conf.wDone, hp]) rfl
          (inflightW_of_ne (by simp [Conf.wDone])) ?_
        intro pre e1
        rw [inflightW_of_ne (by rw [hpc]; simp)] at e1
        show c.writesOk = _
        rw [e1]; rfl
      · have e : wstep c = { c with wpc := .alWp } := by unfold wstep; simp only [hp, hpc, hf, if_false]
        rw [e]
        exact h.local rfl rfl rfl (by rw [inflightW_of_ne (by simp), inflightW_of_ne (by rw [hpc]; simp)])
    | cmMg old =>
      cases hs : c.rb.sem with
      | none =>
        have e : wstep c = { c with rb := c.rb.setMagic old MAGIC, wpc := .cmPost, writesOk := c.writesOk ++ [op.data], lin := c.lin ++ [(Op.write op.data, Out.wrote op.data.length)] } := by
          unfold wstep Conf.linWrite; simp only [hp, hpc, hs]
        rw [e]
        obtain ⟨d, a, b, e1⟩ := h
        refine ⟨d, a, b, ?_⟩
        have i0 : inflightW c = [] := inflightW_of_ne (by rw [hpc]; simp)
        have i1 : inflightW { c with rb := c.rb.setMagic old MAGIC, wpc := .cmPost, writesOk := c.writesOk ++ [op.data], lin := c.lin ++ [(Op.write op.data, Out.wrote op.data.length)] } = [op.data] := by
          simp [inflightW, hp, Rb.setMagic, hs]
        rw [i1]; show c.writesOk ++ [op.data] = _
        rw [e1, i0, List.append_nil]
      | some n =>
        have e : wstep c = { c with rb := c.rb.setMagic old MAGIC, wpc := .cmPost } := by
          unfold wstep; simp only [hp, hpc, hs]
        rw [e]
        refine h.local rfl rfl rfl ?_
        rw [inflightW_of_ne (c := c) (by rw [hpc]; simp)]
        simp [inflightW, hp, Rb.setMagic, hs]
    | cmPost =>
      cases hs : c.rb.sem with
      | none =>
        have e : wstep c = ({ c with rb := c.rb.post } : Conf).wDone (.wrote op.data.length) := by
          unfold wstep; simp only [hp, hpc, hs]
        rw [e]
        refine h.done hp (.wrote op.data.length) _ (by simp [Conf.wDone, hp]) rfl
          (inflightW_of_ne (by simp [Conf.wDone])) ?_
        intro pre e1
        have i0 : inflightW c = [op.data] := by simp [inflightW, hpc, hp, hs]
        rw [i0] at e1
        show c.writesOk = _
        rw [e1]; rfl
      | some n =>
        have e : wstep c = (({ c with rb := c.rb.post } : Conf).linWrite op.data).wDone (.wrote op.data.length) := by
          unfold wstep; simp only [hp, hpc, hs]
        rw [e]
        refine h.done hp (.wrote op.data.length) _ (by simp [Conf.wDone, Conf.linWrite, hp]) rfl
          (inflightW_of_ne (by simp [Conf.wDone])) ?_
        intro pre e1
        have i0 : inflightW c = [] := by simp [inflightW, hpc, hp, hs]
        rw [i0] at e1
        show c.writesOk ++ [op.data] = _
        rw [e1, List.append_nil]; rfl
    | idle =>
      refine h.local ?_ ?_ ?_ ?_ <;> simp [wstep, hp, hpc, inflightW]
    | sfRd ws =>
      refine h.local ?_ ?_ ?_ ?_
      · simp only [wstep, hp, hpc]; split <;> exact hp
      · simp only [wstep, hp, hpc]; split <;> rfl
      · simp only [wstep, hp, hpc]; split <;> rfl
      · rw [inflightW_of_ne (c := c) (by rw [hpc]; simp)]
        apply inflightW_of_ne
        simp only [wstep, hp, hpc]; simp
    | alWp => refine h.local ?_ ?_ ?_ ?_ <;> simp [wstep, hp, hpc, inflightW]
    | alSz wp => refine h.local ?_ ?_ ?_ ?_ <;> simp [wstep, hp, hpc, inflightW]
    | alMg wp => refine h.local ?_ ?_ ?_ ?_ <;> simp [wstep, hp, hpc, inflightW]
    | copy wp j =>
      refine h.local ?_ ?_ ?_ ?_ <;> simp only [wstep, hp, hpc] <;> (repeat' split) <;> simp [inflightW, hpc]
    | cmWp => refine h.local ?_ ?_ ?_ ?_ <;> simp [wstep, hp, hpc, inflightW]
    | cmSz old => refine h.local ?_ ?_ ?_ ?_ <;> simp [wstep, hp, hpc, inflightW]
    | cmStep old => refine h.local ?_ ?_ ?_ ?_ <;> simp [wstep, hp, hpc, inflightW]
    | cmNext old new => refine h.local ?_ ?_ ?_ ?_ <;> simp [wstep, hp, hpc, inflightW]
    | cmSetWp old new => refine h.local ?_ ?_ ?_ ?_ <;> simp [wstep, hp, hpc, inflightW]

/-- a reader step keeps the writer-side invariant -/
theorem rstep_wobs (prog0 : List WOp) (c : Conf) (h : WObs prog0 c) : WObs prog0 (rstep c) := by
  obtain ⟨h1, h2, h3, h4, h5⟩ := rstep_wside c
  refine h.local h3 h2 h1 ?_
  unfold inflightW
  rw [h4, h3]
  cases hs : c.rb.sem with
  | none => rw [h5.mpr hs]
  | some n =>
    cases hs' : (rstep c).rb.sem with
    | none => rw [h5.mp hs'] at hs; cases hs
    | some m => cases c.wpc <;> cases c.wprog <;> rfl

theorem init_wobs (rb : Rb) (wprog : List WOp) (rprog : List ROp) : WObs wprog (init rb wprog rprog) :=
  ⟨[], rfl, rfl, rfl⟩

/-- **what the two threads observe is what the ghost histories record**, in every reachable
    configuration -/
theorem run_obs (prog0 : List WOp) (c : Conf) (sched : List Tid) (hr : c.readsOk = okReads c.rOuts)
    (hw : WObs prog0 c) :
    (run c sched).readsOk = okReads (run c sched).rOuts ∧ WObs prog0 (run c sched) := by
  induction sched generalizing c with
  | nil => exact ⟨hr, hw⟩
  | cons t ts ih =>
    cases t with
    | w =>
      refine ih (wstep c) ?_ (wstep_wobs prog0 c hw)
      rw [(wstep_robs c).1, (wstep_robs c).2]; exact hr
    | r => exact ih (rstep c) (rstep_obs c hr) (rstep_wobs prog0 c hw)

/-- the completed calls pair up with the front of the program, so `okWrites` may be taken over
    the whole program -/
theorem okWrites_prefix (d rest : List WOp) (outs : List Out) (h : d.length = outs.length) :
    okWrites (d ++ rest) outs = okWrites d outs := by
  unfold okWrites
  congr 1
  induction d generalizing outs with
  | nil => cases outs with
    | nil => simp
    | cons o os => simp at h
  | cons x xs ih =>
    cases outs with
    | nil => simp at h
    | cons o os => simp only [List.cons_append, List.zip_cons_cons]; rw [ih os (by simpa using h)]

end QbVerif.RingConcLemmas
