/-
C01 — the ghost histories `writesOk` / `readsOk` of the concurrent ring model are what the two
threads observe: `readsOk` = the chunks returned by the completed reader calls, `writesOk` = the
payloads of the completed writer calls that returned success (plus the call in progress once
it has stored MAGIC, without semaphore).  Purely syntactic invariants (no memory reasoning).
-/
import QbVerif.Model.RingConc

namespace QbVerif.RingConcLemmas
open QbVerif.Ring QbVerif.RingConc

/-- the chunks returned by a list of reader results -/
def okReads (outs : List Out) : List (List Nat) :=
  outs.filterMap (fun o => match o with | .data bs => some bs | _ => none)

/-- the payloads of the writer calls that returned success -/
def okWrites (prog : List WOp) (outs : List Out) : List (List Nat) :=
  (prog.zip outs).filterMap (fun po => match po.2 with | .wrote _ => some po.1.data | _ => none)

theorem okReads_append (a b : List Out) : okReads (a ++ b) = okReads a ++ okReads b := by
  unfold okReads; rw [List.filterMap_append]

theorem okWrites_snoc (prog : List WOp) (outs : List Out) (op : WOp) (o : Out)
    (h : prog.length = outs.length) :
    okWrites (prog ++ [op]) (outs ++ [o]) =
      okWrites prog outs ++ (match o with | .wrote _ => [op.data] | _ => []) := by
  unfold okWrites
  rw [List.zip_append h, List.filterMap_append]
  congr 1
  cases o <;> rfl

/-! ### reader -/

theorem rstep_obs (c : Conf) (h : c.readsOk = okReads c.rOuts) :
    (rstep c).readsOk = okReads (rstep c).rOuts := by
  unfold rstep
  repeat' split
  all_goals
    simp only [Conf.rDone, Conf.addLin, okReads_append, ← h]
    try simp [okReads]
  all_goals
    cases c.rb.sem <;> simp [Conf.rDone, Conf.addLin, okReads_append, ← h, okReads]

theorem wstep_robs (c : Conf) : (wstep c).readsOk = c.readsOk ∧ (wstep c).rOuts = c.rOuts := by
  unfold wstep
  repeat' split
  all_goals first
    | (cases c.rb.sem <;> simp [Conf.wDone, Conf.addLin, Conf.linWrite]; done)
    | simp [Conf.wDone, Conf.addLin, Conf.linWrite]

/-! ### writer -/

/-- the write in progress has taken effect but has not returned yet -/
def inflightW (c : Conf) : List (List Nat) :=
  match c.wpc, c.wprog, c.rb.sem with
  | .cmPost, op :: _, none => [op.data]
  | _, _, _ => []

/-- writer-side observation invariant relative to the initial program `prog0` -/
def WObs (prog0 : List WOp) (c : Conf) : Prop :=
  ∃ doneOps, prog0 = doneOps ++ c.wprog ∧ doneOps.length = c.wOuts.length ∧
    c.writesOk = okWrites doneOps c.wOuts ++ inflightW c

theorem sem_isSome_post (r : Rb) : r.post.sem.isSome = r.sem.isSome := by
  unfold Rb.post; cases r.sem <;> rfl

theorem sem_none_post {r : Rb} : r.post.sem = none ↔ r.sem = none := by
  unfold Rb.post; cases r.sem <;> simp

theorem sem_none_tryWait {r r1 : Rb} (h : r.tryWait = some r1) : r1.sem = none ↔ r.sem = none := by
  unfold Rb.tryWait at h
  split at h
  · cases h; rfl
  · cases h
  · rename_i n hs; cases h; simp [hs]

end QbVerif.RingConcLemmas
