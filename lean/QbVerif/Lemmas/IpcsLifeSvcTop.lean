import QbVerif.Lemmas.IpcsLifeSvcExec

/-! C04 — service count: `exec` leaves `svcGone` alone; request dispatch (single, bursts), hang-up,
    rate limit, retry jobs preserve `SvcInv`. -/
namespace QbVerif.IpcsLife

@[simp] theorem gone_upd (s : St) (c : Nat) (f : Conn → Conn) : (s.upd c f).svcGone = s.svcGone := rfl
@[simp] theorem gone_emit (s : St) (e : Ev) : (s.emit e).svcGone = s.svcGone := rfl
@[simp] theorem gone_touch (s : St) (c : Nat) : (s.touch c).svcGone = s.svcGone := rfl
@[simp] theorem gone_cb (s : St) (k : Kind) (c : Nat) (r : Int) : (s.cb k c r).svcGone = s.svcGone := rfl
@[simp] theorem gone_touchSvc (s : St) : s.touchSvc.svcGone = s.svcGone := by
  unfold St.touchSvc; split <;> rfl
@[simp] theorem gone_svcUnref (s : St) : s.svcUnref.svcGone = s.svcGone := by
  simp only [St.svcUnref]; split
  · simp
  · split <;> simp
@[simp] theorem gone_dec (s : St) (c : Nat) (g : Conn → Conn) : (s.dec c g).svcGone = s.svcGone := by
  simp only [St.dec]; split
  · simp
  · split <;> simp
@[simp] theorem gone_ref (s : St) (c : Nat) (g : Conn → Conn) : (s.ref c g).svcGone = s.svcGone := by
  simp only [St.ref]; split <;> simp
@[simp] theorem gone_pop (s : St) (k : Kind) : (s.pop k).2.svcGone = s.svcGone := (svEq_pop s k).gone
@[simp] theorem gone_zeroPre (s : St) (c : Nat) : (zeroPre s c).svcGone = s.svcGone := rfl
@[simp] theorem gone_zeroPost (s : St) (c : Nat) : (zeroPost s c).svcGone = s.svcGone := by
  simp only [zeroPost]; split
  · rfl
  · split <;> simp
@[simp] theorem gone_discActive (s : St) (c : Nat) : (discActive s c).svcGone = s.svcGone := by simp [discActive]
@[simp] theorem gone_closedPre (s : St) (c : Nat) (r : Int) : (closedPre s c r).svcGone = s.svcGone := rfl
@[simp] theorem gone_closedRetry (s : St) (c : Nat) : (closedRetry s c).svcGone = s.svcGone := rfl
@[simp] theorem gone_closedDone (s : St) (c : Nat) : (closedDone s c).svcGone = s.svcGone := by simp [closedDone]
@[simp] theorem gone_appD (s : St) (c : Nat) : (appD s c).svcGone = s.svcGone := rfl
@[simp] theorem gone_appR (s : St) (c : Nat) : (appR s c).svcGone = s.svcGone := by simp [appR]
@[simp] theorem gone_appU (s : St) (c : Nat) : (appU s c).svcGone = s.svcGone := by simp [appU]
@[simp] theorem gone_appE (s : St) (c : Nat) : (appE s c).svcGone = s.svcGone := rfl
theorem gone_touchAll (l : List Nat) (s : St) : (l.foldl (fun s c => s.touch c) s).svcGone = s.svcGone := by
  induction l generalizing s with
  | nil => rfl
  | cons a r ih => simp [List.foldl_cons, ih]
@[simp] theorem gone_appI (s : St) : (appI s).svcGone = s.svcGone := by
  simp [appI, gone_touchAll]

theorem exec_gone : ∀ (f : Nat) (s : St) (call : Call), (exec f s call).svcGone = s.svcGone
  | 0, _, _ => rfl
  | f+1, s, call => by
    have ih := exec_gone f
    simp only [exec]
    split
    · rfl
    · cases call with
      | ops self os => cases os <;> simp [ih]
      | zero c => simp only []; split <;> simp [ih]
      | disc c =>
        simp only []
        split
        · simp
        · split
          · simp
          · simp [ih]
          · split
            · simp
            · split
              · simp [ih]
              · split
                · simp [ih]
                · split <;> simp [ih]
      | app self o =>
        cases o <;> simp only [] <;> split <;> simp [ih]

theorem inR_nc {s s' : St} {c : Nat} (e : s'.nconn = s.nconn) (hr : inR s c) : inR s' c := by
  unfold inR; rw [e]; exact hr

@[simp] theorem nconn_brOpenD (s : St) (c : Nat) : (brOpenD s c).nconn = s.nconn := by
  unfold brOpenD; split <;> simp
@[simp] theorem nconn_brCloseD (s : St) (c : Nat) : (brCloseD s c).nconn = s.nconn := by simp [brCloseD]
@[simp] theorem gone_brOpenD (s : St) (c : Nat) : (brOpenD s c).svcGone = s.svcGone := by
  unfold brOpenD; split <;> simp
@[simp] theorem gone_brCloseD (s : St) (c : Nat) : (brCloseD s c).svcGone = s.svcGone := by simp [brCloseD]

theorem brOpenD_svc {s : St} {p : Nat} (h : SvcInv s p) (c : Nat) (hr : inR s c) : SvcInv (brOpenD s c) p := by
  unfold brOpenD
  split
  · exact h.ref c _ (fun _ => rfl) hr
  · exact h.touch c

theorem brCloseD_svc {s : St} {p : Nat} (h : SvcInv s p) (c : Nat) (hr : inR s c) : SvcInv (brCloseD s c) p :=
  h.dec c _ (fun _ => rfl) hr

theorem dispatchEnd_svc {s : St} {p : Nat} (h : SvcInv s p) (c : Nat) (hr : inR s c) :
    SvcInv (dispatchEnd s c) p := by
  unfold dispatchEnd
  split
  · exact exec_svc FUEL (.zero c) (brCloseD_svc h c hr) (inR_nc (nconn_brCloseD s c) hr)
  · exact h

theorem sees_inR {s : St} {p : Nat} (h : SvcInv s p) {c : Nat} (hs : serverSees s c = true) : inR s c := by
  apply h.inR_of_st
  simp [serverSees] at hs
  rw [hs.2]; simp

/-- qb_ipcs_dispatch_connection_request, one request -/
theorem dispatchMsg_svc {s : St} {p : Nat} (h : SvcInv s p) (c : Nat) (hr : inR s c) :
    SvcInv (dispatchMsg s c) p := by
  have h1 := brOpenD_svc h c hr
  have hr1 : inR (brOpenD s c) c := inR_nc (nconn_brOpenD s c) hr
  simp only [dispatchMsg]
  split
  · exact h1
  · have h2 := (h1.eqv (svEq_pop _ .msg)).cb .msg c 0 (inR_pop _ hr1)
    have h3 := exec_svc FUEL (.ops c ((brOpenD s c).pop .msg).1.ops) h2 trivial
    have hr3 : inR (exec FUEL (((brOpenD s c).pop .msg).2.cb .msg c 0)
        (.ops c ((brOpenD s c).pop .msg).1.ops)) c := inR_exec _ _ (inR_pop .msg hr1)
    split
    · exact h3
    · split
      · exact h3.touch c
      · split
        · exact exec_svc FUEL (.zero c) (brCloseD_svc (h3.touch c) c hr3)
            (inR_nc (by simp) hr3)
        · exact h3.touch c

theorem batchLoop_svc {p : Nat} (c : Nat) : ∀ (n : Nat) (s : St), SvcInv s p → inR s c →
    SvcInv (batchLoop n s c) p
  | 0, s, h, hr => dispatchEnd_svc h c hr
  | n+1, s, h, hr => by
    simp only [batchLoop]
    have h2 := (h.eqv (svEq_pop _ .msg)).cb .msg c 0 (inR_pop _ hr)
    have h3 := exec_svc FUEL (.ops c (s.pop .msg).1.ops) h2 trivial
    have hr3 : inR (exec FUEL ((s.pop .msg).2.cb .msg c 0) (.ops c (s.pop .msg).1.ops)) c :=
      inR_exec _ _ (inR_pop .msg hr)
    split
    · exact h3
    · split
      · exact h3.touch c
      · split
        · exact dispatchEnd_svc (h3.touch c) c hr3
        · exact batchLoop_svc c n _ (h3.touch c) hr3

theorem sendLoop_svc {p : Nat} (c : Nat) : ∀ (f : Nat) (s : St) (rem : Nat), SvcInv s p →
    SvcInv (sendLoop f s c rem) p
  | 0, _, _, h => h
  | f+1, s, rem, h => by
    simp only [sendLoop]
    split
    · exact h
    · next hc =>
      have hs : serverSees s c = true := by
        cases hx : serverSees s c
        · exfalso; apply hc; simp [hx]
        · rfl
      have hr := sees_inR h hs
      split
      · exact brOpenD_svc h c hr
      · exact sendLoop_svc c f _ _ (batchLoop_svc c _ _ (brOpenD_svc h c hr) (inR_nc (nconn_brOpenD s c) hr))

/-- qb_ipcs_request_rate_limit -/
theorem rateLimit_svc {s : St} {p : Nat} (h : SvcInv s p) (r : Nat) (hg : s.svcGone = false) :
    SvcInv (rateLimit s r) p := by
  simp only [rateLimit, touchSvc_eq s (h.alive hg).2]
  exact (SvcInv.touchAll s.list s h).eqv ⟨rfl, rfl, rfl, rfl, rfl, rfl, rfl, rfl⟩

/-- POLLHUP -/
theorem dispatchHup_svc {s : St} {p : Nat} (h : SvcInv s p) (c : Nat) (hr : inR s c) :
    SvcInv (dispatchHup s c) p := by
  have h1 := brOpenD_svc h c hr
  have hr1 : inR (brOpenD s c) c := inR_nc (nconn_brOpenD s c) hr
  simp only [dispatchHup]
  split
  · exact h1
  · have h3 := exec_svc FUEL (.disc c) h1 trivial
    have hr3 : inR (exec FUEL (brOpenD s c) (.disc c)) c := inR_exec _ _ hr1
    split
    · exact h3
    · split
      · exact exec_svc FUEL (.zero c) (brCloseD_svc h3 c hr3) (inR_nc (by simp) hr3)
      · exact h3

theorem gone_svc {s : St} {p : Nat} (h : SvcInv s p) (K : Nat) (s' : St) (hg : gone s K = some s') :
    SvcInv s' p := by
  unfold gone at hg
  split at hg
  · cases hg
  · next c hc =>
    injection hg with hg; subst hg
    have h0 : SvcInv ({ s with clients := s.clients.filter fun q => q.1 != K } : St) p :=
      h.eqv ⟨rfl, rfl, rfl, rfl, rfl, rfl, rfl, rfl⟩
    split
    · next hs => exact dispatchHup_svc h0 c (sees_inR h0 hs)
    · exact h0

/-- _rerun_closed_job_ -/
theorem runJob_svc {s : St} {p : Nat} (h : SvcInv s p) (s' : St) (hr : runJob s = some s') : SvcInv s' p := by
  unfold runJob at hr
  split at hr
  · cases hr
  · next c rest hj =>
    have h0 : SvcInv ({ s with jobs := rest } : St) p := h.eqv ⟨rfl, rfl, rfl, rfl, rfl, rfl, rfl, rfl⟩
    simp only [] at hr
    split at hr
    · split at hr
      · injection hr with hr; subst hr; exact h0.touch c
      · injection hr with hr; subst hr
        exact exec_svc FUEL (.disc c) ((h0.touch c).upd c _ rfl (Or.inr rfl)) trivial
    · injection hr with hr; subst hr; exact exec_svc FUEL (.disc c) h0 trivial

theorem runJobs_svc {p : Nat} : ∀ (n : Nat) (s : St), SvcInv s p → SvcInv (runJobs n s) p
  | 0, _, h => h
  | n+1, s, h => by
    simp only [runJobs]
    split
    · exact h
    · split
      · exact h
      · next s' hs => exact runJobs_svc n s' (runJob_svc h s' hs)

end QbVerif.IpcsLife
