/-
C01 — writer steps, second part: payload copy and `qb_rb_chunk_commit`.
-/
import QbVerif.Lemmas.RingConcW

namespace QbVerif.RingConcLemmas
open QbVerif.Ring QbVerif.RingSpec QbVerif.RingLemmas QbVerif.RingConc

/-! ### one group of the payload copy -/

theorem copy_base (m : Array Nat) (W TW j : Nat) (l : List Nat) (hW : 0 < W) :
    copyIn m W (4 * ((TW % W + HDRW) % W)) j l = copyIn m W (4 * (TW + 2)) j l := by
  apply copyIn_congr_base
  rw [Nat.mod_add_mod, HDRW_eq]
  have := mul4_mod (TW + 2) W 0 (by omega) hW
  simp only [Nat.add_zero] at this
  rw [this, Nat.mod_mod]

theorem group_length (d : List Nat) (j n : Nat) (h : j + n ≤ d.length) : ((d.drop j).take n).length = n := by
  simp; omega

theorem copy_group_out {m : Array Nat} {W TW j n a : Nat} {d : List Nat} (hjn : j + n ≤ d.length)
    (h : (a < 4 * (TW + 2) + j ∧ 4 * (TW + 2) + j + n ≤ a + 4 * W) ∨
         (4 * (TW + 2) + j + n ≤ a ∧ a < 4 * (TW + 2) + j + 4 * W)) :
    cell (copyIn m W (4 * (TW + 2)) j ((d.drop j).take n)) W a = cell m W a := by
  apply cell_copyIn_out
  rw [group_length d j n hjn]; exact h

theorem copy_group_prefix {m : Array Nat} {W TW j n : Nat} {d : List Nat} (hs : m.size = 4 * W) (hW : 0 < W)
    (hjn : j + n ≤ d.length) (hlen : d.length ≤ 4 * W) (hp : PayloadPrefix m W TW d j) :
    PayloadPrefix (copyIn m W (4 * (TW + 2)) j ((d.drop j).take n)) W TW d (j + n) := by
  intro i hi hid
  by_cases hij : i < j
  · rw [copy_group_out hjn (by omega)]
    exact hp i hij hid
  · have hl := group_length d j n hjn
    have := cell_copyIn_in (m := m) (W := W) (base := 4 * (TW + 2)) (j := j) (d := (d.drop j).take n) hs hW
      (by omega) (i - j) (by omega)
    have e : 4 * (TW + 2) + j + (i - j) = 4 * (TW + 2) + i := by omega
    rw [e] at this
    rw [this]
    simp only [List.getElem_take, List.getElem_drop]
    congr 1; omega

section
variable {c : Conf} {q : List (List Nat)} {op : WOp} {rest : List WOp}

/-- the common part of the two storing variants of the copy step -/
theorem w_copy_store {wp j n : Nat} (pc' : WPc) (h : CInv c q) (hp : c.wprog = op :: rest) (hpc : c.wpc = .copy wp j)
    (hjn : j + n ≤ op.data.length)
    (hadv : ∀ r, wAdv { c with rb := r, wpc := pc' } = 0)
    (hwf' : ∀ m', Fits c.rb.W (TR c) (TR c + total q) (cw op.data.length) →
      PayloadPrefix m' c.rb.W (TR c + total q) op.data (j + n) →
      WF { c.rb with mem := m' } (TR c) (TR c + total q) op pc') :
    CInv { c with rb := { c.rb with mem := copyIn c.rb.mem c.rb.W (4 * ((wp + HDRW) % c.rb.W)) j ((op.data.drop j).take n) },
                  wpc := pc' } q := by
  have hwf := WFacts_get hp h.wf
  rw [hpc] at hwf
  obtain ⟨h1, hf, hj, hfn, hpre⟩ := hwf
  have h0 : wAdv c = 0 := by unfold wAdv; rw [hpc]
  have hp0 : pend c = false := by unfold pend; rw [hpc]
  have hW := h.wpos
  have hfl := fits_le hf
  have h2 := cw_ge op.data.length
  have hlo := cw_lo op.data.length
  have hu := h.used
  subst h1
  rw [copy_base _ _ _ _ _ hW]
  refine h.wstore _ _ (by simp) ?_ (by rw [h0]; exact hadv _) ?_ (WFacts_of hp ?_)
  · intro a ha hb; exact copy_group_out hjn (by omega)
  · intro _
    rw [word_congr hW (fun a ha hb => copy_group_out hjn (by omega))]
    exact h.next hp0
  · exact hwf' _ hf (copy_group_prefix h.size hW hjn (by omega) hpre)

theorem w_copy {wp j} (h : CInv c q) (hp : c.wprog = op :: rest) (hpc : c.wpc = .copy wp j) :
    CInv (wstep c) q := by
  have hwf := WFacts_get hp h.wf
  rw [hpc] at hwf
  obtain ⟨h1, hf, hj, hfn, hpre⟩ := hwf
  have h0 : wAdv c = 0 := by unfold wAdv; rw [hpc]
  have hp0 : pend c = false := by unfold pend; rw [hpc]
  by_cases hfine : op.fine = true
  · by_cases hlt : j < op.data.length
    · have e : wstep c = { c with rb := { c.rb with mem := copyIn c.rb.mem c.rb.W (4 * ((wp + HDRW) % c.rb.W)) j ((op.data.drop j).take (min 4 (op.data.length - j))) }, wpc := .copy wp (j + min 4 (op.data.length - j)) } := by
        unfold wstep; simp only [hp, hpc, hfine, hlt, if_true]
      rw [e]
      refine w_copy_store _ h hp hpc (by omega) (fun _ => rfl) ?_
      intro m' hf' hpre'
      exact ⟨h1, hf', by omega, (fun hh => by rw [hfine] at hh; cases hh), hpre'⟩
    · have e : wstep c = { c with wpc := .cmWp, lin := c.lin } := by
        unfold wstep; simp only [hp, hpc, hfine, hlt, if_true, if_false]
      rw [e]
      refine h.wlocal _ _ (by rw [h0]; rfl) (by rw [hp0]; rfl) (WFacts_of hp ?_)
      show Fits c.rb.W (TR c) (TR c + total q) (cw op.data.length) ∧ Payload c.rb.mem c.rb.W (TR c + total q) op.data
      have : j = op.data.length := by omega
      subst this
      exact ⟨hf, payload_of_prefix hpre⟩
  · have hff : op.fine = false := by cases hx : op.fine <;> simp_all
    have hj0 := hfn hff
    subst hj0
    have e : wstep c = { c with rb := { c.rb with mem := copyIn c.rb.mem c.rb.W (4 * ((wp + HDRW) % c.rb.W)) 0 ((op.data.drop 0).take op.data.length) }, wpc := .cmWp } := by
      unfold wstep; simp only [hp, hpc, hff, List.drop_zero, List.take_length]
      rfl
    rw [e]
    refine w_copy_store _ h hp hpc (by omega) (fun _ => rfl) ?_
    intro m' hf' hpre'
    rw [Nat.zero_add] at hpre'
    exact ⟨hf', payload_of_prefix hpre'⟩

end
end QbVerif.RingConcLemmas
