import QbVerif.Lemmas.LogThreadStep

/-! Third invariant of the logging-thread model, for programs that never disable the target and never
switch it back to unthreaded (`Steady`): while a record is queued or an application thread is parked at
the lock of `qb_log_thread_log_post`, the target is open, enabled and threaded and the logger is initialised
(or the controller is inside `qb_log_fini`); consequently nothing the logging thread pops is discarded:
`discarded = []`, `written = popped`.  This file: the definition, the initial state, the logging thread's
steps.  The application threads' steps are in LogThreadS2. -/
namespace QbVerif.LogThread

set_option linter.unusedSimpArgs false
set_option linter.unusedVariables false

/-- an operation that does not disable the target and does not switch it back to unthreaded -/
def Op.steady : Op → Bool
  | .enable false => false
  | .threaded false => false
  | _ => true

structure SInv (s : St) : Prop where
  progC : ∀ op ∈ s.c.prog, op.steady = true
  progP : ∀ op ∈ s.p.prog, op.steady = true
  ctl : ∀ en, s.c.pc = .ctlLock en → en ≠ some false
  guard : (s.queue ≠ [] ∨ 0 < s.c.pc.pend ∨ 0 < s.p.pc.pend) →
    s.tgtEnabled = true ∧ s.tgtThreaded = true ∧ s.tgtOpen = true ∧ (s.inited = true ∨ s.c.pc.inFini = true)
  nodisc : s.discarded = []
  wp : s.written = s.popped

theorem sinv_init (progC progP : List Op) (hc : ∀ op ∈ progC, op.steady = true)
    (hp : ∀ op ∈ progP, op.steady = true) : SInv (init progC progP) := by
  constructor <;> simp_all [init]

theorem SInv.crash {s : St} (h : SInv s) (o : Outcome) : SInv (s.crash o) := by
  obtain ⟨h1, h2, h3, h4, h5, h6⟩ := h
  exact ⟨h1, h2, h3, h4, h5, h6⟩

theorem sinv_popWrite (s : St) (h : SInv s) : SInv (popWrite s) := by
  obtain ⟨h1, h2, h3, h4, h5, h6⟩ := h
  unfold popWrite
  cases hq : s.queue with
  | nil => exact SInv.crash ⟨h1, h2, h3, h4, h5, h6⟩ .emptyPop
  | cons r q =>
    obtain ⟨g1, g2, g3, g4⟩ := h4 (Or.inl (by rw [hq]; simp))
    have hdel : (s.tgtEnabled && s.tgtThreaded) = true := by rw [g1, g2]; rfl
    by_cases hd : 0 < s.droppedCtr <;>
      simp only [hd, hdel, St.deliverable, St.emit, if_true, if_false]
    · exact ⟨h1, h2, h3, fun _ => ⟨g1, g2, g3, g4⟩, h5, by simp [h6]⟩
    · exact ⟨h1, h2, h3, fun _ => ⟨g1, g2, g3, g4⟩, h5, by simp [h6]⟩

theorem sinv_wStep (cfg : Cfg) (s : St) (h : SInv s) : SInv (wStep cfg s) := by
  have hk : ∀ s' : St, s'.c = s.c → s'.p = s.p → s'.queue = s.queue → s'.tgtEnabled = s.tgtEnabled →
      s'.tgtThreaded = s.tgtThreaded → s'.tgtOpen = s.tgtOpen → s'.inited = s.inited →
      s'.discarded = s.discarded → s'.written = s.written → s'.popped = s.popped → SInv s' := by
    intro s' e1 e2 e3 e4 e5 e6 e7 e8 e9 e10
    obtain ⟨h1, h2, h3, h4, h5, h6⟩ := h
    exact ⟨by rw [e1]; exact h1, by rw [e2]; exact h2, by rw [e1]; exact h3,
      by rw [e1, e2, e3, e4, e5, e6, e7]; exact h4, by rw [e8]; exact h5, by rw [e9, e10]; exact h6⟩
  unfold wStep
  split
  · exact h
  · exact h
  · split
    · exact h.crash _
    · exact hk _ rfl rfl rfl rfl rfl rfl rfl rfl rfl rfl
  · split
    · exact h.crash _
    · simp only [St.lockCheck]
      split
      · apply SInv.crash; exact hk _ rfl rfl rfl rfl rfl rfl rfl rfl rfl rfl
      · apply SInv.crash; exact hk _ rfl rfl rfl rfl rfl rfl rfl rfl rfl rfl
      · exact hk _ rfl rfl rfl rfl rfl rfl rfl rfl rfl rfl
  · split
    · exact h.crash _
    · have h' : SInv { s with owner := some .W } := hk _ rfl rfl rfl rfl rfl rfl rfl rfl rfl rfl
      simp only
      split
      · split
        · exact hk _ rfl rfl rfl rfl rfl rfl rfl rfl rfl rfl
        · exact sinv_popWrite _ h'
      · split
        · exact hk _ rfl rfl rfl rfl rfl rfl rfl rfl rfl rfl
        · exact sinv_popWrite _ h'
  · split
    · exact h.crash _
    · exact hk _ rfl rfl rfl rfl rfl rfl rfl rfl rfl rfl
    · exact sinv_popWrite _ h
  · exact hk _ rfl rfl rfl rfl rfl rfl rfl rfl rfl rfl
  · exact hk _ rfl rfl rfl rfl rfl rfl rfl rfl rfl rfl

end QbVerif.LogThread
