/-
Skiplist: the iterator operations (`skiplist_iter_create/_next/_free`) in
any state satisfying `Inv`, for any number of open iterators — they only move references
(refcount = 1 + number of iterators parked on the node), touch allocated memory only, and
`iter_next` hands out the level-0 successor of the node the iterator is parked on.
-/
import QbVerif.Lemmas.SlmRmHit

namespace QbVerif.Skiplist
open QbVerif.Map
set_option linter.unusedSimpArgs false

/-- `t1` differs from `t` in reference counts (and iterators) only -/
structure RcOnly (t t1 : SL) : Prop where
  nodes : ∀ j, t1.nodes j = (t.nodes j).map fun n => { n with refcount := rcOf t1 j }
  fwds : t1.fwds = t.fwds
  header : t1.header = t.header
  lv : t1.lv = t.lv
  length : t1.length = t.length
  nextNode : t1.nextNode = t.nextNode
  nextFwd : t1.nextFwd = t.nextFwd
  crashed : t1.crashed = t.crashed

theorem RcOnly.next0 {t t1 : SL} (r : RcOnly t t1) (j : NodeId) : next0 t1 j = next0 t j := by
  unfold Skiplist.next0
  rw [r.nodes j, r.fwds]
  cases t.nodes j <;> rfl

theorem RcOnly.fwdOf {t t1 : SL} (r : RcOnly t t1) (j : NodeId) : fwdOf t1 j = fwdOf t j := by
  unfold Skiplist.fwdOf
  rw [r.nodes j]
  cases t.nodes j <;> rfl

theorem RcOnly.keyOf {t t1 : SL} (r : RcOnly t t1) (j : NodeId) : keyOf t1 j = keyOf t j := by
  unfold Skiplist.keyOf
  rw [r.nodes j]
  cases t.nodes j <;> rfl

theorem RcOnly.trans {t t1 t2 : SL} (r1 : RcOnly t t1) (r2 : RcOnly t1 t2) : RcOnly t t2 := by
  refine ⟨?_, r2.fwds.trans r1.fwds, r2.header.trans r1.header, r2.lv.trans r1.lv, r2.length.trans r1.length,
    r2.nextNode.trans r1.nextNode, r2.nextFwd.trans r1.nextFwd, r2.crashed.trans r1.crashed⟩
  intro j
  rw [r2.nodes j, r1.nodes j]
  cases t.nodes j <;> rfl

theorem RcOnly.nodeOk {t t1 : SL} (r : RcOnly t t1) {j : NodeId} {e : Entry} (h : NodeOk t j e) (h1 : 1 ≤ rcOf t1 j) :
    NodeOk t1 j e := by
  obtain ⟨lv, rc, f, a, _, hl1, hl2, hn, ha⟩ := h
  exact ⟨lv, rcOf t1 j, f, a, h1, hl1, hl2, by rw [r.nodes j, hn]; rfl, by rw [r.fwds]; exact ha⟩

theorem RcOnly.nextL {t t1 : SL} (r : RcOnly t t1) (l : Nat) (j : NodeId) : nextL t1 l j = nextL t l j := by
  unfold Skiplist.nextL
  rw [r.nodes j, r.fwds]
  cases t.nodes j <;> rfl

theorem RcOnly.lvOf {t t1 : SL} (r : RcOnly t t1) (j : NodeId) : lvOf t1 j = lvOf t j := by
  unfold Skiplist.lvOf
  rw [r.nodes j]
  cases t.nodes j <;> rfl

theorem RcOnly.chain {t t1 : SL} (r : RcOnly t t1) {x ids es} (h : Chain t x ids es) (h1 : ∀ j ∈ ids, 1 ≤ rcOf t1 j) :
    Chain t1 x ids es :=
  Chain.frame2 h (fun j _ => r.next0 j) (fun j hj _ hok => r.nodeOk hok (h1 j hj))

/-- reference counts may be moved around as long as they still count the parked iterators -/
theorem Inv.rcOnly {t t1 : SL} {ids es g} (h : Inv t ids es g) (r : RcOnly t t1)
    (hrc : ∀ i ∈ t.header :: ids, rcOf t1 i = 1 + parked t1.iters i)
    (hpos : ∀ p ∈ t1.iters, ∀ q, p.2 = some q → q ∈ t.header :: ids)
    (hkeys : (t1.iters.map (·.1)).Nodup) : Inv t1 ids es g := by
  obtain ⟨hf, ha, hv, rc, hh1, hh2⟩ := h.hdr
  have h1 : ∀ j ∈ ids, 1 ≤ rcOf t1 j := fun j hj => by rw [hrc j (List.mem_cons_of_mem _ hj)]; omega
  obtain ⟨hab, hhl⟩ := h.levels_transfer (fun l j => r.nextL l j) r.lvOf r.fwdOf r.fwds r.header r.lv
  refine ⟨?_, by rw [r.header]; exact r.chain h.chain h1, by rw [r.header]; exact h.nodup, ?_, ?_, ?_, h.sorted,
    by rw [r.lv]; exact h.lv, by rw [r.length]; exact h.len, by rw [r.header]; exact hrc, by rw [r.header]; exact hpos,
    hkeys, by rw [r.crashed]; exact h.ok, hab, hhl⟩
  · rw [r.header]
    exact ⟨hf, ha, hv, rcOf t1 t.header, by rw [r.nodes, hh1]; rfl, by rw [r.fwds]; exact hh2⟩
  · rw [r.header]
    intro a ha' b hb hab
    rw [r.fwdOf, r.fwdOf] at hab
    exact h.inj a ha' b hb hab
  · rw [r.header, r.nextNode]; exact h.freshN
  · rw [r.header, r.nextFwd]
    intro j hj
    rw [r.fwdOf]; exact h.freshF j hj

/-! ### counting parked iterators -/

theorem parked_cons (k : Nat) (v : Option NodeId) (its : List (Nat × Option NodeId)) (i : NodeId) :
    parked ((k, v) :: its) i = (if v = some i then 1 else 0) + parked its i := by
  unfold parked
  simp only [List.filter_cons]
  by_cases h : v = some i
  · simp [h]; omega
  · have : (v == some i) = false := by simpa using h
    simp [h, this]

theorem parked_setIter {its : List (Nat × Option NodeId)} {k : Nat} {old new : Option NodeId} (i : NodeId) :
    (its.map (·.1)).Nodup → (k, old) ∈ its →
    parked (setIter its k new) i + (if old = some i then 1 else 0) = parked its i + (if new = some i then 1 else 0) := by
  induction its with
  | nil => intro _ h; cases h
  | cons a its ih =>
    obtain ⟨a1, a2⟩ := a
    intro hnd hm
    simp only [List.map_cons, List.nodup_cons] at hnd
    by_cases hk : a1 = k
    · subst hk
      have ha2 : a2 = old := by
        rcases List.mem_cons.1 hm with h | h
        · exact (Prod.mk.inj h).2.symm
        · exact absurd (List.mem_map.2 ⟨_, h, rfl⟩) hnd.1
      subst ha2
      have hrest : setIter its a1 new = its := by
        unfold setIter
        have : its.map (fun p => if p.1 == a1 then (a1, new) else p) = its.map id := by
          apply List.map_congr_left
          intro p hp
          have : p.1 ≠ a1 := fun he => hnd.1 (he ▸ List.mem_map.2 ⟨p, hp, rfl⟩)
          simp [this]
        rw [this, List.map_id]
      have : setIter ((a1, a2) :: its) a1 new = (a1, new) :: its := by
        show (if ((a1, a2) : Nat × Option NodeId).1 == a1 then (a1, new) else (a1, a2)) :: setIter its a1 new = _
        simp [hrest]
      rw [this, parked_cons, parked_cons]
      omega
    · have hm' : (k, old) ∈ its := by
        rcases List.mem_cons.1 hm with h | h
        · exact absurd (Prod.mk.inj h).1.symm hk
        · exact h
      have : setIter ((a1, a2) :: its) k new = (a1, a2) :: setIter its k new := by
        show (if ((a1, a2) : Nat × Option NodeId).1 == k then (k, new) else (a1, a2)) :: setIter its k new = _
        simp [hk]
      rw [this, parked_cons, parked_cons]
      have := ih hnd.2 hm'
      omega

theorem parked_remove {its : List (Nat × Option NodeId)} {k : Nat} {old : Option NodeId} (i : NodeId) :
    (its.map (·.1)).Nodup → (k, old) ∈ its →
    parked (its.filter fun p => !(p.1 == k)) i + (if old = some i then 1 else 0) = parked its i := by
  induction its with
  | nil => intro _ h; cases h
  | cons a its ih =>
    obtain ⟨a1, a2⟩ := a
    intro hnd hm
    simp only [List.map_cons, List.nodup_cons] at hnd
    by_cases hk : a1 = k
    · subst hk
      have ha2 : a2 = old := by
        rcases List.mem_cons.1 hm with h | h
        · exact (Prod.mk.inj h).2.symm
        · exact absurd (List.mem_map.2 ⟨_, h, rfl⟩) hnd.1
      subst ha2
      have hrest : its.filter (fun p => !(p.1 == a1)) = its := by
        apply List.filter_eq_self.2
        intro p hp
        have : p.1 ≠ a1 := fun he => hnd.1 (he ▸ List.mem_map.2 ⟨p, hp, rfl⟩)
        simp [this]
      simp only [List.filter_cons, beq_self_eq_true, Bool.not_true, Bool.false_eq_true, if_false, hrest, parked_cons]
      omega
    · have hm' : (k, old) ∈ its := by
        rcases List.mem_cons.1 hm with h | h
        · exact absurd (Prod.mk.inj h).1.symm hk
        · exact h
      have hb : (!(a1 == k)) = true := by simp [hk]
      simp only [List.filter_cons, hb, if_true, parked_cons]
      have := ih hnd.2 hm'
      omega

theorem setIter_keys (its : List (Nat × Option NodeId)) (k : Nat) (v : Option NodeId) :
    (setIter its k v).map (·.1) = its.map (·.1) := by
  unfold setIter
  rw [List.map_map]
  apply List.map_congr_left
  intro p _
  simp only [Function.comp]
  split
  · next h => exact (by simpa using h : p.1 = k).symm
  · rfl

theorem mem_setIter {its : List (Nat × Option NodeId)} {k : Nat} {v : Option NodeId} {p : Nat × Option NodeId}
    (h : p ∈ setIter its k v) : p ∈ its ∨ p = (k, v) := by
  unfold setIter at h
  obtain ⟨q, hq, rfl⟩ := List.mem_map.1 h
  split
  · exact Or.inr rfl
  · exact Or.inl hq

/-- the level-0 successor of a chain member is a later chain member -/
theorem Chain.succ_mem {s : SL} : ∀ {x ids es} {p n : NodeId}, Chain s x ids es → (x :: ids).Nodup → p ∈ x :: ids →
    next0 s p = some n → n ∈ ids ∧ n ≠ p ∧ ∃ e ∈ es, NodeOk s n e
  | x, [], [], p, n, h, _, hp, hn => by
    have h0 : next0 s x = none := h
    simp only [List.mem_singleton] at hp
    subst hp
    rw [h0] at hn; cases hn
  | x, i :: ids, e :: es, p, n, h, hnd, hp, hn => by
    rcases List.mem_cons.1 hp with rfl | hp
    · rw [h.1] at hn
      cases hn
      exact ⟨by simp, fun he => (List.nodup_cons.1 hnd).1 (he ▸ List.mem_cons_self), e, by simp, h.2.1⟩
    · obtain ⟨h1, h2, e', he', h3⟩ := Chain.succ_mem h.2.2 (List.nodup_cons.1 hnd).2 hp hn
      exact ⟨List.mem_cons_of_mem _ h1, h2, e', List.mem_cons_of_mem _ he', h3⟩
  | _, [], _ :: _, _, _, h, _, _, _ => by cases h
  | _, _ :: _, [], _, _, h, _, _, _ => by cases h

theorem Inv.node_of_mem {s ids es g} (h : Inv s ids es g) {p : NodeId} (hp : p ∈ s.header :: ids) :
    ∃ pn a, s.nodes p = some pn ∧ s.fwds pn.fwd = some a ∧ pn.refcount = 1 + parked s.iters p := by
  obtain ⟨pn, a, h1, h2⟩ := h.xok_of_mem hp
  refine ⟨pn, a, h1, h2, ?_⟩
  have := h.rc p hp
  simpa [rcOf, h1] using this

/-- `skiplist_iter_create` -/
theorem iterCreate_inv {s ids es g} (h : Inv s ids es g) (k : Nat) (hk : k ∉ s.iters.map (·.1)) :
    ∃ s', s.iterCreate k = .ok s' ∧ Inv s' ids es g ∧ s'.iters = (k, some s.header) :: s.iters ∧ RcOnly s s' := by
  obtain ⟨hn, ha, hh1, hh2, hrc⟩ := h.node_of_mem (p := s.header) (by simp)
  refine ⟨{ (s.setNode s.header { hn with refcount := hn.refcount + 1 }) with iters := (k, some s.header) :: s.iters },
    by simp [SL.iterCreate, SL.node, hh1, bind, Except.bind],
    (fun R => ⟨h.rcOnly R ?_ ?_ ?_, rfl, R⟩) ⟨?_, rfl, rfl, rfl, rfl, rfl, rfl, rfl⟩⟩
  rotate_right
  · intro j
    by_cases hj : j = s.header
    · subst hj; simp [SL.setNode, upd, hh1, rcOf]
    · simp only [SL.setNode, upd, rcOf, hj, if_false]
      cases s.nodes j <;> rfl
  · intro i hi
    show rcOf _ i = 1 + parked ((k, some s.header) :: s.iters) i
    rw [parked_cons]
    by_cases hj : i = s.header
    · subst hj
      simp [rcOf, SL.setNode, upd, hrc]; omega
    · have : (some s.header = some i) = False := by simp; exact fun he => hj he.symm
      simp only [this, if_false, Nat.zero_add]
      rw [← h.rc i hi]
      simp [rcOf, SL.setNode, upd, hj]
  · intro p hp q hq
    rcases List.mem_cons.1 hp with rfl | hp
    · simp only [Option.some.injEq] at hq; subst hq; simp
    · exact h.pos p hp q hq
  · show ((k, some s.header) :: s.iters).map (·.1) |>.Nodup
    simp only [List.map_cons, List.nodup_cons]
    exact ⟨hk, h.ikeys⟩

/-- `skiplist_iter_next` of an iterator parked on `p` -/
theorem iterNext_inv {s ids es g} (h : Inv s ids es g) {k : Nat} {p : NodeId} (hm : (k, some p) ∈ s.iters) :
    (∀ n, next0 s p = some n → ∃ e ∈ es, NodeOk s n e ∧ n ∈ ids ∧ ∃ s', s.iterNext k (some p) = .ok (s', [], some (e.key, e.val)) ∧
      Inv s' ids es g ∧ s'.iters = setIter s.iters k (some n) ∧ RcOnly s s') ∧
    (next0 s p = none → ∃ s', s.iterNext k (some p) = .ok (s', [], none) ∧
      Inv s' ids es g ∧ s'.iters = setIter s.iters k none ∧ RcOnly s s') := by
  have hp : p ∈ s.header :: ids := h.pos _ hm p rfl
  obtain ⟨pn, pa, hpn, hpa, hprc⟩ := h.node_of_mem hp
  have hpk : 1 ≤ parked s.iters p := by
    unfold parked
    apply List.length_pos_of_mem (a := (k, some p))
    simp [List.mem_filter, hm]
  constructor
  · intro n hn
    obtain ⟨hni, hnp, e, he, hok⟩ := h.chain.succ_mem h.nodup hp hn
    have hnx : s.nodeNext s.fuel p = .ok (some n) := nodeNext_some ⟨_, pa, hpn, hpa⟩ hn hok s.length
    obtain ⟨nlv, nrc, nf, na, hnrc1, hnl1, hnl2, hnn, hna⟩ := hok
    have hnrc : nrc = 1 + parked s.iters n := by
      have := h.rc n (List.mem_cons_of_mem _ hni); simpa [rcOf, hnn] using this
    have hprc0 : pn.refcount - 1 ≠ 0 := by omega
    refine ⟨e, he, ⟨nlv, nrc, nf, na, hnrc1, hnl1, hnl2, hnn, hna⟩, hni, ?_⟩
    cases hr : s.iterNext k (some p) with
    | error err =>
      simp [SL.iterNext, hnx, SL.node, SL.setNode, SL.nodeDeref, upd, hnn, hpn, hnp, hnp.symm, hprc0, bind, Except.bind] at hr
    | ok r =>
      obtain ⟨s', evs, kv'⟩ := r
      simp [SL.iterNext, hnx, SL.node, SL.setNode, SL.nodeDeref, upd, hnn, hpn, hnp, hnp.symm, hprc0, bind, Except.bind] at hr
      obtain ⟨rfl, rfl, rfl⟩ := hr
      refine ⟨_, rfl, (fun R => ⟨h.rcOnly R ?_ ?_ ?_, rfl, R⟩) ⟨?_, rfl, rfl, rfl, rfl, rfl, rfl, rfl⟩⟩
      · intro i hi
        show rcOf _ i = 1 + parked (setIter s.iters k (some n)) i
        have hps := parked_setIter (new := some n) i h.ikeys hm
        by_cases hin : i = n
        · subst hin
          have : (some p = some i) = False := by simp; exact fun he => hnp he.symm
          simp only [this, if_false, if_true, Nat.add_zero] at hps
          simp [rcOf, upd, hnp]; omega
        · by_cases hip : i = p
          · subst hip
            have : (some n = some i) = False := by simp; exact hnp
            simp only [this, if_false, if_true, Nat.add_zero] at hps
            simp [rcOf, upd, hnp]; omega
          · have h1 : (some p = some i) = False := by simp; exact fun he => hip he.symm
            have h2 : (some n = some i) = False := by simp; exact fun he => hin he.symm
            simp only [h1, h2, if_false, Nat.add_zero] at hps
            rw [hps, ← h.rc i hi]
            simp [rcOf, upd, hin, hip]
      · intro q hq r hr
        rcases mem_setIter hq with hq | rfl
        · exact h.pos q hq r hr
        · simp only [Option.some.injEq] at hr; subst hr; exact List.mem_cons_of_mem _ hni
      · show (setIter s.iters k (some n)).map (·.1) |>.Nodup
        rw [setIter_keys]; exact h.ikeys
      · intro j
        by_cases hjp : j = p
        · subst hjp; simp [upd, rcOf, hpn, hnp]
        · by_cases hjn : j = n
          · subst hjn; simp [upd, rcOf, hnn, hjp]
          · simp only [upd, rcOf, hjp, hjn, if_false]
            cases s.nodes j <;> rfl
  · intro hn
    have hnx : s.nodeNext s.fuel p = .ok none := nodeNext_none ⟨_, pa, hpn, hpa⟩ hn s.length
    have hprc0 : pn.refcount - 1 ≠ 0 := by omega
    cases hr : s.iterNext k (some p) with
    | error err =>
      simp [SL.iterNext, hnx, SL.node, SL.setNode, SL.nodeDeref, upd, hpn, hprc0, bind, Except.bind] at hr
    | ok r =>
      obtain ⟨s', evs, kv'⟩ := r
      simp [SL.iterNext, hnx, SL.node, SL.setNode, SL.nodeDeref, upd, hpn, hprc0, bind, Except.bind] at hr
      obtain ⟨rfl, rfl, rfl⟩ := hr
      refine ⟨_, rfl, (fun R => ⟨h.rcOnly R ?_ ?_ ?_, rfl, R⟩) ⟨?_, rfl, rfl, rfl, rfl, rfl, rfl, rfl⟩⟩
      · intro i hi
        show rcOf _ i = 1 + parked (setIter s.iters k none) i
        have hps := parked_setIter (new := none) i h.ikeys hm
        by_cases hip : i = p
        · subst hip
          simp only [if_true, reduceCtorEq, if_false, Nat.add_zero] at hps
          simp [rcOf, upd]; omega
        · have h1 : (some p = some i) = False := by simp; exact fun he => hip he.symm
          simp only [h1, if_false, reduceCtorEq, Nat.add_zero] at hps
          rw [hps, ← h.rc i hi]
          simp [rcOf, upd, hip]
      · intro q hq r hr
        rcases mem_setIter hq with hq | rfl
        · exact h.pos q hq r hr
        · cases hr
      · show (setIter s.iters k none).map (·.1) |>.Nodup
        rw [setIter_keys]; exact h.ikeys
      · intro j
        by_cases hjp : j = p
        · subst hjp; simp [upd, rcOf, hpn]
        · simp only [upd, rcOf, hjp, if_false]
          cases s.nodes j <;> rfl

theorem refcount_eta (n : Node) : ({ n with refcount := n.refcount } : Node) = n := by cases n; rfl

/-- `skiplist_iter_free` -/
theorem iterFree_inv {s ids es g} (h : Inv s ids es g) {k : Nat} {pos : Option NodeId} (hm : (k, pos) ∈ s.iters) :
    ∃ s', s.iterFree k pos = .ok (s', []) ∧ Inv s' ids es g ∧ s'.iters = (s.iters.filter fun p => !(p.1 == k)) ∧
      RcOnly s s' := by
  have hkeys : ((s.iters.filter fun p => !(p.1 == k)).map (·.1)).Nodup :=
    List.Nodup.sublist ((List.filter_sublist).map _) h.ikeys
  have hposf : ∀ q ∈ (s.iters.filter fun p => !(p.1 == k)), ∀ r, q.2 = some r → r ∈ s.header :: ids :=
    fun q hq r hr => h.pos q (List.mem_filter.1 hq).1 r hr
  cases pos with
  | none =>
    refine ⟨{ s with iters := s.iters.filter fun p => !(p.1 == k) }, by simp [SL.iterFree, bind, Except.bind],
      (fun R => ⟨h.rcOnly R ?_ hposf hkeys, rfl, R⟩) ⟨?_, rfl, rfl, rfl, rfl, rfl, rfl, rfl⟩⟩
    · intro i hi
      show rcOf s i = 1 + parked (s.iters.filter fun p => !(p.1 == k)) i
      have := parked_remove i h.ikeys hm
      simp only [reduceCtorEq, if_false, Nat.add_zero] at this
      rw [this, h.rc i hi]
    · intro j
      show s.nodes j = _
      cases hj : s.nodes j with
      | none => rfl
      | some n => simp [rcOf, hj]
  | some p =>
    have hp : p ∈ s.header :: ids := h.pos _ hm p rfl
    obtain ⟨pn, pa, hpn, hpa, hprc⟩ := h.node_of_mem hp
    have hpk : 1 ≤ parked s.iters p := by
      unfold parked
      apply List.length_pos_of_mem (a := (k, some p))
      simp [List.mem_filter, hm]
    have hprc0 : pn.refcount - 1 ≠ 0 := by omega
    cases hr : s.iterFree k (some p) with
    | error err => simp [SL.iterFree, SL.node, SL.setNode, SL.nodeDeref, upd, hpn, hprc0, bind, Except.bind] at hr
    | ok r =>
      obtain ⟨s', evs⟩ := r
      simp [SL.iterFree, SL.node, SL.setNode, SL.nodeDeref, upd, hpn, hprc0, bind, Except.bind] at hr
      obtain ⟨rfl, rfl⟩ := hr
      refine ⟨_, rfl, (fun R => ⟨h.rcOnly R ?_ hposf hkeys, rfl, R⟩) ⟨?_, rfl, rfl, rfl, rfl, rfl, rfl, rfl⟩⟩
      · intro i hi
        show rcOf _ i = 1 + parked (s.iters.filter fun p => !(p.1 == k)) i
        have hps := parked_remove i h.ikeys hm
        by_cases hip : i = p
        · subst hip
          simp only [if_true] at hps
          simp [rcOf, upd]; omega
        · have h1 : (some p = some i) = False := by simp; exact fun he => hip he.symm
          simp only [h1, if_false, Nat.add_zero] at hps
          rw [hps, ← h.rc i hi]
          simp [rcOf, upd, hip]
      · intro j
        by_cases hjp : j = p
        · subst hjp; simp [upd, rcOf, hpn]
        · simp only [upd, rcOf, hjp, if_false]
          cases hj : s.nodes j with
          | none => rfl
          | some n => simp

theorem lookup_of_mem {its : List (Nat × Option NodeId)} {k : Nat} {v : Option NodeId} :
    (its.map (·.1)).Nodup → (k, v) ∈ its → its.lookup k = some v := by
  induction its with
  | nil => intro _ h; cases h
  | cons a its ih =>
    obtain ⟨a1, a2⟩ := a
    intro hnd hm
    simp only [List.map_cons, List.nodup_cons] at hnd
    by_cases hk : k = a1
    · subst hk
      rcases List.mem_cons.1 hm with h | h
      · cases h; simp [List.lookup]
      · exact absurd (List.mem_map.2 ⟨_, h, rfl⟩) hnd.1
    · have : (k == a1) = false := by simpa using hk
      simp only [List.lookup, this]
      rcases List.mem_cons.1 hm with h | h
      · exact absurd (Prod.mk.inj h).1 hk
      · exact ih hnd.2 h

theorem mem_setIter_self {its : List (Nat × Option NodeId)} {k : Nat} {old v : Option NodeId} (h : (k, old) ∈ its) :
    (k, v) ∈ setIter its k v := by
  unfold setIter
  exact List.mem_map.2 ⟨(k, old), h, by simp⟩

theorem setIter_setIter (its : List (Nat × Option NodeId)) (k : Nat) (a b : Option NodeId) :
    setIter (setIter its k a) k b = setIter its k b := by
  unfold setIter
  rw [List.map_map]
  apply List.map_congr_left
  intro p _
  simp only [Function.comp]
  by_cases h : (p.1 == k) = true <;> simp [h]

end QbVerif.Skiplist
