import QbVerif.Lemmas.IpcsLifeInv

/-! C04 — the invariant at the level of ONE connection record: every mutation the repaired code
    performs on a connection, under the condition the code has checked, preserves `P`. -/
namespace QbVerif.IpcsLife

theorem P_iff (k : Conn) : P k ↔ (k.bad = false ∧ k.uaf = false ∧
    k.rc = b2n k.init + k.appref + b2n k.brCreated + b2n k.brDispatch + b2n k.brWalk ∧
    PhaseOk k ∧ (k.freed = true → k.phase = .dead)) :=
  ⟨fun h => ⟨h.nb, h.nu, h.R, h.ph, h.fr⟩, fun ⟨a, b, c, d, e⟩ => ⟨a, b, c, d, e⟩⟩

theorem FrameC_iff (k k' : Conn) : FrameC k k' ↔ (k'.brCreated = k.brCreated ∧ k'.brDispatch = k.brDispatch ∧
    k'.brWalk = k.brWalk ∧ (k.cl = .running → k'.cl = .running ∧ k'.phase = k.phase) ∧
    (k.phase = .dead → k.freed = false → k'.phase = .dead ∧ k'.freed = false) ∧
    (k.phase = .accepting → k'.phase = .accepting) ∧ (k.phase = .none → k'.phase = .none) ∧ (k.phase ≠ .none → k'.phase ≠ .none)) :=
  ⟨fun h => ⟨h.b1, h.b2, h.b3, h.run, h.dead, h.acc, h.non, h.nn⟩,
   fun ⟨a, b, c, d, e, f, g, i⟩ => ⟨a, b, c, d, e, f, g, i⟩⟩

/-- destructure the record and the invariant, split on the phase and the owner flags, grind -/
macro "conn_crush" k:ident hp:ident : tactic => `(tactic| (
  rcases $k:ident with ⟨st, cl, rc, freed, created, closedSeen, appDisc, destroyed, appref, init, brC, brD, brW, phase, bad, uaf⟩
  rw [P_iff] at $hp:ident
  obtain ⟨nb, nu, R, ph, fr⟩ := $hp:ident
  simp only [] at *
  cases phase <;> simp only [PhaseOk] at ph <;> cases init <;> cases brC <;> cases brD <;> cases brW <;>
  (try simp [b2n, monitor, phaseStep, touchable, PhaseOk, P_iff, FrameC_iff] at *) <;> (try omega) <;>
  (try simp_all) <;> (try omega) <;> (try (cases cl <;> cases st <;> simp_all))))

theorem P.rc0 {k : Conn} (hp : P k) (hr : k.rc = 0) :
    k.init = false ∧ k.appref = 0 ∧ k.brCreated = false ∧ k.brDispatch = false ∧ k.brWalk = false ∧
    k.cl ≠ .running ∧ k.phase ≠ .accepting := by
  conn_crush k hp

/-- connection_destroyed is invoked at refcount zero -/
theorem P.destroyed {k : Conn} (hp : P k) (hr : k.rc = 0) (hn : k.phase ≠ .none) (hd : k.phase ≠ .dead)
    (k' : Conn) (hk : k' = { monitor .destroyed 0 k with destroyed := true }) :
    P k' ∧ k'.phase = .dead ∧ k'.freed = false ∧ k'.cl = k.cl ∧ k'.brCreated = k.brCreated ∧
    k'.brDispatch = k.brDispatch ∧ k'.brWalk = k.brWalk := by
  subst hk; conn_crush k hp

/-- free(c) -/
theorem P.free {k : Conn} (hp : P k) (hd : k.phase = .dead)
    (k' : Conn) (hk : k' = { k with freed := true }) :
    P k' ∧ k'.phase = .dead ∧ k'.cl = k.cl ∧ k'.brCreated = k.brCreated ∧
    k'.brDispatch = k.brDispatch ∧ k'.brWalk = k.brWalk := by
  subst hk; conn_crush k hp

/-- qb_ipcs_disconnect in state ACTIVE -/
theorem P.discActive {k : Conn} (hp : P k) (hst : k.st = .active)
    (k' : Conn) (hk : k' = { k with st := .inactive, phase := .aborted, rc := k.rc - 1, init := false }) :
    P k' ∧ FrameC k k' ∧ k.rc ≠ 0 ∧ k.freed = false ∧ k'.phase = .aborted ∧ k'.cl = k.cl ∧ k.phase ≠ .dead := by
  subst hk; conn_crush k hp

/-- qb_ipcs_disconnect on a connection whose closed is running / queued / done: only the state write -/
theorem P.shutEarly {k : Conn} (hp : P k) (hst : k.st = .established ∨ k.st = .shuttingDown)
    (hcl : k.cl ≠ .todo) (k' : Conn) (hk : k' = { k with st := .shuttingDown }) :
    P k' ∧ FrameC k k' ∧ k'.phase = k.phase ∧ k'.cl = k.cl := by
  subst hk; conn_crush k hp

/-- connection_closed is invoked -/
theorem P.closedPre {k : Conn} (hp : P k) (hst : k.st = .established ∨ k.st = .shuttingDown)
    (hcl : k.cl = .todo) (ret : Int) (k' : Conn)
    (hk : k' = { monitor .closed ret { k with st := .shuttingDown } with closedSeen := true, cl := .running }) :
    P k' ∧ FrameC k k' ∧ k'.cl = .running ∧ k'.phase = (if ret = 0 then .closedOk else .closing) ∧
    k.phase ≠ .dead := by
  subst hk
  by_cases hr : ret = 0 <;> conn_crush k hp

theorem P.closedRetry {k : Conn} (hp : P k) (hcl : k.cl = .running) (hph : k.phase = .closing)
    (k' : Conn) (hk : k' = { k with cl := .retry }) :
    P k' ∧ k'.phase = .closing ∧ k'.brCreated = k.brCreated ∧ k'.brDispatch = k.brDispatch ∧
    k'.brWalk = k.brWalk ∧ k'.freed = k.freed := by
  subst hk; conn_crush k hp

theorem P.closedDone {k : Conn} (hp : P k) (hcl : k.cl = .running) (hph : k.phase = .closedOk)
    (k' : Conn) (hk : k' = { k with cl := .done, rc := k.rc - 1, init := false }) :
    P k' ∧ k.rc ≠ 0 ∧ k.freed = false ∧ k'.phase = .closedOk ∧ k'.brCreated = k.brCreated ∧
    k'.brDispatch = k.brDispatch ∧ k'.brWalk = k.brWalk := by
  subst hk; conn_crush k hp

theorem P.appD {k : Conn} (hp : P k) (k' : Conn) (hk : k' = { k with appDisc := true }) :
    P k' ∧ FrameC k k' ∧ k'.phase = k.phase ∧ k'.cl = k.cl ∧ k'.freed = k.freed := by
  subst hk; conn_crush k hp

theorem P.tch {k : Conn} (hp : P k) (ht : touchable k = true) : k.freed = false ∧ k.phase ≠ .dead := by
  conn_crush k hp

theorem P.appR {k : Conn} (hp : P k) (ht : touchable k = true)
    (k' : Conn) (hk : k' = { k with rc := k.rc + 1, appref := k.appref + 1 }) :
    P k' ∧ FrameC k k' ∧ k'.phase = k.phase ∧ k'.cl = k.cl := by
  subst hk; conn_crush k hp

theorem P.appU {k : Conn} (hp : P k) (hn : k.phase ≠ .none) (ha : k.appref ≠ 0)
    (k' : Conn) (hk : k' = { k with rc := k.rc - 1, appref := k.appref - 1 }) :
    P k' ∧ FrameC k k' ∧ k.rc ≠ 0 ∧ k.freed = false ∧ k'.phase = k.phase ∧ k.phase ≠ .dead ∧ k'.cl = k.cl := by
  subst hk; conn_crush k hp

/-- a library bracket takes / drops its reference -/
theorem P.refW {k : Conn} (hp : P k) (hb : k.brWalk = false) (hn : k.phase ≠ .none) (hd : k.phase ≠ .dead)
    (k' : Conn) (hk : k' = { k with rc := k.rc + 1, brWalk := true }) :
    P k' ∧ k.freed = false ∧ k'.phase = k.phase ∧ k'.cl = k.cl := by
  subst hk; conn_crush k hp
theorem P.decW {k : Conn} (hp : P k) (hb : k.brWalk = true)
    (k' : Conn) (hk : k' = { k with rc := k.rc - 1, brWalk := false }) :
    P k' ∧ k.rc ≠ 0 ∧ k.freed = false ∧ k'.phase = k.phase ∧ k.phase ≠ .none ∧ k.phase ≠ .dead ∧ k'.cl = k.cl := by
  subst hk; conn_crush k hp
theorem P.refD {k : Conn} (hp : P k) (hb : k.brDispatch = false) (hn : k.phase ≠ .none) (hd : k.phase ≠ .dead)
    (k' : Conn) (hk : k' = { k with rc := k.rc + 1, brDispatch := true }) :
    P k' ∧ k.freed = false ∧ k'.phase = k.phase ∧ k'.cl = k.cl := by
  subst hk; conn_crush k hp
theorem P.decD {k : Conn} (hp : P k) (hb : k.brDispatch = true)
    (k' : Conn) (hk : k' = { k with rc := k.rc - 1, brDispatch := false }) :
    P k' ∧ k.rc ≠ 0 ∧ k.freed = false ∧ k'.phase = k.phase ∧ k.phase ≠ .none ∧ k.phase ≠ .dead ∧ k'.cl = k.cl := by
  subst hk; conn_crush k hp
theorem P.decC {k : Conn} (hp : P k) (hb : k.brCreated = true)
    (k' : Conn) (hk : k' = { k with rc := k.rc - 1, brCreated := false }) :
    P k' ∧ k.rc ≠ 0 ∧ k.freed = false ∧ k'.phase = k.phase ∧ k.phase ≠ .none ∧ k.phase ≠ .dead ∧ k'.cl = k.cl := by
  subst hk; conn_crush k hp

/-- _rerun_closed_job_ -/
theorem P.jobReset {k : Conn} (hp : P k) (hcl : k.cl = .retry)
    (k' : Conn) (hk : k' = { k with cl := .todo }) :
    P k' ∧ k.freed = false ∧ k'.phase = .closing ∧ k'.freed = false := by
  subst hk; conn_crush k hp

theorem P.running {k : Conn} (hp : P k) (hcl : k.cl = .running) :
    k.freed = false ∧ (k.phase = .closing ∨ k.phase = .closedOk) := by
  conn_crush k hp

theorem P.bracket {k : Conn} (hp : P k) (hb : k.brCreated = true ∨ k.brDispatch = true ∨ k.brWalk = true) :
    k.freed = false ∧ k.phase ≠ .none ∧ k.phase ≠ .dead := by
  conn_crush k hp

theorem P.notAcc {k : Conn} (hp : P k) (hst : k.st = .established ∨ k.st = .shuttingDown) :
    k.phase ≠ .accepting ∧ k.phase ≠ .none := by
  conn_crush k hp

end QbVerif.IpcsLife
