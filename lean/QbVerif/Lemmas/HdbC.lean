/-
Tie T3 for the handle database: the two halves-of-a-handle helpers of the model are PROVED equal to
the definitions tools/c2lean.py generates from the current lib/hdb.c (Gen/HdbC.lean, regenerated on
every check run): `hSlot` is `qb_hdb_base_convert` (the `handle_in & UINT32_MAX` every call starts with)
and `mkHandle NOCHECK slot` is `qb_hdb_nocheck_convert`.  (The other functions of hdb.c store through
`qb_array_index` pointers and are outside the translatable subset.)
-/
import QbVerif.Model.Hdb
import QbVerif.Gen.HdbC

namespace QbVerif.Lemmas.HdbC
open QbVerif.Hdb QbVerif.Gen

/-- `qb_hdb_base_convert(handle)` = the model's slot half, for every 64-bit handle value -/
theorem hSlot_c_eq (h : Nat) : qb_hdb_base_convert_c (h : Int) = (hSlot h : Int) := by
  unfold qb_hdb_base_convert_c hSlot
  have e : (wrapU 64 (4294967295 : Int)).toNat = 2 ^ 32 - 1 := by decide
  rw [e, Int.toNat_natCast]
  show wrapU 32 (Int.ofNat (h &&& 2 ^ 32 - 1)) = _
  rw [Nat.and_two_pow_sub_one_eq_mod]
  unfold wrapU
  simp only [Int.ofNat_eq_natCast]
  omega

/-- `qb_hdb_nocheck_convert(slot)` = the model's handle with the no-check value in the upper half -/
theorem nocheck_c_eq (s : Nat) (hs : s < 2 ^ 32) :
    qb_hdb_nocheck_convert_c (s : Int) = (mkHandle NOCHECK s : Int) := by
  unfold qb_hdb_nocheck_convert_c mkHandle
  have e : (wrapU 64 ((wrapU 64 (4294967295 : Int)) * 2 ^ ((32 : Int)).toNat)).toNat = 2 ^ 32 * 4294967295 := by
    decide
  have e2 : (wrapU 64 (s : Int)).toNat = s := by
    unfold wrapU
    omega
  simp only [e, e2]
  show Int.ofNat (2 ^ 32 * 4294967295 ||| s) = _
  rw [← Nat.two_pow_add_eq_or_of_lt hs]
  rfl

end QbVerif.Lemmas.HdbC
