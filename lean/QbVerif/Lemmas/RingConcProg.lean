/-
C01 — a `qb_rb_chunk_read` call that starts while an unread chunk exists, with a buffer that is
large enough for it, can only return that chunk — whatever the writer does in the meantime.
(Safety form of "every written chunk is returned by a later read": the call has no other way out.)
-/
import QbVerif.Lemmas.RingConcR3
import QbVerif.Lemmas.RingConcObs

namespace QbVerif.RingConcLemmas
open QbVerif.Ring QbVerif.RingSpec QbVerif.RingLemmas QbVerif.RingConc

/-- the ways a reader call can return: program counter it returns from, and the result -/
def Exit (c : Conf) (o : Out) : Prop :=
  (c.rpc = .idle ∧ c.rb.tryWait = none) ∨ (∃ p, c.rpc = .rdMg p ∧ c.rb.magic p ≠ MAGIC) ∨ c.rpc = .rdBad ∨
  c.rpc = .rdShort ∨ c.rpc = .pkBad ∨ (∃ old, c.rpc = .rcMg old ∧ c.rb.magic old ≠ MAGIC) ∨
  (∃ n, c.rpc = .rcSetRp n ∧ o = .data c.rbuf)

/-- a reader step either stays inside the call or returns through one of the exits -/
theorem rstep_out (c : Conf) :
    ((rstep c).rprog = c.rprog ∧ (rstep c).rOuts = c.rOuts) ∨
    (∃ o, (rstep c).rprog = c.rprog.tail ∧ (rstep c).rOuts = c.rOuts ++ [o] ∧ Exit c o) := by
  unfold rstep
  split
  · exact .inl ⟨rfl, rfl⟩
  · rename_i op rest hp
    cases hpc : c.rpc
    all_goals (try dsimp only)
    case idle =>
      cases htw : c.rb.tryWait with
      | none =>
        cases op with
        | read cap => exact .inr ⟨_, by simp [Conf.rDone, Conf.addLin, hp], rfl, .inl ⟨hpc, htw⟩⟩
        | pr f => exact .inr ⟨_, by simp [Conf.rDone, Conf.addLin, hp], rfl, .inl ⟨hpc, htw⟩⟩
      | some r1 => cases op <;> exact .inl ⟨rfl, rfl⟩
    case rdMg p =>
      split
      · rename_i hm
        split
        · exact .inr ⟨_, by simp [Conf.rDone, Conf.addLin, hp], rfl, .inr (.inl ⟨p, hpc, hm⟩)⟩
        · exact .inl ⟨rfl, rfl⟩
      · exact .inl ⟨rfl, rfl⟩
    case rdBad => exact .inr ⟨_, by simp [Conf.rDone, Conf.addLin, hp], rfl, .inr (.inr (.inl hpc))⟩
    case rdShort => exact .inr ⟨_, by simp [Conf.rDone, Conf.addLin, hp], rfl, .inr (.inr (.inr (.inl hpc)))⟩
    case pkBad => exact .inr ⟨_, by simp [Conf.rDone, hp], rfl, .inr (.inr (.inr (.inr (.inl hpc))))⟩
    case rcMg old =>
      split
      · rename_i hm
        exact .inr ⟨_, by simp [Conf.rDone, hp], rfl, .inr (.inr (.inr (.inr (.inr (.inl ⟨old, hpc, hm⟩)))))⟩
      · exact .inl ⟨rfl, rfl⟩
    case rcSetRp n =>
      refine .inr ⟨.data c.rbuf, ?_, ?_, .inr (.inr (.inr (.inr (.inr (.inr ⟨n, hpc, rfl⟩)))))⟩
      · cases op <;> simp [Conf.rDone, Conf.addLin, hp]
      · cases op <;> simp [Conf.rDone, Conf.addLin]
    case rdRp => exact .inl ⟨rfl, rfl⟩
    case rdSz p =>
      repeat' split
      all_goals exact .inl ⟨rfl, rfl⟩
    case rdCpy p sz => exact .inl ⟨rfl, rfl⟩
    case pkRp => exact .inl ⟨rfl, rfl⟩
    case pkMg p =>
      repeat' split
      all_goals exact .inl ⟨rfl, rfl⟩
    case pkSz p => exact .inl ⟨rfl, rfl⟩
    case rcopy p sz j =>
      repeat' split
      all_goals exact .inl ⟨rfl, rfl⟩
    case rcRp => exact .inl ⟨rfl, rfl⟩
    case rcSz o => exact .inl ⟨rfl, rfl⟩
    case rcStep o => exact .inl ⟨rfl, rfl⟩
    case rcClr o n => exact .inl ⟨rfl, rfl⟩
    case rcDead o n => exact .inl ⟨rfl, rfl⟩

/-- with the head chunk `d` present and fitting the buffer, the only exit of a `read` call is
    "return `d`" -/
theorem exit_read_head {c : Conf} {q : List (List Nat)} {cap : Nat} {rest : List ROp} {d : List Nat} {ds}
    (h : CInv c q) (hp : c.rprog = .read cap :: rest) (hq : q = d :: ds) (hcap : d.length ≤ cap) {o : Out}
    (he : Exit c o) : o = .data d := by
  have hrf := RFacts_get hp h.rf
  have hne : q ≠ [] := by rw [hq]; simp
  rcases he with ⟨hpc, htw⟩ | ⟨p, hpc, hm⟩ | hpc | hpc | hpc | ⟨old, hpc, hm⟩ | ⟨n, hpc, rfl⟩
  · exfalso
    rcases tryWait_cases c.rb with ⟨hsem, _⟩ | ⟨s, htw', _⟩
    · have := h.semc 0 hsem
      rw [hpc, hq] at this
      simp [rtok] at this
    · rw [htw] at htw'; cases htw'
  · exfalso
    rw [hpc] at hrf
    exact hm ((h.magic_iff hrf.2 (by rw [hpc]; rfl) (by rw [hpc]; rfl)).mpr hne)
  · rw [hpc] at hrf; exact absurd hrf (by simp [RF])
  · exfalso
    rw [hpc] at hrf
    obtain ⟨cap', d', ds', e1, e2, e3⟩ := hrf
    cases e1
    rw [hq] at e2
    obtain ⟨rfl, _⟩ := List.cons.inj e2
    omega
  · rw [hpc] at hrf; exact absurd hrf.1 (by simp [isPr])
  · exfalso
    rw [hpc] at hrf
    obtain ⟨d', hrc, hold⟩ := hrf
    exact hm ((h.magic_iff hold (by rw [hpc]; rfl) (by rw [hpc]; rfl)).mpr hne)
  · rw [hpc] at hrf
    obtain ⟨d', ⟨⟨ds', e2⟩, hbuf, _⟩, _⟩ := hrf
    rw [hq] at e2
    obtain ⟨rfl, _⟩ := List.cons.inj e2
    rw [hbuf]

/-- state of the pending call: still inside it with the head chunk in place, or it has returned
    the head chunk -/
def Pending (k : Nat) (cap : Nat) (rest : List ROp) (d : List Nat) (c : Conf) : Prop :=
  (c.rOuts.length = k ∧ c.rprog = .read cap :: rest ∧ c.readsOk = okReads c.rOuts ∧ ∃ ds, CInv c (d :: ds)) ∨
  (c.rOuts[k]? = some (.data d))

theorem step_pending {k cap : Nat} {rest : List ROp} {d : List Nat} (hcap : d.length ≤ cap) {c : Conf}
    (h : Pending k cap rest d c) (t : Tid) : Pending k cap rest d (step c t) := by
  rcases h with ⟨hk, hp, hobs, ds, hi⟩ | hdone
  · cases t with
    | w =>
      show Pending k cap rest d (wstep c)
      left
      have hr := wstep_robs c
      have hrs : (wstep c).rprog = c.rprog := by
        unfold wstep
        repeat' split
        all_goals (try dsimp only)
        all_goals (repeat' split)
        all_goals first
          | rfl
          | (cases c.rb.sem <;> rfl)
      refine ⟨by show (wstep c).rOuts.length = k; rw [hr.2]; exact hk, by show (wstep c).rprog = _; rw [hrs]; exact hp,
        by show (wstep c).readsOk = _; rw [hr.1, hr.2]; exact hobs, ?_⟩
      rcases wstep_inv hi with h' | ⟨op, r', _, h'⟩
      · exact ⟨ds, h'⟩
      · exact ⟨ds ++ [op.data], h'⟩
    | r =>
      show Pending k cap rest d (rstep c)
      have hobs' := rstep_obs c hobs
      rcases rstep_out c with ⟨h1, h2⟩ | ⟨o, h1, h2, he⟩
      · left
        refine ⟨by rw [h2]; exact hk, by rw [h1]; exact hp, hobs', ?_⟩
        rcases rstep_inv hi with h' | ⟨d', ds', e, _, h'⟩
        · exact ⟨ds, h'⟩
        · exfalso
          have hw := (rstep_wside c).1
          have a := hi.hq
          have b := h'.hq
          rw [hw, a, hobs', h2, ← hobs] at b
          have := List.append_cancel_left b
          have hl := congrArg List.length this
          obtain ⟨_, rfl⟩ := List.cons.inj e
          simp at hl
      · right
        have := exit_read_head hi hp rfl hcap he
        subst this
        rw [h2, ← hk]
        simp
  · right
    have hmono : ∀ c : Conf, ∀ t, c.rOuts[k]? = some (.data d) → (step c t).rOuts[k]? = some (.data d) := by
      intro c t hd
      have hlt : k < c.rOuts.length := by
        rcases Nat.lt_or_ge k c.rOuts.length with h | h
        · exact h
        · rw [List.getElem?_eq_none h] at hd; cases hd
      cases t with
      | w => show (wstep c).rOuts[k]? = _; rw [(wstep_robs c).2]; exact hd
      | r =>
        show (rstep c).rOuts[k]? = _
        rcases rstep_out c with ⟨_, h2⟩ | ⟨o, _, h2, _⟩
        · rw [h2]; exact hd
        · rw [h2, List.getElem?_append_left hlt]; exact hd
    exact hmono c t hdone

theorem run_pending {k cap : Nat} {rest : List ROp} {d : List Nat} (hcap : d.length ≤ cap) {c : Conf}
    (h : Pending k cap rest d c) (sched : List Tid) : Pending k cap rest d (run c sched) := by
  induction sched generalizing c with
  | nil => exact h
  | cons t ts ih => exact ih (step_pending hcap h t)

/-! ### the same for `qb_rb_chunk_peek` + copy + `qb_rb_chunk_reclaim` -/

/-- the only way to the "nothing there" exit of a peek is a magic word that is not MAGIC -/
theorem rstep_pkBad (c : Conf) (hn : c.rpc ≠ .pkBad) (h : (rstep c).rpc = .pkBad) :
    ∃ p, c.rpc = .pkMg p ∧ c.rb.magic p ≠ MAGIC := by
  unfold rstep at h
  split at h
  · exact absurd h hn
  · rename_i op rest hp
    cases hpc : c.rpc
    all_goals (rw [hpc] at h; dsimp only at h)
    case pkMg p =>
      by_cases hm : c.rb.magic p ≠ MAGIC
      · exact ⟨p, rfl, hm⟩
      · rw [if_neg hm] at h; cases h
    case pkBad => exact absurd hpc hn
    case rcopy p sz j =>
      exfalso
      repeat' split at h
      all_goals cases h
    all_goals first
      | (cases h; done)
      | (simp [Conf.rDone, Conf.addLin] at h; done)
      | (split at h <;> simp [Conf.rDone, Conf.addLin] at h; done)
      | (split at h <;> (try split at h) <;> simp [Conf.rDone, Conf.addLin] at h; done)
      | (cases op <;> simp [Conf.rDone, Conf.addLin] at h; done)

theorem exit_pr_head {c : Conf} {q : List (List Nat)} {f : Bool} {rest : List ROp} {d : List Nat} {ds}
    (h : CInv c q) (hp : c.rprog = .pr f :: rest) (hq : q = d :: ds) (hnb : c.rpc ≠ .pkBad) {o : Out}
    (he : Exit c o) : o = .data d := by
  have hrf := RFacts_get hp h.rf
  have hne : q ≠ [] := by rw [hq]; simp
  rcases he with ⟨hpc, htw⟩ | ⟨p, hpc, hm⟩ | hpc | hpc | hpc | ⟨old, hpc, hm⟩ | ⟨n, hpc, rfl⟩
  · exfalso
    rcases tryWait_cases c.rb with ⟨hsem, _⟩ | ⟨s, htw', _⟩
    · have := h.semc 0 hsem
      rw [hpc, hq] at this
      simp [rtok] at this
    · rw [htw] at htw'; cases htw'
  · rw [hpc] at hrf; exact absurd hrf.1 (by simp [isRead])
  · rw [hpc] at hrf; exact absurd hrf (by simp [RF])
  · rw [hpc] at hrf; obtain ⟨cap', d', ds', e1, _⟩ := hrf; cases e1
  · exact absurd hpc hnb
  · exfalso
    rw [hpc] at hrf
    obtain ⟨d', hrc, hold⟩ := hrf
    exact hm ((h.magic_iff hold (by rw [hpc]; rfl) (by rw [hpc]; rfl)).mpr hne)
  · rw [hpc] at hrf
    obtain ⟨d', ⟨⟨ds', e2⟩, hbuf, _⟩, _⟩ := hrf
    rw [hq] at e2
    obtain ⟨rfl, _⟩ := List.cons.inj e2
    rw [hbuf]

def PendingP (k : Nat) (f : Bool) (rest : List ROp) (d : List Nat) (c : Conf) : Prop :=
  (c.rOuts.length = k ∧ c.rprog = .pr f :: rest ∧ c.rpc ≠ .pkBad ∧ c.readsOk = okReads c.rOuts ∧
    ∃ ds, CInv c (d :: ds)) ∨
  (c.rOuts[k]? = some (.data d))

theorem rOuts_mono (k : Nat) (o : Out) (c : Conf) (t : Tid) (hd : c.rOuts[k]? = some o) :
    (step c t).rOuts[k]? = some o := by
  have hlt : k < c.rOuts.length := by
    rcases Nat.lt_or_ge k c.rOuts.length with h | h
    · exact h
    · rw [List.getElem?_eq_none h] at hd; cases hd
  cases t with
  | w => show (wstep c).rOuts[k]? = _; rw [(wstep_robs c).2]; exact hd
  | r =>
    show (rstep c).rOuts[k]? = _
    rcases rstep_out c with ⟨_, h2⟩ | ⟨o', _, h2, _⟩
    · rw [h2]; exact hd
    · rw [h2, List.getElem?_append_left hlt]; exact hd

theorem step_pendingP {k : Nat} {f : Bool} {rest : List ROp} {d : List Nat} {c : Conf}
    (h : PendingP k f rest d c) (t : Tid) : PendingP k f rest d (step c t) := by
  rcases h with ⟨hk, hp, hnb, hobs, ds, hi⟩ | hdone
  · cases t with
    | w =>
      show PendingP k f rest d (wstep c)
      left
      have hr := wstep_robs c
      have hrs : (wstep c).rprog = c.rprog ∧ (wstep c).rpc = c.rpc := by
        unfold wstep
        repeat' split
        all_goals (try dsimp only)
        all_goals (repeat' split)
        all_goals first
          | exact ⟨rfl, rfl⟩
          | (cases c.rb.sem <;> exact ⟨rfl, rfl⟩)
      refine ⟨by rw [hr.2]; exact hk, by rw [hrs.1]; exact hp, by rw [hrs.2]; exact hnb,
        by rw [hr.1, hr.2]; exact hobs, ?_⟩
      rcases wstep_inv hi with h' | ⟨op, r', _, h'⟩
      · exact ⟨ds, h'⟩
      · exact ⟨ds ++ [op.data], h'⟩
    | r =>
      show PendingP k f rest d (rstep c)
      have hobs' := rstep_obs c hobs
      rcases rstep_out c with ⟨h1, h2⟩ | ⟨o, h1, h2, he⟩
      · left
        refine ⟨by rw [h2]; exact hk, by rw [h1]; exact hp, ?_, hobs', ?_⟩
        · intro e
          obtain ⟨p, hpc, hm⟩ := rstep_pkBad c hnb e
          have hrf := RFacts_get hp hi.rf
          rw [hpc] at hrf
          exact hm ((hi.magic_iff hrf.2 (by rw [hpc]; rfl) (by rw [hpc]; rfl)).mpr (by simp))
        · rcases rstep_inv hi with h' | ⟨d', ds', e, _, h'⟩
          · exact ⟨ds, h'⟩
          · exfalso
            have hw := (rstep_wside c).1
            have a := hi.hq
            have b := h'.hq
            rw [hw, a, hobs', h2, ← hobs] at b
            have := List.append_cancel_left b
            have hl := congrArg List.length this
            obtain ⟨_, rfl⟩ := List.cons.inj e
            simp at hl
      · right
        have := exit_pr_head hi hp rfl hnb he
        subst this
        rw [h2, ← hk]
        simp
  · exact .inr (rOuts_mono k _ c t hdone)

theorem run_pendingP {k : Nat} {f : Bool} {rest : List ROp} {d : List Nat} {c : Conf}
    (h : PendingP k f rest d c) (sched : List Tid) : PendingP k f rest d (run c sched) := by
  induction sched generalizing c with
  | nil => exact h
  | cons t ts ih => exact ih (step_pendingP h t)

end QbVerif.RingConcLemmas
