/-
C08: the generic walk with CONTEXT.  `Stable` (LoopWalk.lean) asks every bookkeeping line of the dispatch
functions to keep the predicate from ANY state; structural facts (a slot that is being dispatched is on no
list; it is marked EMPTY only after its callback) need to know WHICH item is in flight.  Here one round of
qb_loop_run_level is cut into
    begin  = unlink the head + ghost log + the lines of the dispatch function before the callback
             (timer_dispatch: assert JOBLIST, check = 0;  _poll_dispatch_and_take_back_: assert) — ATOMIC,
    the callback's script (API calls with `nested = true`) under the in-flight predicate `R it p`,
    finish = the lines after the callback (free / state = EMPTY / fdAfter / signal_del + free) + `todo--`.
`okIn` restricts the operations inside scripts, `okOut` those of protocol lines.  Core Lean only.
-/
import QbVerif.Lemmas.LoopWalk2

namespace QbVerif.Loop

/-- the `user_data` the dispatch function passes to the callback -/
def St.itemData (s : St) : Item → Nat
  | .job _ d => d
  | .timer i => (s.timerSlot i).data
  | .fd i => (s.pe i).data
  | .sig _ _ _ d => d

/-- the lines of the dispatch function before the callback -/
def St.pre (s : St) : Item → St
  | .job _ _ => s
  | .timer i => (s.abortUnless ((s.timerSlot i).state == .joblist)).setTimer i { s.timerSlot i with check := 0 }
  | .fd i => s.abortUnless ((s.pe i).state == .joblist)
  | .sig _ _ _ _ => s

/-- the lines of the dispatch function after the callback returned `res` -/
def St.post (s : St) (res : Int) : Item → St
  | .job aid _ => { s with freed := aid :: s.freed }
  | .timer i => s.setTimer i { s.timerSlot i with state := .empty }
  | .fd i => s.fdAfter i res
  | .sig cid reg _ _ => (s.sigDelIf reg res).freeIfOk cid

theorem abortUnless_pe (s : St) (ok : Bool) (i : Nat) : (s.abortUnless ok).pe i = s.pe i := by
  unfold St.abortUnless; split <;> rfl

theorem dispatch_eq (s : St) (it : Item) :
    (s.dispatch it).1 =
      (((s.pre it).runScript (s.itemData it)).1).post ((s.pre it).runScript (s.itemData it)).2.1 it := by
  cases it with
  | job aid d => rfl
  | timer i => rw [dispatch_timer]; rfl
  | fd i => rw [dispatch_fd]; rfl
  | sig cid reg sg d => rfl

/-- what a callback's script may do to a predicate -/
structure ScriptStable (Q : St → Prop) (okIn : Op → Prop) : Prop where
  scriptsOk : ∀ s, Q s → ∀ e ∈ s.scripts, ∀ o ∈ e.2.ops, okIn o
  api : ∀ s op, okIn op → Q s → Q (s.api true op).1
  setScripts : ∀ s id (sc : Script), (∀ o ∈ sc.ops, okIn o) → Q s → Q { s with scripts := assoc s.scripts id sc }

variable {Q : St → Prop} {okIn okOut : Op → Prop}

theorem ScriptStable.apis (st : ScriptStable Q okIn) (ops : List Op) (hok : ∀ o ∈ ops, okIn o) :
    ∀ (acc : St × List Ev), Q acc.1 →
    Q (ops.foldl (fun (acc : St × List Ev) op => let (s1, e) := acc.1.api true op; (s1, acc.2 ++ e)) acc).1 := by
  induction ops with
  | nil => intro acc h; exact h
  | cons o os ih =>
    intro acc h
    simp only [List.foldl_cons]
    apply ih (fun o' ho' => hok o' (List.mem_cons_of_mem _ ho'))
    exact st.api _ o (hok o List.mem_cons_self) h

theorem ScriptStable.runScript (st : ScriptStable Q okIn) (s : St) (id : Nat) (h : Q s) : Q (s.runScript id).1 := by
  unfold St.runScript
  split
  · exact h
  · rename_i sc hsc
    obtain ⟨e, he, rfl⟩ := lookup_some_mem hsc
    have hok := st.scriptsOk s h e he
    have h1 : Q { s with scripts := assoc s.scripts id { e.2 with runs := e.2.runs + 1 } } :=
      st.setScripts s id _ hok h
    dsimp only
    split
    · split
      · exact h1
      · exact st.apis _ hok (_, []) h1
    · exact st.apis _ hok (_, []) h1

structure Walk (P : St → Prop) (R : Item → Nat → St → Prop) (okIn okOut : Op → Prop) : Prop where
  inner : ∀ it p, ScriptStable (R it p) okIn
  scriptsOk : ∀ s, P s → ∀ e ∈ s.scripts, ∀ o ∈ e.2.ops, okIn o
  apiOut : ∀ s op, okOut op → P s → P (s.api false op).1
  setScripts : ∀ s id (sc : Script), (∀ o ∈ sc.ops, okIn o) → P s → P { s with scripts := assoc s.scripts id sc }
  begin : ∀ s p it rest, (s.lv p).jobs = it :: rest → s.fault.isSome = false → P s →
    R it p ((s.popped p it rest).pre it)
  finish : ∀ s it p res, R it p s → P ((s.post res it).todoDec p)
  setRemaining : ∀ s r, P s → P { s with remaining := r }
  enterRun : ∀ s, P s → P { s with inRun := true, stop := false, pstop := Gen.QB_LOOP_LOW, remaining := 0 }
  leaveRun : ∀ s, P s → P { s with inRun := false }
  beginIter : ∀ s, P s → P s.beginIteration
  pollEvent : ∀ s r rev, P s → P (s.pollEvent r rev).1

variable {P : St → Prop} {R : Item → Nat → St → Prop}

theorem Walk.afterOne (w : Walk P R okIn okOut) (s : St) (p : Nat) (it : Item) (rest : List Item)
    (hj : (s.lv p).jobs = it :: rest) (hf : s.fault.isSome = false) (h : P s) : P (s.afterOne p it rest) := by
  unfold St.afterOne
  rw [dispatch_eq]
  exact w.finish _ it p _ ((w.inner it p).runScript _ _ (w.begin s p it rest hj hf h))

theorem Walk.runLevelAux (w : Walk P R okIn okOut) (p n : Nat) (s : St) (out : List Ev) (h : P s) :
    P (St.runLevelAux p n s out).1 := by
  induction n generalizing s out with
  | zero => exact h
  | succ n ih =>
    cases hf : s.fault.isSome with
    | true => rw [runLevelAux_fault p n s out hf]; exact h
    | false =>
      cases hj : (s.lv p).jobs with
      | nil => rw [runLevelAux_nil p n s out hj]; exact h
      | cons it rest =>
        rw [runLevelAux_cons p n s out it rest hf hj]
        have h1 := w.afterOne s p it rest hj hf h
        split
        · exact h1
        · exact ih _ _ h1

theorem Walk.levelLoop (w : Walk P R okIn okOut) (s : St) (h : P s) : P s.levelLoop.1 := by
  unfold St.levelLoop
  dsimp only
  generalize hstep : (fun (acc : St × Bool × Int × List Ev) (p : Nat) => _) = step
  have key : P (List.foldl step (s, false, 0, []) [Gen.QB_LOOP_HIGH, Gen.QB_LOOP_MED, Gen.QB_LOOP_LOW]).1 := by
    apply foldl_inv step (fun acc => P acc.1)
    · intro acc p hacc
      subst hstep
      obtain ⟨s0, ret, rem, out⟩ := acc
      dsimp only
      split
      · exact hacc
      · split
        · have := w.runLevelAux p (max 1 (toProcessOf p)) s0 out hacc
          unfold St.runLevel
          split <;> exact this
        · exact hacc
    · exact h
  generalize List.foldl step (s, false, 0, []) _ = r at key ⊢
  obtain ⟨s1, ret, rem, out⟩ := r
  exact w.setRemaining s1 rem key

theorem Walk.iterate (w : Walk P R okIn okOut) (s : St) (ready : List (Nat × Nat)) (h : P s) :
    P (s.iterate ready).1 := by
  unfold St.iterate
  split
  · exact h
  · dsimp only
    generalize hs0 : (if s.inRun = true then s else _) = s0
    have h0 : P s0 := by
      subst hs0
      split
      · exact h
      · exact w.beginIter _ (w.enterRun s h)
    generalize hf : (fun (acc : St × List Ev) (e : EpReg × Nat) => _) = f
    have h1 : P (List.foldl f (s0, [Ev.wait s0.parkedT]) (s0.readyEvents ready)).1 := by
      apply foldl_inv f (fun acc => P acc.1)
      · intro acc e hacc
        subst hf
        dsimp only
        split
        · exact hacc
        · exact w.pollEvent _ _ _ hacc
      · exact h0
    generalize List.foldl f (s0, [Ev.wait s0.parkedT]) (s0.readyEvents ready) = r at h1 ⊢
    obtain ⟨s1, out1⟩ := r
    dsimp only at h1 ⊢
    split
    · exact h1
    · have h2 := w.levelLoop s1 h1
      generalize s1.levelLoop = r2 at h2 ⊢
      obtain ⟨s2, ret, out2⟩ := r2
      dsimp only at h2 ⊢
      split
      · exact h2
      · split
        · exact w.leaveRun s2 h2
        · exact w.beginIter s2 h2

/-- the operations a protocol line may contain: `okIn` inside script definitions, `okOut` for direct calls -/
def Cmd.ok2 (okIn okOut : Op → Prop) : Cmd → Prop
  | .script _ sc => ∀ o ∈ sc.ops, okIn o
  | .iterate _ => True
  | .op o => okOut o

theorem Walk.cmd (w : Walk P R okIn okOut) (s : St) (c : Cmd) (hc : c.ok2 okIn okOut) (h : P s) : P (s.cmd c).1 := by
  cases c with
  | script id sc =>
    simp only [St.cmd]
    split
    · exact h
    · split
      · exact w.setScripts s id sc hc h
      · exact h
  | iterate ready =>
    simp only [St.cmd]
    split
    · exact h
    · exact w.iterate s ready h
  | op o =>
    simp only [St.cmd]
    split
    · exact h
    · exact w.apiOut s o hc h

theorem Walk.run (w : Walk P R okIn okOut) (s : St) (cs : List Cmd) (hc : ∀ c ∈ cs, c.ok2 okIn okOut) (h : P s) :
    P (s.run cs).1 := by
  induction cs generalizing s with
  | nil => exact h
  | cons c cs ih =>
    simp only [St.run]
    exact ih _ (fun c' hc' => hc c' (List.mem_cons_of_mem _ hc')) (w.cmd s c (hc c List.mem_cons_self) h)

end QbVerif.Loop
