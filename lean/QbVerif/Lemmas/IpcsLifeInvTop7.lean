import QbVerif.Lemmas.IpcsLifeInvBatch
import QbVerif.Lemmas.IpcsLifeInvWalk

/-! C04 — EVERY external operation (incl. qb_ipcs_destroy, pending handshakes, the harness's finish, request
    bursts, rate-limit changes, poll-handler faults) preserves the history invariant, from the initial state. -/
namespace QbVerif.IpcsLife

/-- operations covered: script, connect, send, gone, application API calls, job, run -/
def LiveOp : Op → Prop
  | .destroy => False
  | .half _ => False
  | .halfgone _ => False
  | .finish => False
  | _ => True

theorem sees_established {s : St} {c : Nat} (h : serverSees s c = true) : (s.conns c).st = .established := by
  unfold serverSees at h
  simp at h
  exact h.2

theorem gone_ok {s : St} (h : TopInv s) (hh : s.halt = false) (K : Nat) (s' : St) (hg : gone s K = some s') :
    TopInv s' := by
  unfold gone at hg
  split at hg
  · cases hg
  · next c _ =>
    simp only [Option.some.injEq] at hg
    subst hg
    have h0 : TopInv ({ s with clients := s.clients.filter fun p => p.1 != K } : St) :=
      h.same ⟨rfl, rfl, rfl, rfl, rfl, rfl⟩ rfl (fun hx => hx)
    split
    · next hs =>
      have := dispatchHup_ok h0.core c hh (h0.nb hh) (sees_established hs)
      exact ⟨this.1, this.2⟩
    · exact h0

theorem foldl_top {α : Type} (f : St → α → St) (hf : ∀ s a, TopInv s → TopInv (f s a)) :
    ∀ (l : List α) (s : St), TopInv s → TopInv (l.foldl f s)
  | [], _, h => h
  | a :: r, s, h => foldl_top f hf r (f s a) (hf s a h)

theorem dropAppRefs_ok : ∀ (n : Nat) (s : St) (c : Nat), TopInv s → TopInv (dropAppRefs n s c)
  | 0, _, _, h => h
  | n+1, s, c, h => by
    unfold dropAppRefs
    split
    · exact h
    · next hx =>
      split
      · exact dropAppRefs_ok n _ c (h.exec (by simpa using hx) (.app 0 (.u c)) trivial)
      · exact h

theorem halfGone_ok {s : St} (h : TopInv s) (P : Nat) : TopInv (halfGone s P) :=
  have hs := halfGone_same s P
  h.same hs.1 hs.2.1 hs.2.2

theorem finBtail_ok (w : St) (i : Nat) (hw : TopInv w) :
    TopInv (if w.halt then w else if w.halfs.contains i then halfGone w i else w) := by
  split
  · exact hw
  · split
    · exact halfGone_ok hw i
    · exact hw

theorem finCtail_ok (w : St) (hw : TopInv w) : TopInv (if w.halt then w else w.emit (.res "finished")) := by
  split
  · exact hw
  · exact hw.same (same_emit _ _) rfl (fun hy => hy)

def finA (s : St) : St := (List.range s.nconn).foldl (fun s i => dropAppRefs 64 s (i + 1)) s
def finB (s : St) : St := (List.range 16).foldl (fun s i =>
    if s.halt then s else
    let s := match gone s i with | some s' => s' | none => s
    if s.halt then s else
    if s.halfs.contains i then halfGone s i else s) s
def finC (s : St) : St :=
  if s.halt then s else
  let s := if s.svcGone then s else destroy s
  let s := runJobs 1000 s
  if s.halt then s else s.emit (.res "finished")

theorem finish_eq (s : St) : finish s = finC (finB (finA s)) := rfl

/-- the harness's `finish`: drop every application reference, every client and raw peer goes away,
    qb_ipcs_destroy, run the retry jobs -/
theorem finish_ok {s : St} (h : TopInv s) : TopInv (finish s) := by
  rw [finish_eq]
  have hA : TopInv (finA s) := foldl_top _ (fun s i h => dropAppRefs_ok 64 s (i + 1) h) _ s h
  have hB : TopInv (finB (finA s)) := by
    refine foldl_top _ (fun s i h => ?_) _ _ hA
    split
    · exact h
    · next hx =>
      have hh : s.halt = false := by simpa using hx
      have hg : TopInv (match gone s i with | some s' => s' | none => s) := by
        split
        · next s' hs => exact gone_ok h hh i s' hs
        · exact h
      exact finBtail_ok _ i hg
  generalize finB (finA s) = w at hB
  unfold finC
  split
  · exact hB
  · next hx =>
    have hh : w.halt = false := by simpa using hx
    have hD : TopInv (if w.svcGone then w else destroy w) := by
      split
      · exact hB
      · exact destroy_ok hB hh
    exact finCtail_ok _ (runJobs_ok 1000 _ hD)

/-- EVERY operation preserves the history invariant -/
theorem step_ok (s : St) (op : Op) (h : TopInv s) : TopInv (step s op) := by
  unfold step
  split
  · exact h
  · next hh =>
    have hh' : s.halt = false := by simpa using hh
    cases op with
    | script k es =>
      apply TopInv.ok
      cases k <;> exact h.same ⟨rfl, rfl, rfl, rfl, rfl, rfl⟩ rfl (fun hx => hx)
    | connect K =>
      have := connect_ok h.core hh' (h.nb hh') K
      exact ⟨this.1, this.2⟩
    | send K =>
      simp only []
      split
      · exact h.same (same_emit s _) rfl (fun hx => hx)
      · next c _ =>
        apply TopInv.ok
        split
        · next hs =>
          have := dispatchMsg_ok h.core c hh' (h.nb hh') (sees_established hs)
          exact ⟨this.1, this.2⟩
        · exact h
    | gone K =>
      simp only []
      split
      · exact h.same (same_emit s _) rfl (fun hx => hx)
      · next s' hg => exact (gone_ok h hh' K s' hg).ok
    | app o => exact (h.exec hh' (.app 0 o) trivial).ok
    | job =>
      simp only []
      split
      · exact h.same (same_emit s _) rfl (fun hx => hx)
      · next s' hr => exact (runJob_ok h hh' s' hr).ok
    | run => exact (runJobs_ok 1000 s h).ok
    | destroy =>
      simp only []
      split
      · exact h.same (same_emit s _) rfl (fun hx => hx)
      · exact (destroy_ok h hh').ok
    | half P =>
      simp only []
      have h1 := same_pollAdd s
      split
      · exact h.same (same_emit s _) rfl (fun hx => hx)
      · split
        · have h2 := same_authRefused s.pollAdd.2
          exact h.same (h1.1.trans h2.1) (h2.2.1.trans h1.2.1) (fun hx => by rw [← h1.2.2]; exact h2.2.2 hx)
        · apply TopInv.ok
          exact h.same (h1.1.trans ⟨rfl, rfl, rfl, rfl, rfl, rfl⟩) h1.2.1 (fun hx => by rw [← h1.2.2]; exact hx)
    | halfgone P =>
      simp only []
      split
      · exact (halfGone_ok h P).ok
      · exact h.same (same_emit s _) rfl (fun hx => hx)
    | finish => exact finish_ok h
    | sendn K n =>
      simp only []
      split
      · exact h.same (same_emit s _) rfl (fun hx => hx)
      · next c _ => exact (sendLoop_ok n h c n).ok
    | rate r =>
      simp only []
      split
      · exact h.same (same_emit s _) rfl (fun hx => hx)
      · exact (rateLimit_ok h r).ok
    | fault kind n =>
      apply TopInv.ok
      split
      · exact h.same ⟨rfl, rfl, rfl, rfl, rfl, rfl⟩ rfl (fun hx => hx)
      · exact h

/-- EVERY history preserves the history invariant -/
theorem run_ok (ops : List Op) : ∀ (s : St), TopInv s → TopInv (run s ops) := by
  induction ops with
  | nil => intro s h; exact h
  | cons o r ih =>
    intro s h
    simp only [run, List.foldl_cons]
    exact ih (step s o) (step_ok s o h)

theorem step_live_ok (s : St) (op : Op) (h : TopInv s) (_hl : LiveOp op) : TopInv (step s op) := step_ok s op h
theorem run_live_ok (ops : List Op) (s : St) (h : TopInv s) (_hl : ∀ op, op ∈ ops → LiveOp op) :
    TopInv (run s ops) := run_ok ops s h

theorem initFixed_top : TopInv initFixed := by
  have hi : Inv initFixed :=
    ⟨⟨rfl, rfl, rfl⟩, fun _ => ⟨rfl, rfl, rfl, by simp [PhaseOk, initFixed], by simp [initFixed]⟩,
     fun c h => by simp [initFixed] at h, List.nodup_nil, fun c => by simp [initFixed]⟩
  exact ⟨⟨hi, fun _ _ => rfl, List.nodup_nil, fun c h => by simp [initFixed] at h,
    fun c h => by simp [initFixed] at h⟩, fun _ _ => rfl⟩

end QbVerif.IpcsLife
