import QbVerif.Lemmas.IpcsLifeInvTop6

/-! C04 — histories of the external operations proved so far (everything except destroy, half,
    halfgone, finish) preserve the history invariant, from the initial state. -/
namespace QbVerif.IpcsLife

/-- operations covered: script, connect, send, gone, application API calls, job, run -/
def LiveOp : Op → Prop
  | .destroy => False
  | .half _ => False
  | .halfgone _ => False
  | .finish => False
  | _ => True

theorem sees_established {s : St} {c : Nat} (h : serverSees s c = true) : (s.conns c).st = .established := by
  unfold serverSees at h
  simp at h
  exact h.2

theorem gone_ok {s : St} (h : TopInv s) (hh : s.halt = false) (K : Nat) (s' : St) (hg : gone s K = some s') :
    TopInv s' := by
  unfold gone at hg
  split at hg
  · cases hg
  · next c _ =>
    simp only [Option.some.injEq] at hg
    subst hg
    have h0 : TopInv ({ s with clients := s.clients.filter fun p => p.1 != K } : St) :=
      h.same ⟨rfl, rfl, rfl, rfl, rfl, rfl⟩ rfl (fun hx => hx)
    split
    · next hs =>
      have := dispatchHup_ok h0.core c hh (h0.nb hh) (sees_established hs)
      exact ⟨this.1, this.2⟩
    · exact h0

theorem step_live_ok (s : St) (op : Op) (h : TopInv s) (hl : LiveOp op) : TopInv (step s op) := by
  unfold step
  split
  · exact h
  · next hh =>
    have hh' : s.halt = false := by simpa using hh
    cases op with
    | script k es =>
      apply TopInv.ok
      cases k <;> exact h.same ⟨rfl, rfl, rfl, rfl, rfl, rfl⟩ rfl (fun hx => hx)
    | connect K =>
      have := connect_ok h.core hh' (h.nb hh') K
      exact ⟨this.1, this.2⟩
    | send K =>
      simp only []
      split
      · exact h.same (same_emit s _) rfl (fun hx => hx)
      · next c _ =>
        apply TopInv.ok
        split
        · next hs =>
          have := dispatchMsg_ok h.core c hh' (h.nb hh') (sees_established hs)
          exact ⟨this.1, this.2⟩
        · exact h
    | gone K =>
      simp only []
      split
      · exact h.same (same_emit s _) rfl (fun hx => hx)
      · next s' hg => exact (gone_ok h hh' K s' hg).ok
    | app o => exact (h.exec hh' (.app 0 o) trivial).ok
    | job =>
      simp only []
      split
      · exact h.same (same_emit s _) rfl (fun hx => hx)
      · next s' hr => exact (runJob_ok h hh' s' hr).ok
    | run => exact (runJobs_ok 1000 s h).ok
    | destroy => exact absurd hl (by simp [LiveOp])
    | half P => exact absurd hl (by simp [LiveOp])
    | halfgone P => exact absurd hl (by simp [LiveOp])
    | finish => exact absurd hl (by simp [LiveOp])

theorem run_live_ok (ops : List Op) : ∀ (s : St), TopInv s → (∀ op, op ∈ ops → LiveOp op) → TopInv (run s ops) := by
  induction ops with
  | nil => intro s h _; exact h
  | cons o r ih =>
    intro s h hl
    simp only [run, List.foldl_cons]
    exact ih (step s o) (step_live_ok s o h (hl o (by simp))) (fun op hop => hl op (by simp [hop]))

theorem initFixed_top : TopInv initFixed := by
  have hi : Inv initFixed :=
    ⟨⟨rfl, rfl, rfl⟩, fun _ => ⟨rfl, rfl, rfl, by simp [PhaseOk, initFixed], by simp [initFixed]⟩,
     fun c h => by simp [initFixed] at h, List.nodup_nil, fun c => by simp [initFixed]⟩
  exact ⟨⟨hi, fun _ _ => rfl, List.nodup_nil, fun c h => by simp [initFixed] at h,
    fun c h => by simp [initFixed] at h⟩, fun _ _ => rfl⟩

end QbVerif.IpcsLife
