/-
Skiplist model vs. the dictionary specification: the simulation relation
`Sim`, one step (`sim_step`) and whole histories (`sim_run`).
-/
import QbVerif.Lemmas.SlmDestroy
import QbVerif.Lemmas.HtSimRun

namespace QbVerif.Skiplist
open QbVerif.Map
set_option linter.unusedSimpArgs false

structure Sim (s : SL) (d : Dict) : Prop where
  fl : d.fl = .sl
  inv : ∃ ids, Inv s ids d.entries d.globals
  /-- harness iterator `i` is stored under key `i + 1` in the model -/
  iters : d.iters.map (·.1 + 1) = s.iters.map (·.1)

theorem Sim.zero_free {s d} (h : Sim s d) : 0 ∉ s.iters.map (·.1) := by
  rw [← h.iters]
  simp

theorem Sim.isEmpty {s d} (h : Sim s d) : d.iters.isEmpty = s.iters.isEmpty := by
  have := congrArg List.length h.iters
  simp only [List.length_map] at this
  cases hd : d.iters <;> cases hs : s.iters <;> simp_all

/-- the entry an `rm k` would remove has an iterator parked on it (then the removed node stays
    allocated and shares its forward array: outside the fragment treated here) -/
def rmParked (s : SL) : Op → Bool
  | .rm k => match s.lookup k with
    | .ok (some i) => decide (1 < rcOf s i)
    | _ => false
  | _ => false

theorem canon_rc {a b : Option Err} (h : a.isSome = b.isSome) : (Res.rc a).canon .sl = (Res.rc b).canon .sl := by
  cases a <;> cases b <;> simp_all [Res.canon, Res.dropCode]

theorem dict_notify_sl {d : Dict} (hfl : d.fl = .sl) (ns : List Notifier) (ev : Nat) (k : Key) (o n : Val) :
    d.notify ns ev k o n = dispatch ns d.globals ev k o n := by
  simp [Dict.notify, hfl, Flavour.sl]

/-- no memory error -/
def Safe (r : Res) : Prop := r ≠ .uaf ∧ r ≠ .diverge

structure StepSim (s : SL) (d : Dict) (op : Op) : Prop where
  sim : Sim (s.step op).1 (d.step op).1
  events : (s.step op).2.events = (d.step op).2.events
  res : (s.step op).2.res.canon .sl = (d.step op).2.res.canon .sl
  safe : Safe (s.step op).2.res

theorem StepSim_iff {s d op} : StepSim s d op ↔ (Sim (s.step op).1 (d.step op).1 ∧
    (s.step op).2.events = (d.step op).2.events ∧ (s.step op).2.res.canon .sl = (d.step op).2.res.canon .sl ∧
    Safe (s.step op).2.res) :=
  ⟨fun h => ⟨h.sim, h.events, h.res, h.safe⟩, fun h => ⟨h.1, h.2.1, h.2.2.1, h.2.2.2⟩⟩

theorem sim_put {s d} (h : Sim s d) (k : Key) (v : Val) (rnd : Nat) : StepSim s d (.put k v rnd) := by
  obtain ⟨ids, hi⟩ := h.inv
  cases hf : findEntry d.entries k with
  | some e =>
    obtain ⟨s', hp, hi', hit, _⟩ := put_replace hi k v rnd hf
    have hs : s.step (.put k v rnd) = (s', ⟨dispatch e.notifs d.globals EV_REPLACED k e.val v, .ok⟩) := by
      simp [SL.step, hi.ok, hp]
    have hd : d.step (.put k v rnd) = ({ d with entries := insertEntry { e with val := v } d.entries },
        ⟨dispatch e.notifs d.globals EV_REPLACED k e.val v, .ok⟩) := by
      simp [Dict.step, hf, dict_notify_sl h.fl]
    rw [StepSim_iff, hs, hd]
    exact ⟨⟨h.fl, ⟨ids, hi'⟩, by rw [hit]; exact h.iters⟩, rfl, rfl, by simp [Safe]⟩
  | none =>
    obtain ⟨s', hp, hi', hit, _⟩ := put_new hi k v rnd hf
    have hs : s.step (.put k v rnd) = (s', ⟨dispatch [] d.globals EV_INSERTED k 0 v, .ok⟩) := by
      simp [SL.step, hi.ok, hp]
    have hd : d.step (.put k v rnd) = ({ d with entries := insertEntry ⟨k, v, []⟩ d.entries },
        ⟨dispatch [] d.globals EV_INSERTED k 0 v, .ok⟩) := by
      simp [Dict.step, hf, dict_notify_sl h.fl]
    rw [StepSim_iff, hs, hd]
    exact ⟨⟨h.fl, ⟨_, hi'⟩, by rw [hit]; exact h.iters⟩, rfl, rfl, by simp [Safe]⟩

theorem sim_get {s d} (h : Sim s d) (k : Key) : StepSim s d (.get k) := by
  obtain ⟨ids, hi⟩ := h.inv
  have hs : s.step (.get k) = (s, ⟨[], .val ((findEntry d.entries k).map (·.val))⟩) := by
    simp [SL.step, hi.ok, get_eq hi k]
  rw [StepSim_iff, hs]
  exact ⟨h, rfl, rfl, by simp [Safe]⟩

theorem sim_count {s d} (h : Sim s d) : StepSim s d .count := by
  obtain ⟨ids, hi⟩ := h.inv
  have hs : s.step .count = (s, ⟨[], .num d.entries.length⟩) := by
    simp [SL.step, hi.ok, hi.len]
  rw [StepSim_iff, hs]
  exact ⟨h, rfl, rfl, by simp [Safe]⟩

theorem sim_rm {s d} (h : Sim s d) (k : Key) (hnp : rmParked s (.rm k) = false) : StepSim s d (.rm k) := by
  obtain ⟨ids, hi⟩ := h.inv
  cases hf : findEntry d.entries k with
  | none =>
    have hs : s.step (.rm k) = (s, ⟨[], .bool false⟩) := by simp [SL.step, hi.ok, rm_miss hi k hf]
    have hd : d.step (.rm k) = (d, ⟨[], .bool false⟩) := by simp [Dict.step, hf]
    rw [StepSim_iff, hs, hd]
    exact ⟨h, rfl, rfl, by simp [Safe]⟩
  | some e =>
    have hnp' : ∀ found e', succOf k ids d.entries = some (found, e') → parked s.iters found = 0 := by
      intro found e' hso
      obtain ⟨i, hl, hso', _, hii, _⟩ := (lookup_eq hi k).1 e hf
      rw [hso] at hso'
      cases hso'
      have hrc := hi.rc found (List.mem_cons_of_mem _ hii)
      simp only [rmParked, hl, decide_eq_false_iff_not, Nat.not_lt] at hnp
      omega
    obtain ⟨s', found, hr, hso, hk, E⟩ := rm_hit hi k hf hnp'
    have hs : s.step (.rm k) = (s', ⟨dispatch e.notifs d.globals EV_DELETED k e.val 0, .bool true⟩) := by
      simp [SL.step, hi.ok, hr]
    have hd : d.step (.rm k) = ({ d with entries := eraseEntry k d.entries },
        ⟨dispatch e.notifs d.globals EV_DELETED k e.val 0, .bool true⟩) := by
      simp [Dict.step, hf, dict_notify_sl h.fl]
    rw [StepSim_iff, hs, hd]
    exact ⟨⟨h.fl, ⟨_, erase_inv hi hso hk (hnp' found e hso) E⟩, by rw [E.iters]; exact h.iters⟩, rfl, rfl, by simp [Safe]⟩

theorem sim_foreach {s d} (h : Sim s d) (stop : Nat) (pfx : Option Key) : StepSim s d (.foreach stop pfx) := by
  obtain ⟨ids, hi⟩ := h.inv
  obtain ⟨s', hfe, hi', hit, _⟩ := foreach_eq hi h.zero_free stop
  have hs : s.step (.foreach stop pfx) = (s', ⟨[], .visited (takeStop stop (d.entries.map kv))
      (stop = 0 || d.entries.length < stop)⟩) := by
    simp [SL.step, hi.ok, hfe]
  have hd : d.step (.foreach stop pfx) = (d, ⟨[], .visited (takeStop stop (d.entries.map kv))
      (stop = 0 || d.entries.length < stop)⟩) := by
    simp only [Dict.step, Dict.range, h.fl, Flavour.sl, Bool.false_eq_true, if_false, takeStop]
    by_cases h0 : stop = 0
    · simp [h0, kv]
    · simp [h0, List.map_take]
      rfl
  rw [StepSim_iff, hs, hd]
  exact ⟨⟨h.fl, ⟨ids, hi'⟩, by rw [hit]; exact h.iters⟩, rfl, rfl, by simp [Safe]⟩

theorem dict_nadd (d : Dict) (hfl : d.fl = .sl) (k : Option Key) (events id : Nat) :
    (d.step (.nadd k events id)).1.fl = d.fl ∧
    (d.step (.nadd k events id)).1.entries = (naddSpec d.entries d.globals k events id).1 ∧
    (d.step (.nadd k events id)).1.globals = (naddSpec d.entries d.globals k events id).2.1 ∧
    (d.step (.nadd k events id)).1.iters = d.iters ∧
    (d.step (.nadd k events id)).2 = ⟨[], .rc (naddSpec d.entries d.globals k events id).2.2⟩ := by
  obtain ⟨fl, es, g, pn, its⟩ := d
  simp only at hfl
  subst hfl
  cases k with
  | none =>
    simp only [Dict.step, naddSpec]
    cases notifierAdd g events id <;> simp
  | some k =>
    simp only [Dict.step, naddSpec, Flavour.sl]
    split
    · simp
    · simp only [Bool.false_eq_true, if_false]
      cases findEntry es k with
      | none => simp
      | some e => simp only []; cases notifierAdd e.notifs events id <;> simp

theorem dict_ndel (d : Dict) (hfl : d.fl = .sl) (k : Option Key) (events : Nat) (id : Option Nat) :
    (d.step (.ndel k events id)).1.fl = d.fl ∧
    (d.step (.ndel k events id)).1.entries = (ndelSpec d.entries d.globals k events id).1 ∧
    (d.step (.ndel k events id)).1.globals = (ndelSpec d.entries d.globals k events id).2.1 ∧
    (d.step (.ndel k events id)).1.iters = d.iters ∧
    (d.step (.ndel k events id)).2 = ⟨[], .rc (ndelSpec d.entries d.globals k events id).2.2⟩ := by
  obtain ⟨fl, es, g, pn, its⟩ := d
  simp only at hfl
  subst hfl
  cases k with
  | none =>
    simp only [Dict.step, ndelSpec]
    cases notifierDel g events id <;> simp
  | some k =>
    simp only [Dict.step, ndelSpec, Flavour.sl, Bool.false_eq_true, if_false]
    cases findEntry es k with
    | none => simp
    | some e => simp only []; cases notifierDel e.notifs events id <;> simp

theorem sim_nadd {s d} (h : Sim s d) (k : Option Key) (events id : Nat) : StepSim s d (.nadd k events id) := by
  obtain ⟨ids, hi⟩ := h.inv
  obtain ⟨s', rc, hr, hi', hrc, hit, _⟩ := nadd_eq hi k events id
  have hs : s.step (.nadd k events id) = (s', ⟨[], .rc rc⟩) := by simp [SL.step, hi.ok, hr]
  obtain ⟨d1, d2, d3, d4, d5⟩ := dict_nadd d h.fl k events id
  rw [StepSim_iff, hs, d5]
  refine ⟨⟨by rw [d1]; exact h.fl, ⟨ids, by rw [d2, d3]; exact hi'⟩, by rw [d4, hit]; exact h.iters⟩, rfl, canon_rc hrc, by simp [Safe]⟩

theorem sim_ndel {s d} (h : Sim s d) (k : Option Key) (events : Nat) (id : Option Nat) : StepSim s d (.ndel k events id) := by
  obtain ⟨ids, hi⟩ := h.inv
  obtain ⟨s', rc, hr, hi', hrc, hit, _⟩ := ndel_eq hi k events id
  have hs : s.step (.ndel k events id) = (s', ⟨[], .rc rc⟩) := by simp [SL.step, hi.ok, hr]
  obtain ⟨d1, d2, d3, d4, d5⟩ := dict_ndel d h.fl k events id
  rw [StepSim_iff, hs, d5]
  refine ⟨⟨by rw [d1]; exact h.fl, ⟨ids, by rw [d2, d3]; exact hi'⟩, by rw [d4, hit]; exact h.iters⟩, rfl, canon_rc hrc, by simp [Safe]⟩

theorem sim_destroy {s d} (h : Sim s d) : StepSim s d .destroy := by
  obtain ⟨ids, hi⟩ := h.inv
  by_cases hem : s.iters = []
  · have hdm : d.iters = [] := by
      have := h.isEmpty; rw [hem] at this; simpa using this
    obtain ⟨s', hr, hi', hit'⟩ := destroy_eq hi hem
    have hs : s.step .destroy = (s', ⟨d.entries.flatMap fun e => dispatch e.notifs d.globals EV_DELETED e.key e.val 0, .ok⟩) := by
      simp [SL.step, hi.ok, hem, hr]
    have hd : d.step .destroy = (Dict.empty d.fl,
        ⟨d.entries.flatMap fun e => dispatch e.notifs d.globals EV_DELETED e.key e.val 0, .ok⟩) := by
      simp [Dict.step, hdm, dict_notify_sl h.fl]
    rw [StepSim_iff, hs, hd]
    exact ⟨⟨h.fl, ⟨[], hi'⟩, by rw [hit']; rfl⟩, rfl, rfl, by simp [Safe]⟩
  · have hdm : d.iters.isEmpty = false := by
      rw [h.isEmpty]; cases hs : s.iters with
      | nil => exact absurd hs hem
      | cons _ _ => rfl
    have hsm : s.iters.isEmpty = false := by rw [← h.isEmpty]; exact hdm
    have hs : s.step .destroy = (s, ⟨[], .rc (some .ebusy)⟩) := by simp [SL.step, hi.ok, hsm]
    have hd : d.step .destroy = (d, ⟨[], .rc (some .ebusy)⟩) := by simp [Dict.step, hdm]
    rw [StepSim_iff, hs, hd]
    exact ⟨h, rfl, rfl, by simp [Safe]⟩

/-- one operation of the C17 language (iterator-free, level 0 drawn) -/
theorem sim_step {s d} (h : Sim s d) (op : Op) (hi : op.isIter = false)
    (hnp : rmParked s op = false) : StepSim s d op := by
  cases op with
  | put k v l => exact sim_put h k v l
  | get k => exact sim_get h k
  | rm k => exact sim_rm h k hnp
  | count => exact sim_count h
  | foreach stop pfx => exact sim_foreach h stop pfx
  | nadd k e i => exact sim_nadd h k e i
  | ndel k e i => exact sim_ndel h k e i
  | destroy => exact sim_destroy h
  | iterNew i p => cases hi
  | iterNext i => cases hi
  | iterFree i => cases hi

theorem sim_create : Sim create (Dict.empty .sl) := ⟨rfl, ⟨[], create_inv⟩, rfl⟩

/-! ### iterator operations -/

theorem filter_keys {α β} (i : Nat) : ∀ (a : List (Nat × α)) (b : List (Nat × β)), a.map (·.1 + 1) = b.map (·.1) →
    (a.filter fun p => !(p.1 == i)).map (·.1 + 1) = (b.filter fun p => !(p.1 == i + 1)).map (·.1)
  | [], [], _ => rfl
  | [], _ :: _, h => by simp at h
  | _ :: _, [], h => by simp at h
  | x :: a, y :: b, h => by
    simp only [List.map_cons, List.cons.injEq] at h
    have ih := filter_keys i a b h.2
    have hxy : (x.1 == i) = (y.1 == i + 1) := by
      rw [← h.1]
      by_cases hx : x.1 = i <;> simp [hx]
    simp only [List.filter_cons, hxy]
    split
    · simp [h.1, ih]
    · exact ih

theorem mem_of_lookup {its : List (Nat × Option NodeId)} {k : Nat} {v : Option NodeId} :
    its.lookup k = some v → (k, v) ∈ its := by
  induction its with
  | nil => intro h; simp [List.lookup] at h
  | cons a its ih =>
    obtain ⟨a1, a2⟩ := a
    intro h
    by_cases hk : k = a1
    · subst hk; simp [List.lookup] at h; subst h; simp
    · have : (k == a1) = false := by simpa using hk
      simp only [List.lookup, this] at h
      exact List.mem_cons_of_mem _ (ih h)

theorem Sim.lookup_isSome {s d} (h : Sim s d) (i : Nat) : (d.iters.lookup i).isSome = (s.iters.lookup (i + 1)).isSome := by
  have h1 := Hashtable.lookup_isSome_iff d.iters i
  have h2 := Hashtable.lookup_isSome_iff s.iters (i + 1)
  have : i ∈ d.iters.map (·.1) ↔ i + 1 ∈ s.iters.map (·.1) := by
    rw [← h.iters]
    simp only [List.mem_map]
    constructor
    · rintro ⟨p, hp, rfl⟩; exact ⟨p, hp, rfl⟩
    · rintro ⟨p, hp, he⟩; exact ⟨p, hp, by omega⟩
  cases hd : (d.iters.lookup i).isSome <;> cases hs : (s.iters.lookup (i + 1)).isSome <;> simp_all

structure StepSimI (s : SL) (d : Dict) (op : Op) : Prop where
  sim : Sim (s.step op).1 (d.step op).1
  events : (s.step op).2.events = (d.step op).2.events
  safe : Safe (s.step op).2.res

theorem StepSim.toI {s d op} (h : StepSim s d op) : StepSimI s d op :=
  ⟨h.sim, h.events, h.safe⟩

theorem sim_iterNew {s d} (h : Sim s d) (i : Nat) (pfx : Option Key) : StepSim s d (.iterNew i pfx) := by
  obtain ⟨ids, hi⟩ := h.inv
  rw [StepSim_iff]
  by_cases hl : (s.iters.lookup (i + 1)).isSome = true
  · have hld : (d.iters.lookup i).isSome = true := by rw [h.lookup_isSome]; exact hl
    have hs : s.step (.iterNew i pfx) = (s, ⟨[], .badIter⟩) := by simp [SL.step, hi.ok, hl]
    have hd : d.step (.iterNew i pfx) = (d, ⟨[], .badIter⟩) := by simp [Dict.step, hld]
    rw [hs, hd]
    exact ⟨h, rfl, rfl, by simp [Safe]⟩
  · have hl' : (s.iters.lookup (i + 1)).isSome = false := by
      cases hx : (s.iters.lookup (i + 1)).isSome with
      | true => exact absurd hx hl
      | false => rfl
    have hld : (d.iters.lookup i).isSome = false := by rw [h.lookup_isSome]; exact hl'
    have hk : i + 1 ∉ s.iters.map (·.1) := by
      intro hm
      have := (Hashtable.lookup_isSome_iff s.iters (i + 1)).2 hm
      rw [hl'] at this; cases this
    obtain ⟨s', hc, hi', hit, _⟩ := iterCreate_inv hi (i + 1) hk
    have hs : s.step (.iterNew i pfx) = (s', ⟨[], .ok⟩) := by simp [SL.step, hi.ok, hl', hc]
    have hd : d.step (.iterNew i pfx) = ({ d with iters := (i, ⟨none, if d.fl.prefixIter then pfx else none, false⟩) :: d.iters },
        ⟨[], .ok⟩) := by simp [Dict.step, hld]
    rw [hs, hd]
    exact ⟨⟨h.fl, ⟨ids, hi'⟩, by rw [hit]; simp [h.iters]⟩, rfl, rfl, by simp [Safe]⟩

theorem sim_iterFree {s d} (h : Sim s d) (i : Nat) : StepSim s d (.iterFree i) := by
  obtain ⟨ids, hi⟩ := h.inv
  rw [StepSim_iff]
  cases hl : s.iters.lookup (i + 1) with
  | none =>
    have hld : (d.iters.lookup i).isSome = false := by rw [h.lookup_isSome, hl]; rfl
    have hs : s.step (.iterFree i) = (s, ⟨[], .badIter⟩) := by simp [SL.step, hi.ok, hl]
    have hd : d.step (.iterFree i) = (d, ⟨[], .badIter⟩) := by simp [Dict.step, hld]
    rw [hs, hd]
    exact ⟨h, rfl, rfl, by simp [Safe]⟩
  | some pos =>
    have hld : (d.iters.lookup i).isSome = true := by rw [h.lookup_isSome, hl]; rfl
    obtain ⟨s', hf, hi', hit, _⟩ := iterFree_inv hi (mem_of_lookup hl)
    have hs : s.step (.iterFree i) = (s', ⟨[], .ok⟩) := by simp [SL.step, hi.ok, hl, hf]
    have hd : d.step (.iterFree i) = ({ d with iters := d.iters.filter fun p => !(p.1 == i) }, ⟨[], .ok⟩) := by
      simp [Dict.step, hld]
    rw [hs, hd]
    exact ⟨⟨h.fl, ⟨ids, hi'⟩, by rw [hit]; exact filter_keys i _ _ h.iters⟩, rfl, rfl, by simp [Safe]⟩

theorem dict_iterNext (d : Dict) (i : Nat) :
    (d.step (.iterNext i)).1.fl = d.fl ∧ (d.step (.iterNext i)).1.entries = d.entries ∧
    (d.step (.iterNext i)).1.globals = d.globals ∧ (d.step (.iterNext i)).1.iters.map (·.1) = d.iters.map (·.1) ∧
    (d.step (.iterNext i)).2.events = [] := by
  have hk : ∀ (it : DIter), (d.iters.map fun p => if p.1 == i then (i, it) else p).map (·.1) = d.iters.map (·.1) := by
    intro it
    rw [List.map_map]
    apply List.map_congr_left
    intro p _
    simp only [Function.comp]
    split
    · next h => exact (by simpa using h : p.1 = i).symm
    · rfl
  unfold Dict.step
  simp only
  split
  · exact ⟨rfl, rfl, rfl, rfl, rfl⟩
  · split
    · exact ⟨rfl, rfl, rfl, rfl, rfl⟩
    · split
      · exact ⟨rfl, rfl, rfl, hk _, rfl⟩
      · exact ⟨rfl, rfl, rfl, hk _, rfl⟩

theorem sim_iterNext {s d} (h : Sim s d) (i : Nat) : StepSimI s d (.iterNext i) := by
  obtain ⟨ids, hi⟩ := h.inv
  obtain ⟨d1, d2, d3, d4, d5⟩ := dict_iterNext d i
  have hsim : ∀ s', (∃ v, s'.iters = setIter s.iters (i + 1) v) ∨ s' = s → Inv s' ids d.entries d.globals →
      Sim s' (d.step (.iterNext i)).1 := by
    intro s' hit hi'
    refine ⟨by rw [d1]; exact h.fl, ⟨ids, by rw [d2, d3]; exact hi'⟩, ?_⟩
    have : (d.step (.iterNext i)).1.iters.map (·.1 + 1) = d.iters.map (·.1 + 1) := by
      have := congrArg (List.map (· + 1)) d4
      simpa [List.map_map, Function.comp_def] using this
    rw [this, h.iters]
    rcases hit with ⟨v, hv⟩ | rfl
    · rw [hv, setIter_keys]
    · rfl
  cases hl : s.iters.lookup (i + 1) with
  | none =>
    have hs : s.step (.iterNext i) = (s, ⟨[], .badIter⟩) := by simp [SL.step, hi.ok, hl]
    exact ⟨by rw [hs]; exact hsim s (Or.inr rfl) hi, by rw [hs, d5], by rw [hs]; simp [Safe]⟩
  | some pos =>
    cases pos with
    | none =>
      have hs : s.step (.iterNext i) = (s, ⟨[], .item none⟩) := by simp [SL.step, hi.ok, hl, SL.iterNext, bind, Except.bind]
      exact ⟨by rw [hs]; exact hsim s (Or.inr rfl) hi, by rw [hs, d5], by rw [hs]; simp [Safe]⟩
    | some p =>
      have hm := mem_of_lookup hl
      cases hn : next0 s p with
      | none =>
        obtain ⟨s', hx, hi', hit, _⟩ := (iterNext_inv hi hm).2 hn
        have hs : s.step (.iterNext i) = (s', ⟨[], .item none⟩) := by simp [SL.step, hi.ok, hl, hx]
        exact ⟨by rw [hs]; exact hsim s' (Or.inl ⟨_, hit⟩) hi', by rw [hs, d5], by rw [hs]; simp [Safe]⟩
      | some n =>
        obtain ⟨e, _, _, _, s', hx, hi', hit, _⟩ := (iterNext_inv hi hm).1 n hn
        have hs : s.step (.iterNext i) = (s', ⟨[], .item (some (e.key, e.val))⟩) := by simp [SL.step, hi.ok, hl, hx]
        exact ⟨by rw [hs]; exact hsim s' (Or.inl ⟨_, hit⟩) hi', by rw [hs, d5], by rw [hs]; simp [Safe]⟩

/-- no `rm` of the history removes an entry an iterator is parked on (evaluated on the model) -/
def noRmParked : SL → List Op → Bool
  | _, [] => true
  | s, op :: ops => !rmParked s op && noRmParked (s.step op).1 ops

/-- one operation of the whole language -/
theorem sim_stepI {s d} (h : Sim s d) (op : Op) (hnp : rmParked s op = false) : StepSimI s d op := by
  cases op with
  | iterNew i p => exact (sim_iterNew h i p).toI
  | iterNext i => exact sim_iterNext h i
  | iterFree i => exact (sim_iterFree h i).toI
  | put k v l => exact (sim_step h _ rfl hnp).toI
  | get k => exact (sim_step h _ rfl hnp).toI
  | rm k => exact (sim_step h _ rfl hnp).toI
  | count => exact (sim_step h _ rfl hnp).toI
  | foreach a b => exact (sim_step h _ rfl hnp).toI
  | nadd a b c => exact (sim_step h _ rfl hnp).toI
  | ndel a b c => exact (sim_step h _ rfl hnp).toI
  | destroy => exact (sim_step h _ rfl hnp).toI

/-- whole histories WITH iterator operations: the relation at the end, the notification trace,
    memory safety of every operation; results of the non-`iter_next` operations -/
theorem sim_runI : ∀ (ops : List Op) {s : SL} {d : Dict}, Sim s d →
    noRmParked s ops = true →
    Sim (s.runFrom ops).1 (d.runFrom ops).1 ∧
    (s.runFrom ops).2.map (·.events) = (d.runFrom ops).2.map (·.events) ∧
    (∀ o ∈ (s.runFrom ops).2, Safe o.res)
  | [], _, _, h, _ => ⟨h, rfl, fun _ ho => by cases ho⟩
  | op :: ops, s, d, h, hk => by
    simp only [noRmParked, Bool.and_eq_true, Bool.not_eq_true'] at hk
    have st := sim_stepI h op hk.1
    obtain ⟨h1, h2, h3⟩ := sim_runI ops st.sim hk.2
    refine ⟨h1, ?_, ?_⟩
    · show (s.step op).2.events :: _ = (d.step op).2.events :: _
      rw [st.events]; exact congrArg _ h2
    · intro o ho
      rcases List.mem_cons.1 ho with rfl | ho
      · exact st.safe
      · exact h3 o ho

/-- iterator-free states never have a parked entry -/
theorem rmParked_false_of_no_iters {s d} (h : Sim s d) (hd : d.iters = []) (op : Op) : rmParked s op = false := by
  obtain ⟨ids, hi⟩ := h.inv
  have hs : s.iters = [] := by
    have := h.iters; rw [hd] at this
    cases hs : s.iters with
    | nil => rfl
    | cons _ _ => rw [hs] at this; simp at this
  cases op with
  | rm k =>
    simp only [rmParked]
    cases hf : findEntry d.entries k with
    | none => rw [(lookup_eq hi k).2 hf]
    | some e =>
      obtain ⟨i, hl, _, _, hii, _⟩ := (lookup_eq hi k).1 e hf
      rw [hl]
      have := hi.rc i (List.mem_cons_of_mem _ hii)
      rw [hs] at this
      simp [this, parked]
  | _ => rfl

/-- whole iterator-free histories: results, notification trace, and the relation at the end -/
theorem sim_run : ∀ (ops : List Op) {s : SL} {d : Dict}, Sim s d → d.iters = [] → (∀ op ∈ ops, op.isIter = false) →
    Sim (s.runFrom ops).1 (d.runFrom ops).1 ∧
    (s.runFrom ops).2.map (·.events) = (d.runFrom ops).2.map (·.events) ∧
    (s.runFrom ops).2.map (fun o => o.res.canon .sl) = (d.runFrom ops).2.map (fun o => o.res.canon .sl)
  | [], _, _, h, _, _ => ⟨h, rfl, rfl⟩
  | op :: ops, s, d, h, hd, hi => by
    have st := sim_step h op (hi op (by simp)) (rmParked_false_of_no_iters h hd op)
    obtain ⟨h1, h2, h3⟩ := sim_run ops st.sim (Hashtable.dict_step_iters d op (hi op (by simp)) hd)
      (fun o ho => hi o (List.mem_cons_of_mem _ ho))
    refine ⟨h1, ?_, ?_⟩
    · show (s.step op).2.events :: _ = (d.step op).2.events :: _
      rw [st.events]; exact congrArg _ h2
    · show (s.step op).2.res.canon .sl :: _ = (d.step op).2.res.canon .sl :: _
      rw [st.res]; exact congrArg _ h3

end QbVerif.Skiplist
