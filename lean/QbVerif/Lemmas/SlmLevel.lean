/-
Skiplist, all levels: level-`l` successor `nextL`, pointer chains `LChain`, the walk of the search
loop on one level (`level_walk`) in terms of the keys stored in the nodes.
-/
import QbVerif.Lemmas.SlmBasic

namespace QbVerif.Skiplist
open QbVerif.Map
set_option linter.unusedSimpArgs false

/-- `x->forward[l]` read through both heaps (`none` also when something is not allocated) -/
def nextL (s : SL) (l : Nat) (x : NodeId) : Option NodeId :=
  match s.nodes x with
  | some n => (match s.fwds n.fwd with | some a => a l | none => none)
  | none => none

theorem next0_eq_nextL (s : SL) (x : NodeId) : next0 s x = nextL s 0 x := rfl

/-- following `forward[l]` from `x` visits exactly `L` and ends in NULL -/
def LChain (s : SL) (l : Nat) : NodeId → List NodeId → Prop
  | x, [] => nextL s l x = none
  | x, i :: L => nextL s l x = some i ∧ LChain s l i L

theorem fwdAtL {s : SL} {x : NodeId} (hx : XOk s x) (l : Nat) : s.fwdAt x l = .ok (nextL s l x) := by
  obtain ⟨n, a, h1, h2⟩ := hx
  rw [fwdAt_ok h1 h2]
  simp [nextL, h1, h2]

/-- the key stored in node `i` is below `k` -/
def keyLt (s : SL) (k : Key) (i : NodeId) : Bool :=
  match s.nodes i with
  | some n => (match n.key with | some kk => Key.lt kk k | none => false)
  | none => false

/-- the key stored in node `i` is `k` -/
def keyIs (s : SL) (k : Key) (i : NodeId) : Bool :=
  match s.nodes i with
  | some n => decide (n.key = some k)
  | none => false

/-- where the walk on one level ends: the last node of `x :: L` before the first one not below `k` -/
def walkL (s : SL) (k : Key) : NodeId → List NodeId → NodeId
  | x, i :: L => if keyLt s k i then walkL s k i L else x
  | x, [] => x

/-- the first node of `L` not below `k` -/
def stopL (s : SL) (k : Key) : List NodeId → Option NodeId
  | i :: L => if keyLt s k i then stopL s k L else some i
  | [] => none

/-- allocated entry nodes with allocated forward arrays -/
def Alloc (s : SL) (L : List NodeId) : Prop :=
  ∀ i ∈ L, ∃ n a kk, s.nodes i = some n ∧ s.fwds n.fwd = some a ∧ n.key = some kk

theorem walkL_mem (s : SL) (k : Key) : ∀ (x : NodeId) (L : List NodeId), walkL s k x L ∈ x :: L
  | x, [] => by simp [walkL]
  | x, i :: L => by
    simp only [walkL]
    split
    · exact List.mem_cons_of_mem _ (walkL_mem s k i L)
    · simp

theorem nextL_walk {s : SL} {l : Nat} (k : Key) : ∀ {x L}, LChain s l x L → nextL s l (walkL s k x L) = stopL s k L
  | x, [], h => by
    have h0 : nextL s l x = none := h
    simp [walkL, stopL, h0]
  | x, i :: L, h => by
    simp only [walkL, stopL]
    split
    · exact nextL_walk k h.2
    · exact h.1

/-- the outcome of the search loop on level `l` (C level = `l`, model `lv = l + 1`) -/
theorem level_walk (s : SL) (key : Key) (stopEq : Bool) (m : NodeId → Nat) (l : Nat) : ∀ (L : List NodeId) (x : NodeId)
    (fuel : Nat) (u : Nat → NodeId), LChain s l x L → XOk s x → Alloc s L →
    (x :: L).Pairwise (fun a b => m b < m a) → m x + l + 2 ≤ fuel →
    (stopEq = true ∧ ∃ i, stopL s key L = some i ∧ keyIs s key i = true ∧
      s.search key stopEq fuel x (l + 1) u = .ok (.inl i)) ∨
    (¬(stopEq = true ∧ ∃ i, stopL s key L = some i ∧ keyIs s key i = true) ∧
      ∃ fuel' u', m (walkL s key x L) + l + 1 ≤ fuel' ∧
        s.search key stopEq fuel x (l + 1) u = s.search key stopEq fuel' (walkL s key x L) l u' ∧
        u' l = walkL s key x L ∧ ∀ l', l' ≠ l → u' l' = u l')
  | [], x, fuel, u, hc, hx, _, _, hf => by
    obtain ⟨f, rfl⟩ : ∃ f, fuel = f + 1 := ⟨fuel - 1, by omega⟩
    have h0 : nextL s l x = none := hc
    right
    refine ⟨by simp [stopL], f, upd u l x, by simp [walkL]; omega, ?_, by simp [upd, walkL], fun l' hl' => by simp [upd, hl']⟩
    simp [SL.search, fwdAtL hx, h0, SL.opSearch, bind, Except.bind, walkL]
  | i :: L, x, fuel, u, hc, hx, ha, hm, hf => by
    obtain ⟨f, rfl⟩ : ∃ f, fuel = f + 1 := ⟨fuel - 1, by omega⟩
    obtain ⟨h1, h2⟩ := hc
    obtain ⟨n, a, kk, hn, hna, hk⟩ := ha i (by simp)
    have hmi : m i < m x := (List.pairwise_cons.1 hm).1 i (by simp)
    by_cases hlt : Key.lt kk key = true
    · have hkl : keyLt s key i = true := by simp [keyLt, hn, hk, hlt]
      have ih := level_walk s key stopEq m l L i f (upd u l i) h2 ⟨n, a, hn, hna⟩
        (fun j hj => ha j (List.mem_cons_of_mem _ hj)) (List.pairwise_cons.1 hm).2 (by omega)
      have hstep : s.search key stopEq (f + 1) x (l + 1) u = s.search key stopEq f i (l + 1) (upd u l i) := by
        simp [SL.search, fwdAtL hx, h1, SL.opSearch, SL.node, hn, hk, hlt, bind, Except.bind]
      simp only [stopL, walkL, hkl, if_true]
      rcases ih with ⟨hs, j, hj1, hj2, hj3⟩ | ⟨hno, f', u', hf', hs, hu1, hu2⟩
      · left; exact ⟨hs, j, hj1, hj2, by rw [hstep, hj3]⟩
      · right
        refine ⟨hno, f', u', hf', by rw [hstep, hs], hu1, fun l' hl' => ?_⟩
        rw [hu2 l' hl']; simp [upd, hl']
    · have hlt' : Key.lt kk key = false := by simpa using hlt
      have hkl : keyLt s key i = false := by simp [keyLt, hn, hk, hlt']
      simp only [stopL, walkL, hkl, Bool.false_eq_true, if_false]
      by_cases hke : kk = key
      · subst hke
        have hki : keyIs s kk i = true := by simp [keyIs, hn, hk]
        cases stopEq with
        | true =>
          left
          refine ⟨rfl, i, rfl, hki, ?_⟩
          simp [SL.search, fwdAtL hx, h1, SL.opSearch, SL.node, hn, hk, hlt', bind, Except.bind]
        | false =>
          right
          refine ⟨by simp, f, upd u l x, by omega, ?_, by simp [upd], fun l' hl' => by simp [upd, hl']⟩
          simp [SL.search, fwdAtL hx, h1, SL.opSearch, SL.node, hn, hk, hlt', bind, Except.bind]
      · have hki : keyIs s key i = false := by simp [keyIs, hn, hk, hke]
        right
        refine ⟨?_, f, upd u l x, by omega, ?_, by simp [upd], fun l' hl' => by simp [upd, hl']⟩
        · rintro ⟨_, j, hj, hj2⟩
          cases hj
          rw [hki] at hj2; cases hj2
        · simp [SL.search, fwdAtL hx, h1, SL.opSearch, SL.node, hn, hk, hlt', hke, bind, Except.bind]

end QbVerif.Skiplist
