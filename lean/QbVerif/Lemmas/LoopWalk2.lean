/-
C08: the generic walk, second half — qb_loop_run_level, the level loop, one iteration, a protocol line,
a whole history.  Core Lean only.
-/
import QbVerif.Lemmas.LoopWalk

namespace QbVerif.Loop

variable {P : St → Prop} {okOp : Op → Prop}

/-- the head of the job list is unlinked (and logged in the ghost dispatch log) -/
def St.popped (s : St) (p : Nat) (it : Item) (rest : List Item) : St :=
  { s.setLv p { s.lv p with jobs := rest } with dlog := (it, s.regCheck it) :: s.dlog }

def St.todoDec (s : St) (p : Nat) : St := s.setLv p { s.lv p with todo := (s.lv p).todo - 1 }

/-- one round of `Ill_have_another`: unlink, dispatch, `todo--` -/
def St.afterOne (s : St) (p : Nat) (it : Item) (rest : List Item) : St :=
  ((s.popped p it rest).dispatch it).1.todoDec p

theorem runLevelAux_zero (p : Nat) (s : St) (out : List Ev) : St.runLevelAux p 0 s out = (s, out) := rfl

theorem runLevelAux_fault (p n : Nat) (s : St) (out : List Ev) (hf : s.fault.isSome = true) :
    St.runLevelAux p (n + 1) s out = (s, out) := by
  rw [St.runLevelAux]; simp [hf]

theorem runLevelAux_nil (p n : Nat) (s : St) (out : List Ev) (hj : (s.lv p).jobs = []) :
    St.runLevelAux p (n + 1) s out = (s, out) := by
  rw [St.runLevelAux]; simp [hj]

theorem runLevelAux_cons (p n : Nat) (s : St) (out : List Ev) (it : Item) (rest : List Item)
    (hf : s.fault.isSome = false) (hj : (s.lv p).jobs = it :: rest) :
    St.runLevelAux p (n + 1) s out =
      if (s.afterOne p it rest).stop then (s.afterOne p it rest, out ++ ((s.popped p it rest).dispatch it).2)
      else St.runLevelAux p n (s.afterOne p it rest) (out ++ ((s.popped p it rest).dispatch it).2) := by
  rw [St.runLevelAux]; simp only [hf, hj]; rfl

theorem Stable.afterOne (st : Stable P okOp) (s : St) (p : Nat) (it : Item) (rest : List Item)
    (hj : (s.lv p).jobs = it :: rest) (h : P s) : P (s.afterOne p it rest) :=
  st.todoDec _ p (st.dispatch _ it (st.pop s p it rest hj h))

theorem Stable.runLevelAux (st : Stable P okOp) (p n : Nat) (s : St) (out : List Ev) (h : P s) :
    P (St.runLevelAux p n s out).1 := by
  induction n generalizing s out with
  | zero => exact h
  | succ n ih =>
    cases hf : s.fault.isSome with
    | true => rw [runLevelAux_fault p n s out hf]; exact h
    | false =>
      cases hj : (s.lv p).jobs with
      | nil => rw [runLevelAux_nil p n s out hj]; exact h
      | cons it rest =>
        rw [runLevelAux_cons p n s out it rest hf hj]
        have h1 := st.afterOne s p it rest hj h
        split
        · exact h1
        · exact ih _ _ h1

theorem foldl_inv {α β : Type} (f : β → α → β) (I : β → Prop) (hf : ∀ b a, I b → I (f b a)) (l : List α) (b : β)
    (hb : I b) : I (l.foldl f b) := by
  induction l generalizing b with
  | nil => exact hb
  | cons a l ih => exact ih _ (hf b a hb)

theorem Stable.levelLoop (st : Stable P okOp) (s : St) (h : P s) : P s.levelLoop.1 := by
  unfold St.levelLoop
  dsimp only
  generalize hstep : (fun (acc : St × Bool × Int × List Ev) (p : Nat) => _) = step
  have key : P (List.foldl step (s, false, 0, []) [Gen.QB_LOOP_HIGH, Gen.QB_LOOP_MED, Gen.QB_LOOP_LOW]).1 := by
    apply foldl_inv step (fun acc => P acc.1)
    · intro acc p hacc
      subst hstep
      obtain ⟨s0, ret, rem, out⟩ := acc
      dsimp only
      split
      · exact hacc
      · split
        · have := st.runLevelAux p (max 1 (toProcessOf p)) s0 out hacc
          unfold St.runLevel
          split <;> exact this
        · exact hacc
    · exact h
  generalize List.foldl step (s, false, 0, []) _ = r at key ⊢
  obtain ⟨s1, ret, rem, out⟩ := r
  exact st.setRemaining s1 rem key

theorem Stable.iterate (st : Stable P okOp) (s : St) (ready : List (Nat × Nat)) (h : P s) :
    P (s.iterate ready).1 := by
  unfold St.iterate
  split
  · exact h
  · dsimp only
    generalize hs0 : (if s.inRun = true then s else _) = s0
    have h0 : P s0 := by
      subst hs0
      split
      · exact h
      · exact st.beginIter _ (st.enterRun s h)
    generalize hf : (fun (acc : St × List Ev) (e : EpReg × Nat) => _) = f
    have h1 : P (List.foldl f (s0, [Ev.wait s0.parkedT]) (s0.readyEvents ready)).1 := by
      apply foldl_inv f (fun acc => P acc.1)
      · intro acc e hacc
        subst hf
        dsimp only
        split
        · exact hacc
        · exact st.pollEvent _ _ _ hacc
      · exact h0
    generalize List.foldl f (s0, [Ev.wait s0.parkedT]) (s0.readyEvents ready) = r at h1 ⊢
    obtain ⟨s1, out1⟩ := r
    dsimp only at h1 ⊢
    split
    · exact h1
    · have h2 := st.levelLoop s1 h1
      generalize s1.levelLoop = r2 at h2 ⊢
      obtain ⟨s2, ret, out2⟩ := r2
      dsimp only at h2 ⊢
      split
      · exact h2
      · split
        · exact st.leaveRun s2 h2
        · exact st.beginIter s2 h2

/-- the operations a protocol line may contain -/
def Cmd.ok (okOp : Op → Prop) : Cmd → Prop
  | .script _ sc => ∀ o ∈ sc.ops, okOp o
  | .iterate _ => True
  | .op o => okOp o

theorem Stable.cmd (st : Stable P okOp) (s : St) (c : Cmd) (hc : c.ok okOp) (h : P s) : P (s.cmd c).1 := by
  cases c with
  | script id sc =>
    simp only [St.cmd]
    split
    · exact h
    · split
      · exact st.setScripts s id sc hc h
      · exact h
  | iterate ready =>
    simp only [St.cmd]
    split
    · exact h
    · exact st.iterate s ready h
  | op o =>
    simp only [St.cmd]
    split
    · exact h
    · exact st.api s false o hc h

theorem Stable.run (st : Stable P okOp) (s : St) (cs : List Cmd) (hc : ∀ c ∈ cs, c.ok okOp) (h : P s) :
    P (s.run cs).1 := by
  induction cs generalizing s with
  | nil => exact h
  | cons c cs ih =>
    simp only [St.run]
    exact ih _ (fun c' hc' => hc c' (List.mem_cons_of_mem _ hc')) (st.cmd s c (hc c List.mem_cons_self) h)

end QbVerif.Loop
