/-
Generic list lemmas, the strcmp order `Key.lt`, and the sorted-list operations of the dictionary
specification (`insertEntry`, `eraseEntry`, `findEntry`) — used by the hashtable refinement proof
(Lemmas/Ht*.lean, Props/C17.lean, Props/C18.lean).
-/
import QbVerif.Model.MapSpec

namespace QbVerif.Map
set_option linter.unusedSimpArgs false

/-! ### lists -/

theorem split_at {α} (bs : List α) (b : Nat) (h : b < bs.length) :
    bs = bs.take b ++ bs[b] :: bs.drop (b + 1) := by
  rw [List.getElem_cons_drop, List.take_append_drop]

theorem getD_split {α} (pre : List (List α)) (l : List α) (post : List (List α)) :
    (pre ++ l :: post).getD pre.length [] = l := by
  simp [List.getD_eq_getElem?_getD]

theorem getD_map_nil {α} (f : List α → List α) (hf : f [] = []) (bs : List (List α)) (b : Nat) :
    (bs.map f).getD b [] = f (bs.getD b []) := by
  simp only [List.getD_eq_getElem?_getD, List.getElem?_map]
  cases bs[b]? <;> simp [hf]

theorem mem_flatten_of_getD {α} {bs : List (List α)} {b : Nat} {x : α} (h : x ∈ bs.getD b []) :
    x ∈ bs.flatten := by
  rw [List.getD_eq_getElem?_getD] at h
  cases hb : bs[b]? with
  | none => simp [hb] at h
  | some l =>
    simp [hb] at h
    exact List.mem_flatten.2 ⟨l, List.mem_of_getElem? hb, h⟩

theorem exists_getD_of_mem_flatten {α} {bs : List (List α)} {x : α} (h : x ∈ bs.flatten) :
    ∃ b, x ∈ bs.getD b [] := by
  obtain ⟨l, hl, hx⟩ := List.mem_flatten.1 h
  obtain ⟨i, hi, rfl⟩ := List.getElem_of_mem hl
  exact ⟨i, by simp [List.getD_eq_getElem?_getD, hi, hx]⟩

theorem inj_of_nodup_map {α β} (f : α → β) : ∀ {l : List α}, (l.map f).Nodup → ∀ {x y}, x ∈ l → y ∈ l →
    f x = f y → x = y
  | [], _, _, _, hx, _, _ => by cases hx
  | a :: l, h, x, y, hx, hy, e => by
    simp only [List.map_cons, List.nodup_cons, List.mem_map, not_exists, not_and] at h
    rcases List.mem_cons.1 hx with rfl | hx' <;> rcases List.mem_cons.1 hy with rfl | hy'
    · rfl
    · exact absurd e.symm (h.1 y hy')
    · exact absurd e (h.1 x hx')
    · exact inj_of_nodup_map f h.2 hx' hy' e

/-- replacing the element with a given (unique) tag -/
theorem upd_perm {α} (tag : α → Nat) (f : α → α) : ∀ {l : List α} {n : α}, (l.map tag).Nodup → n ∈ l →
    (l.map fun x => if tag x == tag n then f x else x).Perm (f n :: l.filter fun x => !(tag x == tag n))
  | [], _, _, h => by cases h
  | a :: l, n, hnd, hn => by
    simp only [List.map_cons, List.nodup_cons, List.mem_map, not_exists, not_and] at hnd
    rcases List.mem_cons.1 hn with rfl | hn'
    · have hno : ∀ x ∈ l, (tag x == tag n) = false := by
        intro x hx; simpa using hnd.1 x hx
      have h1 : (l.map fun x => if tag x == tag n then f x else x) = l := by
        conv => rhs; rw [← List.map_id l]
        apply List.map_congr_left; intro x hx; simp [hno x hx]
      have h2 : (l.filter fun x => !(tag x == tag n)) = l := by
        apply List.filter_eq_self.2; intro x hx; simp [hno x hx]
      rw [List.map_cons, List.filter_cons, h1, h2]
      simp
    · have hne : (tag a == tag n) = false := by
        simpa using fun e => hnd.1 n hn' e.symm
      simp only [List.map_cons, hne, List.filter_cons, Bool.not_false, ite_true]
      exact ((upd_perm tag f hnd.2 hn').cons a).trans (List.Perm.swap _ _ _)

theorem upd_perm_id {α} (tag : α → Nat) {l : List α} {n : α} (hnd : (l.map tag).Nodup) (hn : n ∈ l) :
    l.Perm (n :: l.filter fun x => !(tag x == tag n)) := by
  have := upd_perm tag id hnd hn
  simpa using this

/-- with distinct keys, the elements with one key form a list of at most one element -/
theorem filter_key_eq {α β} [BEq β] [LawfulBEq β] (key : α → β) : ∀ {l : List α} (k : β), (l.map key).Nodup →
    l.filter (fun x => key x == k) = (l.find? fun x => key x == k).toList
  | [], _, _ => rfl
  | a :: l, k, h => by
    simp only [List.map_cons, List.nodup_cons, List.mem_map, not_exists, not_and] at h
    by_cases hk : key a = k
    · have hno : ∀ x ∈ l, (key x == k) = false := by
        intro x hx; simpa [← hk] using h.1 x hx
      have : l.filter (fun x => key x == k) = [] := by
        apply List.filter_eq_nil_iff.2; intro x hx; simp [hno x hx]
      simp [List.filter_cons, List.find?_cons, hk, this]
    · simp [List.filter_cons, List.find?_cons, hk, filter_key_eq key k h.2]

theorem find?_perm {α} {p : α → Bool} {l1 l2 : List α} (hp : l1.Perm l2)
    (hu : ∀ x ∈ l1, ∀ y ∈ l1, p x = true → p y = true → x = y) : l1.find? p = l2.find? p := by
  cases h1 : l1.find? p with
  | none =>
    rw [List.find?_eq_none] at h1
    exact (List.find?_eq_none.2 fun x hx => h1 x (hp.mem_iff.2 hx)).symm
  | some x =>
    have hx := List.mem_of_find?_eq_some h1
    have hpx := List.find?_some h1
    cases h2 : l2.find? p with
    | none =>
      rw [List.find?_eq_none] at h2
      exact absurd hpx (h2 x (hp.mem_iff.1 hx))
    | some y =>
      have hy := List.mem_of_find?_eq_some h2
      have hpy := List.find?_some h2
      rw [hu x hx y (hp.mem_iff.2 hy) hpx hpy]

/-- `flatMap` of a function that contributes only under one key -/
theorem flatMap_filter_key {α β γ} [BEq β] [LawfulBEq β] (key : α → β) (f : α → List γ) (q : β → γ → Bool)
    (hq : ∀ a k, key a ≠ k → (f a).filter (q k) = []) : ∀ {l : List α} (k : β), (l.map key).Nodup →
    (l.flatMap f).filter (q k) = match l.find? fun x => key x == k with
      | some a => (f a).filter (q k)
      | none => []
  | [], _, _ => rfl
  | a :: l, k, h => by
    simp only [List.map_cons, List.nodup_cons, List.mem_map, not_exists, not_and] at h
    rw [List.flatMap_cons, List.filter_append, flatMap_filter_key key f q hq k h.2]
    by_cases hk : key a = k
    · have hno : l.find? (fun x => key x == k) = none := by
        apply List.find?_eq_none.2; intro x hx; simpa [← hk] using h.1 x hx
      simp [List.find?_cons, hk, hno]
    · simp [List.find?_cons, hk, hq a k hk]

/-! ### the strcmp order -/

theorem Key.lt_irrefl : ∀ a : Key, Key.lt a a = false
  | [] => rfl
  | a :: as => by simp [Key.lt, Key.lt_irrefl as]

theorem Key.lt_trans : ∀ {a b c : Key}, Key.lt a b = true → Key.lt b c = true → Key.lt a c = true
  | [], [], _, h, _ => by simp [Key.lt] at h
  | [], _ :: _, [], _, h => by simp [Key.lt] at h
  | [], _ :: _, _ :: _, _, _ => rfl
  | _ :: _, [], _, h, _ => by simp [Key.lt] at h
  | _ :: _, _ :: _, [], _, h => by simp [Key.lt] at h
  | a :: as, b :: bs, c :: cs, h1, h2 => by
    simp only [Key.lt] at h1 h2 ⊢
    by_cases hab : a < b
    · by_cases hbc : b < c
      · have : a < c := Nat.lt_trans hab hbc
        simp [this]
      · by_cases hcb : c < b
        · simp [hbc, hcb] at h2
        · have : b = c := by omega
          subst this; simp [hab]
    · by_cases hba : b < a
      · simp [hab, hba] at h1
      · have : a = b := by omega
        subst this
        by_cases hbc : a < c
        · simp [hbc]
        · by_cases hcb : c < a
          · simp [hbc, hcb] at h2
          · simp [hab] at h1
            simp [hbc, hcb] at h2 ⊢
            exact Key.lt_trans h1 h2

theorem Key.lt_total : ∀ {a b : Key}, Key.lt a b = false → a ≠ b → Key.lt b a = true
  | [], [], _, h => absurd rfl h
  | [], _ :: _, h, _ => by simp [Key.lt] at h
  | _ :: _, [], _, _ => rfl
  | a :: as, b :: bs, h, hne => by
    simp only [Key.lt] at h ⊢
    by_cases hab : a < b
    · simp [hab] at h
    · by_cases hba : b < a
      · simp [hba]
      · have : a = b := by omega
        subst this
        simp [hab] at h ⊢
        exact Key.lt_total h (by intro e; exact hne (by rw [e]))

theorem Key.ne_of_lt {a b : Key} (h : Key.lt a b = true) : a ≠ b := by
  intro e; subst e; rw [Key.lt_irrefl] at h; cases h

/-! ### sorted entry lists -/

/-- strictly ascending keys -/
def Sorted (es : List Entry) : Prop := es.Pairwise fun a b => Key.lt a.key b.key = true

theorem Sorted.keys_nodup {es : List Entry} (h : Sorted es) : (es.map (·.key)).Nodup := by
  rw [List.Nodup, List.pairwise_map]
  exact h.imp fun hab => Key.ne_of_lt hab

theorem insertEntry_perm (e : Entry) : ∀ {es : List Entry}, Sorted es →
    (insertEntry e es).Perm (e :: es.filter fun x => !(x.key == e.key))
  | [], _ => by simp [insertEntry]
  | x :: xs, h => by
    have hx : ∀ y ∈ xs, Key.lt x.key y.key = true := (List.pairwise_cons.1 h).1
    have hs : Sorted xs := (List.pairwise_cons.1 h).2
    unfold insertEntry
    by_cases h1 : Key.lt e.key x.key = true
    · have hall : ∀ y ∈ x :: xs, (!(y.key == e.key)) = true := by
        intro y hy
        have : Key.lt e.key y.key = true := by
          rcases List.mem_cons.1 hy with rfl | hy'
          · exact h1
          · exact Key.lt_trans h1 (hx y hy')
        simpa using fun e' => Key.ne_of_lt this e'.symm
      rw [if_pos h1, List.filter_eq_self.2 hall]
    · rw [if_neg h1]
      by_cases h2 : (x.key == e.key) = true
      · have hk : x.key = e.key := by simpa using h2
        have hall : ∀ y ∈ xs, (!(y.key == e.key)) = true := by
          intro y hy
          have := hx y hy
          rw [hk] at this
          simpa using fun e' => Key.ne_of_lt this e'.symm
        rw [if_pos h2, List.filter_cons, List.filter_eq_self.2 hall]
        simp [h2]
      · rw [if_neg h2, List.filter_cons]
        simp only [h2, Bool.not_false, ite_true]
        exact ((insertEntry_perm e hs).cons x).trans (List.Perm.swap _ _ _)

theorem insertEntry_sorted (e : Entry) : ∀ {es : List Entry}, Sorted es → Sorted (insertEntry e es)
  | [], _ => by simp [insertEntry, Sorted]
  | x :: xs, h => by
    have hx : ∀ y ∈ xs, Key.lt x.key y.key = true := (List.pairwise_cons.1 h).1
    have hs : Sorted xs := (List.pairwise_cons.1 h).2
    unfold insertEntry
    by_cases h1 : Key.lt e.key x.key = true
    · rw [if_pos h1]
      refine List.pairwise_cons.2 ⟨?_, h⟩
      intro y hy
      rcases List.mem_cons.1 hy with rfl | hy'
      · exact h1
      · exact Key.lt_trans h1 (hx y hy')
    · rw [if_neg h1]
      by_cases h2 : (x.key == e.key) = true
      · have hk : x.key = e.key := by simpa using h2
        rw [if_pos h2]
        refine List.pairwise_cons.2 ⟨?_, hs⟩
        intro y hy; rw [← hk]; exact hx y hy
      · rw [if_neg h2]
        refine List.pairwise_cons.2 ⟨?_, insertEntry_sorted e hs⟩
        intro y hy
        have hy' := (insertEntry_perm e hs).mem_iff.1 hy
        rcases List.mem_cons.1 hy' with rfl | hy''
        · exact Key.lt_total (by simpa using h1) (fun e' => by simp at h2; exact h2 e'.symm)
        · exact hx y (List.mem_filter.1 hy'').1

theorem eraseEntry_sorted (k : Key) {es : List Entry} (h : Sorted es) : Sorted (eraseEntry k es) :=
  List.Pairwise.filter _ h

end QbVerif.Map
