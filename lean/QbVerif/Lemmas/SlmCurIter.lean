/-
Skiplist vs. the specification's iterators, second part: `iter_new` / `iter_free` / `iter_next`
preserve `Cur`, `iter_next` returns what the specification's iterator returns (`cur_iterNext`), and
whole histories (`sim_runC`).
-/
import QbVerif.Lemmas.SlmCur

namespace QbVerif.Skiplist
open QbVerif.Map
set_option linter.unusedSimpArgs false

theorem NodeOk.unique {s : SL} {i : NodeId} {e e' : Entry} (h : NodeOk s i e) (h' : NodeOk s i e') : e = e' := by
  obtain ⟨_, _, _, _, _, _, _, hn, _⟩ := h
  obtain ⟨_, _, _, _, _, _, _, hn', _⟩ := h'
  rw [hn] at hn'
  cases e; cases e'
  simp only [Option.some.injEq, Node.mk.injEq] at hn'
  obtain ⟨h1, h2, _, _, _, h3⟩ := hn'
  simp_all

theorem mem_setIter_of_ne {its : List (Nat × Option NodeId)} {k j : Nat} {v pos : Option NodeId} (h : (j, pos) ∈ its)
    (hne : j ≠ k) : (j, pos) ∈ setIter its k v := by
  unfold setIter
  refine List.mem_map.2 ⟨(j, pos), h, ?_⟩
  simp [hne]

theorem lookup_dict_of_mem {its : List (Nat × DIter)} {k : Nat} {v : DIter} :
    (its.map (·.1)).Nodup → (k, v) ∈ its → its.lookup k = some v := by
  induction its with
  | nil => intro _ h; cases h
  | cons a its ih =>
    obtain ⟨a1, a2⟩ := a
    intro hnd hm
    simp only [List.map_cons, List.nodup_cons] at hnd
    by_cases hk : k = a1
    · subst hk
      rcases List.mem_cons.1 hm with h | h
      · cases h; simp [List.lookup]
      · exact absurd (List.mem_map.2 ⟨_, h, rfl⟩) hnd.1
    · have : (k == a1) = false := by simpa using hk
      simp only [List.lookup, this]
      rcases List.mem_cons.1 hm with h | h
      · exact absurd (Prod.mk.inj h).1 hk
      · exact ih hnd.2 h

theorem mem_of_lookup_dict {its : List (Nat × DIter)} {k : Nat} {v : DIter} : its.lookup k = some v → (k, v) ∈ its := by
  induction its with
  | nil => intro h; simp [List.lookup] at h
  | cons a its ih =>
    obtain ⟨a1, a2⟩ := a
    intro h
    by_cases hk : k = a1
    · subst hk; simp [List.lookup] at h; subst h; simp
    · have : (k == a1) = false := by simpa using hk
      simp only [List.lookup, this] at h
      exact List.mem_cons_of_mem _ (ih h)

theorem nodup_of_map {α β} (f : α → β) : ∀ {l : List α}, (l.map f).Nodup → l.Nodup
  | [], _ => List.nodup_nil
  | a :: l, h => by
    simp only [List.map_cons, List.nodup_cons] at h
    exact List.nodup_cons.2 ⟨fun hm => h.1 (List.mem_map.2 ⟨a, hm, rfl⟩), nodup_of_map f h.2⟩

theorem Sim.dkeys_nodup {s d} (h : Sim s d) : (d.iters.map (·.1)).Nodup := by
  obtain ⟨ids, hi⟩ := h.inv
  have := hi.ikeys
  rw [← h.iters] at this
  have h2 : d.iters.map (fun x => x.1 + 1) = (d.iters.map (·.1)).map (· + 1) := by simp [List.map_map]
  rw [h2] at this
  exact nodup_of_map _ this

/-- `iter_new`, `iter_free` preserve `Cur` -/
theorem cur_iterNew {s d} (h : Sim s d) (hc : Cur s d) (i : Nat) (pfx : Option Key) :
    Cur (s.step (.iterNew i pfx)).1 (d.step (.iterNew i pfx)).1 := by
  obtain ⟨ids, hi⟩ := h.inv
  by_cases hl : (s.iters.lookup (i + 1)).isSome = true
  · have hld : (d.iters.lookup i).isSome = true := by rw [h.lookup_isSome]; exact hl
    have hs : s.step (.iterNew i pfx) = (s, ⟨[], .badIter⟩) := by simp [SL.step, hi.ok, hl]
    have hd : d.step (.iterNew i pfx) = (d, ⟨[], .badIter⟩) := by simp [Dict.step, hld]
    rw [hs, hd]; exact hc
  · have hl' : (s.iters.lookup (i + 1)).isSome = false := by
      cases hx : (s.iters.lookup (i + 1)).isSome with
      | true => exact absurd hx hl
      | false => rfl
    have hld : (d.iters.lookup i).isSome = false := by rw [h.lookup_isSome]; exact hl'
    have hk : i + 1 ∉ s.iters.map (·.1) := by
      intro hm
      have := (Hashtable.lookup_isSome_iff s.iters (i + 1)).2 hm
      rw [hl'] at this; cases this
    obtain ⟨s', hcr, hi', hit, hR⟩ := iterCreate_inv hi (i + 1) hk
    have hs : (s.step (.iterNew i pfx)).1 = s' := by simp [SL.step, hi.ok, hl', hcr]
    have hd : (d.step (.iterNew i pfx)).1.iters = (i, ⟨none, none, false⟩) :: d.iters := by
      simp [Dict.step, hld, h.fl, Flavour.sl]
    rw [hs]
    intro j it hm
    rw [hd] at hm
    rcases List.mem_cons.1 hm with he | hm
    · cases he
      refine ⟨some s.header, by rw [hit]; simp, rfl, rfl, ?_⟩
      have : s'.header = s.header := hR.header
      rw [← this, hi'.keyOf_header]
    · obtain ⟨pos, hp, hr⟩ := hc j it hm
      exact ⟨pos, by rw [hit]; exact List.mem_cons_of_mem _ hp, hr.keep (fun p _ => hR.keyOf p)⟩

theorem cur_iterFree {s d} (h : Sim s d) (hc : Cur s d) (i : Nat) :
    Cur (s.step (.iterFree i)).1 (d.step (.iterFree i)).1 := by
  obtain ⟨ids, hi⟩ := h.inv
  cases hl : s.iters.lookup (i + 1) with
  | none =>
    have hld : (d.iters.lookup i).isSome = false := by rw [h.lookup_isSome, hl]; rfl
    have hs : s.step (.iterFree i) = (s, ⟨[], .badIter⟩) := by simp [SL.step, hi.ok, hl]
    have hd : d.step (.iterFree i) = (d, ⟨[], .badIter⟩) := by simp [Dict.step, hld]
    rw [hs, hd]; exact hc
  | some pos =>
    have hld : (d.iters.lookup i).isSome = true := by rw [h.lookup_isSome, hl]; rfl
    obtain ⟨s', hf, hi', hit, hR⟩ := iterFree_inv hi (mem_of_lookup hl)
    have hs : (s.step (.iterFree i)).1 = s' := by simp [SL.step, hi.ok, hl, hf]
    have hd : (d.step (.iterFree i)).1.iters = d.iters.filter fun p => !(p.1 == i) := by simp [Dict.step, hld]
    rw [hs]
    intro j it hm
    rw [hd] at hm
    obtain ⟨hm1, hm2⟩ := List.mem_filter.1 hm
    have hji : j ≠ i := by simpa using hm2
    obtain ⟨pos', hp, hr⟩ := hc j it hm1
    refine ⟨pos', ?_, hr.keep (fun p _ => hR.keyOf p)⟩
    rw [hit]
    exact List.mem_filter.2 ⟨hp, by simp; omega⟩

/-- the specification's candidates for an iterator without prefix: the entries behind the cursor -/
def candsOf (es : List Entry) : Option Key → List Entry
  | none => es
  | some c => es.filter fun e => Key.lt c e.key

/-- `Dict.step (.iterNext i)` for an open, unfinished iterator without prefix -/
theorem dict_iterNext_eq (d : Dict) (i : Nat) (it : DIter) (hl : d.iters.lookup i = some it) (hdone : it.done = false)
    (hpfx : it.pfx = none) :
    d.step (.iterNext i) =
      (match (candsOf d.entries it.cursor).head? with
       | some e => ({ d with iters := d.iters.map fun q => if q.1 == i then (i, ⟨some e.key, it.pfx, false⟩) else q },
                    ⟨[], .item (some (e.key, e.val))⟩)
       | none => ({ d with iters := d.iters.map fun q => if q.1 == i then (i, ⟨it.cursor, it.pfx, true⟩) else q },
                  ⟨[], .item none⟩)) := by
  obtain ⟨c, p, dn⟩ := it
  simp only at hdone hpfx
  subst hdone; subst hpfx
  cases c with
  | none => cases hes : d.entries <;> simp [Dict.step, hl, candsOf, Key.hasPrefix, hes]
  | some c =>
    cases hx : List.find? (fun e => Key.lt c e.key) d.entries <;> simp [Dict.step, hl, candsOf, Key.hasPrefix, hx]

/-- `iter_next`: the model returns what the specification's iterator returns, and `Cur` is preserved -/
theorem cur_iterNext {s d} (h : Sim s d) (hc : Cur s d) (i : Nat) :
    Cur (s.step (.iterNext i)).1 (d.step (.iterNext i)).1 ∧
    (s.step (.iterNext i)).2.res = (d.step (.iterNext i)).2.res := by
  obtain ⟨ids, hi⟩ := h.inv
  cases hl : s.iters.lookup (i + 1) with
  | none =>
    have hld : d.iters.lookup i = none := by
      have := h.lookup_isSome i; rw [hl] at this
      cases hx : d.iters.lookup i with
      | none => rfl
      | some _ => rw [hx] at this; cases this
    have hs : s.step (.iterNext i) = (s, ⟨[], .badIter⟩) := by simp [SL.step, hi.ok, hl]
    have hd : d.step (.iterNext i) = (d, ⟨[], .badIter⟩) := by simp [Dict.step, hld]
    rw [hs, hd]; exact ⟨hc, rfl⟩
  | some pos =>
    have hm := mem_of_lookup hl
    obtain ⟨it, hld⟩ : ∃ it, d.iters.lookup i = some it := by
      have := h.lookup_isSome i; rw [hl] at this
      cases hx : d.iters.lookup i with
      | none => rw [hx] at this; cases this
      | some it => exact ⟨it, rfl⟩
    obtain ⟨pos', hp', hrel⟩ := hc i it (mem_of_lookup_dict hld)
    have : pos' = pos := by
      have := lookup_of_mem hi.ikeys hp'
      rw [hl] at this; exact (Option.some.inj this).symm
    subst this
    obtain ⟨hpfx, hrel2⟩ := hrel
    -- the other iterators keep their relation
    have hothers : ∀ (s' : SL) (v : Option NodeId) (it' : DIter), s'.iters = setIter s.iters (i + 1) v →
        (∀ p, keyOf s' p = keyOf s p) → IterRel s' v it' →
        Cur s' { d with iters := d.iters.map fun p => if p.1 == i then (i, it') else p } := by
      intro s' v it' hit hk hnew j itj hmj
      obtain ⟨q, hq, hqe⟩ := List.mem_map.1 hmj
      by_cases hqi : (q.1 == i) = true
      · simp only [hqi, if_true] at hqe
        cases hqe
        exact ⟨v, by rw [hit]; exact mem_setIter_self hm, hnew⟩
      · simp only [hqi, if_false] at hqe
        subst hqe
        have hji : j ≠ i := by simpa using hqi
        obtain ⟨pq, hpq, hrq⟩ := hc j itj hq
        exact ⟨pq, by rw [hit]; exact mem_setIter_of_ne hpq (by omega), hrq.keep (fun p _ => hk p)⟩
    cases pos' with
    | none =>
      have hdone : it.done = true := hrel2
      have hs : s.step (.iterNext i) = (s, ⟨[], .item none⟩) := by
        simp [SL.step, hi.ok, hl, SL.iterNext, bind, Except.bind]
      have hd : d.step (.iterNext i) = (d, ⟨[], .item none⟩) := by simp [Dict.step, hld, hdone]
      rw [hs, hd]; exact ⟨hc, rfl⟩
    | some p =>
      obtain ⟨hdone, hcur⟩ := hrel2
      have hpm : p ∈ s.header :: ids := hi.pos _ hm p rfl
      -- what the specification's iterator finds
      have hspec : (match next0 s p with
          | some n => ∃ e' ∈ d.entries, NodeOk s n e' ∧ (candsOf d.entries it.cursor).head? = some e'
          | none => (candsOf d.entries it.cursor).head? = none) := by
        rw [hcur]
        rcases List.mem_cons.1 hpm with rfl | hpi
        · rw [hi.keyOf_header]
          simp only [candsOf]
          cases hids : ids with
          | nil =>
            have hc0 := hi.chain
            rw [hids] at hc0
            cases hes : d.entries with
            | nil => rw [hes] at hc0; have h0 : next0 s s.header = none := hc0; rw [h0]; rfl
            | cons _ _ => rw [hes] at hc0; cases hc0
          | cons j ids' =>
            have hc0 := hi.chain
            rw [hids] at hc0
            cases hes : d.entries with
            | nil => rw [hes] at hc0; cases hc0
            | cons e1 es' =>
              rw [hes] at hc0
              rw [hc0.1]
              exact ⟨e1, by simp, hc0.2.1, rfl⟩
        · obtain ⟨ep, _, hokp⟩ := hi.chain.key_of_mem hpi
          rw [hokp.keyOf]
          exact hi.chain.next_entry hi.sorted hpi hokp
      have hdeq := dict_iterNext_eq d i it hld hdone hpfx
      cases hn : next0 s p with
      | none =>
        rw [hn] at hspec
        obtain ⟨s', hx, hi', hit, hR⟩ := (iterNext_inv hi hm).2 hn
        have hs : s.step (.iterNext i) = (s', ⟨[], .item none⟩) := by simp [SL.step, hi.ok, hl, hx]
        have hd : d.step (.iterNext i) = ({ d with iters := d.iters.map fun q => if q.1 == i then (i, ⟨it.cursor, it.pfx, true⟩) else q },
            ⟨[], .item none⟩) := by
          rw [hdeq, hspec]
        rw [hs, hd]
        exact ⟨hothers s' none _ hit (fun q => hR.keyOf q) ⟨hpfx, rfl⟩, rfl⟩
      | some n =>
        rw [hn] at hspec
        obtain ⟨e', he', hok', hhead⟩ := hspec
        obtain ⟨e, _, hok, _, s', hx, hi', hit, hR⟩ := (iterNext_inv hi hm).1 n hn
        have hee : e = e' := hok.unique hok'
        subst hee
        have hs : s.step (.iterNext i) = (s', ⟨[], .item (some (e.key, e.val))⟩) := by simp [SL.step, hi.ok, hl, hx]
        have hd : d.step (.iterNext i) = ({ d with iters := d.iters.map fun q => if q.1 == i then (i, ⟨some e.key, it.pfx, false⟩) else q },
            ⟨[], .item (some (e.key, e.val))⟩) := by
          rw [hdeq, hhead]
        rw [hs, hd]
        refine ⟨hothers s' (some n) _ hit (fun q => hR.keyOf q) ⟨hpfx, rfl, ?_⟩, rfl⟩
        show some e.key = keyOf s' n
        rw [hR.keyOf n, hok.keyOf]

theorem cur_create : Cur create (Dict.empty .sl) := by
  intro i it hm
  cases hm

/-- whole histories with iterators: every result (also of `iter_next`) and every notification -/
theorem sim_runC : ∀ (ops : List Op) {s : SL} {d : Dict}, Sim s d → Cur s d → noRmParked s ops = true →
    Sim (s.runFrom ops).1 (d.runFrom ops).1 ∧ Cur (s.runFrom ops).1 (d.runFrom ops).1 ∧
    (s.runFrom ops).2.map (·.events) = (d.runFrom ops).2.map (·.events) ∧
    (s.runFrom ops).2.map (fun o => o.res.canon .sl) = (d.runFrom ops).2.map (fun o => o.res.canon .sl)
  | [], _, _, h, hc, _ => ⟨h, hc, rfl, rfl⟩
  | op :: ops, s, d, h, hc, hk => by
    simp only [noRmParked, Bool.and_eq_true, Bool.not_eq_true'] at hk
    have hstep : Sim (s.step op).1 (d.step op).1 ∧ Cur (s.step op).1 (d.step op).1 ∧
        (s.step op).2.events = (d.step op).2.events ∧ (s.step op).2.res.canon .sl = (d.step op).2.res.canon .sl := by
      cases op with
      | iterNew i p =>
        have st := sim_iterNew h i p
        exact ⟨st.sim, cur_iterNew h hc i p, st.events, st.res⟩
      | iterFree i =>
        have st := sim_iterFree h i
        exact ⟨st.sim, cur_iterFree h hc i, st.events, st.res⟩
      | iterNext i =>
        have st := sim_iterNext h i
        obtain ⟨c1, c2⟩ := cur_iterNext h hc i
        exact ⟨st.sim, c1, st.events, by rw [c2]⟩
      | put k v l =>
        have st := sim_step h (.put k v l) rfl hk.1
        exact ⟨st.sim, cur_step h hc _ rfl hk.1, st.events, st.res⟩
      | get k =>
        have st := sim_step h (.get k) rfl hk.1
        exact ⟨st.sim, cur_step h hc _ rfl hk.1, st.events, st.res⟩
      | rm k =>
        have st := sim_step h (.rm k) rfl hk.1
        exact ⟨st.sim, cur_step h hc _ rfl hk.1, st.events, st.res⟩
      | count =>
        have st := sim_step h .count rfl hk.1
        exact ⟨st.sim, cur_step h hc _ rfl hk.1, st.events, st.res⟩
      | foreach a b =>
        have st := sim_step h (.foreach a b) rfl hk.1
        exact ⟨st.sim, cur_step h hc _ rfl hk.1, st.events, st.res⟩
      | nadd a b c =>
        have st := sim_step h (.nadd a b c) rfl hk.1
        exact ⟨st.sim, cur_step h hc _ rfl hk.1, st.events, st.res⟩
      | ndel a b c =>
        have st := sim_step h (.ndel a b c) rfl hk.1
        exact ⟨st.sim, cur_step h hc _ rfl hk.1, st.events, st.res⟩
      | destroy =>
        have st := sim_step h .destroy rfl hk.1
        exact ⟨st.sim, cur_step h hc _ rfl hk.1, st.events, st.res⟩
    obtain ⟨s1, c1, e1, r1⟩ := hstep
    obtain ⟨h1, h2, h3, h4⟩ := sim_runC ops s1 c1 hk.2
    refine ⟨h1, h2, ?_, ?_⟩
    · show (s.step op).2.events :: _ = (d.step op).2.events :: _
      rw [e1]; exact congrArg _ h3
    · show (s.step op).2.res.canon .sl :: _ = (d.step op).2.res.canon .sl :: _
      rw [r1]; exact congrArg _ h4

end QbVerif.Skiplist
