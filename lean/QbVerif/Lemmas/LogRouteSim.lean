/-
Remaining operations (open / close / enable / init / fini / log) keep the C12 invariant; the
configuration part of the repaired model is the specification's configuration; a log call of the
model delivers what the specification says.  Core Lean only.
-/
import QbVerif.Lemmas.LogRouteStep

namespace QbVerif.LogRoute

open QbVerif.LogSpec

/-! ### configuration-only part of the invariant (what `qb_log_fini` keeps) -/

structure CInv (m : State) : Prop where
  amLt : m.activeMax < TARGET_MAX
  amGe : ∀ t, (m.cfg.tgt t).state = .enabled → t ≤ m.activeMax
  unusedNoFilters : ∀ t, (m.cfg.tgt t).state = .unused → (m.cfg.tgt t).filters = []
  confAdd : ∀ t, ∀ f ∈ (m.cfg.tgt t).filters, f.conf = .add

theorem MInv.toCInv {env : RxEnv} {U : List Call} {m : State} (h : MInv env U m) : CInv m :=
  ⟨h.amLt, h.amGe, h.unusedNoFilters, h.confAdd⟩

/-- a state without call sites satisfies the invariant as soon as its configuration part does -/
theorem MInv.of_cinv {env : RxEnv} {U : List Call} {m : State} (h : CInv m)
    (hT : ∀ f ∈ m.cfg.tagFilters, f.conf = .tagSet) (hs : m.sites = []) : MInv env U m := by
  refine ⟨h.amLt, h.amGe, h.unusedNoFilters, h.confAdd, hT, ?_, ?_, ?_⟩ <;> simp [hs]

theorem stateSet_cinv {m : State} (h : CInv m) (t : Nat) (st : TState)
    (ht : t < TARGET_MAX) (hu : st = .unused → (m.cfg.tgt t).filters = []) :
    CInv (stateSet m t st) := by
  have hlt : ∀ j, ((stateSet m t st).cfg.tgt j).state = .enabled → j < TARGET_MAX := by
    intro j hj
    rw [stateSet_state] at hj
    by_cases hjt : j = t
    · subst hjt; exact ht
    · simp only [hjt, if_false] at hj
      have := h.amGe j hj
      have := h.amLt
      omega
  refine ⟨?_, ?_, ?_, ?_⟩
  · show (stateSet m t st).activeMax < TARGET_MAX
    simp only [stateSet]
    split
    · rename_i i hi
      exact (highestEnabled_some _ _ _ hi).1
    · exact h.amLt
  · intro j hj
    have hjlt := hlt j hj
    have hj' : ((updTgt m.cfg.tgt t { m.cfg.tgt t with state := st }) j).state = .enabled := hj
    show j ≤ (stateSet m t st).activeMax
    simp only [stateSet]
    split
    · rename_i i hi
      exact (highestEnabled_some _ _ _ hi).2.2 j hjlt hj'
    · rename_i hn
      exact absurd hj' (highestEnabled_none _ _ hn j hjlt)
  · intro j hj
    rw [stateSet_state] at hj
    rw [stateSet_filters]
    by_cases hjt : j = t
    · subst hjt
      simp only [if_true] at hj
      exact hu hj
    · simp only [hjt, if_false] at hj
      exact h.unusedNoFilters j hj
  · intro j f hf
    rw [stateSet_filters] at hf
    exact h.confAdd j f hf

theorem targetDisable_cinv {m : State} (h : CInv m) (t : Nat) (ht : t < TARGET_MAX) :
    CInv (targetDisable m t) := by
  unfold targetDisable
  split
  · exact stateSet_cinv h t .disabled ht (by simp)
  · exact h

/-- one iteration of the loop in `qb_log_fini` -/
def finiStep (a : State) (pos : Nat) : State :=
  let a1 := targetDisable a pos
  { a1 with cfg := { a1.cfg with tgt := updTgt a1.cfg.tgt pos { a1.cfg.tgt pos with filters := [] } } }

theorem finiStep_cinv {m : State} (h : CInv m) (pos : Nat) (hp : pos < TARGET_MAX) : CInv (finiStep m pos) := by
  have h1 := targetDisable_cinv h pos hp
  unfold finiStep
  refine ⟨h1.amLt, ?_, ?_, ?_⟩
  · intro t ht
    apply h1.amGe
    by_cases htp : t = pos
    · subst htp; simpa using ht
    · simpa [updTgt_other _ _ _ _ htp] using ht
  · intro t ht
    by_cases htp : t = pos
    · subst htp; simp
    · simp only [updTgt_other _ _ _ _ htp] at ht ⊢
      exact h1.unusedNoFilters t ht
  · intro t f hf
    by_cases htp : t = pos
    · subst htp; simp at hf
    · simp only [updTgt_other _ _ _ _ htp] at hf
      exact h1.confAdd t f hf

theorem finiFold_cinv (ps : List Nat) (hps : ∀ p ∈ ps, p < TARGET_MAX) (m : State) (h : CInv m) :
    CInv (ps.foldl finiStep m) := by
  induction ps generalizing m with
  | nil => exact h
  | cons p ps ih =>
    simp only [List.foldl_cons]
    exact ih (fun q hq => hps q (by simp [hq])) _ (finiStep_cinv h p (hps p (by simp)))

theorem finiOp_inv {env : RxEnv} {U : List Call} {m : State} (h : MInv env U m) :
    MInv env U (finiOp m).1 := by
  unfold finiOp
  split
  · exact h
  · have hc := finiFold_cinv (List.range (m.activeMax + 1))
      (fun p hp => by have := List.mem_range.mp hp; have := h.amLt; omega) m h.toCInv
    apply MInv.of_cinv
    · exact ⟨hc.amLt, hc.amGe, hc.unusedNoFilters, hc.confAdd⟩
    · intro f hf; simp at hf
    · rfl

/-! ### open / close / enable / init -/

theorem topenOp_inv {env : RxEnv} {U : List Call} {m : State} (h : MInv env U m) :
    MInv env U (topenOp m).1 := by
  unfold topenOp
  split
  · exact h
  split
  · rename_i i hi
    have : i < TARGET_MAX := List.mem_range.mp (List.mem_of_find?_eq_some hi)
    exact stateSet_inv h i .disabled this (by simp)
  · exact h

theorem filterCtl_clearAll_cfg (env : RxEnv) (v : Variant) (m : State) (t : Nat) (hin : m.cfg.inited = true)
    (ht : ¬ t ≥ TARGET_MAX) (hnu : ¬ ((m.cfg.tgt t).state == .unused) = true) :
    (filterCtl env v m t .clearAll .file star PRIO_EMERG 0).1.cfg = m.cfg.setList t .clearAll [] := by
  have hp : ¬ (0 < PRIO_EMERG) := by decide
  simp [filterCtl, hin, ht, hnu, hp, store]

theorem tcloseOp_inv {env : RxEnv} {U : List Call} {m : State} (h : MInv env U m) (t : Nat) :
    MInv env U (tcloseOp env .fixed m t).1 := by
  unfold tcloseOp
  split
  · exact h
  rename_i hg
  split
  · exact h
  rename_i hin
  split
  · exact h
  rename_i hnu
  simp only [Bool.or_eq_true, decide_eq_true_eq, not_or, Nat.not_lt] at hg
  have hin' : m.cfg.inited = true := by simpa using hin
  have h1 := filterCtl_inv h t .clearAll .file star PRIO_EMERG 0
  simp only [Variant.fixed, if_true]
  apply stateSet_inv h1 t .unused (by omega)
  intro _
  have := filterCtl_clearAll_cfg env Variant.fixed m t hin' (by omega) hnu
  rw [this]
  simp [Cfg.setList]

theorem enableOp_inv {env : RxEnv} {U : List Call} {m : State} (h : MInv env U m) (t : Nat) (on : Bool) :
    MInv env U (enableOp m t on).1 := by
  unfold enableOp
  split
  · exact h
  rename_i hg
  simp only [Bool.or_eq_true, decide_eq_true_eq, not_or, Nat.not_lt] at hg
  split
  · exact h
  split
  · exact h
  split
  · exact targetEnable_inv h t (by omega)
  · exact targetDisable_inv h t (by omega)

theorem initOp_inv {env : RxEnv} {U : List Call} {m : State} (h : MInv env U m) (p : Nat) :
    MInv env U (initOp env .fixed m p).1 := by
  unfold initOp
  split
  · exact h
  · have hs : SYSLOG < TARGET_MAX := by decide
    dsimp only
    apply targetDisable_inv _ _ hs
    apply filterCtl_inv
    apply stateSet_inv _ _ _ hs (by simp)
    apply MInv.of_cinv
    · refine ⟨h.amLt, ?_, ?_, ?_⟩
      · intro t ht
        simp only at ht
        split at ht <;> simp at ht
      · intro t _
        simp only
        split <;> rfl
      · intro t f hf
        simp only at hf
        split at hf <;> simp at hf
    · exact h.confTag
    · rfl

/-! ### first-use replay -/

theorem replayFold_props (env : RxEnv) (cfg : Cfg) (hA : ∀ t, ∀ f ∈ (cfg.tgt t).filters, f.conf = .add)
    (ps : List Nat) (hps : ∀ p ∈ ps, p < 32) (cs : Site) :
    let cs' := ps.foldl (fun a pos =>
      if (cfg.tgt pos).state == .unused then a else applyTargetFilters env a pos (cfg.tgt pos).filters) cs
    cs'.id = cs.id ∧ cs'.line = cs.line ∧ cs'.func = cs.func ∧ cs'.tags = cs.tags ∧
    ∀ i, bitTest cs'.targets i = (bitTest cs.targets i ||
      (decide (i ∈ ps) && !((cfg.tgt i).state == .unused) &&
        (cfg.tgt i).filters.any fun f => fMatches env f cs.id)) := by
  induction ps generalizing cs with
  | nil => simp
  | cons p ps ih =>
    have hps' : ∀ q ∈ ps, q < 32 := fun q hq => hps q (by simp [hq])
    simp only [List.foldl_cons]
    by_cases hu : ((cfg.tgt p).state == .unused) = true
    · simp only [hu, if_true]
      have := ih hps' cs
      refine ⟨this.1, this.2.1, this.2.2.1, this.2.2.2.1, fun i => ?_⟩
      rw [this.2.2.2.2 i]
      by_cases hip : i = p
      · subst hip; simp [hu]
      · simp [hip]
    · simp only [hu]
      have ha := applyTargetFilters_props env p (hps p (by simp)) (cfg.tgt p).filters (hA p) cs
      have := ih hps' (applyTargetFilters env cs p (cfg.tgt p).filters)
      simp only [Bool.false_eq_true, if_false] at this ⊢
      refine ⟨by rw [this.1, ha.1], by rw [this.2.1, ha.2.1], by rw [this.2.2.1, ha.2.2.1],
        by rw [this.2.2.2.1, ha.2.2.2.1], fun i => ?_⟩
      rw [this.2.2.2.2 i, ha.2.2.2.2 i, ha.1]
      by_cases hip : i = p
      · subst hip
        simp only [hu, decide_true, Bool.true_and, List.mem_cons, true_or, Bool.not_false]
        cases bitTest cs.targets i <;> cases (List.any (cfg.tgt i).filters fun f => fMatches env f cs.id) <;> simp
      · simp [hip]

theorem replayTargets_props {env : RxEnv} {U : List Call} {m : State} (h : MInv env U m) (cs : Site) :
    (replayTargets env .fixed m cs).id = cs.id ∧ (replayTargets env .fixed m cs).line = cs.line ∧
    (replayTargets env .fixed m cs).func = cs.func ∧ (replayTargets env .fixed m cs).tags = cs.tags ∧
    ∀ i, i < TARGET_MAX → bitTest (replayTargets env .fixed m cs).targets i =
      (bitTest cs.targets i || selected env m.cfg i cs.id) := by
  have hmax := target_max_eq
  have := replayFold_props env m.cfg h.confAdd (List.range TARGET_MAX)
    (fun p hp => by have := List.mem_range.mp hp; omega) cs
  simp only [replayTargets, Variant.fixed, if_true]
  refine ⟨this.1, this.2.1, this.2.2.1, this.2.2.2.1, fun i hi => ?_⟩
  rw [this.2.2.2.2 i, selected_eq_any _ _ _ _ (h.confAdd i)]
  have hmem : i ∈ List.range TARGET_MAX := List.mem_range.mpr hi
  simp only [hmem, decide_true, Bool.true_and]
  by_cases hu : (m.cfg.tgt i).state = .unused
  · simp [hu, h.unusedNoFilters i hu]
  · have : ((m.cfg.tgt i).state == TState.unused) = false := by simpa using hu
    simp [this]

theorem newSite_props {env : RxEnv} {U : List Call} {m : State} (h : MInv env U m) (c : Call) :
    (newSite env .fixed m c).id = c.id ∧ (newSite env .fixed m c).line = c.line ∧
    (newSite env .fixed m c).func = c.func ∧
    (∀ i, i < TARGET_MAX → bitTest (newSite env .fixed m c).targets i = selected env m.cfg i c.id) ∧
    (newSite env .fixed m c).tags = tagOf env m.cfg c := by
  have hr := replayTargets_props h (⟨c.file, c.func, c.fmt, c.line, c.prio, 0, c.tags⟩ : Site)
  unfold newSite
  by_cases h0 : (c.tags == 0) = true
  · have ht := applyTagFilters_props env m.cfg.tagFilters h.confTag
      (replayTargets env .fixed m (⟨c.file, c.func, c.fmt, c.line, c.prio, 0, c.tags⟩ : Site))
    simp only [h0, if_true]
    refine ⟨by rw [ht.1, hr.1]; rfl, by rw [ht.2.1, hr.2.1], by rw [ht.2.2.1, hr.2.2.1], ?_, ?_⟩
    · intro i hi
      rw [ht.2.2.2.1, hr.2.2.2.2 i hi, bitTest_zero]
      rfl
    · have h0' : c.tags = 0 := by simpa using h0
      rw [ht.2.2.2.2, hr.1, hr.2.2.2.1]
      simp [tagOf, h0', Site.id, Call.id]
  · simp only [h0]
    refine ⟨hr.1, hr.2.1, hr.2.2.1, ?_, ?_⟩
    · intro i hi
      show bitTest (replayTargets env .fixed m (⟨c.file, c.func, c.fmt, c.line, c.prio, 0, c.tags⟩ : Site)).targets i = _
      rw [hr.2.2.2.2 i hi, bitTest_zero]
      rfl
    · have h0' : (c.tags != 0) = true := by simpa using h0
      simp [tagOf, h0']

theorem touchSite_props (c : Call) (cs : Site) :
    (touchSite c cs).id = cs.id ∧ (touchSite c cs).line = cs.line ∧ (touchSite c cs).func = cs.func ∧
    (touchSite c cs).targets = cs.targets ∧
    (touchSite c cs).tags = if c.tags = 0 then cs.tags else c.tags := by
  unfold touchSite
  by_cases h0 : c.tags = 0
  · simp [h0]
  · by_cases h1 : cs.tags = c.tags
    · simp [h0, h1]
    · simp [h0, h1, Site.id]

/-! ### the delivery loop against the specification -/

theorem deliverTo_eq {env : RxEnv} {U : List Call} {m : State} (h : MInv env U m) (cs : Site) (c : Call)
    (hb : ∀ i, i < TARGET_MAX → bitTest cs.targets i = selected env m.cfg i c.id)
    (ht : cs.tags = tagOf env m.cfg c) :
    deliverTo m cs = LogSpec.deliver env m.cfg c := by
  unfold deliverTo LogSpec.deliver
  rw [ht]
  congr 1
  have hsplit : List.range TARGET_MAX = List.range (m.activeMax + 1) ++
      List.map (fun x => m.activeMax + 1 + x) (List.range (TARGET_MAX - (m.activeMax + 1))) := by
    rw [← List.range_add]
    congr 1
    have := h.amLt; omega
  rw [hsplit, List.filter_append]
  have h2 : List.filter (fun t => (m.cfg.tgt t).state == .enabled && selected env m.cfg t c.id)
      (List.map (fun x => m.activeMax + 1 + x) (List.range (TARGET_MAX - (m.activeMax + 1)))) = [] := by
    rw [List.filter_eq_nil_iff]
    intro a ha
    obtain ⟨x, _, rfl⟩ := List.mem_map.mp ha
    intro hen
    simp only [Bool.and_eq_true, beq_iff_eq] at hen
    have := h.amGe _ hen.1
    omega
  rw [h2, List.append_nil]
  apply List.filter_congr
  intro x hx
  have hx' : x < TARGET_MAX := by have := List.mem_range.mp hx; have := h.amLt; omega
  rw [hb x hx']

/-! ### `qb_log_callsite_get2` + delivery: invariant and output -/

theorem updFirst_mem (p : Site → Bool) (f : Site → Site) (l : List Site) (x : Site) (hx : x ∈ updFirst p f l) :
    x ∈ l ∨ ∃ y ∈ l, p y = true ∧ x = f y := by
  induction l with
  | nil => simp [updFirst] at hx
  | cons a l ih =>
    unfold updFirst at hx
    split at hx
    · rename_i hp
      simp only [List.mem_cons] at hx
      rcases hx with hx | hx
      · right; exact ⟨a, by simp, hp, hx⟩
      · left; simp [hx]
    · simp only [List.mem_cons] at hx
      rcases hx with hx | hx
      · left; simp [hx]
      · rcases ih hx with h | ⟨y, hy, hpy, hxy⟩
        · left; simp [h]
        · right; exact ⟨y, by simp [hy], hpy, hxy⟩

theorem sameKey_keyEq (a b : Call) (cs : Site) (ha : sameKey a cs = true) (hb : sameKey b cs = true) :
    keyEq a b = true := by
  simp only [sameKey, Bool.and_eq_true, beq_iff_eq] at ha hb
  simp only [keyEq, Bool.and_eq_true, beq_iff_eq]
  obtain ⟨⟨⟨a1, a2⟩, a3⟩, a4⟩ := ha
  obtain ⟨⟨⟨b1, b2⟩, b3⟩, b4⟩ := hb
  exact ⟨⟨⟨by rw [← a1, ← b1], by rw [← a2, ← b2]⟩, by rw [← a3, ← b3]⟩, by rw [← a4, ← b4]⟩

theorem sameKey_id (c : Call) (cs : Site) (hk : sameKey c cs = true) (hf : cs.func = c.func) : cs.id = c.id := by
  simp only [sameKey, Bool.and_eq_true, beq_iff_eq] at hk
  obtain ⟨⟨⟨_, k2⟩, k3⟩, k4⟩ := hk
  simp [Site.id, Call.id, k2, k3, k4, hf]

theorem logOp_inv {env : RxEnv} {U : List Call} {m : State} (h : MInv env U m) (hU : CallsWF U) (c : Call)
    (hc : c ∈ U) : MInv env U (logOp env .fixed m c).1 := by
  unfold logOp
  split
  · exact h
  split
  · exact h
  split
  · -- known call site
    rename_i cs hfind
    refine ⟨h.amLt, h.amGe, h.unusedNoFilters, h.confAdd, h.confTag, ?_, ?_, ?_⟩
    · intro x hx
      rcases updFirst_mem _ _ _ _ hx with hx | ⟨y, hy, _, rfl⟩
      · exact h.linePos x hx
      · rw [(touchSite_props c y).2.1]; exact h.linePos y hy
    · intro x hx t ht
      rcases updFirst_mem _ _ _ _ hx with hx | ⟨y, hy, _, rfl⟩
      · exact h.bits x hx t ht
      · rw [(touchSite_props c y).2.2.2.1, (touchSite_props c y).1]; exact h.bits y hy t ht
    · intro x hx c' hc' hk
      rcases updFirst_mem _ _ _ _ hx with hx | ⟨y, hy, hpy, rfl⟩
      · exact h.attrs x hx c' hc' hk
      · have tp := touchSite_props c y
        rw [sameKey_congr c' _ y tp.1 tp.2.1] at hk
        have old := h.attrs y hy c' hc' hk
        have hkk := sameKey_keyEq c c' y hpy hk
        have hwf := hU.2 c hc c' hc' hkk
        refine ⟨by rw [tp.2.2.1]; exact old.1, fun h0 => ?_⟩
        rw [tp.2.2.2.2, tp.1]
        have : c.tags = 0 := by rw [hwf.2]; exact h0
        simp only [this, if_true]
        exact old.2 h0
  · -- first use
    rename_i hfind
    have np := newSite_props h c
    have hkey : sameKey c (newSite env .fixed m c) = true := by
      have hid := np.1
      simp only [Site.id, Call.id, SiteId.mk.injEq] at hid
      simp [sameKey, np.2.1, hid.1, hid.2.2.1, hid.2.2.2]
    refine ⟨h.amLt, h.amGe, h.unusedNoFilters, h.confAdd, h.confTag, ?_, ?_, ?_⟩
    · intro x hx
      simp only [List.mem_append, List.mem_singleton] at hx
      rcases hx with hx | rfl
      · exact h.linePos x hx
      · rw [np.2.1]; exact (hU.1 c hc).1
    · intro x hx t ht
      simp only [List.mem_append, List.mem_singleton] at hx
      rcases hx with hx | rfl
      · exact h.bits x hx t ht
      · rw [np.2.2.2.1 t ht, np.1]
    · intro x hx c' hc' hk
      simp only [List.mem_append, List.mem_singleton] at hx
      rcases hx with hx | rfl
      · exact h.attrs x hx c' hc' hk
      · have hkk := sameKey_keyEq c c' _ hkey hk
        have hwf := hU.2 c hc c' hc' hkk
        refine ⟨by rw [np.2.2.1]; exact hwf.1, fun h0 => ?_⟩
        have hc0 : c.tags = 0 := by rw [hwf.2]; exact h0
        rw [np.2.2.2.2, np.1]
        simp [tagOf, hc0]

theorem logOp_out {env : RxEnv} {U : List Call} {m : State} (h : MInv env U m) (c : Call) (hc : c ∈ U) :
    (logOp env .fixed m c).2 = (LogSpec.step env m.cfg (.log c)).2 := by
  unfold logOp
  simp only [LogSpec.step]
  split
  · rfl
  split
  · rfl
  split
  · rename_i cs hfind
    have hcs := List.mem_of_find?_eq_some hfind
    have hk : sameKey c cs = true := List.find?_some hfind
    have at_ := h.attrs cs hcs c hc hk
    have hid := sameKey_id c cs hk at_.1
    have tp := touchSite_props c cs
    simp only
    congr 1
    apply deliverTo_eq h
    · intro i hi
      rw [tp.2.2.2.1, h.bits cs hcs i hi, hid]
    · rw [tp.2.2.2.2]
      by_cases h0 : c.tags = 0
      · simp only [h0, if_true]
        rw [at_.2 h0, hid]
        simp [tagOf, h0]
      · have : (c.tags != 0) = true := by simpa using h0
        simp [tagOf, h0, this]
  · have np := newSite_props h c
    simp only
    congr 1
    exact deliverTo_eq h _ c np.2.2.2.1 np.2.2.2.2

end QbVerif.LogRoute
