/-
C01 — reader steps, third part: `_rb_chunk_reclaim`, and the master lemmas: every step of
either thread preserves `CInv`; the initial configuration satisfies it.
-/
import QbVerif.Lemmas.RingConcR2
import QbVerif.Lemmas.RingSim

namespace QbVerif.RingConcLemmas
open QbVerif.Ring QbVerif.RingSpec QbVerif.RingLemmas QbVerif.RingConc

section
variable {c : Conf} {q : List (List Nat)} {op : ROp} {rest : List ROp}

theorem r_rcRp (h : CInv c q) (hp : c.rprog = op :: rest) (hpc : c.rpc = .rcRp) : CInv (rstep c) q := by
  have e : rstep c = { c with rpc := .rcMg c.rb.rp, rbuf := c.rbuf, lin := c.lin } := by
    unfold rstep; simp only [hp, hpc]
  rw [e]
  have hrf := RFacts_get hp h.rf
  rw [hpc] at hrf
  obtain ⟨d, hrc⟩ := hrf
  exact h.rlocal _ _ _ (by rw [hpc]; rfl) (by rw [hpc]; rfl) (fun _ _ => by rw [hpc]; rfl)
    (RFacts_of' (c := c) hp rfl ⟨d, hrc, h.hrp⟩)

theorem r_rcMg {old} (h : CInv c q) (hp : c.rprog = op :: rest) (hpc : c.rpc = .rcMg old) : CInv (rstep c) q := by
  have hrf := RFacts_get hp h.rf
  rw [hpc] at hrf
  obtain ⟨d, hrc, hold⟩ := hrf
  obtain ⟨ds, hq⟩ := hrc.1
  have hm : c.rb.magic old = MAGIC :=
    (h.magic_iff hold (by rw [hpc]; rfl) (by rw [hpc]; rfl)).mpr (by rw [hq]; simp)
  have e : rstep c = { c with rpc := .rcSz old, rbuf := c.rbuf, lin := c.lin } := by
    unfold rstep; simp only [hp, hpc, hm, ne_eq, not_true_eq_false, if_false]
  rw [e]
  exact h.rlocal _ _ _ (by rw [hpc]; rfl) (by rw [hpc]; rfl) (fun _ _ => by rw [hpc]; rfl)
    (RFacts_of' (c := c) hp rfl ⟨d, hrc, hold⟩)

theorem r_rcSz {old} (h : CInv c q) (hp : c.rprog = op :: rest) (hpc : c.rpc = .rcSz old) : CInv (rstep c) q := by
  have e : rstep c = { c with rpc := .rcStep old, rbuf := c.rbuf, lin := c.lin } := by
    unfold rstep; simp only [hp, hpc]
  rw [e]
  have hrf := RFacts_get hp h.rf
  rw [hpc] at hrf
  exact h.rlocal _ _ _ (by rw [hpc]; rfl) (by rw [hpc]; rfl) (fun _ _ => by rw [hpc]; rfl)
    (RFacts_of' (c := c) hp rfl hrf)

theorem r_rcStep {old} (h : CInv c q) (hp : c.rprog = op :: rest) (hpc : c.rpc = .rcStep old) : CInv (rstep c) q := by
  have e : rstep c = { c with rpc := .rcClr old (c.rb.chunkStep old), rbuf := c.rbuf, lin := c.lin } := by
    unfold rstep; simp only [hp, hpc]
  rw [e]
  have hrf := RFacts_get hp h.rf
  rw [hpc] at hrf
  obtain ⟨d, hrc, hold⟩ := hrf
  obtain ⟨ds, hq⟩ := hrc.1
  exact h.rlocal _ _ _ (by rw [hpc]; rfl) (by rw [hpc]; rfl) (fun _ _ => by rw [hpc]; rfl)
    (RFacts_of' (c := c) hp rfl ⟨d, hrc, hold, chunkStep_at h.wpos hold (h.size_head hq (by rw [hpc]; rfl))⟩)

theorem pend_congr {c c' : Conf} (h1 : c'.wpc = c.wpc) (h2 : c'.rb.sem = c.rb.sem) : pend c' = pend c := by
  unfold pend; rw [h1, h2]

theorem wAdv_congr {c c' : Conf} (h1 : c'.wpc = c.wpc) (h2 : c'.rb.sem = c.rb.sem) (h3 : c'.wprog = c.wprog) :
    wAdv c' = wAdv c := by
  unfold wAdv curLen; rw [h1, h2, h3]

/-- the writer's facts carried over to a configuration with the same writer state and history -/
theorem WFacts_rb {c c' : Conf} {q q' : List (List Nat)} (h : WFacts c q) (h1 : c'.wprog = c.wprog)
    (h3 : c'.readsOk = c.readsOk) (h4 : c'.wpc = c.wpc)
    (hwf : ∀ op, WF c.rb (TR c) (TR c + total q) op c.wpc → WF c'.rb (TR c) (TR c + total q') op c.wpc) :
    WFacts c' q' := by
  unfold WFacts TR at *
  rw [h1, h3, h4]
  cases hw : c.wprog with
  | nil => rw [hw] at h; exact h
  | cons op rest => rw [hw] at h; exact hwf op h

/-- a change of memory confined to the header of the oldest chunk (stated for an arbitrary new
    memory so that no unifier ever looks inside the store) -/
theorem CInv.rstore_gen (h : CInv c q) {d ds} (hq : q = d :: ds) (m' : Array Nat) (pc' : RPc)
    (hsz : m'.size = 4 * c.rb.W)
    (hcell : ∀ a, 4 * (TR c + 2) ≤ a → a < 4 * (TR c + c.rb.W) → cell m' c.rb.W a = cell c.rb.mem c.rb.W a)
    (hnx : word c.rb.mem c.rb.W (TR c + total q + 1) ≠ MAGIC → word m' c.rb.W (TR c + total q + 1) ≠ MAGIC)
    (ht : rtok pc' = rtok c.rpc)
    (hst : HeadStored m' c.rb.W (TR c) d (rclr pc') (rdead pc'))
    (hrf : RFacts { c with rb := { c.rb with mem := m' }, rpc := pc' } q) :
    CInv { c with rb := { c.rb with mem := m' }, rpc := pc' } q := by
  have hW := h.wpos
  have h2 := cw_ge d.length
  have hu := h.used
  subst hq
  rw [total_cons] at hu
  have e := wAdv_congr (c := c) (c' := { c with rb := { c.rb with mem := m' }, rpc := pc' }) rfl rfl rfl
  have ep := pend_congr (c := c) (c' := { c with rb := { c.rb with mem := m' }, rpc := pc' }) rfl rfl
  refine ⟨hsz, h.wge, h.wlt, h.hq, h.hrp, ?_, h.used, ⟨hst, ?_⟩, ?_, ?_, ?_, hrf⟩
  · show c.rb.wp = (TR c + total (d :: ds) + wAdv { c with rb := { c.rb with mem := m' }, rpc := pc' }) % c.rb.W
    rw [e]; exact h.hwp
  · show Stored m' c.rb.W (TR c + cw d.length) ds
    exact Stored_frame hW (fun a ha hb => hcell a (by omega) (by omega)) h.stored.2
  · intro hp
    rw [ep] at hp
    exact hnx (h.next hp)
  · intro n hn; show n + rtok pc' = _; rw [ht]; exact h.semc n hn
  · refine WFacts_rb h.wf rfl rfl rfl (fun wop hw => ?_)
    show WF { c.rb with mem := m' } (TR c) (TR c + total (d :: ds)) wop c.wpc
    refine WF_frame hW (by rw [total_cons]; omega) ?_ hw
    intro a ha hb
    rw [total_cons] at ha
    exact hcell a (by omega) hb

/-- a store by the reader into the header of the oldest chunk -/
theorem CInv.rstore (h : CInv c q) {d ds} (hq : q = d :: ds) (A v : Nat) (hA : A = TR c ∨ A = TR c + 1)
    (hv : v < 2 ^ 32) (hvm : v ≠ MAGIC) (pc' : RPc) (ht : rtok pc' = rtok c.rpc)
    (hst : HeadStored (setWord c.rb.mem c.rb.W A v) c.rb.W (TR c) d (rclr pc') (rdead pc'))
    (hrf : RFacts { c with rb := { c.rb with mem := setWord c.rb.mem c.rb.W A v }, rpc := pc' } q) :
    CInv { c with rb := { c.rb with mem := setWord c.rb.mem c.rb.W A v }, rpc := pc' } q := by
  have hW := h.wpos
  have hsz : (setWord c.rb.mem c.rb.W A v).size = 4 * c.rb.W := by simp; exact h.size
  have hcell : ∀ a, 4 * (TR c + 2) ≤ a → a < 4 * (TR c + c.rb.W) →
      cell (setWord c.rb.mem c.rb.W A v) c.rb.W a = cell c.rb.mem c.rb.W a := by
    intro a ha hb
    exact cell_setWord_ne hW (by rcases hA with e | e <;> subst e <;> omega)
  have hnx : word c.rb.mem c.rb.W (TR c + total q + 1) ≠ MAGIC →
      word (setWord c.rb.mem c.rb.W A v) c.rb.W (TR c + total q + 1) ≠ MAGIC :=
    fun hn => word_ne_magic_setWord h.size hW hv hvm hn
  generalize setWord c.rb.mem c.rb.W A v = m' at *
  exact h.rstore_gen hq m' pc' hsz hcell hnx ht hst hrf

theorem r_rcClr {old new} (h : CInv c q) (hp : c.rprog = op :: rest) (hpc : c.rpc = .rcClr old new) : CInv (rstep c) q := by
  have hrf := RFacts_get hp h.rf
  rw [hpc] at hrf
  obtain ⟨d, hrc, hold, hnew⟩ := hrf
  obtain ⟨ds, hq⟩ := hrc.1
  have e : rstep c = { c with rb := { c.rb with mem := wr32 c.rb.mem old 0 }, rpc := .rcDead old new } := by
    unfold rstep; simp only [hp, hpc]
  rw [e]
  have hW := h.wpos
  have hwge := h.wge
  have hst := h.stored
  rw [hq, hpc] at hst
  obtain ⟨⟨_, hmg, hpay⟩, _⟩ := hst
  have hlo := cw_lo d.length
  have hu := h.used
  rw [hq, total_cons] at hu
  subst hold
  rw [wr32_abs]
  refine h.rstore hq _ _ (.inl rfl) (by decide) (by decide) _ (by rw [hpc]; rfl) ⟨?_, ?_, ?_⟩
    (RFacts_of' (c := c) hp rfl ⟨d, hrc, rfl, hnew⟩)
  · rw [word_setWord_eq h.size hW]; rfl
  · rw [word_setWord_ne hW (by unfold Apart; omega)]; exact hmg
  · exact Payload_frame (fun a ha hb => cell_setWord_ne hW (by omega)) hpay

theorem r_rcDead {old new} (h : CInv c q) (hp : c.rprog = op :: rest) (hpc : c.rpc = .rcDead old new) : CInv (rstep c) q := by
  have hrf := RFacts_get hp h.rf
  rw [hpc] at hrf
  obtain ⟨d, hrc, hold, hnew⟩ := hrf
  obtain ⟨ds, hq⟩ := hrc.1
  have e : rstep c = { c with rb := c.rb.setMagic old DEAD, rpc := .rcSetRp new } := by
    unfold rstep; simp only [hp, hpc]
  rw [e]
  have hW := h.wpos
  have hwge := h.wge
  have hst := h.stored
  rw [hq, hpc] at hst
  obtain ⟨⟨hsz, _, hpay⟩, _⟩ := hst
  have hlo := cw_lo d.length
  have hu := h.used
  rw [hq, total_cons] at hu
  subst hold
  rw [setMagic_abs]
  refine h.rstore hq _ _ (.inr rfl) (by decide) (by decide) _ (by rw [hpc]; rfl) ⟨?_, ?_, ?_⟩
    (RFacts_of' (c := c) hp rfl ⟨d, hrc, hnew⟩)
  · rw [word_setWord_ne hW (by unfold Apart; omega)]; exact hsz
  · rw [word_setWord_eq h.size hW]; rfl
  · exact Payload_frame (fun a ha hb => cell_setWord_ne hW (by omega)) hpay

/-- the read pointer moves past the oldest chunk: the read / reclaim takes effect -/
theorem r_rcSetRp {new} (h : CInv c q) (hp : c.rprog = op :: rest) (hpc : c.rpc = .rcSetRp new) :
    ∃ d ds, q = d :: ds ∧ c.rbuf = d ∧ CInv (rstep c) ds := by
  have hrf := RFacts_get hp h.rf
  rw [hpc] at hrf
  obtain ⟨d, hrc, hnew⟩ := hrf
  obtain ⟨⟨ds, hq⟩, hbuf, hcap⟩ := hrc
  refine ⟨d, ds, hq, hbuf, ?_⟩
  have e : rstep c = { c with rb := { c.rb with rp := new }, rpc := .idle, rprog := rest, rbuf := [], rOuts := c.rOuts ++ [.data c.rbuf], readsOk := c.readsOk ++ [c.rbuf], lin := c.lin ++ [match op with | .read cap => (.read cap, .data c.rbuf) | .pr _ => (.reclaim, .unit)] } := by
    unfold rstep Conf.rDone Conf.addLin
    cases op <;> simp only [hp, hpc, List.tail_cons]
  rw [e, hbuf]
  have hW := h.wpos
  have h2 := cw_ge d.length
  have hu := h.used
  have hwp := h.hwp
  have hst := h.stored
  rw [hq] at hst hu hwp
  rw [total_cons] at hu hwp
  have hTR : total (c.readsOk ++ [d]) = TR c + cw d.length := by rw [total_append]; rfl
  refine ⟨h.size, h.wge, h.wlt, ?_, ?_, ?_, ?_, ?_, ?_, ?_, ?_, ?_⟩
  · show c.writesOk = (c.readsOk ++ [d]) ++ ds
    rw [h.hq, hq, List.append_assoc]; rfl
  · show new = total (c.readsOk ++ [d]) % c.rb.W
    rw [hTR]; exact hnew
  · show c.rb.wp = (total (c.readsOk ++ [d]) + total ds + wAdv c) % c.rb.W
    rw [hTR, hwp]; congr 1; omega
  · show total ds + 1 ≤ c.rb.W
    omega
  · show QStored c.rb.mem c.rb.W (total (c.readsOk ++ [d])) false false ds
    rw [hTR]; exact QStored_of_stored hst.2
  · intro hpd
    show word c.rb.mem c.rb.W (total (c.readsOk ++ [d]) + total ds + 1) ≠ MAGIC
    have := h.next hpd
    rw [hq, total_cons] at this
    rw [hTR]
    have e2 : TR c + cw d.length + total ds + 1 = TR c + (cw d.length + total ds) + 1 := by omega
    rw [e2]; exact this
  · intro n hn
    have := h.semc n hn
    rw [hq, hpc] at this
    simp only [rtok, List.length_cons] at this
    show n + 0 = ds.length
    omega
  · have := h.wf
    unfold WFacts at *
    cases hw : c.wprog with
    | nil => rw [hw] at this; exact this
    | cons wop wrest =>
      rw [hw] at this
      show WF { c.rb with rp := new } (total (c.readsOk ++ [d])) (total (c.readsOk ++ [d]) + total ds) wop c.wpc
      rw [hTR]
      have e2 : TR c + cw d.length + total ds = TR c + total q := by rw [hq, total_cons]; omega
      rw [e2]
      have hm : WF c.rb (TR c + cw d.length) (TR c + total q) wop c.wpc :=
        WF_mono (by omega) (by rw [hq, total_cons]; omega) this
      cases hc : c.wpc <;> rw [hc] at hm <;> exact hm
  · unfold RFacts
    cases rest with
    | nil => rfl
    | cons o r => trivial

/-- **Every reader step preserves the invariant**; the queue stays the same or loses its
    oldest chunk, which is what the reader returns. -/
theorem rstep_inv (h : CInv c q) : CInv (rstep c) q ∨
    (∃ d ds, q = d :: ds ∧ c.rbuf = d ∧ CInv (rstep c) ds) := by
  cases hp : c.rprog with
  | nil =>
    left
    have e : rstep c = c := by unfold rstep; simp only [hp]
    rw [e]; exact h
  | cons op rest =>
    cases hpc : c.rpc with
    | idle => exact .inl (r_idle h hp hpc)
    | rdRp => exact .inl (r_rdRp h hp hpc)
    | rdMg p => exact .inl (r_rdMg h hp hpc)
    | rdBad => exact .inl (r_rdBad h hp hpc)
    | rdSz p => exact .inl (r_rdSz h hp hpc)
    | rdShort => exact .inl (r_rdShort h hp hpc)
    | rdCpy p sz => exact .inl (r_rdCpy h hp hpc)
    | pkRp => exact .inl (r_pkRp h hp hpc)
    | pkMg p => exact .inl (r_pkMg h hp hpc)
    | pkBad => exact .inl (r_pkBad h hp hpc)
    | pkSz p => exact .inl (r_pkSz h hp hpc)
    | rcopy p sz j => exact .inl (r_rcopy h hp hpc)
    | rcRp => exact .inl (r_rcRp h hp hpc)
    | rcMg old => exact .inl (r_rcMg h hp hpc)
    | rcSz old => exact .inl (r_rcSz h hp hpc)
    | rcStep old => exact .inl (r_rcStep h hp hpc)
    | rcClr old new => exact .inl (r_rcClr h hp hpc)
    | rcDead old new => exact .inl (r_rcDead h hp hpc)
    | rcSetRp new => exact .inr (r_rcSetRp h hp hpc)

end

/-- the invariant holds in every configuration reached by any schedule -/
theorem step_inv {c : Conf} (h : ∃ q, CInv c q) (t : Tid) : ∃ q, CInv (step c t) q := by
  obtain ⟨q, h⟩ := h
  cases t with
  | w =>
    rcases wstep_inv h with h' | ⟨op, rest, _, h'⟩
    · exact ⟨q, h'⟩
    · exact ⟨_, h'⟩
  | r =>
    rcases rstep_inv h with h' | ⟨d, ds, _, _, h'⟩
    · exact ⟨q, h'⟩
    · exact ⟨ds, h'⟩

theorem run_inv {c : Conf} (h : ∃ q, CInv c q) (sched : List Tid) : ∃ q, CInv (run c sched) q := by
  induction sched generalizing c with
  | nil => exact h
  | cons t ts ih => exact ih (step_inv h t)

/-- a ring in the sequential invariant (e.g. freshly opened) with two idle threads -/
theorem init_inv {rb : Rb} (h : RingLemmas.Inv rb [] 0) (hsem : ∀ n, rb.sem = some n → n = 0)
    (wprog : List WOp) (rprog : List ROp) : CInv (init rb wprog rprog) [] := by
  refine ⟨h.size, h.wge, h.wlt, rfl, ?_, ?_, ?_, trivial, ?_, ?_, ?_, ?_⟩
  · show rb.rp = 0 % rb.W; exact h.hrp
  · show rb.wp = (0 + 0 + 0) % rb.W; have := h.hwp; simpa [total] using this
  · show total [] + 1 ≤ rb.W; have := h.wge; simp only [total_nil]; omega
  · intro _; show word rb.mem rb.W (0 + 0 + 1) ≠ MAGIC; have := h.next; simpa [total] using this
  · intro n hn
    show n + 0 = 0
    have := hsem n hn; omega
  · unfold WFacts init; cases wprog <;> trivial
  · unfold RFacts init; cases rprog <;> trivial

end QbVerif.RingConcLemmas
