/-
Hashtable model: how the list of live (linked, not removed) nodes changes under each operation.
-/
import QbVerif.Lemmas.HtSim

namespace QbVerif.Hashtable
open QbVerif.Map
set_option linter.unusedSimpArgs false

/-- nodes updated in fields the abstraction does not see, and only removed nodes unlinked -/
theorem live_mf {t t' : HT} (g : Node → Node) (q : Node → Bool) (hf : t'.flat = (t.flat.map g).filter q)
    (hg : ∀ x ∈ t.flat, absNode (g x) = absNode x ∧ (g x).removed = x.removed)
    (hq : ∀ x ∈ t.flat, x.removed = false → q (g x) = true) :
    (live t').map absNode = (live t).map absNode := by
  unfold live
  rw [hf, List.filter_filter, List.filter_map, List.map_map]
  have h1 : t.flat.filter ((fun a => (!a.removed && q a)) ∘ g) = t.flat.filter fun n => !n.removed := by
    apply List.filter_congr
    intro x hx
    simp only [Function.comp, (hg x hx).2]
    cases hr : x.removed with
    | true => rfl
    | false => simp [hq x hx hr]
  rw [h1]
  apply List.map_congr_left
  intro x hx
  exact (hg x (List.mem_filter.1 hx).1).1

/-- in-place update that keeps `removed` -/
theorem live_mapNode {t : HT} (id : Nat) (f : Node → Node) (hf : ∀ x, (f x).removed = x.removed) :
    live (t.mapNode id f) = (live t).map (upd id f) := by
  unfold live
  rw [flat_mapNode, List.filter_map]
  congr 1
  apply List.filter_congr
  intro x _
  simp only [Function.comp]
  unfold upd
  split <;> simp [hf]

theorem putNew_live {t : HT} (h : Inv t) (key : Key) (v : Val) :
    (live (putNew t key v)).Perm (⟨t.nextId, key, v, 1, false, []⟩ :: live t) := by
  have hb : hash key t.order < t.buckets.length := by rw [h.len]; exact hash_lt key t.order
  have hperm : (putNew t key v).flat.Perm ((⟨t.nextId, key, v, 1, false, []⟩ : Node) :: t.flat) :=
    modify_flatten_perm _ t.buckets _ hb
  unfold live
  have := hperm.filter (fun n => !n.removed)
  simpa [List.filter_cons] using this

theorem rmResult_live {t : HT} (h : Inv t) {n : Node} (hn : n ∈ t.flat) :
    live (rmResult t n).1 = (live t).filter fun x => !(x.id == n.id) := by
  have key : ∀ (g : Node → Node) (q : Node → Bool), (rmResult t n).1.flat = (t.flat.map g).filter q →
      (∀ x ∈ t.flat, (!(g x).removed && q (g x)) = (!x.removed && !(x.id == n.id))) →
      (∀ x ∈ t.flat, ¬ x.id = n.id → g x = x) →
      live (rmResult t n).1 = (live t).filter fun x => !(x.id == n.id) := by
    intro g q hf h1 h2
    unfold live
    rw [hf, List.filter_filter, List.filter_map, List.filter_filter]
    have e1 : t.flat.filter ((fun a => (!a.removed && q a)) ∘ g) =
        t.flat.filter fun a => (!(a.id == n.id) && !a.removed) := by
      apply List.filter_congr
      intro x hx
      simp only [Function.comp]
      rw [h1 x hx, Bool.and_comm]
    rw [e1]
    conv => rhs; rw [← List.map_id (t.flat.filter _)]
    apply List.map_congr_left
    intro x hx
    have := List.mem_filter.1 hx
    exact h2 x this.1 (by have h3 := this.2; simp at h3; exact h3.1)
  have hsrem : ∀ x, (upd n.id setRem x).removed = (if x.id = n.id then true else x.removed) := by
    intro x; unfold upd; by_cases e : x.id = n.id <;> simp [e, setRem]
  by_cases hkeep : n.refcount - 1 > 0
  · have hst : (rmResult t n).1.flat = (t.flat.map fun x => upd n.id decRc (upd n.id setRem x)).filter fun _ => true := by
      simp only [rmResult, release]
      rw [if_pos (show (setRem n).refcount - 1 > 0 from hkeep)]
      show ((t.mapNode n.id setRem).mapNode n.id decRc).flat = _
      rw [flat_mapNode, flat_mapNode, List.map_map, List.filter_eq_self.2 (by intro a _; rfl)]
      rfl
    apply key _ _ hst
    · intro x _
      rw [(upd_dec_fields _ _).2.2.1, hsrem x]
      by_cases e : x.id = n.id <;> simp [e]
    · intro x _ e
      simp [upd, e]
  · have hst : (rmResult t n).1.flat = (t.flat.map (upd n.id setRem)).filter fun x => !(x.id == n.id) := by
      simp only [rmResult, release]
      rw [if_neg (show ¬ (setRem n).refcount - 1 > 0 from hkeep)]
      show ((t.mapNode n.id setRem).buckets.map
        fun (l : List Node) => l.filter fun (x : Node) => !(x.id == n.id)).flatten = _
      rw [flatten_map_filter]
      show (t.mapNode n.id setRem).flat.filter _ = _
      rw [flat_mapNode]
    apply key _ _ hst
    · intro x _
      have : (upd n.id setRem x).id = x.id := by unfold upd; split <;> rfl
      rw [hsrem x, this]
      by_cases e : x.id = n.id <;> simp [e]
    · intro x _ e
      simp [upd, e]

theorem rmResult_misc (t : HT) (n : Node) : (rmResult t n).1.globals = t.globals ∧ (rmResult t n).1.iters = t.iters := by
  unfold rmResult release
  split <;> exact ⟨rfl, rfl⟩

/-- a node whose last reference an iterator drops had been removed -/
theorem Inv.last_ref_removed {t : HT} (h : Inv t) {np : Node} (hnp : np ∈ t.flat)
    (hpk : 0 < parked t.iters np.id) (hlast : ¬ np.refcount - 1 > 0) : np.removed = true := by
  have h1 := h.rc np hnp
  cases hr : np.removed with
  | true => rfl
  | false => unfold base at h1; simp [hr] at h1; omega

theorem release_globals (t : HT) (n : Node) : (release t n).1.globals = t.globals := by
  unfold release; split <;> rfl

theorem moveState_misc (t : HT) (inc dec : Option Node) (its' : List (Nat × Iter)) :
    (moveState t inc dec its').1.globals = t.globals ∧ (moveState t inc dec its').1.iters = its' := by
  refine ⟨?_, rfl⟩
  cases inc <;> cases dec
  · rfl
  · exact release_globals _ _
  · rfl
  · exact release_globals _ _

/-- the reference moves of an iterator operation do not change the entries -/
theorem moveState_live {t : HT} (h : Inv t) (inc dec : Option Node) (its' : List (Nat × Iter))
    (hdec : ∀ np, dec = some np → np ∈ t.flat ∧ 0 < parked t.iters np.id ∧ ∀ n, inc = some n → n.id ≠ np.id) :
    (live (moveState t inc dec its').1).map absNode = (live t).map absNode := by
  have hincabs : ∀ x, absNode (incG inc x) = absNode x ∧ (incG inc x).removed = x.removed := by
    intro x
    cases inc with
    | none => exact ⟨rfl, rfl⟩
    | some n => by_cases e : x.id = n.id <;> simp [incG, upd, e, absNode, incRc]
  have hdecabs : ∀ i x, absNode (upd i decRc x) = absNode x ∧ (upd i decRc x).removed = x.removed := by
    intro i x; by_cases e : x.id = i <;> simp [upd, e, absNode, decRc]
  have hflat1 : (match inc with | some n => t.mapNode n.id incRc | none => t).flat = t.flat.map (incG inc) := by
    cases inc with
    | none => show t.flat = t.flat.map (fun x => x); simp
    | some n => exact flat_mapNode t n.id incRc
  have hft : ∀ l : List Node, l.filter (fun _ => true) = l := fun l =>
    List.filter_eq_self.2 (by intro a _; rfl)
  cases dec with
  | none =>
    apply live_mf (incG inc) (fun _ => true)
    · show (match inc with | some n => t.mapNode n.id incRc | none => t).flat = _
      rw [hflat1, hft]
    · intro x _; exact hincabs x
    · intro x _ _; rfl
  | some np =>
    obtain ⟨hnp, hpk, hne⟩ := hdec np rfl
    by_cases hkeep : np.refcount - 1 > 0
    · apply live_mf (fun x => upd np.id decRc (incG inc x)) (fun _ => true)
      · simp only [moveState, release, if_pos hkeep]
        show ((match inc with | some n => t.mapNode n.id incRc | none => t).mapNode np.id decRc).flat = _
        rw [flat_mapNode, hflat1, List.map_map, hft]; rfl
      · intro x _
        exact ⟨(hdecabs _ _).1.trans (hincabs x).1, (hdecabs _ _).2.trans (hincabs x).2⟩
      · intro x _ _; rfl
    · have hrem := h.last_ref_removed hnp hpk hkeep
      apply live_mf (incG inc) (fun x => !(x.id == np.id))
      · simp only [moveState, release, if_neg hkeep]
        show ((match inc with | some n => t.mapNode n.id incRc | none => t).buckets.map
          fun (l : List Node) => l.filter fun (x : Node) => !(x.id == np.id)).flatten = _
        rw [flatten_map_filter]
        show (match inc with | some n => t.mapNode n.id incRc | none => t).flat.filter _ = _
        rw [hflat1]
      · intro x _; exact hincabs x
      · intro x hx hr
        have hid : (incG inc x).id = x.id := (incG_fields inc x).1
        rw [hid]
        have : ¬ x.id = np.id := by
          intro e
          have := h.inj hx hnp e
          subst this
          rw [hrem] at hr; cases hr
        simp [this]

end QbVerif.Hashtable
