/-
C01 — every writer step preserves the invariant `CInv` (one lemma per program counter).
-/
import QbVerif.Lemmas.RingConcFrame

namespace QbVerif.RingConcLemmas
open QbVerif.Ring QbVerif.RingSpec QbVerif.RingLemmas QbVerif.RingConc

theorem WFacts_of {c : Conf} {q op rest} (hp : c.wprog = op :: rest)
    (h : WF c.rb (TR c) (TR c + total q) op c.wpc) : WFacts c q := by
  unfold WFacts; rw [hp]; exact h

/-- the same for an updated configuration, stated with the old ghost counters (so that `omega`
    sees the same atoms) -/
theorem WFacts_of' {c c' : Conf} {q op rest} (hp : c'.wprog = op :: rest) (hr : c'.readsOk = c.readsOk)
    (h : WF c'.rb (TR c) (TR c + total q) op c'.wpc) : WFacts c' q := by
  unfold WFacts; rw [hp]; unfold TR at *; rw [hr]; exact h

theorem WFacts_get {c : Conf} {q op rest} (hp : c.wprog = op :: rest) (h : WFacts c q) :
    WF c.rb (TR c) (TR c + total q) op c.wpc := by
  unfold WFacts at h; rw [hp] at h; exact h

theorem RFacts_of {c : Conf} {q op rest} (hp : c.rprog = op :: rest)
    (h : RF c.rb.W (TR c) q c.rb.sem c.rbuf op c.rpc) : RFacts c q := by
  unfold RFacts; rw [hp]; exact h

theorem RFacts_get {c : Conf} {q op rest} (hp : c.rprog = op :: rest) (h : RFacts c q) :
    RF c.rb.W (TR c) q c.rb.sem c.rbuf op c.rpc := by
  unfold RFacts at h; rw [hp] at h; exact h

/-- the reader's facts do not mention memory, `write_pt`, or the writer's state -/
theorem RFacts_congr {c c' : Conf} {q} (h : RFacts c q) (h1 : c'.rprog = c.rprog) (h2 : c'.rb.W = c.rb.W)
    (h3 : c'.readsOk = c.readsOk) (h4 : c'.rb.sem = c.rb.sem) (h5 : c'.rbuf = c.rbuf) (h6 : c'.rpc = c.rpc) :
    RFacts c' q := by
  unfold RFacts TR at *; rw [h1, h2, h3, h4, h5, h6]; exact h

theorem RFacts_append {c c' : Conf} {q} (d : List Nat) (h : RFacts c q) (h1 : c'.rprog = c.rprog)
    (h2 : c'.rb.W = c.rb.W) (h3 : c'.readsOk = c.readsOk) (h4 : c.rb.sem = none → c'.rb.sem = none)
    (h5 : c'.rbuf = c.rbuf) (h6 : c'.rpc = c.rpc) : RFacts c' (q ++ [d]) := by
  unfold RFacts TR at *; rw [h1, h2, h3, h5, h6]
  cases hr : c.rprog with
  | nil => rw [hr] at h; exact h
  | cons op rest => rw [hr] at h; exact RF_sem h4 (RF_append d h)

section
variable {c : Conf} {q : List (List Nat)} {op : WOp} {rest : List WOp}

/-- a step that only moves the writer's program counter (and the ghost history) -/
theorem CInv.wlocal (h : CInv c q) (pc' : WPc) (lin' : List (Op × Out))
    (hadv : wAdv { c with wpc := pc', lin := lin' } = wAdv c)
    (hpend : pend { c with wpc := pc', lin := lin' } = pend c)
    (hwf : WFacts { c with wpc := pc', lin := lin' } q) : CInv { c with wpc := pc', lin := lin' } q :=
  ⟨h.size, h.wge, h.wlt, h.hq, h.hrp, by rw [hadv]; exact h.hwp, h.used, h.stored,
    by rw [hpend]; exact h.next, h.semc, hwf, h.rf⟩

/-- the call in progress returns -/
theorem CInv.wdone (h : CInv c q) (o : Out) (hadv : wAdv c = 0) (hpend : pend c = false) : CInv (c.wDone o) q := by
  refine ⟨h.size, h.wge, h.wlt, h.hq, h.hrp, ?_, h.used, h.stored, ?_, h.semc, ?_, h.rf⟩
  · have := h.hwp; rw [hadv] at this; exact this
  · intro _; exact h.next hpend
  · unfold WFacts Conf.wDone
    cases c.wprog.tail with
    | nil => rfl
    | cons op' r' => trivial

/-- a store by the writer into its own region -/
theorem CInv.wstore (h : CInv c q) (m' : Array Nat) (pc' : WPc) (hsz : m'.size = c.rb.mem.size)
    (hfr : ∀ a, 4 * TR c ≤ a → a < 4 * (TR c + total q) → cell m' c.rb.W a = cell c.rb.mem c.rb.W a)
    (hadv : wAdv { c with rb := { c.rb with mem := m' }, wpc := pc' } = wAdv c)
    (hnext : pend { c with rb := { c.rb with mem := m' }, wpc := pc' } = false →
      word m' c.rb.W (TR c + total q + 1) ≠ MAGIC)
    (hwf : WFacts { c with rb := { c.rb with mem := m' }, wpc := pc' } q) :
    CInv { c with rb := { c.rb with mem := m' }, wpc := pc' } q :=
  ⟨by show m'.size = _; rw [hsz]; exact h.size, h.wge, h.wlt, h.hq, h.hrp, by rw [hadv]; exact h.hwp, h.used,
    QStored_frame h.wpos hfr h.stored, hnext, h.semc, hwf, h.rf⟩

/-! #### qb_rb_space_free -/

theorem w_idle (h : CInv c q) (hp : c.wprog = op :: rest) (hpc : c.wpc = .idle) :
    CInv (wstep c) q := by
  have e : wstep c = { c with wpc := .sfRd c.rb.wp, lin := c.lin } := by unfold wstep; simp only [hp, hpc]
  rw [e]
  have hw := h.hwp
  have h0 : wAdv c = 0 := by unfold wAdv; rw [hpc]
  have hp0 : pend c = false := by unfold pend; rw [hpc]
  refine h.wlocal _ _ (by rw [h0]; rfl) (by rw [hp0]; rfl) (WFacts_of hp ?_)
  show c.rb.wp = _
  rw [hw, h0]; rfl

theorem w_sfRd {ws} (h : CInv c q) (hp : c.wprog = op :: rest) (hpc : c.wpc = .sfRd ws) :
    CInv (wstep c) q := by
  have e : wstep c = { c with wpc := .sfCmp ws c.rb.rp (decide (freeSeen c.rb ws c.rb.rp < op.data.length + MARGIN)), lin := (if decide (freeSeen c.rb ws c.rb.rp < op.data.length + MARGIN) = true then c.lin ++ [(.write op.data, .err .eagain)] else c.lin) } := by
    unfold wstep; simp only [hp, hpc]
    split <;> simp only [Conf.addLin, hp]
  rw [e]
  have hwf := WFacts_get hp h.wf
  rw [hpc] at hwf
  have h0 : wAdv c = 0 := by unfold wAdv; rw [hpc]
  have hp0 : pend c = false := by unfold pend; rw [hpc]
  have hu := h.used
  refine h.wlocal _ _ (by rw [h0]; rfl) (by rw [hp0]; rfl) (WFacts_of hp ?_)
  show WF c.rb (TR c) (TR c + total q) op (.sfCmp ws c.rb.rp _)
  exact ⟨hwf, ⟨TR c, Nat.le_refl _, h.hrp, by omega⟩, rfl⟩

theorem w_sfCmp {ws rs b} (h : CInv c q) (hp : c.wprog = op :: rest) (hpc : c.wpc = .sfCmp ws rs b) :
    CInv (wstep c) q := by
  have e : wstep c = if freeSeen c.rb ws rs < op.data.length + MARGIN then c.wDone (.err .eagain)
      else { c with wpc := .alWp, lin := c.lin } := by unfold wstep; simp only [hp, hpc]
  rw [e]
  have hwf := WFacts_get hp h.wf
  rw [hpc] at hwf
  obtain ⟨h1, ⟨TRs, h2, h3, h4⟩, _⟩ := hwf
  have h0 : wAdv c = 0 := by unfold wAdv; rw [hpc]
  have hp0 : pend c = false := by unfold pend; rw [hpc]
  split
  · exact h.wdone _ h0 hp0
  · rename_i hfree
    refine h.wlocal _ _ (by rw [h0]; rfl) (by rw [hp0]; rfl) (WFacts_of hp ?_)
    rw [h1, h3] at hfree
    show Fits c.rb.W (TR c) (TR c + total q) (cw op.data.length)
    exact fits_of_free h.wpos h2 (by omega) h4 hfree

/-! #### qb_rb_chunk_alloc -/

theorem w_alWp (h : CInv c q) (hp : c.wprog = op :: rest) (hpc : c.wpc = .alWp) :
    CInv (wstep c) q := by
  have e : wstep c = { c with wpc := .alSz c.rb.wp, lin := c.lin } := by unfold wstep; simp only [hp, hpc]
  rw [e]
  have hwf := WFacts_get hp h.wf
  rw [hpc] at hwf
  have h0 : wAdv c = 0 := by unfold wAdv; rw [hpc]
  have hp0 : pend c = false := by unfold pend; rw [hpc]
  refine h.wlocal _ _ (by rw [h0]; rfl) (by rw [hp0]; rfl) (WFacts_of hp ?_)
  refine ⟨?_, hwf⟩
  show c.rb.wp = _
  rw [h.hwp, h0]; rfl

theorem w_alSz {wp} (h : CInv c q) (hp : c.wprog = op :: rest) (hpc : c.wpc = .alSz wp) :
    CInv (wstep c) q := by
  have e : wstep c = { c with rb := { c.rb with mem := wr32 c.rb.mem wp 0 }, wpc := .alMg wp } := by
    unfold wstep; simp only [hp, hpc]
  rw [e]
  have hwf := WFacts_get hp h.wf
  rw [hpc] at hwf
  obtain ⟨h1, hf⟩ := hwf
  have h0 : wAdv c = 0 := by unfold wAdv; rw [hpc]
  have hp0 : pend c = false := by unfold pend; rw [hpc]
  have hW := h.wpos
  have hfl := fits_le hf
  have h2 := cw_ge op.data.length
  subst h1
  rw [wr32_abs]
  refine h.wstore _ _ (by simp) ?_ (by rw [h0]; rfl) ?_ (WFacts_of hp ?_)
  · intro a ha hb; exact cell_setWord_ne hW (by omega)
  · intro _; exact word_ne_magic_setWord h.size hW (by decide) (by decide) (h.next hp0)
  · exact ⟨rfl, hf⟩

theorem w_alMg {wp} (h : CInv c q) (hp : c.wprog = op :: rest) (hpc : c.wpc = .alMg wp) :
    CInv (wstep c) q := by
  have e : wstep c = { c with rb := c.rb.setMagic wp ALLOC, wpc := .copy wp 0 } := by
    unfold wstep; simp only [hp, hpc]
  rw [e]
  have hwf := WFacts_get hp h.wf
  rw [hpc] at hwf
  obtain ⟨h1, hf⟩ := hwf
  have h0 : wAdv c = 0 := by unfold wAdv; rw [hpc]
  have hp0 : pend c = false := by unfold pend; rw [hpc]
  have hW := h.wpos
  have hfl := fits_le hf
  have h2 := cw_ge op.data.length
  subst h1
  rw [setMagic_abs]
  refine h.wstore _ _ (by simp) ?_ (by rw [h0]; rfl) ?_ (WFacts_of hp ?_)
  · intro a ha hb; exact cell_setWord_ne hW (by omega)
  · intro _; exact word_ne_magic_setWord h.size hW (by decide) (by decide) (h.next hp0)
  · exact ⟨rfl, hf, Nat.zero_le _, fun _ => rfl, fun i hi => by omega⟩

end
end QbVerif.RingConcLemmas
