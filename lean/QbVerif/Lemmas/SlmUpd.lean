/-
Skiplist: operations that rewrite one node in place — `skiplist_put` on a
present key (replace), `skiplist_notify_add/_del`, and the lookups `skiplist_get`.
-/
import QbVerif.Lemmas.SlmPut

namespace QbVerif.Skiplist
open QbVerif.Map
set_option linter.unusedSimpArgs false

theorem insertEntry_length_hit {e e' : Entry} {i : NodeId} (hk : e.key = e'.key) : ∀ {ids : List NodeId} {es : List Entry},
    succOf e'.key ids es = some (i, e) → (insertEntry e' es).length = es.length
  | [], _, h => by simp [succOf] at h
  | _ :: _, [], h => by simp [succOf] at h
  | i0 :: ids, e0 :: es, h => by
    rw [insertEntry_walk]
    simp only [succOf] at h
    split at h
    · next hlt => simp [hlt, insertEntry_length_hit hk h]
    · next hlt => cases h; simp [hlt, hk, Key.lt_irrefl]

/-- what the search finds when the dictionary holds the key -/
theorem hit_of_find {s ids es g} (h : Inv s ids es g) {k : Key} {e : Entry} (hf : findEntry es k = some e) :
    ∃ i, succOf k ids es = some (i, e) ∧ e.key = k ∧ i ∈ ids ∧ NodeOk s i e := by
  have hw := findEntry_walk k h.chain.length_eq h.sorted
  rw [hf] at hw
  cases hso : succOf k ids es with
  | none => simp [hso] at hw
  | some ie =>
    obtain ⟨i, e0⟩ := ie
    simp only [hso] at hw
    by_cases hk : e0.key = k
    · simp only [hk, if_true, Option.some.injEq] at hw
      subst hw
      have hm := succOf_mem hso
      refine ⟨i, rfl, hk, hm.1, ?_⟩
      -- the node at the position the walk stops is the node of that entry
      have : ∀ {x ids es}, Chain s x ids es → succOf k ids es = some (i, e) → NodeOk s i e := by
        intro x ids es hc
        induction es generalizing x ids with
        | nil => cases ids <;> simp [succOf]
        | cons e1 es ih =>
          cases ids with
          | nil => simp [succOf]
          | cons i1 ids =>
            simp only [succOf]
            split
            · exact ih hc.2.2
            · intro h; cases h; exact hc.2.1
      exact this h.chain hso
    · simp [hk] at hw

/-- the search for a present key returns its node -/
theorem search_hit {s ids es g} (h : Inv s ids es g) {k : Key} {e : Entry} (hf : findEntry es k = some e) :
    ∃ i, s.search k true s.fuel s.header s.lv (fun _ => s.header) = .ok (.inl i) ∧ succOf k ids es = some (i, e) ∧
      e.key = k ∧ i ∈ ids ∧ NodeOk s i e := by
  obtain ⟨ch, hL, htop, _⟩ := h.hl
  obtain ⟨i, hso, hk, hi, hn⟩ := hit_of_find h hf
  rcases search_top h hL htop k true with ⟨_, i', e', hso', _, hs⟩ | ⟨u', _, _, hno⟩
  · rw [hso] at hso'
    cases hso'
    exact ⟨i, hs, hso, hk, hi, hn⟩
  · rw [hno rfl] at hf; cases hf

/-- `skiplist_lookup` agrees with the dictionary -/
theorem lookup_eq {s ids es g} (h : Inv s ids es g) (k : Key) :
    (∀ e, findEntry es k = some e → ∃ i, s.lookup k = .ok (some i) ∧ succOf k ids es = some (i, e) ∧ e.key = k ∧
      i ∈ ids ∧ NodeOk s i e) ∧
    (findEntry es k = none → s.lookup k = .ok none) := by
  constructor
  · intro e hf
    obtain ⟨i, hs, hso, hk, hi, hn⟩ := search_hit h hf
    refine ⟨i, ?_, hso, hk, hi, hn⟩
    simp [SL.lookup, hs, bind, Except.bind]
  · intro hf
    obtain ⟨ch, hL, htop, _⟩ := h.hl
    rcases search_top h hL htop k true with ⟨_, i', e', hso', hke, _⟩ | ⟨u', hs, _, _⟩
    · exfalso
      have hw := findEntry_walk k h.chain.length_eq h.sorted
      rw [hf, hso'] at hw
      simp [hke] at hw
    · simp [SL.lookup, hs, bind, Except.bind]

theorem get_eq {s ids es g} (h : Inv s ids es g) (k : Key) : s.get k = .ok ((findEntry es k).map (·.val)) := by
  cases hf : findEntry es k with
  | none => simp [SL.get, (lookup_eq h k).2 hf, bind, Except.bind]
  | some e =>
    obtain ⟨i, hl, _, _, _, ⟨lv, rc, f, a, _, _, _, hn, _⟩⟩ := (lookup_eq h k).1 e hf
    simp [SL.get, hl, SL.node, hn, bind, Except.bind]

/-- rewriting the node of a present entry in place -/
theorem update_node {s ids es g} (h : Inv s ids es g) {k : Key} {e : Entry} {i : NodeId} {f : FwdId} {rc lv : Nat}
    (hso : succOf k ids es = some (i, e)) (hk : e.key = k) (hi : i ∈ ids) (hrc1 : 1 ≤ rc) (hlv1 : 1 ≤ lv)
    (hlv2 : lv ≤ LEVEL_MAX + 1)
    (hn : s.nodes i = some ⟨some e.key, e.val, lv, rc, f, e.notifs⟩) (v : Val) (ns : List Notifier) :
    Inv (s.setNode i ⟨some k, v, lv, rc, f, ns⟩) ids (insertEntry ⟨k, v, ns⟩ es) g := by
  obtain ⟨hf, ha, hv, hrc, hh1, hh2⟩ := h.hdr
  have hhi : s.header ≠ i := fun he => (List.nodup_cons.1 h.nodup).1 (he ▸ hi)
  have hnodes : ∀ j, j ≠ i → (s.setNode i ⟨some k, v, lv, rc, f, ns⟩).nodes j = s.nodes j := by
    intro j hj; simp [SL.setNode, upd, hj]
  have hfw : ∀ j, fwdOf (s.setNode i ⟨some k, v, lv, rc, f, ns⟩) j = fwdOf s j := by
    intro j
    by_cases hj : j = i
    · subst hj; simp [fwdOf, SL.setNode, upd, hn]
    · simp only [fwdOf, hnodes j hj]
  have hnext : ∀ j, next0 (s.setNode i ⟨some k, v, lv, rc, f, ns⟩) j = next0 s j := by
    intro j
    by_cases hj : j = i
    · subst hj; simp [next0, SL.setNode, upd, hn]
    · exact next0_eq (hnodes j hj) rfl
  have hem : e ∈ es := (succOf_mem hso).2.1
  have hnL : ∀ l j, nextL (s.setNode i ⟨some k, v, lv, rc, f, ns⟩) l j = nextL s l j := by
    intro l j
    by_cases hj : j = i
    · subst hj; simp [nextL, SL.setNode, upd, hn]
    · simp only [nextL, hnodes j hj]; rfl
  have hlvO : ∀ j, lvOf (s.setNode i ⟨some k, v, lv, rc, f, ns⟩) j = lvOf s j := by
    intro j
    by_cases hj : j = i
    · subst hj; simp [lvOf, SL.setNode, upd, hn]
    · simp only [lvOf, hnodes j hj]
  obtain ⟨hab, hhl⟩ := h.levels_transfer hnL hlvO hfw rfl rfl rfl
  refine ⟨⟨hf, ha, hv, hrc, by rw [← hh1]; exact hnodes _ hhi, hh2⟩, ?_, h.nodup, ?_, h.freshN, ?_,
    insertEntry_sorted _ h.sorted, h.lv, ?_, ?_, h.pos, h.ikeys, h.ok, hab, hhl⟩
  · show Chain _ s.header ids _
    have hso' : succOf (⟨k, v, ns⟩ : Entry).key ids es = some (i, e) := hso
    refine chain_update (e' := ⟨k, v, ns⟩) hnext ?_ ?_ hk h.chain hso' (List.nodup_cons.1 h.nodup).2
    · intro j hj e0 hok
      exact hok.frame (hnodes j hj) (by obtain ⟨_, rc0, f0, a0, _, _, _, h1, h2⟩ := hok; simp [fwdOf, h1, SL.setNode, h2])
    · obtain ⟨e1, _, ⟨_, rc1, f1, a1, _, _, _, h1, h2⟩⟩ := h.chain.key_of_mem hi
      rw [hn] at h1
      have : f = f1 := by injection h1 with h1; injection h1
      exact ⟨lv, rc, f, a1, hrc1, hlv1, hlv2, by simp [SL.setNode, upd], by rw [this]; exact h2⟩
  · intro a ha' b hb hab
    rw [hfw, hfw] at hab
    exact h.inj a ha' b hb hab
  · intro j hj; rw [hfw]; exact h.freshF j hj
  · show s.length = _
    rw [insertEntry_length_hit (e' := ⟨k, v, ns⟩) hk hso, h.len]
  · intro j hj
    show rcOf _ j = 1 + parked s.iters j
    rw [← h.rc j hj]
    by_cases hji : j = i
    · subst hji; simp [rcOf, SL.setNode, upd, hn]
    · simp only [rcOf, hnodes j hji]

theorem put_replace {s ids es g} (h : Inv s ids es g) (k : Key) (v : Val) (rnd : Nat) {e : Entry} (hf : findEntry es k = some e) :
    ∃ s', s.put k v rnd = .ok (s', dispatch e.notifs g EV_REPLACED k e.val v) ∧
      Inv s' ids (insertEntry { e with val := v } es) g ∧ s'.iters = s.iters ∧ (∀ j, keyOf s' j = keyOf s j) := by
  obtain ⟨i, hs, hso, hk, hi, ⟨lv, rc, f, a, hrc1, hlv1, hlv2, hn, ha⟩⟩ := search_hit h hf
  obtain ⟨hf', ha', hv, hrc, hh1, hh2⟩ := h.hdr
  have hhi : s.header ≠ i := fun he => (List.nodup_cons.1 h.nodup).1 (he ▸ hi)
  refine ⟨s.setNode i ⟨some k, v, lv, rc, f, e.notifs⟩, ?_, ?_, rfl, ?_⟩
  rotate_left 2
  · intro j
    by_cases hj : j = i
    · subst hj; simp [keyOf, SL.setNode, upd, hn, hk]
    · simp [keyOf, SL.setNode, upd, hj]
  · simp [SL.put, hs, bind, Except.bind, SL.node, hn, SL.notify, SL.setNode, upd, hhi, hh1, hk]
  · have := update_node h hso hk hi hrc1 hlv1 hlv2 hn v e.notifs
    cases e
    simp only at hk
    subst hk
    exact this

end QbVerif.Skiplist
