/-
Skiplist: `skiplist_notify_add` / `skiplist_notify_del` against the
dictionary (global list = the header's list; per-key lists live on the entry nodes).
-/
import QbVerif.Lemmas.SlmUpd

namespace QbVerif.Skiplist
open QbVerif.Map
set_option linter.unusedSimpArgs false

/-- rewriting the header's notifier list -/
theorem update_header {s ids es g} (h : Inv s ids es g) {hn : Node} (hh : s.nodes s.header = some hn) (l : List Notifier) :
    Inv (s.setNode s.header { hn with notifs := l }) ids es l := by
  obtain ⟨hf, ha, hv, hrc, hh1, hh2⟩ := h.hdr
  rw [hh] at hh1
  have hne : hn = ⟨none, hv, LEVEL_MAX + 1, hrc, hf, g⟩ := Option.some.inj hh1
  subst hne
  have hnodes : ∀ j, j ≠ s.header → (s.setNode s.header ⟨none, hv, LEVEL_MAX + 1, hrc, hf, l⟩).nodes j = s.nodes j := by
    intro j hj; simp [SL.setNode, upd, hj]
  have hfw : ∀ j, fwdOf (s.setNode s.header ⟨none, hv, LEVEL_MAX + 1, hrc, hf, l⟩) j = fwdOf s j := by
    intro j
    by_cases hj : j = s.header
    · subst hj; simp [fwdOf, SL.setNode, upd, hh]
    · simp only [fwdOf, hnodes j hj]
  have hnext : ∀ j, next0 (s.setNode s.header ⟨none, hv, LEVEL_MAX + 1, hrc, hf, l⟩) j = next0 s j := by
    intro j
    by_cases hj : j = s.header
    · subst hj; simp [next0, SL.setNode, upd, hh]
    · exact next0_eq (hnodes j hj) rfl
  have hnL : ∀ l' j, nextL (s.setNode s.header ⟨none, hv, LEVEL_MAX + 1, hrc, hf, l⟩) l' j = nextL s l' j := by
    intro l' j
    by_cases hj : j = s.header
    · subst hj; simp [nextL, SL.setNode, upd, hh]
    · simp only [nextL, hnodes j hj]; rfl
  have hlvO : ∀ j, lvOf (s.setNode s.header ⟨none, hv, LEVEL_MAX + 1, hrc, hf, l⟩) j = lvOf s j := by
    intro j
    by_cases hj : j = s.header
    · subst hj; simp [lvOf, SL.setNode, upd, hh]
    · simp only [lvOf, hnodes j hj]
  obtain ⟨hab, hhl⟩ := h.levels_transfer hnL hlvO hfw rfl rfl rfl
  refine ⟨⟨hf, ha, hv, hrc, by simp [SL.setNode, upd], hh2⟩, ?_, h.nodup, ?_, h.freshN, ?_, h.sorted, h.lv, h.len, ?_, h.pos,
    h.ikeys, h.ok, hab, hhl⟩
  · show Chain _ s.header ids es
    refine Chain.frame2 h.chain (fun j _ => hnext j) ?_
    intro j hj e hok
    have hjh : j ≠ s.header := fun he => (List.nodup_cons.1 h.nodup).1 (he ▸ hj)
    exact hok.frame (hnodes j hjh) (by obtain ⟨_, rc0, f0, a0, _, _, _, h1, h2⟩ := hok; simp [fwdOf, h1, SL.setNode, h2])
  · intro a ha' b hb hab
    rw [hfw, hfw] at hab
    exact h.inj a ha' b hb hab
  · intro j hj; rw [hfw]; exact h.freshF j hj
  · intro j hj
    show rcOf _ j = 1 + parked s.iters j
    rw [← h.rc j hj]
    by_cases hjh : j = s.header
    · subst hjh; simp [rcOf, SL.setNode, upd, hh]
    · simp only [rcOf, hnodes j hjh]

/-- the outcome of `nadd` in the dictionary (entry-attached flavour), as a function of the lists -/
def naddSpec (es : List Entry) (g : List Notifier) (key : Option Key) (events id : Nat) :
    List Entry × List Notifier × Option Err :=
  match key with
  | none =>
    match notifierAdd g events id with
    | some l => (es, l, none)
    | none => (es, g, some .eexist)
  | some k =>
    if events &&& EV_FREE != 0 then (es, g, some .einval) else
    match findEntry es k with
    | none => (es, g, some .enoent)
    | some e =>
      match notifierAdd e.notifs events id with
      | some l => (insertEntry { e with notifs := l } es, g, none)
      | none => (es, g, some .eexist)

def ndelSpec (es : List Entry) (g : List Notifier) (key : Option Key) (events : Nat) (id : Option Nat) :
    List Entry × List Notifier × Option Err :=
  match key with
  | none =>
    match notifierDel g events id with
    | some l => (es, l, none)
    | none => (es, g, some .enoent)
  | some k =>
    match findEntry es k with
    | none => (es, g, some .enoent)
    | some e =>
      match notifierDel e.notifs events id with
      | some l => (insertEntry { e with notifs := l } es, g, none)
      | none => (es, g, some .enoent)

theorem nadd_eq {s ids es g} (h : Inv s ids es g) (key : Option Key) (events id : Nat) :
    ∃ s' rc, s.notifyAdd key events id = .ok (s', rc) ∧
      Inv s' ids (naddSpec es g key events id).1 (naddSpec es g key events id).2.1 ∧
      rc.isSome = (naddSpec es g key events id).2.2.isSome ∧ s'.iters = s.iters ∧ (∀ j, keyOf s' j = keyOf s j) := by
  obtain ⟨hf, ha, hv, hrc, hh1, hh2⟩ := h.hdr
  cases key with
  | none =>
    cases hna : notifierAdd g events id with
    | none =>
      refine ⟨s, some .eexist, ?_, by simpa [naddSpec, hna] using h, by simp [naddSpec, hna], rfl, fun _ => rfl⟩
      simp [SL.notifyAdd, SL.node, hh1, hna, bind, Except.bind]
    | some l =>
      refine ⟨s.setNode s.header ⟨none, hv, LEVEL_MAX + 1, hrc, hf, l⟩, none, ?_, by simpa [naddSpec, hna] using update_header h hh1 l, by simp [naddSpec, hna], rfl, fun j => by by_cases hj : j = s.header <;> simp [keyOf, SL.setNode, upd, hj, hh1]⟩
      simp [SL.notifyAdd, SL.node, hh1, hna, bind, Except.bind]
  | some k =>
    by_cases hfree : (events &&& EV_FREE != 0) = true
    · refine ⟨s, some .einval, ?_, by simpa [naddSpec, hfree] using h, by simp [naddSpec, hfree]⟩
      simp [SL.notifyAdd, hfree]
    · have hfree' : (events &&& EV_FREE != 0) = false := by simpa using hfree
      cases hfe : findEntry es k with
      | none =>
        refine ⟨s, some .einval, ?_, by simpa [naddSpec, hfree', hfe] using h, by simp [naddSpec, hfree', hfe], rfl, fun _ => rfl⟩
        simp [SL.notifyAdd, hfree', (lookup_eq h k).2 hfe, bind, Except.bind]
      | some e =>
        obtain ⟨i, hl, hso, hk, hi, ⟨lv, rc, f, a, hrc1, hlv1, hlv2, hn, _⟩⟩ := (lookup_eq h k).1 e hfe
        cases hna : notifierAdd e.notifs events id with
        | none =>
          refine ⟨s, some .eexist, ?_, by simpa [naddSpec, hfree', hfe, hna] using h, by simp [naddSpec, hfree', hfe, hna], rfl, fun _ => rfl⟩
          simp [SL.notifyAdd, hfree', hl, SL.node, hn, hna, bind, Except.bind]
        | some l =>
          have := update_node h hso hk hi hrc1 hlv1 hlv2 hn e.val l
          refine ⟨s.setNode i ⟨some k, e.val, lv, rc, f, l⟩, none, ?_, ?_, by simp [naddSpec, hfree', hfe, hna], rfl, fun j => by by_cases hj : j = i <;> simp [keyOf, SL.setNode, upd, hj, hn, hk]⟩
          · simp [SL.notifyAdd, hfree', hl, SL.node, hn, hna, bind, Except.bind, hk]
          · cases e
            simp only at hk
            subst hk
            simpa [naddSpec, hfree', hfe, hna] using this

theorem ndel_eq {s ids es g} (h : Inv s ids es g) (key : Option Key) (events : Nat) (id : Option Nat) :
    ∃ s' rc, s.notifyDel key events id = .ok (s', rc) ∧
      Inv s' ids (ndelSpec es g key events id).1 (ndelSpec es g key events id).2.1 ∧
      rc.isSome = (ndelSpec es g key events id).2.2.isSome ∧ s'.iters = s.iters ∧ (∀ j, keyOf s' j = keyOf s j) := by
  obtain ⟨hf, ha, hv, hrc, hh1, hh2⟩ := h.hdr
  cases key with
  | none =>
    cases hna : notifierDel g events id with
    | none =>
      refine ⟨s, some .enoent, ?_, by simpa [ndelSpec, hna] using h, by simp [ndelSpec, hna], rfl, fun _ => rfl⟩
      simp [SL.notifyDel, SL.node, hh1, hna, bind, Except.bind]
    | some l =>
      refine ⟨s.setNode s.header ⟨none, hv, LEVEL_MAX + 1, hrc, hf, l⟩, none, ?_, by simpa [ndelSpec, hna] using update_header h hh1 l, by simp [ndelSpec, hna], rfl, fun j => by by_cases hj : j = s.header <;> simp [keyOf, SL.setNode, upd, hj, hh1]⟩
      simp [SL.notifyDel, SL.node, hh1, hna, bind, Except.bind]
  | some k =>
    cases hfe : findEntry es k with
    | none =>
      refine ⟨s, some .enoent, ?_, by simpa [ndelSpec, hfe] using h, by simp [ndelSpec, hfe], rfl, fun _ => rfl⟩
      simp [SL.notifyDel, (lookup_eq h k).2 hfe, bind, Except.bind]
    | some e =>
      obtain ⟨i, hl, hso, hk, hi, ⟨lv, rc, f, a, hrc1, hlv1, hlv2, hn, _⟩⟩ := (lookup_eq h k).1 e hfe
      cases hna : notifierDel e.notifs events id with
      | none =>
        refine ⟨s, some .enoent, ?_, by simpa [ndelSpec, hfe, hna] using h, by simp [ndelSpec, hfe, hna], rfl, fun _ => rfl⟩
        simp [SL.notifyDel, hl, SL.node, hn, hna, bind, Except.bind]
      | some l =>
        have := update_node h hso hk hi hrc1 hlv1 hlv2 hn e.val l
        refine ⟨s.setNode i ⟨some k, e.val, lv, rc, f, l⟩, none, ?_, ?_, by simp [ndelSpec, hfe, hna], rfl, fun j => by by_cases hj : j = i <;> simp [keyOf, SL.setNode, upd, hj, hn, hk]⟩
        · simp [SL.notifyDel, hl, SL.node, hn, hna, bind, Except.bind, hk]
        · cases e
          simp only at hk
          subst hk
          simpa [ndelSpec, hfe, hna] using this

end QbVerif.Skiplist
