/-
Round trip (C14), format facts and the extended-information marker: the format of a well-typed
item list contains no NUL (and no marker outside literal text); `xcItems` = the items as the
encoder stores them (first QB_XC of the literal text shown as '|'); the encoder's state after
`my_strlcpy` + marker replacement (`serInit_sync_xc`).
-/
import QbVerif.Lemmas.SerRoundDec3

namespace QbVerif.Ser
open QbVerif.Gen

/-! ### the format of a well-typed item list contains neither NUL nor the marker -/

theorem dir_chars_cls (d : Dir) (w p : Int) (v : Arg) (hwf : (Item.dir d w p v).wf = true) :
    ∀ c ∈ d.chars, classify c ≠ .other := by
  simp only [Item.wf, Bool.and_eq_true, List.all_eq_true] at hwf
  obtain ⟨⟨⟨⟨hpre, hprec⟩, hok⟩, _⟩, _⟩ := hwf
  intro c hc
  unfold Dir.chars at hc
  rcases List.mem_cons.mp hc with rfl | hc
  · decide
  rcases List.mem_append.mp hc with hc | hc
  · have := hpre c hc
    unfold isCopyChar at this
    simp only [Bool.or_eq_true, beq_iff_eq] at this
    rcases this with h | h <;> rw [h] <;> decide
  rcases List.mem_append.mp hc with hc | hc
  · split at hc
    · simp only [List.mem_singleton] at hc; subst hc; decide
    · cases hc
  rcases List.mem_append.mp hc with hc | hc
  · cases hp : d.prec with
    | none => rw [hp] at hc; cases hc
    | lit ds =>
      rw [hp] at hc hprec
      simp only [precChars, List.mem_cons] at hc
      rcases hc with rfl | hc
      · decide
      · simp only [List.all_eq_true, beq_iff_eq] at hprec
        rw [hprec c hc]; decide
    | star =>
      rw [hp] at hc
      simp only [precChars, List.mem_cons, List.not_mem_nil, or_false] at hc
      rcases hc with rfl | rfl <;> decide
  rcases List.mem_append.mp hc with hc | hc
  · cases hm : d.mod <;> rw [hm] at hc <;> simp only [modChars, List.mem_cons, List.not_mem_nil, or_false] at hc
    · rcases hc with rfl; decide
    · rcases hc with rfl | rfl <;> decide
    · rcases hc with rfl; decide
    · rcases hc with rfl; decide
    · rcases hc with rfl; decide
  · simp only [List.mem_singleton] at hc
    subst hc
    rcases argOk_cls d v hok with h | h | h | h | h <;> rw [h] <;> decide

theorem cls_ok (c : UInt8) (h : classify c ≠ .other) : c ≠ 0 ∧ c ≠ QB_XC.toUInt8 := by
  constructor <;> (intro e; subst e; exact h (by decide))

theorem item_chars_nz (i : Item) (hwf : i.wf = true) : ∀ c ∈ i.chars, c ≠ 0 := by
  cases i with
  | lit bs =>
    simp only [Item.wf, List.all_eq_true, Bool.and_eq_true, bne_iff_ne, ne_eq] at hwf
    exact fun c hc => (hwf c hc).1
  | pct =>
    intro c hc
    simp only [Item.chars, List.mem_cons, List.not_mem_nil, or_false, or_self] at hc
    subst hc
    decide
  | dir d w p v => exact fun c hc => (cls_ok c (dir_chars_cls d w p v hwf c hc)).1

theorem fmt_no_zero (items : List Item) (hwf : WellTyped items) : (0 : UInt8) ∉ fmtOf items := by
  intro hc
  simp only [fmtOf, List.mem_flatMap] at hc
  obtain ⟨i, hi, hc⟩ := hc
  exact item_chars_nz i (hwf i hi) 0 hc rfl

theorem cstr_self (l : Bytes) (h : (0 : UInt8) ∉ l) : cstr l = l := by
  have := cstr_append_zero l [] h
  unfold cstr at this ⊢
  induction l with
  | nil => rfl
  | cons a l ih =>
    have ha : a ≠ 0 := fun e => h (by simp [e])
    simp only [List.takeWhile_cons, ne_eq, ha, not_false_eq_true, decide_true, if_true, List.cons.injEq, true_and]
    exact ih (fun hm => h (by simp [hm])) (cstr_append_zero l [] (fun hm => h (by simp [hm])))

theorem findIdx_not_mem (l : Bytes) (x : UInt8) (h : x ∉ l) : l.findIdx (· = x) = l.length := by
  induction l with
  | nil => rfl
  | cons a l ih =>
    have ha : a ≠ x := fun e => h (by simp [e])
    simp only [List.findIdx_cons, ha, decide_false, cond_false, List.length_cons]
    rw [ih (fun hm => h (by simp [hm]))]

theorem findIdx_zero (T Rr : Bytes) (h : (0 : UInt8) ∉ T) : (T ++ 0 :: Rr).findIdx (· = 0) = T.length := by
  induction T with
  | nil => simp [List.findIdx_cons]
  | cons a T ih =>
    have ha : a ≠ 0 := fun e => h (by simp [e])
    simp only [List.cons_append, List.findIdx_cons, ha, decide_false, cond_false, List.length_cons]
    rw [ih (fun hm => h (by simp [hm]))]

/-! ### the extended-information marker -/

/-- the items as the encoder stores them: the first QB_XC of the literal text becomes '|' -/
def xcItems : List Item → List Item
  | [] => []
  | .lit bs :: r =>
    if QB_XC.toUInt8 ∈ bs then .lit (bs.set (bs.findIdx (· = QB_XC.toUInt8)) 0x7c) :: r else .lit bs :: xcItems r
  | .pct :: r => .pct :: xcItems r
  | .dir d w p v :: r => .dir d w p v :: xcItems r

theorem set_findIdx_mem (a b : Bytes) (x y : UInt8) (h : x ∈ a) :
    (a ++ b).set ((a ++ b).findIdx (· = x)) y = a.set (a.findIdx (· = x)) y ++ b := by
  have hlt : a.findIdx (· = x) < a.length := List.findIdx_lt_length_of_exists ⟨x, h, by simp⟩
  rw [List.findIdx_append, if_pos hlt, List.set_append_left _ _ hlt]

theorem set_findIdx_not_mem (a b : Bytes) (x y : UInt8) (h : x ∉ a) :
    (a ++ b).set ((a ++ b).findIdx (· = x)) y = a ++ b.set (b.findIdx (· = x)) y := by
  have he : a.findIdx (· = x) = a.length := findIdx_not_mem a x h
  rw [List.findIdx_append, he, if_neg (Nat.lt_irrefl _), List.set_append_right _ _ (by omega)]
  simp

theorem fmtOf_xcItems (items : List Item) (hwf : WellTyped items) :
    fmtOf (xcItems items) = (fmtOf items).set ((fmtOf items).findIdx (· = QB_XC.toUInt8)) 0x7c := by
  induction items with
  | nil => rfl
  | cons i r ih =>
    have hr := ih (fun j hj => hwf j (by simp [hj]))
    have hwi := hwf i (by simp)
    unfold fmtOf at hr ⊢
    cases i with
    | lit bs =>
      by_cases hm : QB_XC.toUInt8 ∈ bs
      · simp only [xcItems, hm, if_true, List.flatMap_cons, Item.chars]
        exact (set_findIdx_mem _ _ _ _ hm).symm
      · simp only [xcItems, hm, if_false, List.flatMap_cons, Item.chars]
        rw [set_findIdx_not_mem _ _ _ _ hm, hr]
    | pct =>
      simp only [xcItems, List.flatMap_cons, Item.chars]
      rw [set_findIdx_not_mem _ _ _ _ (by decide), hr]
    | dir d w p v =>
      simp only [xcItems, List.flatMap_cons, Item.chars]
      rw [set_findIdx_not_mem _ _ _ _ (fun hm => (cls_ok _ (dir_chars_cls d w p v hwi _ hm)).2 rfl), hr]

theorem encOf_xcItems (items : List Item) : encOf (xcItems items) = encOf items := by
  unfold encOf
  induction items with
  | nil => rfl
  | cons i r ih =>
    cases i with
    | lit bs =>
      by_cases hm : QB_XC.toUInt8 ∈ bs
      · simp [xcItems, hm, Item.enc]
      · simp [xcItems, hm, Item.enc, ih]
    | pct => simp [xcItems, ih]
    | dir d w p v => simp [xcItems, ih]

theorem dir_mem_xcItems (items : List Item) (d : Dir) (w p : Int) (v : Arg)
    (h : Item.dir d w p v ∈ xcItems items) : Item.dir d w p v ∈ items := by
  induction items with
  | nil => exact h
  | cons i r ih =>
    cases i with
    | lit bs =>
      by_cases hm : QB_XC.toUInt8 ∈ bs
      · simp only [xcItems, hm, if_true, List.mem_cons, reduceCtorEq, false_or] at h
        exact List.mem_cons_of_mem _ h
      · simp only [xcItems, hm, if_false, List.mem_cons, reduceCtorEq, false_or] at h
        exact List.mem_cons_of_mem _ (ih h)
    | pct =>
      simp only [xcItems, List.mem_cons, reduceCtorEq, false_or] at h
      exact List.mem_cons_of_mem _ (ih h)
    | dir d' w' p' v' =>
      simp only [xcItems, List.mem_cons] at h ⊢
      exact h.elim Or.inl (fun h => Or.inr (ih h))

theorem wf_xcItems (items : List Item) (hwf : WellTyped items) : WellTyped (xcItems items) := by
  induction items with
  | nil => exact hwf
  | cons i r ih =>
    have hr := ih (fun j hj => hwf j (by simp [hj]))
    have hwi := hwf i (by simp)
    have hwr : WellTyped r := fun j hj => hwf j (by simp [hj])
    cases i with
    | lit bs =>
      by_cases hm : QB_XC.toUInt8 ∈ bs
      · simp only [xcItems, hm, if_true]
        intro j hj
        rcases List.mem_cons.mp hj with rfl | hj
        · simp only [Item.wf, List.all_eq_true, Bool.and_eq_true, bne_iff_ne, ne_eq] at hwi ⊢
          intro c hc
          rcases List.mem_or_eq_of_mem_set hc with hc | rfl
          · exact hwi c hc
          · decide
        · exact hwr j hj
      · simp only [xcItems, hm, if_false]
        intro j hj
        rcases List.mem_cons.mp hj with rfl | hj
        · exact hwi
        · exact hr j hj
    | pct =>
      simp only [xcItems]
      intro j hj
      rcases List.mem_cons.mp hj with rfl | hj
      · exact hwi
      · exact hr j hj
    | dir d w p v =>
      simp only [xcItems]
      intro j hj
      rcases List.mem_cons.mp hj with rfl | hj
      · exact hwi
      · exact hr j hj

theorem miniFits_xcItems (items : List Item) (h : MiniFits items) : MiniFits (xcItems items) := by
  intro i hi d w p v he
  subst he
  exact h _ (dir_mem_xcItems items d w p v hi) d w p v rfl

theorem Buf.store_set (b : Buf) (i : Nat) (x : UInt8) (h : i < b.data.length) :
    (b.store i [x]).data = b.data.set i x := by
  have h0 : i - b.data.length = 0 := by omega
  simp [Buf.store, writeAt, List.set_eq_take_append_cons_drop, h, h0]

/-- after `my_strlcpy(serialize, fmt, max_len)` and the marker replacement (marker absent, or
    present and not the last character of the format): the stored format is that of `xcItems` -/
theorem serInit_sync_xc (items : List Item) (maxLen : Nat) (hwf : WellTyped items)
    (hfit : (fmtOf items).length + 1 ≤ maxLen)
    (hnl : (fmtOf items).findIdx (· = QB_XC.toUInt8) + 1 ≠ (fmtOf items).length) :
    SerSync (serInit R (fmtOf items) (argsOf items) maxLen) (fmtOf (xcItems items) ++ [0]) (argsOf items) := by
  have hc : cstr (fmtOf items) = fmtOf items := cstr_self _ (fmt_no_zero items hwf)
  rw [fmtOf_xcItems items hwf]
  unfold serInit
  simp only [hc, myStrlcpy]
  have h0 : ¬ (maxLen = 0) := by omega
  have hmin : min (maxLen - 1) (fmtOf items).length = (fmtOf items).length := by omega
  have hsub : subSz maxLen 1 = maxLen - 1 := subSz_of_le (by omega)
  have hmin2 : min (fmtOf items).length (maxLen - 1) = (fmtOf items).length := by omega
  simp only [h0, if_false, hmin, List.take_length, hsub, hmin2, xcPatch]
  have hst := Buf.store_end ⟨[], 0⟩ (fmtOf items ++ [0])
  simp only [List.length_nil, List.nil_append] at hst
  by_cases hlt : (fmtOf items).findIdx (· = QB_XC.toUInt8) < (fmtOf items).length
  · have hlt2 : (fmtOf items).findIdx (· = QB_XC.toUInt8) + 1 < (fmtOf items).length := by omega
    simp only [hlt, hlt2, if_true]
    refine ⟨rfl, rfl, rfl, ?_, by simp, rfl⟩
    rw [Buf.store_set _ _ _ (by rw [hst]; simp only [List.length_append, List.length_singleton]; omega), hst,
      List.set_append_left _ _ hlt]
  · simp only [hlt, if_false]
    rw [List.set_eq_of_length_le (by omega)]
    exact ⟨rfl, rfl, rfl, hst, by simp, rfl⟩

end QbVerif.Ser
