/-
C01 — writer steps, third part: `qb_rb_chunk_commit`.
-/
import QbVerif.Lemmas.RingConcW2

namespace QbVerif.RingConcLemmas
open QbVerif.Ring QbVerif.RingSpec QbVerif.RingLemmas QbVerif.RingConc

section
variable {c : Conf} {q : List (List Nat)} {op : WOp} {rest : List WOp}

theorem w_cmWp (h : CInv c q) (hp : c.wprog = op :: rest) (hpc : c.wpc = .cmWp) :
    CInv (wstep c) q := by
  have e : wstep c = { c with wpc := .cmSz c.rb.wp, lin := c.lin } := by unfold wstep; simp only [hp, hpc]
  rw [e]
  have hwf := WFacts_get hp h.wf
  rw [hpc] at hwf
  have h0 : wAdv c = 0 := by unfold wAdv; rw [hpc]
  have hp0 : pend c = false := by unfold pend; rw [hpc]
  refine h.wlocal _ _ (by rw [h0]; rfl) (by rw [hp0]; rfl) (WFacts_of' (c := c) hp rfl ?_)
  refine ⟨?_, hwf⟩
  show c.rb.wp = _
  rw [h.hwp, h0]; rfl

theorem len_lt {W TR TW L : Nat} (hf : Fits W TR TW (cw L)) (hle : TR ≤ TW) (hwlt : 4 * W < 2 ^ 31) : L < 2 ^ 31 := by
  have := fits_le hf
  have := cw_lo L
  omega

theorem w_cmSz {old} (h : CInv c q) (hp : c.wprog = op :: rest) (hpc : c.wpc = .cmSz old) :
    CInv (wstep c) q := by
  have e : wstep c = { c with rb := { c.rb with mem := wr32 c.rb.mem old op.data.length }, wpc := .cmStep old } := by
    unfold wstep; simp only [hp, hpc]
  rw [e]
  have hwf := WFacts_get hp h.wf
  rw [hpc] at hwf
  obtain ⟨h1, hf, hpay⟩ := hwf
  have h0 : wAdv c = 0 := by unfold wAdv; rw [hpc]
  have hp0 : pend c = false := by unfold pend; rw [hpc]
  have hW := h.wpos
  have hfl := fits_le hf
  have h2 := cw_ge op.data.length
  have hlo := cw_lo op.data.length
  have hL := len_lt hf (by omega) h.wlt
  have hmg := MAGIC_ge
  subst h1
  rw [wr32_abs]
  refine h.wstore _ _ (by simp) ?_ (by rw [h0]; rfl) ?_ (WFacts_of' (c := c) hp rfl ?_)
  · intro a ha hb; exact cell_setWord_ne hW (by omega)
  · intro _; exact word_ne_magic_setWord h.size hW (by omega) (by omega) (h.next hp0)
  · refine ⟨rfl, hf, Payload_frame (fun a ha hb => cell_setWord_ne hW (by omega)) hpay, ?_⟩
    show word (setWord c.rb.mem c.rb.W (TR c + total q) op.data.length) c.rb.W (TR c + total q) = op.data.length
    rw [word_setWord_eq h.size hW]; exact Nat.mod_eq_of_lt (by omega)

theorem w_cmStep {old} (h : CInv c q) (hp : c.wprog = op :: rest) (hpc : c.wpc = .cmStep old) :
    CInv (wstep c) q := by
  have e : wstep c = { c with wpc := .cmNext old (c.rb.chunkStep old), lin := c.lin } := by
    unfold wstep; simp only [hp, hpc]
  rw [e]
  have hwf := WFacts_get hp h.wf
  rw [hpc] at hwf
  obtain ⟨h1, hf, hpay, hsz⟩ := hwf
  have h0 : wAdv c = 0 := by unfold wAdv; rw [hpc]
  have hp0 : pend c = false := by unfold pend; rw [hpc]
  refine h.wlocal _ _ (by rw [h0]; rfl) (by rw [hp0]; rfl) (WFacts_of' (c := c) hp rfl ?_)
  exact ⟨h1, chunkStep_at h.wpos h1 hsz, hf, hpay, hsz⟩

theorem w_cmNext {old new} (h : CInv c q) (hp : c.wprog = op :: rest) (hpc : c.wpc = .cmNext old new) :
    CInv (wstep c) q := by
  have hwf := WFacts_get hp h.wf
  rw [hpc] at hwf
  obtain ⟨h1, h1n, hf, hpay, hsz⟩ := hwf
  have h0 : wAdv c = 0 := by unfold wAdv; rw [hpc]
  have hp0 : pend c = false := by unfold pend; rw [hpc]
  have hW := h.wpos
  have hfl := fits_le hf
  have h2 := cw_ge op.data.length
  have hlo := cw_lo op.data.length
  have hL := len_lt hf (by omega) h.wlt
  have hmg := MAGIC_ge
  have hg : ((new + 1) % c.rb.W ≠ old) ↔ cw op.data.length + 1 < c.rb.W := by
    rw [h1, h1n, Nat.mod_add_mod]
    exact guard_iff h2 (by omega)
  by_cases hgd : (new + 1) % c.rb.W ≠ old
  · have e : wstep c = { c with rb := c.rb.setMagic new DEAD, wpc := .cmSetWp old new } := by
      unfold wstep; simp only [hp, hpc]; rw [if_pos hgd]
    rw [e]
    have hk := hg.mp hgd
    have hf2 : TR c + total q + cw op.data.length + 2 ≤ TR c + c.rb.W := by unfold Fits at hf; omega
    subst h1n
    rw [setMagic_abs]
    refine h.wstore _ _ (by simp) ?_ (by rw [h0]; rfl) ?_ (WFacts_of' (c := c) hp rfl ?_)
    · intro a ha hb; exact cell_setWord_ne hW (by omega)
    · intro _; exact word_ne_magic_setWord h.size hW (by decide) (by decide) (h.next hp0)
    · refine ⟨h1, rfl, hf, Payload_frame (fun a ha hb => cell_setWord_ne hW (by omega)) hpay, ?_, ?_⟩
      · show word (setWord c.rb.mem c.rb.W _ DEAD) c.rb.W (TR c + total q) = op.data.length
        rw [word_setWord_ne hW (by unfold Apart; omega)]; exact hsz
      · show word (setWord c.rb.mem c.rb.W _ DEAD) c.rb.W (TR c + total q + cw op.data.length + 1) ≠ MAGIC
        rw [word_setWord_eq h.size hW]; decide
  · have e : wstep c = { c with wpc := .cmSetWp old new, lin := c.lin } := by
      unfold wstep; simp only [hp, hpc]; rw [if_neg hgd]
    rw [e]
    have hk : cw op.data.length + 1 = c.rb.W := by
      have : ¬ (cw op.data.length + 1 < c.rb.W) := fun x => hgd (hg.mpr x)
      omega
    refine h.wlocal _ _ (by rw [h0]; rfl) (by rw [hp0]; rfl) (WFacts_of' (c := c) hp rfl ?_)
    refine ⟨h1, h1n, hf, hpay, hsz, ?_⟩
    show word c.rb.mem c.rb.W (TR c + total q + cw op.data.length + 1) ≠ MAGIC
    rw [Nat.add_assoc, hk, word_add_period, hsz]
    omega

theorem w_cmSetWp {old new} (h : CInv c q) (hp : c.wprog = op :: rest) (hpc : c.wpc = .cmSetWp old new) :
    CInv (wstep c) q := by
  have e : wstep c = { c with rb := { c.rb with wp := new }, wpc := .cmMg old } := by
    unfold wstep; simp only [hp, hpc]
  rw [e]
  have hwf := WFacts_get hp h.wf
  rw [hpc] at hwf
  obtain ⟨h1, h1n, hf, hpay, hsz, hnx⟩ := hwf
  have hp0 : pend c = false := by unfold pend; rw [hpc]
  refine ⟨h.size, h.wge, h.wlt, h.hq, h.hrp, ?_, h.used, h.stored, ?_, h.semc, WFacts_of' (c := c) hp rfl ?_, h.rf⟩
  · show new = (TR c + total q + cw (curLen { c with rb := { c.rb with wp := new }, wpc := .cmMg old })) % c.rb.W
    have : curLen { c with rb := { c.rb with wp := new }, wpc := .cmMg old } = op.data.length := by
      unfold curLen; simp only [hp]
    rw [this]; exact h1n
  · intro _; exact h.next hp0
  · exact ⟨h1, hf, hpay, hsz, hnx⟩

end
end QbVerif.RingConcLemmas
