import QbVerif.Lemmas.IpcsLifeInvTop6

/-! C04 — the request batch loop of qb_ipcs_dispatch_connection_request (a pipelining client: several
    requests are queued before the dispatcher runs; msg_process may disconnect on any of them),
    the wake-up loop of `sendn`, qb_ipcs_request_rate_limit. -/
namespace QbVerif.IpcsLife

theorem dispatchEnd_eq {s : St} (h : Core s) (c : Nat) :
    dispatchEnd s c = exec FUEL (brCloseD s c) (.zero c) := by
  unfold dispatchEnd; simp [h.inv.fix.2.1]

/-- inside the dispatch reference, `n` requests of the batch left: every msg_process (with everything
    its script triggers) keeps the invariant and the bracket; the state test after each request ends the
    batch as soon as the connection is no longer ESTABLISHED; at the end the reference is dropped -/
theorem batchLoop_ok : ∀ (n : Nat) {s : St} (_h : Core s) (c : Nat) (_hh : s.halt = false) (_hb : BrD s c)
    (_hst : n = 0 ∨ (s.conns c).st = .established),
    Core (batchLoop n s c) ∧ ((batchLoop n s c).halt = false → NB (batchLoop n s c))
  | 0, s, h, c, hh, hb, _ => by
    unfold batchLoop
    rw [dispatchEnd_eq h]
    have := dispatchEnd_ok h c hh hb
    exact ⟨this.1, fun _ => this.2⟩
  | n+1, s, h, c, hh, hb, hst => by
    have hst : (s.conns c).st = .established := by
      rcases hst with h0 | h0
      · cases h0
      · exact h0
    have hsp := same_pop s .msg
    generalize hp : s.pop .msg = p at hsp
    obtain ⟨hpm, hfm, hphm, hclm⟩ := (h.inv.conn c).msg hst _ rfl
    have hu : UpdOf s c (monitor .msg 0 (s.conns c)) (p.2.cb .msg c 0) :=
      ⟨by simp [cb_eq, hsp.conns], fun i hi => by simp [cb_eq, hsp.conns, hi], hsp.list, hsp.jobs, hsp.f1, hsp.f2, hsp.f3⟩
    have hi2 := hu.inv h.inv hpm (fun hx => by rw [hphm]; exact h.inv.lst c hx) (by rw [hclm])
    have hbr0 : (s.conns c).brDispatch = true := by have := hb c; simp [Brs] at this; exact this.2.1
    have hn1 : (s.conns c).phase ≠ .none := ((h.inv.conn c).bracket (Or.inr (Or.inl hbr0))).2.1
    have h2 : Core (p.2.cb .msg c 0) := h.updOf hu (by simp [← hp]) hi2 hn1 (by rw [hphm]; exact hn1)
    have hb2 : BrD (p.2.cb .msg c 0) c := hb.frame (hu.frame hfm)
    have he := h2.exec FUEL (.ops c p.1.ops) trivial
    have hb3 := hb2.frame he.2
    unfold batchLoop
    simp only [hp]
    by_cases h3 : (exec FUEL (p.2.cb .msg c 0) (.ops c p.1.ops)).halt = true
    · simp only [h3, ↓reduceIte]
      exact ⟨he.1, fun hx => by cases hx⟩
    · have h3' : (exec FUEL (p.2.cb .msg c 0) (.ops c p.1.ops)).halt = false := by simpa using h3
      have hbr : ((exec FUEL (p.2.cb .msg c 0) (.ops c p.1.ops)).conns c).brDispatch = true := by
        have := hb3 c; simp [Brs] at this; exact this.2.1
      have hf3 := ((he.1.inv.conn c).bracket (Or.inr (Or.inl hbr))).1
      simp only [h3', touch_eq _ c hf3, Bool.false_eq_true, ↓reduceIte, he.1.inv.fix.2.1, Bool.true_and]
      by_cases h4 : ((exec FUEL (p.2.cb .msg c 0) (.ops c p.1.ops)).conns c).st = .established
      · simp only [h4, bne_self_eq_false, Bool.false_eq_true, ↓reduceIte]
        exact batchLoop_ok n he.1 c h3' hb3 (Or.inr h4)
      · have h4' : (((exec FUEL (p.2.cb .msg c 0) (.ops c p.1.ops)).conns c).st != .established) = true := by
          simp [h4]
        simp only [h4', ↓reduceIte]
        rw [dispatchEnd_eq he.1]
        have := dispatchEnd_ok he.1 c h3' hb3
        exact ⟨this.1, fun _ => this.2⟩

/-- `sendn`: the dispatcher is woken (a fresh dispatch reference each time) until the queue is drained or
    the connection is no longer served -/
theorem sendLoop_ok : ∀ (f : Nat) {s : St} (_h : TopInv s) (c rem : Nat), TopInv (sendLoop f s c rem)
  | 0, _, h, _, _ => h
  | f+1, s, h, c, rem => by
    unfold sendLoop
    split
    · exact h
    · next hc =>
      have hc' : s.halt = false ∧ ¬ rem = 0 ∧ serverSees s c = true := by
        simp at hc; exact ⟨hc.1.1, hc.1.2, hc.2⟩
      have hst := sees_established' hc'.2.2
      obtain ⟨_, hn, hd⟩ := (h.core.inv.conn c).established hst
      obtain ⟨h1, hh1, hb1, hst1⟩ := brOpenD_ok h.core c hc'.1 (h.nb hc'.1) hn hd
      simp only [hh1, Bool.false_eq_true, ↓reduceIte]
      have := batchLoop_ok (min rem (batchMax s)) h1 c hh1 hb1 (Or.inr (by rw [hst1]; exact hst))
      exact sendLoop_ok f ⟨this.1, this.2⟩ c _
where
  sees_established' {s : St} {c : Nat} (h : serverSees s c = true) : (s.conns c).st = .established := by
    unfold serverSees at h
    simp at h
    exact h.2

/-- qb_ipcs_request_rate_limit: every listed connection is alive, the walk changes nothing -/
theorem rateLimit_ok {s : St} (h : TopInv s) (r : Nat) : TopInv (rateLimit s r) := by
  have hs : Same s s.touchSvc := same_touchSvc s
  have he : rateLimit s r = { s.touchSvc with rate := r } := by
    unfold rateLimit
    simp only []
    rw [touchAll_eq]
    intro c hc
    rw [hs.list] at hc
    rw [hs.conns]
    exact h.core.inv.notFreed (h.core.inv.lst c hc)
  rw [he]
  have hs2 : Same s ({ s.touchSvc with rate := r } : St) := hs.trans ⟨rfl, rfl, rfl, rfl, rfl, rfl⟩
  exact h.same hs2 (by simp) (fun hx => halt_touchSvc_mono s hx)

end QbVerif.IpcsLife
