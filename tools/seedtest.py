#!/usr/bin/env python3
"""Run the registered checks against the seeded breaking changes kept under /verif/seeded/<id>/.

usage: tools/seedtest.py [--tier quick|thorough] [--inplace] [id ...]
Default: each patch is applied in a scratch worktree of /repo and the check runs with
VERIF_REPO pointing there (does not disturb other work on /repo).  --inplace applies the
patch to /repo itself (git apply / git checkout -- .), exactly as the final evaluation does.
Writes seeded/RESULTS.json and prints one line per (seed, property)."""
import json
import os
import subprocess
import sys
import tempfile
import shutil

VERIF = os.path.dirname(os.path.dirname(os.path.abspath(__file__)))


def sh(cmd, **kw):
    return subprocess.run(cmd, stdout=subprocess.PIPE, stderr=subprocess.STDOUT, text=True, **kw)


def main():
    args = sys.argv[1:]
    tier = "quick"
    inplace = False
    ids = []
    while args:
        a = args.pop(0)
        if a == "--tier":
            tier = args.pop(0)
        elif a == "--inplace":
            inplace = True
        else:
            ids.append(a)
    root = os.path.join(VERIF, "seeded")
    ids = ids or sorted(d for d in os.listdir(root) if os.path.isdir(os.path.join(root, d)))
    respath = os.path.join(root, "RESULTS.json")
    results = json.load(open(respath)) if os.path.exists(respath) else {}
    for sid in ids:
        d = os.path.join(root, sid)
        meta = json.load(open(os.path.join(d, "meta.json")))
        props = meta.get("run_checks") or [meta["property"]]
        patch = os.path.join(d, "patch.diff")
        if inplace:
            repo = "/repo"
            r = sh(["git", "-C", repo, "apply", patch])
        else:
            repo = tempfile.mkdtemp(prefix="seedwt-", dir="/tmp")
            os.rmdir(repo)
            sh(["git", "-C", "/repo", "worktree", "add", "--detach", repo, "HEAD"])
            for f in ("include/config.h", "include/qb/qbconfig.h"):
                shutil.copy2(os.path.join("/repo", f), os.path.join(repo, f))
            r = sh(["git", "-C", repo, "apply", patch])
        if r.returncode != 0:
            r = sh(["git", "-C", repo, "apply", "--3way", patch])
        if r.returncode != 0:
            print("%s: patch does not apply: %s" % (sid, r.stdout.strip()[:200]))
            results[sid] = {"applied": False}
        else:
            res = {"applied": True, "tier": tier, "checks": {}}
            for p in props:
                env = dict(os.environ)
                env["VERIF_REPO"] = repo
                env.setdefault("VERIF_SEED", "1")
                c = sh([os.path.join(VERIF, "check"), p, "--tier", tier], env=env, cwd=VERIF)
                vio = [l for l in c.stdout.splitlines() if l.startswith("VIOLATION")]
                res["checks"][p] = {"exit": c.returncode, "violation_lines": vio[:3],
                                    "with_input": any("no-failing-input-found" not in l for l in vio)}
                print("%s %s: exit=%d %s" % (sid, p, c.returncode, vio[0] if vio else "(no violation reported)"))
            results[sid] = res
        if inplace:
            # `git apply --3way` stages what it applies: restore index AND working tree
            sh(["git", "-C", "/repo", "reset", "-q", "--hard", "HEAD"])
        else:
            sh(["git", "-C", "/repo", "worktree", "remove", "--force", repo])
        sh(["sh", "-c", "rm -rf /dev/shm/qb-vrf-* 2>/dev/null"])
    # several people run this at once: merge under a lock instead of overwriting
    import fcntl
    with open(respath + ".lock", "w") as lk:
        fcntl.flock(lk, fcntl.LOCK_EX)
        cur = json.load(open(respath)) if os.path.exists(respath) else {}
        for sid in ids:
            if sid in results:
                cur[sid] = results[sid]
        tmp = respath + ".tmp%d" % os.getpid()
        with open(tmp, "w") as f:
            json.dump(cur, f, indent=1, sort_keys=True)
        os.replace(tmp, respath)


if __name__ == "__main__":
    main()
