"""C11, blackbox clause: generator, comparison and property oracle for the stream that drives the REAL
blackbox target (harness/log/bb_print.c: mk / maxline / resize / r / dump) and the compiled model
`qb_blackbox` (lean/QbVerif/Model/Blackbox.lean) with the same op lines.

  mk SIZE ; maxline N ; r … ; [resize SIZE] ; r … ; dump      (one or more such blocks per case)

Compared (model == implementation): `ok W` / `E…` of mk, maxline, resize; `live K rp wp`; `wrote N`;
`file HEX` — every byte of the dump file qb_log_blackbox_write_to_file wrote.  The time stamps are the
scripted ones of the `r` op (the harness interposes clock_gettime), so nothing needs canonicalising.
Oracle (python, independent of the model): the records printed from the dump file are an unbroken run
of the latest records logged since the ring was (re)created, ending with the very last one, at least
as long as the newest run whose reservations (33 + function name + 1 + max_line_length at the time of
the call, 16 bytes of overhead each) fit in the configured size.

Classes kept out of the generated stream (findings, see the C11 report):
  D32  max_line_length < 78 and a message that does not fit: the fixed "too long" text (78 bytes) is
       serialised with QB_LOG_MAX_LEN as its bound, i.e. beyond the reservation -> commit of more than
       was allocated, ring corrupt.  `d32=True` (env C11_D32=1, for a tree with fixes/D32 applied)
       generates that class too.
  D33  max_line_length > 512 and a message of 512..max_line_length bytes: stored, but
       qb_log_blackbox_print_from_file rejects msg_len > QB_LOG_MAX_LEN as a corrupt file.
"""
import dumpgen as G

TOO_LONG = G.TOO_LONG
TOO_LONG_REC = len(TOO_LONG) + 1          # bytes the serialised text takes
FIXED = 4 * 4 + 1 + 16                    # lineno, tags, fn_size, msg_len; priority; struct timespec
MIN_SIZE = 1024
STR_ARGS = {2: (0,), 3: (1,), 5: (0,), 8: (0, 1), 9: (1,), 10: (0, 2)}   # which arguments of a shape are strings
KEEP = ("case", "ok", "logged", "live ", "wrote ", "file ", "bad-op", "no-instance")


def ser_bounds(rec):
    """(lo, hi): bounds of what qb_vsnprintf_serialize needs for the record's format + arguments"""
    fmt, args = rec[7], rec[8]
    lo = hi = len(fmt) + 1
    for a in args:
        if isinstance(a, bytes):
            hi += len(a) + 1
            lo += 1
        else:
            hi += 8
            lo += 1
    return lo, hi


def rand_rec(rng, maxline):
    for _ in range(50):
        rec = G.rand_rec(rng)
        lo, hi = ser_bounds(rec)
        if maxline > 512 and hi >= 512:
            continue                                     # class D33
        return rec
    return (6, 1, 0, 1700000000, 0, b"main", 0, b"short", [])


def gen_case(rng, d32=False):
    r = rng.random()
    if r < 0.45:
        size = rng.choice([1024, 1025, 1500, 2000, 4083, 4084, 4085])
    elif r < 0.8:
        size = rng.choice([8179, 8180, 9000, 12000])
    else:
        size = rng.randrange(1024, 30000)
    r = rng.random()
    if r < 0.4:
        maxline = 512
    elif r < 0.7:
        maxline = rng.choice([78, 79, 80, 100, 128, 200, 256, 511, 513, 600])
    elif r < 0.85:
        maxline = rng.randrange(78, 600)
    else:
        maxline = rng.choice([1000, 2048, 4095, 4096])
    if d32 and rng.random() < 0.5:
        maxline = rng.choice([4, 5, 8, 16, 40, 76, 77])
    if FIXED + 60 + maxline > size:                      # the reservation must fit (else: "aborting blackbox log")
        size = rng.choice([8179, 9000, 12000])
    n = rng.choice([1, 2, 3]) if rng.random() < 0.15 else rng.randrange(3, 90)
    recs = []
    for k in range(n):
        rec = list(rand_rec(rng, maxline))
        rec[1] = k + 1                                   # line number = position in the history
        recs.append(G.rec_op(tuple(rec)))
    cuts = sorted(set([n] + [rng.randrange(1, n + 1) for _ in range(rng.choice([0, 1, 2]))]))
    ops = []
    r = rng.random()
    if r < 0.06:                                         # refused configurations
        ops += ["mk %d" % rng.choice([0, -1, 1, 1023])]
    for c in cuts:
        ops.append("mk %d" % size)
        if rng.random() < 0.1:
            ops.append("maxline %d" % rng.choice([3, 0, -5, 4097, 100000]))    # refused: stays at the old value
        ops.append("maxline %d" % maxline)
        seq = recs[:c]
        if rng.random() < 0.2 and c >= 2:                # _blackbox_reload in the middle: a new, empty ring
            at = rng.randrange(1, c)
            rs = rng.choice([size, 1, 100, 1024, 4084, 4085, 9000]) if FIXED + 60 + maxline <= 1024 else size
            if FIXED + 60 + maxline > max(rs, 1):
                rs = size
            seq = seq[:at] + ["resize %d" % rs] + seq[at:]
        elif rng.random() < 0.1 and c >= 2:              # the line limit changes between two calls
            at = rng.randrange(1, c)
            m2 = rng.choice([78, 100, 300, 512])
            if maxline <= 512 and FIXED + 60 + m2 <= size:
                seq = seq[:at] + ["maxline %d" % m2] + seq[at:]
        ops += seq
        ops.append("dump")
    return ops


def canon(lines):
    out = []
    for l in lines:
        if l.startswith("logged"):
            out.append("logged")
        elif l.startswith(KEEP) or (l.startswith("E") and " " not in l):
            out.append(l)
    return out


def compare(ops, il, ml):
    a, b = canon(il), canon(ml)
    if a == b:
        return None
    for i, (x, y) in enumerate(zip(a, b)):
        if x != y:
            if x.startswith("file ") and y.startswith("file "):
                k = next((j for j in range(min(len(x), len(y))) if x[j] != y[j]), min(len(x), len(y)))
                return "dump files differ at byte %d: impl …%s model …%s" % ((k - 5) // 2, x[max(5, k - 8):k + 24], y[max(5, k - 8):k + 24])
            return "line %d: impl `%s` model `%s`" % (i, x[:120], y[:120])
    return "impl has %d compared lines, model %d" % (len(a), len(b))


def oracle(ops, out, d32=False):
    d = G.safety_oracle(ops, out)
    if d:
        return d
    it = iter(out)
    pend = None

    def nxt():
        nonlocal pend
        if pend is not None:
            l, pend = pend, None
            return l
        return next(it, None)

    S = None            # configured size of the ring in use
    maxline = 512       # the harness resets it at every `case`
    on = False
    hist = []           # (want tuple | None, reservation, maxline at the call, op tokens) since the ring was made
    ndump = 0
    for o in ops:
        t = o.split()
        if t[0] == "mk":
            l = nxt()
            if l is None:
                return "no output for `%s`" % o
            want_ok = int(t[1]) >= MIN_SIZE
            if l.startswith("ok ") != want_ok:
                return "`%s` answered `%s`" % (o, l)
            on = want_ok
            if on:
                S, hist = int(t[1]), []
        elif t[0] == "maxline":
            l = nxt()
            n = int(t[1])
            want_ok = 4 <= n <= 4096
            if (l == "ok") != want_ok:
                return "`%s` answered `%s`" % (o, l)
            if want_ok:
                maxline = n
        elif t[0] == "resize":
            l = nxt()
            n = int(t[1])
            if (l or "").startswith("ok ") != (n > 0):
                return "`%s` answered `%s`" % (o, l)
            if n > 0:
                S, hist = n, []
        elif t[0] == "r":
            l = nxt()
            lt = (l or "").split()
            if not lt or lt[0] != "logged":
                return "`r` answered `%s`" % l
            ref = b"" if lt[7] == "-" else bytes.fromhex(lt[7])
            fn = b"" if lt[4] == "-" else bytes.fromhex(lt[4])
            base = (G.PRIO[min(int(lt[1]), 8)], int(lt[2]), (int(lt[3]) & G.M64) // 1000000, fn, int(lt[5]), int(lt[6]))
            fmt = b"" if t[8] == "-" else bytes.fromhex(t[8])
            args = []
            for k, a in enumerate(t[9:]):
                if k in STR_ARGS.get(int(t[7]), ()):
                    args.append(b"" if a == "-" else bytes.fromhex(a))
                else:
                    args.append(int(a, 0))
            lo, hi = ser_bounds((0,) * 7 + (fmt, args))
            hist.append((base, G.strip_msg(ref), lo, hi, maxline, FIXED + len(fn) + 1 + maxline))
        elif t[0] == "dump":
            ndump += 1
            ol = []
            while True:
                l = nxt()
                if l is None:
                    break
                if l.startswith("ok ") or (l.startswith("E") and " " not in l):
                    pend = l
                    break
                ol.append(l)
            if not on:
                continue
            on = False
            for l in ol:
                lt = l.split()
                if lt and lt[0] == "wrote" and int(lt[1]) <= 0:
                    return "dump %d: qb_log_blackbox_write_to_file returned %s" % (ndump, lt[1])
                if l == "no-instance":
                    return "dump %d: the blackbox has no ring any more (allocation failed: logging was aborted)" % ndump
            recs, _other = G.parse_records(ol)
            got = []
            for r in recs:
                ms = r[2]
                if ms is None:
                    ms = 0 if not (-(1 << 55) <= r[1] < (1 << 55)) else None
                got.append(((r[0], r[1], ms, r[3], r[4], r[5]), r[6]))
            if not hist:
                if got:
                    return "dump %d: %d records printed, none logged" % (ndump, len(got))
                continue
            if not got:
                return "dump %d: no record in the dump although %d were logged (k = 0)" % (ndump, len(hist))
            if len(got) > len(hist):
                return "dump %d: %d records printed, %d logged" % (ndump, len(got), len(hist))
            for i in range(1, len(got) + 1):
                (gb, gm), (wb, ref, lo, hi, ml, _rsv) = got[-i], hist[-i]
                if not (-(1 << 55) <= wb[1] < (1 << 55)):
                    wb = (wb[0], wb[1], 0) + wb[3:]
                if gb != wb:
                    return ("dump %d: not an unbroken run of the latest records: record %d from the end is %r, "
                            "logged was %r" % (ndump, i, gb, wb))
                cut = TOO_LONG[:ml - 1] if (d32 and ml < TOO_LONG_REC) else TOO_LONG
                okm = []
                if lo < ml:
                    okm.append(ref)                      # may have fitted
                if hi >= ml:
                    okm.append(G.strip_msg(cut))         # may have been replaced
                if gm not in okm:
                    return ("dump %d: record %d from the end carries the message %r, logged was %r "
                            "(max_line_length %d)" % (ndump, i, gm, ref, ml))
            tot = need = 0
            for h in reversed(hist):
                tot += h[5] + 16
                if tot > S:
                    break
                need += 1
            if len(got) < max(1, need):
                return ("dump %d: only the latest %d records are in the dump although the reservations of the latest "
                        "%d fit in the configured size %d" % (ndump, len(got), need, S))
    return None


def tags(ops, out):
    t = set()
    nlog = sum(1 for l in out if l.startswith("logged "))
    ndump = sum(1 for o in ops if o == "dump")
    lives = [int(l.split()[1]) for l in out if l.startswith("live ")]
    mls = [int(o.split()[1]) for o in ops if o.startswith("maxline ")]
    if ndump > 1:
        t.add("bb-several-dump-moments")
    if lives and nlog and min(lives) < max(1, nlog // max(1, ndump)):
        t.add("bb-records-overwritten")
    if lives and max(lives) >= 5:
        t.add("bb-many-records")
    if lives and min(lives) == 1:
        t.add("bb-single-record")
    if any(m != 512 and 4 <= m <= 4096 for m in mls):
        t.add("bb-maxline-not-default")
    if any(m < TOO_LONG_REC for m in mls if m >= 4):
        t.add("bb-maxline-below-too-long-text")
    if any(o.startswith("resize ") for o in ops):
        t.add("bb-reload")
    if any(TOO_LONG.hex() in l for l in out if l.startswith("o ")):
        t.add("bb-too-long-replaced")
    if any(l == "EINVAL" for l in out):
        t.add("bb-config-refused")
    return t
