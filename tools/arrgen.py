"""Generators and the property oracles for the growable-array streams (C19).

Sequential stream (driver `array`, harness/array/arr_drv.c):
    create MAX ESZ AUTO | index I | grow N | numbins | epb | cbset 0/1 | poke I OFF V | peek I
Concurrent stream (driver `arrayconc`, harness/array/arr_conc.c):
    create MAX ESZ AUTO ; thr T: op; op; ... ; sched t t t ...

The oracles evaluate the property statement on the implementation's own output only; they do not
use the Lean model."""

LIMIT = 65536
I32MAX = 2 ** 31 - 1
I32MIN = -2 ** 31

ESIZES = [1, 1, 2, 3, 4, 7, 8, 8, 12, 16, 24, 31, 56, 64, 100, 255, 256, 1000]
MAXES = [0, 1, 2, 15, 16, 17, 31, 32, 33, 100, 255, 256, 257, 1000, 4095, 4096, 4097,
         65519, 65520, 65521, 65535, 65536]


def pick_create(rng, valid_only=False):
    r = rng.random()
    esz = rng.choice(ESIZES) if r < 0.93 else rng.choice([0, 4096, 5000])
    r = rng.random()
    if r < 0.55:
        mx = rng.choice(MAXES)
    elif r < 0.9:
        mx = rng.randrange(0, 600)
    elif r < 0.96:
        mx = rng.randrange(0, LIMIT + 1)
    else:
        mx = rng.choice([LIMIT + 1, 2 ** 32, 2 ** 63, 2 ** 64 - 1, 70000])
    r = rng.random()
    if r < 0.4:
        ag = 0
    elif r < 0.9:
        ag = rng.choice([1, 1, 2, 16])
    elif r < 0.95:
        ag = rng.randrange(1, 17)
    else:
        ag = rng.choice([17, 100, 2 ** 32])
    if valid_only:
        esz = max(1, min(esz, 1000))
        mx = min(mx, LIMIT)
        ag = min(ag, 16)
    return mx, esz, ag


def pick_index(rng, size, seen):
    """index over the full int32 range, steered to the boundaries the code distinguishes"""
    r = rng.random()
    if r < 0.07:
        return rng.choice([-1, -2, -16, -65536, I32MIN, I32MIN + 1, -rng.randrange(1, 1 << 31)])
    if r < 0.15:
        return rng.choice([LIMIT, LIMIT + 1, LIMIT + 15, LIMIT + 16, 70000, 1 << 20, 1 << 30, I32MAX - 1, I32MAX,
                           rng.randrange(LIMIT, 1 << 31)])
    if r < 0.30 and seen:
        return rng.choice(seen)                       # re-index (stability)
    if r < 0.45 and seen:
        j = rng.choice(seen) + rng.choice([-17, -16, -15, -1, 1, 15, 16, 17])
        return max(0, min(LIMIT - 1, j))               # neighbours (disjointness)
    if r < 0.62:
        return max(0, size + rng.choice([-17, -16, -2, -1, 0, 1, 2, 15, 16, 17]))   # around the size
    if r < 0.72:
        return rng.choice([0, 15, 16, 65519, 65520, 65534, 65535])
    if r < 0.87:
        return rng.randrange(0, max(1, min(LIMIT, size + 40)))
    return rng.randrange(0, LIMIT)                    # sparse


def pick_grow(rng, size):
    r = rng.random()
    if r < 0.25:
        return rng.randrange(0, size + 1)              # smaller or equal: no-op
    if r < 0.55:
        return size + rng.choice([1, 2, 15, 16, 17, 31, 32, 33, 100])
    if r < 0.7:
        return rng.choice([4096, 65519, 65520, 65535, 65536])
    if r < 0.8:
        return rng.choice([65537, 70000, 2 ** 32, 2 ** 64 - 1])
    return rng.randrange(0, LIMIT + 1)


def gen_case(rng, nops=None):
    mx, esz, ag = pick_create(rng)
    ops = ["create %d %d %d" % (mx, esz, ag)]
    valid = mx <= LIMIT and esz >= 1 and ag <= 16
    if not valid and rng.random() < 0.7:
        mx, esz, ag = pick_create(rng, valid_only=True)
        ops.append("create %d %d %d" % (mx, esz, ag))
        valid = True
    size = mx if valid else 0
    seen = []
    nops = nops or rng.randrange(4, 70)
    if rng.random() < 0.3:
        ops.append("cbset 1")
    for _ in range(nops):
        r = rng.random()
        if r < 0.36:
            i = pick_index(rng, size, seen)
            ops.append("index %d" % i)
        elif r < 0.52:
            i = pick_index(rng, size, seen)
            ops.append("poke %d %d %d" % (i, rng.randrange(0, max(1, esz)) if rng.random() < 0.95 else esz + rng.randrange(0, 3),
                                          rng.randrange(1, 256)))
        elif r < 0.70:
            i = pick_index(rng, size, seen)
            ops.append("peek %d" % i)
        elif r < 0.86:
            n = pick_grow(rng, size)
            ops.append("grow %d" % n)
            if size < n <= LIMIT:
                size = n
            continue
        elif r < 0.92:
            ops.append("numbins")
            continue
        elif r < 0.95:
            ops.append("epb")
            continue
        elif r < 0.98:
            ops.append("cbset %d" % rng.randrange(0, 2))
            continue
        else:
            mx, esz, ag = pick_create(rng, valid_only=True)
            ops.append("create %d %d %d" % (mx, esz, ag))
            size = mx
            seen = []
            continue
        if 0 <= i < LIMIT and (i < size or ag):
            seen.append(i)
            size = max(size, i + 1)
    # final sweep: re-read everything touched (stability + contents after all the growth)
    for i in sorted(set(seen))[:40]:
        ops.append(rng.choice(["index %d", "peek %d"]) % i)
    return ops


BAD = ("SAN:", "CRASH", "TIMEOUT", "wild", "oob", "MODEL-EXIT")


def results_of(ops, out):
    """pair every op with (event lines, result line); result None when the output ended early"""
    res = []
    k = 0
    for _ in ops:
        ev = []
        while k < len(out) and out[k].startswith("newbin "):
            ev.append(out[k])
            k += 1
        if k < len(out):
            res.append((ev, out[k]))
            k += 1
        else:
            res.append((ev, None))
    return res, out[k:]


def seq_oracle(ops, out):
    """C19 evaluated on the harness output: stable, disjoint, zero-initialised, persistent, range errors."""
    for l in out:
        if l.startswith(BAD):
            return "implementation outcome %s" % l
    res, rest = results_of(ops, out)
    have = False
    size = esz = ag = 0
    addr = {}      # idx -> (blk, off)
    byblk = {}     # blk -> {off: idx}
    shadow = {}    # idx -> bytearray
    for n, (op, (ev, r)) in enumerate(zip(ops, res)):
        t = op.split()
        where = "op %d `%s` -> %r" % (n + 1, op, r)
        if r is None:
            return "no result for " + where
        if t[0] == "create":
            have = (r == "ok")
            size, esz, ag = int(t[1]), int(t[2]), int(t[3])
            addr, byblk, shadow = {}, {}, {}
            continue
        if not have:
            continue
        if t[0] in ("index", "poke", "peek"):
            i = int(t[1])
            ok = not r.startswith("E") and r != "bad-op"
            if i < 0 or i >= LIMIT:
                if ok:
                    return "index outside [0,65536) succeeded: " + where
                continue
            if i >= size and ag == 0:
                if r != "ERANGE":
                    return "index beyond the current size %d without auto-grow did not fail with ERANGE: %s" % (size, where)
                continue
            # i < size, or auto-grow requested and i < 65536: must succeed
            if r.startswith("E"):
                return "in-range index failed (size %d, autogrow %d): %s" % (size, ag, where)
            size = max(size, i + 1)
            if t[0] == "index":
                p = r.split()
                if len(p) != 3 or p[0] != "addr":
                    return "unexpected result: " + where
                a = (int(p[1]), int(p[2]))
                if i in addr and addr[i] != a:
                    return "address of index %d changed from %r to %r: %s" % (i, addr[i], a, where)
                if i not in addr:
                    for o2, j in byblk.get(a[0], {}).items():
                        if j != i and abs(o2 - a[1]) < esz:
                            return "storage of index %d %r overlaps index %d %r (element size %d): %s" % (
                                i, a, j, (a[0], o2), esz, where)
                    addr[i] = a
                    byblk.setdefault(a[0], {})[a[1]] = i
            elif t[0] == "poke":
                off, v = int(t[2]), int(t[3]) % 256
                if off >= esz:
                    continue
                if r != "0":
                    return "unexpected result: " + where
                shadow.setdefault(i, bytearray(esz))[off] = v
            else:
                want = bytes(shadow.get(i, bytearray(esz))).hex() or "-"
                if r != want:
                    kind = "written element lost its contents" if i in shadow else "never-written element does not read as zero"
                    return "%s: index %d expected %s: %s" % (kind, i, want[:64], where)
        elif t[0] == "grow":
            n_ = int(t[1])
            if r == "0" and n_ > size:
                size = n_
            if r != "0" and n_ <= LIMIT:
                return "grow within the limit failed: " + where
    return None


def seq_tags(ops, out):
    tags = set()
    res, _ = results_of(ops, out)
    blks = set()
    grown = False
    written = set()
    size = 0
    ag = 0
    for op, (ev, r) in zip(ops, res):
        t = op.split()
        if r is None:
            break
        if ev:
            tags.add("newbin-cb")
        if t[0] == "create":
            size, ag = int(t[1]), int(t[3])
            if r != "ok":
                tags.add("create-einval")
            grown = False
            written = set()
            continue
        if t[0] in ("index", "poke", "peek"):
            i = int(t[1])
            if i < 0:
                tags.add("neg")
            elif i >= LIMIT:
                tags.add("big-autogrow" if ag else "big")
            elif r == "ERANGE":
                tags.add("erange")
            elif not r.startswith(("E", "SAN", "CRASH", "bad-op", "wild", "oob")):
                if i >= size:
                    tags.add("autogrow")
                    size = i + 1
                    grown = True
                if t[0] == "index" and r.startswith("addr "):
                    blks.add(r.split()[1])
                if t[0] == "poke" and r == "0":
                    written.add(i)
                if t[0] == "peek":
                    if i in written:
                        tags.add("persist-after-grow" if grown else "persist")
                    else:
                        tags.add("zero-read")
        elif t[0] == "grow":
            n_ = int(t[1])
            if r == "0" and n_ > size:
                if n_ // 16 != size // 16:
                    tags.add("grow-bins")
                size = n_
                grown = True
            elif r == "0":
                tags.add("grow-smaller")
            else:
                tags.add("grow-einval")
    if len(blks) >= 3:
        tags.add("sparse>=3blocks")
    return tags


# ------------------------------------------------------------------ concurrent stream
def gen_conc_case(rng, nthreads=None):
    """2-3 threads of index/grow/numbins calls and a schedule over the harness's park points."""
    esz = rng.choice([1, 4, 8, 24])
    mx = rng.choice([0, 1, 15, 16, 17, 32, 40, 100])
    ag = rng.choice([0, 1, 16])
    nthreads = nthreads or rng.choice([2, 2, 3])
    lines = ["create %d %d %d" % (mx, esz, ag)]
    turns = 0
    for t in range(nthreads):
        ops = []
        for _ in range(rng.randrange(1, 5)):
            r = rng.random()
            if r < 0.55:
                i = rng.choice([0, 1, 15, 16, 17, 31, 32, mx - 1, mx, mx + 1, mx + 16, 200, 1000, 65535, 65536, -1,
                                rng.randrange(0, 300)])
                ops.append("index %d" % i)
                turns += 6
            elif r < 0.92:
                ops.append("grow %d" % rng.choice([mx + 1, mx + 16, mx + 17, 64, 100, 300, 1000, 4096, 65536, 65537,
                                                    rng.randrange(0, 2000)]))
                turns += 4
            else:
                ops.append("numbins")
                turns += 3
        lines.append("thr %d: %s" % (t, "; ".join(ops)))
    style = rng.random()
    sched = []
    n = turns + rng.randrange(0, 6)
    if style < 0.6:
        sched = [rng.randrange(0, nthreads) for _ in range(n)]
    else:
        # long runs of one thread with switches at random places
        cur = rng.randrange(0, nthreads)
        for _ in range(n):
            if rng.random() < 0.3:
                cur = rng.randrange(0, nthreads)
            sched.append(cur)
    lines.append("sched " + " ".join(map(str, sched)))
    return lines


ENUM_PROGS = [
    # (create, thread programs): the D13 shape first
    ("create 16 8 0", ["index 0", "grow 64"]),
    ("create 16 8 1", ["index 40", "index 200"]),
    ("create 0 4 1", ["index 17", "grow 40"]),
    ("create 16 8 0", ["index 0; index 20", "grow 32; numbins"]),
    ("create 15 1 16", ["index 15", "index 15"]),
    ("create 16 24 0", ["grow 100", "grow 1000"]),
    ("create 32 8 1", ["index 31; index 32", "numbins; grow 600"]),
    ("create 16 8 1", ["index 65535", "index 65536"]),
    ("create 1 8 2", ["index 16", "grow 17"]),
    ("create 16 8 0", ["index 5", "grow 17", "index 5"]),
    ("create 16 8 1", ["index 100", "index 16", "numbins"]),
    ("create 40 3 0", ["index 39; grow 64", "index 39; index 63"]),
    ("create 16 8 16", ["index 300", "grow 300"]),
    ("create 4096 2 0", ["index 4095", "grow 65536"]),
]


def enum_conc_cases(nprogs, length):
    """every schedule (sequence of thread ids of the given length) for the first `nprogs` programs"""
    import itertools
    out = []
    for pi, (cr, progs) in enumerate(ENUM_PROGS[:nprogs]):
        nt = len(progs)
        ln = length if nt == 2 else max(4, length - 3)
        for sch in itertools.product(range(nt), repeat=ln):
            # runs of the last thread at the end add nothing new: pad every schedule with a fair tail
            tail = list(range(nt)) * 3
            lines = [cr] + ["thr %d: %s" % (t, p) for t, p in enumerate(progs)]
            lines.append("sched " + " ".join(map(str, list(sch) + tail)))
            out.append(("e%d-%s" % (pi, "".join(map(str, sch))), lines))
    return out


def conc_oracle(ops, out):
    """C19's concurrent clause on the schedule harness's output: no sanitizer report; all completed
    index calls agree on the address of an index, distinct indices are disjoint, out-of-range fails."""
    for l in out:
        if l.startswith(BAD):
            return "implementation outcome %s" % l
    t0 = ops[0].split()
    mx, esz, ag = int(t0[1]), int(t0[2]), int(t0[3])
    progs = {}
    for l in ops[1:]:
        if l.startswith("thr "):
            h, _, body = l.partition(":")
            progs[int(h.split()[1])] = [x.strip() for x in body.split(";") if x.strip()]
    grows = [int(o.split()[1]) for p in progs.values() for o in p if o.startswith("grow ") and int(o.split()[1]) <= LIMIT]
    biggest = max([mx] + grows)
    addr = {}
    byblk = {}
    for l in out:
        p = l.split()
        if not p or p[0] != "r":
            continue
        # r TID OPNO result...
        tid, k = int(p[1]), int(p[2])
        op = progs.get(tid, [])[k].split() if k < len(progs.get(tid, [])) else None
        if op is None:
            return "result line for an op that does not exist: " + l
        r = p[3:]
        if op[0] == "index":
            i = int(op[1])
            ok = r[0] == "addr"
            if (i < 0 or i >= LIMIT) and ok:
                return "index outside [0,65536) succeeded: " + l
            if 0 <= i < mx and not ok:
                return "index below the initial size failed: " + l
            if 0 <= i < LIMIT and ag and not ok:
                return "auto-grow index failed: " + l
            if ag == 0 and i >= biggest and ok:
                return "index beyond every size ever requested succeeded without auto-grow: " + l
            if ag == 0 and not ok and 0 <= i and r[0] != "ERANGE":
                return "range failure is not ERANGE: " + l
            if ok:
                a = (int(r[1]), int(r[2]))
                if i in addr and addr[i] != a:
                    return "threads disagree on the address of index %d: %r vs %r (%s)" % (i, addr[i], a, l)
                if i not in addr:
                    for o2, j in byblk.get(a[0], {}).items():
                        if j != i and abs(o2 - a[1]) < esz:
                            return "storage of index %d %r overlaps index %d: %s" % (i, a, j, l)
                    addr[i] = a
                    byblk.setdefault(a[0], {})[a[1]] = i
        elif op[0] == "grow":
            if int(op[1]) <= LIMIT and r[0] != "0":
                return "grow within the limit failed: " + l
    return None


def conc_tags(ops, out):
    tags = set()
    pts = [l.split()[2] for l in out if l.startswith("t ") and len(l.split()) >= 3]
    if "realloc" in pts:
        tags.add("realloc-window")
    if "blocked" in pts:
        tags.add("lock-contended")
    # a thread parked after its unlock while another thread sat in the realloc window
    last = {}
    for l in out:
        p = l.split()
        if p and p[0] == "t" and len(p) >= 3:
            last[p[1]] = p[2]
            if p[2] == "realloc" and any(v == "unlocked" for k, v in last.items() if k != p[1]):
                tags.add("tail-vs-realloc")
    if any(l.startswith("r ") and " addr " in l for l in out):
        tags.add("index-ok")
    if any(l.startswith("r ") and "ERANGE" in l for l in out):
        tags.add("erange")
    return tags
