#!/bin/sh
# usage: mkworktree.sh <dir>  -- scratch git worktree of /repo HEAD that can be built in place
# (the autotools build files are git-ignored, so they are copied over from /repo; object files are not).
set -e
D="$1"
test -n "$D" || { echo "usage: $0 <dir>"; exit 2; }
git -C /repo worktree add --detach "$D" HEAD >/dev/null 2>&1
rsync -a --ignore-existing --exclude .git --exclude '*.o' --exclude '*.lo' --exclude '*.la' --exclude '.libs' \
      --exclude '*.log' --exclude '*.trs' --exclude '*.test' /repo/ "$D"/
# make the copied Makefiles refer to the worktree, not to /repo
grep -rl --include=Makefile --include=config.status --include=libtool -e '/repo' "$D" 2>/dev/null | xargs -r sed -i "s|/repo|$D|g"
echo "$D ready: make -C $D -j16 && make -C $D/tests check"
