"""Generator and property oracle for the handle-database streams (C20).

The oracle (`analyse`) is the property statement of C20 evaluated on the implementation's own
output lines; it does not use the Lean model.  Protocol: lean/QbVerif/Driver/Hdb.lean.

What the oracle requires, per created object K (handle value hv(K) = the 64-bit value the create
call returned, check = upper half, slot = lower half) -- handles are compared BY VALUE, so a copy
of a handle is the handle:
  * count(K) = 1 + (accepted gets resolving to K, iteration's implicit get included)
                 - (accepted puts on K's entry) - (accepted destroys on K's entry)
    -- qb_hdb_handle_destroy is "mark + put" (lib/hdb.c), so the statement's "one plus gets minus
    puts" is this formula with the put made inside destroy counted as a put;
  * while count(K) > 0 and no destroy was accepted: get hv(K) answers `ok K`;
    after an accepted destroy: get hv(K) is refused, put hv(K) is accepted;
    refcount hv(K) = count(K) as long as count(K) > 0;
  * `dtor K` is printed exactly once, in the very call that brings count(K) to 0, never otherwise;
  * once count(K) = 0 the value hv(K) is refused by get/geta/put/destroy and refcount answers a
    negative value, for ever -- unless a later create returns the same VALUE again (the random
    check repeated on the same slot: nonce collision, tagged `collision`; the value then is the new
    object's handle);
  * a create never returns the slot of an object whose count is still > 0;
  * a create returns the VALUE of an object whose count has reached 0 only if random() really repeated
    the check (the values random() returns are part of the test input, on the `create` line): the
    check a create must use is the first positive int32 among the values drawn, within 200 draws;
  * iteration: every `iter_next` answer `ok K hv` names an object with count > 0 and no accepted
    destroy, hv = hv(K), not visited before in this pass; at `end` every object that had count > 0
    and no destroy during the whole pass (since the last iter_reset) has been visited.
A `createfail` line (qb_hdb_handle_create whose allocation fails) must answer an error, run no
destructor and create no object: nothing it leaves behind may be visited by iteration or resolved by get.
Never-issued values (the forms nK zK sK:N kK:HEX rHEX when they do not coincide with an issued
value): the statement promises nothing about arbitrary integers; the oracle only requires that
they cannot damage an issued object: a get that succeeds must go through the no-check form
(check 0xffffffff) and resolve to the object living in that slot (counted as a get of it); an
accepted put/destroy on a slot holding a live object must use the no-check form (counted as a
put/destroy of it); on a slot holding no object anything may happen (the documented quirk: check 0
matches a zeroed entry; after a failed allocation the EMPTY entry keeps the reference the create had
taken, so such a put can reach zero and call the destructor with a NULL instance: tagged
`dtor-null-on-empty-slot`, accepted ONLY there).
"""

NOCHECK = 0xFFFFFFFF
MAXSLOTS = 65536


def drawn_check(words):
    """the check qb_hdb_handle_create is entitled to use, given the values random() returns for this call
    (the numbers on the `create` line; calls beyond the list repeat the last one; no number = 0):
    the first of at most 200 draws whose int32 reading is positive, else the 200th draw"""
    vals = [int(x) for x in words] or [0]
    c = 0
    for i in range(200):
        c = vals[i if i < len(vals) else len(vals) - 1] & 0xFFFFFFFF
        if 0 < c < 2 ** 31:
            break
    return c


def resolve(tok, issued):
    """handle expression -> 64-bit value, or None (same rules as the harness / the Lean driver)"""
    try:
        c = tok[0]
        body = tok[1:]
        if c == "r":
            v = int(body, 16)
            return v if v < 2 ** 64 else None
        if c in "hnz":
            k = int(body)
            if k >= len(issued) or k < 0:
                return None
            h = issued[k]
            if c == "h":
                return h
            if c == "n":
                return (NOCHECK << 32) | (h & 0xFFFFFFFF)
            return h & 0xFFFFFFFF
        if c == "s":
            k, n = body.split(":")
            k = int(k)
            n = int(n)
            if k >= len(issued) or n >= 2 ** 32:
                return None
            return (issued[k] & 0xFFFFFFFF00000000) | n
        if c == "k":
            k, x = body.split(":")
            k = int(k)
            x = int(x, 16)
            if k >= len(issued) or x >= 2 ** 32:
                return None
            return (x << 32) | (issued[k] & 0xFFFFFFFF)
    except (ValueError, IndexError):
        return None
    return None


class Obj:
    __slots__ = ("k", "h", "check", "slot", "count", "destroyed", "dead", "gets", "puts", "destroys")

    def __init__(self, k, h):
        self.k = k
        self.h = h
        self.check = h >> 32
        self.slot = h & 0xFFFFFFFF
        self.count = 1
        self.destroyed = False
        self.dead = False
        self.gets = self.puts = self.destroys = 0


def analyse(ops, out):
    """-> (failure description or None, set of tags)"""
    tags = set()
    objs = []
    issued = []
    slotobj = {}          # slot -> Obj with count > 0
    usedslots = set()
    stable = set()        # objects with count>0 and not destroyed during the whole current pass
    visited = []
    pos = 0

    def fail(i, msg):
        return ("op %d `%s`: %s" % (i + 1, ops[i], msg), tags)

    byval = {}            # handle value -> objects created with it

    def classify(v):
        live = None
        stale = False
        for o in byval.get(v, ()):
            if o.dead:
                # the statement presupposes what random() guarantees (a positive 31-bit check);
                # the value of an object created with check 0 / negative is not held to it
                if 0 < o.check < 2 ** 31:
                    stale = True
                else:
                    tags.add("bad-nonce-stale-op")
            else:
                live = o
        if live is not None:
            return "live", live
        if stale:
            return "stale", None
        return "foreign", None

    npending = [0]        # objects with an accepted destroy and count > 0

    def gone(o):
        stable.discard(o.k)

    for i, op in enumerate(ops):
        w = op.split()
        if pos >= len(out):
            return fail(i, "no output (implementation stopped)")
        # collect destructor events up to the result line
        dt = []
        while pos < len(out) and out[pos].startswith("dtor "):
            dt.append(out[pos].split()[1])
            pos += 1
        if pos >= len(out):
            return fail(i, "output ends inside the call")
        res = out[pos]
        pos += 1
        if res.startswith("SAN:") or res.startswith("CRASH") or res.startswith("TIMEOUT"):
            return fail(i, "implementation outcome %s" % res)
        if res == "bad-op":
            if dt:
                return fail(i, "destructor ran in a rejected line")
            continue
        r = res.split()
        ok = (r[0] == "ok")
        cmd = w[0]
        expect_dt = []
        if cmd == "create":
            if dt:
                return fail(i, "destructor ran during create")
            if not ok:
                if (MAXSLOTS - 1) not in usedslots:
                    return fail(i, "create failed (%s) although the table is not at its limit" % res)
                tags.add("create-limit")
                continue
            if len(r) != 3 or int(r[1]) != len(objs):
                return fail(i, "unexpected create answer %r" % res)
            h = int(r[2], 16)
            o = Obj(len(objs), h)
            if o.slot in slotobj:
                return fail(i, "create returned slot %d which still holds object %d (count %d)" % (
                    o.slot, slotobj[o.slot].k, slotobj[o.slot].count))
            if o.slot in usedslots:
                tags.add("slot-reuse")
            if h in byval:
                # the same 64-bit value again: only random() repeating itself on this slot excuses that
                if drawn_check(w[1:]) != o.check:
                    return fail(i, "create re-issued the handle value %016x of destroyed object %d although "
                                "random() supplied the fresh check %08x" % (h, byval[h][-1].k, drawn_check(w[1:])))
                tags.add("collision")
            byval.setdefault(h, []).append(o)
            if o.check == 0:
                tags.add("check0-issued")
            if o.check == NOCHECK or o.check >= 2 ** 31:
                tags.add("check-negative-issued")
            if len(w) > 2:
                tags.add("multi-draw")
            usedslots.add(o.slot)
            slotobj[o.slot] = o
            objs.append(o)
            issued.append(h)
            continue
        if cmd == "dump":
            # the table itself: compared with the model only (correspondence), the statement says nothing about it
            if dt or r[0] != "tbl":
                return fail(i, "unexpected answer %r" % res)
            continue
        if cmd == "createfail":
            if dt:
                return fail(i, "destructor ran during a failing create")
            if ok or not res.startswith("E"):
                return fail(i, "unexpected answer %r to a create whose allocation fails" % res)
            tags.add("create-enomem" if res == "ENOMEM" else "create-limit")
            continue
        if cmd == "iter_reset":
            if dt or not ok:
                return fail(i, "unexpected answer %r" % res)
            stable = set(o.k for o in objs if not o.dead and not o.destroyed)
            visited = []
            continue
        if cmd == "iter_next":
            if dt:
                return fail(i, "destructor ran during iteration")
            if ok:
                if r[1] == "null":
                    return fail(i, "iteration returned a NULL instance")
                k = int(r[1])
                hv = int(r[2], 16)
                if k >= len(objs):
                    return fail(i, "iteration returned unknown object %d" % k)
                o = objs[k]
                if o.dead:
                    return fail(i, "iteration visited object %d whose count already reached 0" % k)
                if o.destroyed:
                    return fail(i, "iteration visited destroyed object %d" % k)
                if hv != o.h:
                    return fail(i, "iteration returned handle %016x for object %d (its handle is %016x)" % (hv, k, o.h))
                if k in visited:
                    return fail(i, "iteration visited object %d twice in one pass" % k)
                visited.append(k)
                o.count += 1
                o.gets += 1
                tags.add("iter-visit")
                if npending[0] > 0:
                    tags.add("iter-during-pending")
            else:
                missing = sorted(stable - set(visited))
                if missing:
                    return fail(i, "iteration ended without visiting live object(s) %s" % missing)
                tags.add("iter-end")
            continue
        # handle ops
        v = resolve(w[1], issued) if len(w) == 2 else None
        if v is None:
            return fail(i, "harness accepted a line the oracle cannot resolve")
        c, s = v >> 32, v & 0xFFFFFFFF
        kind, o = classify(v)
        if kind == "stale" and s in slotobj:
            tags.add("stale-after-reuse")
        if kind == "stale":
            tags.add("stale-op")
        if s >= 2 ** 31:
            tags.add("neg-slot")
        if cmd in ("get", "geta"):
            if dt:
                return fail(i, "destructor ran during get")
            if kind == "live":
                if o.destroyed:
                    if ok:
                        return fail(i, "get accepted after destroy of object %d" % o.k)
                    tags.add("get-refused-after-destroy")
                else:
                    if not ok:
                        return fail(i, "handle of live object %d does not resolve (%s)" % (o.k, res))
                    if r[1] != str(o.k):
                        return fail(i, "handle of object %d resolved to %s" % (o.k, r[1]))
                    o.count += 1
                    o.gets += 1
            elif kind == "stale":
                if ok:
                    return fail(i, "stale handle %016x resolved to %s" % (v, r[1]))
            else:
                if ok:
                    t = slotobj.get(s)
                    if c != NOCHECK:
                        return fail(i, "never-issued value %016x resolved to %s" % (v, r[1]))
                    if t is None or t.destroyed or r[1] != str(t.k):
                        return fail(i, "no-check get on slot %d resolved to %s" % (s, r[1]))
                    t.count += 1
                    t.gets += 1
                    tags.add("nocheck-get")
            continue
        if cmd in ("put", "destroy"):
            target = None
            if kind == "live":
                if not ok:
                    return fail(i, "%s refused on live object %d (count %d): %s" % (cmd, o.k, o.count, res))
                target = o
                if o.destroyed and cmd == "put":
                    tags.add("put-after-destroy")
                if o.destroyed and cmd == "destroy":
                    tags.add("destroy-twice")
            elif kind == "stale":
                if ok:
                    return fail(i, "%s accepted on stale handle %016x" % (cmd, v))
            else:
                if ok:
                    t = slotobj.get(s)
                    if t is not None:
                        if c != NOCHECK:
                            return fail(i, "%s with never-issued value %016x accepted on live object %d" % (cmd, v, t.k))
                        target = t
                        tags.add("nocheck-" + cmd)
                    else:
                        tags.add("foreign-accepted-on-empty-slot")
                        if dt == ["null"]:
                            # no object lives in the slot: the entry kept the reference of a failed create
                            tags.add("dtor-null-on-empty-slot")
                            dt = []
            if target is not None:
                target.count -= 1
                if cmd == "destroy":
                    target.destroys += 1
                    if not target.destroyed:
                        target.destroyed = True
                        npending[0] += 1
                        gone(target)
                else:
                    target.puts += 1
                if target.count == 0:
                    expect_dt = [str(target.k)]
                    target.dead = True
                    if target.destroyed:
                        npending[0] -= 1
                    gone(target)
                    del slotobj[target.slot]
                    tags.add("dtor")
                    if not target.destroyed:
                        tags.add("zero-without-destroy")
            if dt != expect_dt:
                return fail(i, "destructor runs %s, expected %s" % (dt, expect_dt))
            continue
        if cmd == "refcount":
            if dt:
                return fail(i, "destructor ran during refcount")
            if r[0] != "rc":
                return fail(i, "unexpected answer %r" % res)
            n = int(r[1])
            if kind == "live":
                if n != o.count:
                    return fail(i, "refcount of object %d is %d, expected 1 + %d gets - %d puts - %d destroys = %d" % (
                        o.k, n, o.gets, o.puts, o.destroys, o.count))
                if o.destroyed:
                    tags.add("refcount-pending")
            elif kind == "stale":
                if n >= 0:
                    return fail(i, "refcount accepted stale handle %016x (%d)" % (v, n))
            else:
                t = slotobj.get(s)
                if t is not None:
                    if c == NOCHECK:
                        if n >= 0 and n != t.count:
                            return fail(i, "no-check refcount of object %d is %d, expected %d" % (t.k, n, t.count))
                    elif n >= 0:
                        return fail(i, "refcount accepted never-issued value %016x on live object %d" % (v, t.k))
            continue
        return fail(i, "unknown op")
    if pos < len(out):
        return ("trailing output line %r" % out[pos], tags)
    return (None, tags)


def oracle(ops, out):
    return analyse(ops, out)[0]


def tags(ops, out):
    return analyse(ops, out)[1]


# ---------------------------------------------------------------------------- generator
class _G:
    """generator-side bookkeeping used only for steering (it may be wrong; nothing relies on it)"""

    def __init__(self, rng):
        self.rng = rng
        self.ops = []
        self.n = 0
        self.est = {}      # K -> [count estimate, destroyed, dead]
        self.used = []     # draw values used so far
        self.pool = [rng.randrange(1, 2 ** 31) for _ in range(3)] + [1, 2]

    def draws(self):
        rng = self.rng
        r = rng.random()
        if r < 0.50:
            v = [rng.randrange(1, 2 ** 31)]
        elif r < 0.70:
            v = [rng.choice(self.pool)]              # small pool: repeated checks, some on the same slot
        elif r < 0.78 and self.used:
            v = [rng.choice(self.used)]
        elif r < 0.92:
            v = [0] * rng.randrange(1, 5) + [rng.randrange(1, 2 ** 31)]
        elif r < 0.935:
            v = [0]                                   # 200 draws of 0 -> check 0
        elif r < 0.965:
            v = [rng.choice([2 ** 31 - 1, 1, 2 ** 31, 2 ** 32 - 1, 2 ** 32, 2 ** 32 + 5, 2 ** 63 - 1, 2 ** 64 - 1,
                             2 ** 32 + 2 ** 31])]
        else:
            v = [rng.choice([2 ** 32 - 1, 2 ** 31, 0, 2 ** 32]), rng.choice([2 ** 32 - 1, 0, 2 ** 33]),
                 rng.randrange(1, 2 ** 31)]
        self.used.append(v[-1])
        return v

    def create(self):
        self.ops.append("create " + " ".join(str(x) for x in self.draws()))
        self.est[self.n] = [1, False, False]
        self.n += 1

    def live(self):
        return [k for k, e in self.est.items() if not e[2]]

    def dead(self):
        return [k for k, e in self.est.items() if e[2]]

    def hexpr(self, prefer=None):
        rng = self.rng
        r = rng.random()
        if self.n == 0 or r < 0.06:
            check = rng.choice([0, NOCHECK, 1, rng.randrange(1, 2 ** 31), rng.choice(self.used or [7]) % 2 ** 32])
            slot = rng.choice([0, 1, 2, rng.randrange(0, self.n + 3), 2 ** 31, 2 ** 31 + rng.randrange(0, 4),
                               2 ** 32 - 1, 65535, 65536, 31, 32, 33])
            return "r%016x" % ((check << 32) | slot)
        if prefer == "dead" and self.dead():
            k = rng.choice(self.dead())
        elif prefer == "live" and self.live():
            k = rng.choice(self.live())
        else:
            k = rng.randrange(0, self.n)
        r = rng.random()
        if r < 0.68:
            return "h%d" % k
        if r < 0.78:
            return "n%d" % k
        if r < 0.86:
            return "z%d" % k
        if r < 0.93:
            c = rng.choice([0, NOCHECK, 1, rng.choice(self.used or [3]) % 2 ** 32, rng.randrange(0, 2 ** 32)])
            return "k%d:%x" % (k, c)
        return "s%d:%d" % (k, rng.choice([0, 1, rng.randrange(0, self.n + 2), 2 ** 31, 2 ** 32 - 1, 65536]))

    def note(self, cmd, tok):
        """rough effect on the estimates (only for plain hK / nK forms)"""
        if tok[0] not in "hn":
            return
        k = int(tok[1:])
        e = self.est.get(k)
        if e is None or e[2]:
            return
        if cmd in ("get", "geta"):
            if not e[1]:
                e[0] += 1
        elif cmd in ("put", "destroy"):
            e[0] -= 1
            if cmd == "destroy":
                e[1] = True
            if e[0] <= 0:
                e[2] = True

    def op(self, cmd, tok):
        self.ops.append("%s %s" % (cmd, tok))
        self.note(cmd, tok)


def gen_case(rng, nops=None):
    g = _G(rng)
    nops = nops or rng.randrange(6, 70)
    style = rng.random()
    # op weights by style
    if style < 0.45:       # life cycles with slot reuse
        wts = dict(create=18, get=14, geta=3, put=26, destroy=12, refcount=10, iter_reset=2, iter_next=6, drain=5, stale=8, passit=1, cfail=3)
    elif style < 0.70:     # iteration heavy
        wts = dict(create=16, get=8, geta=2, put=14, destroy=12, refcount=6, iter_reset=6, iter_next=28, drain=3, stale=3, passit=4, cfail=3)
    elif style < 0.88:     # never-issued values
        wts = dict(create=14, get=18, geta=4, put=22, destroy=12, refcount=14, iter_reset=1, iter_next=4, drain=4, stale=6, passit=1, cfail=4)
    else:                  # many objects, few ops each
        wts = dict(create=40, get=8, geta=1, put=20, destroy=12, refcount=6, iter_reset=2, iter_next=8, drain=4, stale=4, passit=2, cfail=2)
    names = list(wts)
    weights = [wts[n] for n in names]
    for _ in range(rng.randrange(1, 4)):
        g.create()
    while len(g.ops) < nops:
        cmd = rng.choices(names, weights)[0]
        if cmd == "create":
            g.create()
        elif cmd in ("iter_reset", "iter_next"):
            g.ops.append(cmd)
        elif cmd == "passit":
            g.ops.append("iter_reset")
            for _ in range(len(g.live()) + rng.randrange(0, 3)):
                g.ops.append("iter_next")
                if rng.random() < 0.25 and g.live():
                    g.op(rng.choice(["put", "destroy", "get"]), "h%d" % rng.choice(g.live()))
        elif cmd == "cfail":
            # a create whose allocation fails (often right after a slot was released), then look at what it left
            if g.live() and rng.random() < 0.5:
                k = rng.choice(g.live())
                guard = 0
                while not g.est[k][2] and guard < 12:
                    g.op("put", "h%d" % k)
                    guard += 1
            g.ops.append("createfail")
            r = rng.random()
            if r < 0.35:
                g.ops.append("iter_reset")
                for _ in range(len(g.live()) + 2):
                    g.ops.append("iter_next")
            elif r < 0.7 and g.n:
                for _ in range(rng.randrange(1, 4)):
                    k = rng.randrange(0, g.n)
                    g.op(rng.choice(["get", "geta", "put", "destroy", "refcount"]),
                         rng.choice(["n%d", "z%d", "h%d", "s%d:" + str(g.n)]) % k)
            if rng.random() < 0.5:
                g.create()
        elif cmd == "drain":
            # destroy (maybe) and put until the count is exhausted, then poke the stale handle
            if not g.live():
                continue
            k = rng.choice(g.live())
            if rng.random() < 0.6:
                g.op("destroy", "h%d" % k)
            guard = 0
            while not g.est[k][2] and guard < 12:
                g.op("put", rng.choice(["h%d", "h%d", "n%d"]) % k)
                guard += 1
            for _ in range(rng.randrange(1, 4)):
                g.op(rng.choice(["get", "geta", "put", "destroy", "refcount"]), "h%d" % k)
            if rng.random() < 0.7:
                g.create()    # probably reuses the slot
                for _ in range(rng.randrange(1, 4)):
                    g.op(rng.choice(["get", "put", "destroy", "refcount"]), "h%d" % k)
        elif cmd == "stale":
            if g.dead():
                g.op(rng.choice(["get", "geta", "put", "destroy", "refcount"]), g.hexpr("dead"))
        else:
            pref = "live" if rng.random() < 0.75 else None
            tok = g.hexpr(pref)
            g.op(cmd, tok)
        if rng.random() < 0.03:
            g.ops.append("dump")
    g.ops.append("dump")
    return g.ops


if __name__ == "__main__":
    import random
    import sys
    rng = random.Random(int(sys.argv[1]) if len(sys.argv) > 1 else 1)
    print("case 1")
    print("\n".join(gen_case(rng)))
