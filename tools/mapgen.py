#!/usr/bin/env python3
"""Generators and python oracles for the qb_map properties C17 (dictionary + notification trace)
and C18 (iterators under modification).  Common to the three implementations; what differs in the
*promise* between them is the `FLAVOUR` table (mirrors `Map.Flavour` in lean/QbVerif/Model/MapSpec.lean).

The oracles are written from the property statements / include/qb/qbmap.h and look only at the
implementation's own output (they never consult the Lean model)."""
import collections

EV_DELETED, EV_REPLACED, EV_INSERTED, EV_RECURSIVE, EV_FREE = 1, 2, 4, 8, 16

# ordered: iteration in ascending key order is promised -- "unsigned": strcmp order (bytes compared as
# unsigned char, the skiplist), "signed": byte-wise comparison of the keys as SIGNED chars (the trie:
# bytes 0x80..0xff sort before 0x01..0x7f; integrator decision: this is the trie's "ascending key
# order"), None: no order (hashtable); prefix_iter: prefix iterators restrict;
# prefix_notify: per-key notifiers are attached to key strings (trie), otherwise to present entries
FLAVOUR = {
    "ht": dict(ordered=None, prefix_iter=False, prefix_notify=False),
    "sl": dict(ordered="unsigned", prefix_iter=False, prefix_notify=False),
    "trie": dict(ordered="signed", prefix_iter=True, prefix_notify=True),
}


def signed_key(k):
    """sort key of the trie's order: the bytes of the key as signed chars"""
    return [c if c < 128 else c - 256 for c in k]
for _k in list(FLAVOUR):
    FLAVOUR["spec-" + _k] = FLAVOUR[_k]


def impl_of(ops):
    t = ops[0].split()
    return t[1] if t and t[0] == "map" and len(t) > 1 else "ht"


def key_args(ops):
    """the key / prefix arguments of the ops of a case, as bytes"""
    out = []
    for o in ops:
        t = o.split()
        if t[0] in ("put", "get", "rm", "nadd", "ndel", "ndel2") and len(t) > 1 and t[1] != "*":
            out.append(unhex(t[1]))
        elif t[0] in ("iter_new", "foreach") and len(t) > 2:
            out.append(unhex(t[2]))
        elif t[0] == "foreachs" and len(t) > 2:
            if len(t) > 3:
                out.append(unhex(t[3]))
            out += [it[2] for it in parse_script(t[2]) if len(it) > 2 and it[2] is not None]
    return out


# ------------------------------------------------------------------------------ scripted traversals
def parse_script(s):
    """SCRIPT of `foreachs STOP SCRIPT [PREFIX]` -> [(callback number, op, key bytes|None (= the key
    shown), value, lvl)] ; items: N:rm:K  N:get:K  N:put:K:V[:LVL]  N:count"""
    out = []
    if s == "-":
        return out
    for item in s.split(","):
        f = item.split(":")
        n, op = int(f[0]), f[1]
        if op == "count":
            out.append((n, op))
            continue
        k = None if f[2] == "." else unhex(f[2])
        if op == "put":
            out.append((n, op, k, int(f[3]), int(f[4]) if len(f) > 4 else 0))
        else:
            out.append((n, op, k))
    return out


def script_ops_at(script, n, shown, lvl=True):
    """the op lines (token lists) callback number n executes when it is shown `shown`"""
    out = []
    for it in script:
        if it[0] != n:
            continue
        if it[1] == "count":
            out.append(["count"])
            continue
        k = hexk(shown if it[2] is None else it[2])
        if it[1] == "put":
            out.append(["put", k, str(it[3])] + (["lvl=%d" % it[4]] if lvl and it[4] else []))
        else:
            out.append([it[1], k])
    return out


def parse_svisit(res):
    """result line of foreachs -> ([(key|None, value, [inner result tokens])], complete) or None"""
    if not res or res[0] != "visit" or len(res) < 3 or res[-1] not in ("end", "stop"):
        return None
    try:
        n = int(res[1])
        body = res[2:-1]
        vis = []
        i = 0
        while i < len(body):
            if body[i].startswith("=") or i + 1 >= len(body):
                return None
            k = None if body[i] == "null" else unhex(body[i])
            v = int(body[i + 1])
            i += 2
            inner = []
            while i < len(body) and body[i].startswith("="):
                inner.append(body[i][1:])
                i += 1
            vis.append((k, v, inner))
    except ValueError:
        return None
    if len(vis) != n:
        return None
    return vis, res[-1] == "end"


SCRIPT_ITER = "63"


def expand_scripted(ops, lines):
    """A transcript in which every `foreachs` is replaced by what it is in the C code: iter_new,
    iter_next + the operations of that callback, ..., iter_free on an iterator of its own (the notifier
    lines of the whole traversal are put in front of the iter_free result).  -> (ops, lines, truncated);
    truncated: the process ended inside a scripted traversal (what it was shown is then unknown)."""
    if not any(o.startswith("foreachs") for o in ops):
        return ops, lines, False
    tr, outcome = parse_transcript(ops, lines)
    nops, nl = [], []
    trunc = False
    for t, evs, res in tr:
        evl = ["n %d %d %s %d %d" % (i, e, "null" if k is None else hexk(k), o, n) for i, e, k, o, n in evs]
        if t[0] != "foreachs":
            nops.append(" ".join(t))
            nl += evl + ([" ".join(res)] if res is not None else [])
            continue
        pv = parse_svisit(res)
        new = "iter_new " + SCRIPT_ITER + (" " + t[3] if len(t) > 3 else "")
        if pv is None:
            trunc = res is None
            nops.append(new)
            nl += evl + ([" ".join(res)] if res is not None else [])
            continue
        vis, complete = pv
        script = parse_script(t[2])
        nops.append(new)
        nl.append("ok")
        for j, (k, v, inner) in enumerate(vis, 1):
            nops.append("iter_next " + SCRIPT_ITER)
            nl.append("%s %d" % ("null" if k is None else hexk(k), v))
            for o, r in zip(script_ops_at(script, j, k or b""), inner):
                nops.append(" ".join(o))
                nl.append(r)
        if complete:
            nops.append("iter_next " + SCRIPT_ITER)
            nl.append("end")
        nops.append("iter_free " + SCRIPT_ITER)
        nl += evl + ["ok"]
    if outcome and outcome.startswith(("SAN:", "CRASH", "TIMEOUT", "MODEL-")):
        nl.append(outcome)
    return nops, nl, trunc


def has_high_byte(ops):
    return any(c >= 0x80 for k in key_args(ops) for c in k)


def hexk(b):
    return b.hex() if b else "-"


def unhex(s):
    return b"" if s == "-" else bytes.fromhex(s)


# ------------------------------------------------------------------------------ key generators
def _alphabet(rng):
    base = [rng.choice([b"a", b"b", b"c", b"1", b"z", b"A"]) for _ in range(rng.choice([2, 2, 3]))]
    hi = [bytes([rng.choice([0x80, 0x81, 0xc3, 0xfe, 0xff])])]
    lo = [bytes([rng.choice([0x01, 0x1f, 0x7f])])]
    al = list(dict.fromkeys(base + (hi if rng.random() < 0.6 else []) + (lo if rng.random() < 0.2 else [])))
    return al


def gen_keys(rng):
    """Returns (present-candidates, near-misses): keys to put, and keys that share structure with
    them (prefixes, extensions, siblings) to be used for get/rm of absent keys."""
    style = rng.random()
    al = _alphabet(rng)
    keys = set()
    if style < 0.40:
        # prefix-closed set over a small alphabet: grow a random tree
        # (bounded number of attempts: with a one-letter alphabet only 6 keys of length <= 6 exist,
        # so `target` may be unreachable; a key enters the frontier once)
        frontier = [b""]
        target = rng.randrange(3, 30)
        for _ in range(40 * target):
            if len(keys) >= target:
                break
            p = rng.choice(frontier)
            k = p + rng.choice(al)
            if len(k) <= 6 and k not in keys:
                keys.add(k)
                frontier.append(k)
    elif style < 0.55:
        # chains: one key a prefix of another
        for _ in range(rng.randrange(1, 4)):
            k = b""
            for _ in range(rng.randrange(2, 8)):
                k += rng.choice(al)
                if rng.random() < 0.8:
                    keys.add(k)
    elif style < 0.70:
        # single characters, the whole byte range represented
        pool = [bytes([c]) for c in (1, 2, 0x20, 0x30, 0x41, 0x61, 0x62, 0x7e, 0x7f, 0x80, 0x81, 0xa0, 0xc3, 0xfe, 0xff)]
        for k in rng.sample(pool, rng.randrange(2, len(pool))):
            keys.add(k)
        if rng.random() < 0.5:
            keys.add(rng.choice(pool) + rng.choice(pool))
    elif style < 0.82:
        # long keys sharing long prefixes
        stem = b"".join(rng.choice(al) for _ in range(rng.randrange(20, 200)))
        for _ in range(rng.randrange(2, 8)):
            cut = rng.randrange(1, len(stem) + 1)
            keys.add(stem[:cut] + b"".join(rng.choice(al) for _ in range(rng.randrange(0, 40))))
        keys.add(stem)
    else:
        # branching points: "ab1","ab2" with "ab" absent; plus random words
        for _ in range(rng.randrange(1, 4)):
            stem = b"".join(rng.choice(al) for _ in range(rng.randrange(1, 4)))
            for _ in range(rng.randrange(2, 4)):
                keys.add(stem + rng.choice(al) + (rng.choice(al) if rng.random() < 0.3 else b""))
        for _ in range(rng.randrange(0, 6)):
            keys.add(bytes(rng.randrange(1, 256) for _ in range(rng.randrange(1, 5))))
    keys.discard(b"")
    if not keys:
        keys.add(rng.choice(al))
    keys = sorted(keys)
    near = set()
    for k in keys:
        for i in range(1, len(k)):
            near.add(k[:i])
        near.add(k + rng.choice(al))
        near.add(k[:-1] + rng.choice(al))
        if len(k) > 1:
            near.add(k[:-1] + bytes([k[-1] ^ 0x80 or 1]))
    near.discard(b"")
    near = sorted(near - set(keys)) or [b"q"]
    return keys, near


EVMASKS_ENTRY = [1, 2, 4, 3, 5, 6, 7, 1, 2, 4]
EVMASKS_GLOBAL = EVMASKS_ENTRY + [16, 17, 18, 19, 20, 23, 16]
HT_SIZES = [0, 1, 7, 8, 8, 8, 9, 15, 16, 16, 31, 64, 100, 1000]


class _G:
    """shared generator state"""

    def __init__(self, rng, impl):
        self.rng = rng
        self.impl = impl
        self.fl = FLAVOUR[impl]
        self.keys, self.near = gen_keys(rng)
        self.present = {}          # what the generator believes is in the map (steering only)
        self.notifs = []           # (key|None, ev, id) registered (steering only)
        self.ops = ["map %s %d" % (impl, rng.choice(HT_SIZES) if impl.endswith("ht") else 8)]
        self.nextv = 1

    def key(self, absent_bias=0.3):
        r = self.rng
        x = r.random()
        if x < absent_bias and self.near:
            return r.choice(self.near)
        if self.present and x < absent_bias + 0.45:
            return r.choice(sorted(self.present))
        return r.choice(self.keys)

    def put(self, k=None):
        r = self.rng
        k = k if k is not None else (r.choice(self.keys) if r.random() < 0.85 else self.key())
        v = self.nextv
        self.nextv += 1
        lvl = ""
        if self.impl.endswith("sl"):
            lvl = " lvl=%d" % r.choice([0, 0, 0, 1, 1, 2, 3, 4, 7, 8, 9, 12])
        self.ops.append("put %s %d%s" % (hexk(k), v, lvl))
        self.present[k] = v

    def rm(self, k=None):
        k = k if k is not None else self.key(0.35)
        self.ops.append("rm %s" % hexk(k))
        self.present.pop(k, None)

    def get(self):
        self.ops.append("get %s" % hexk(self.key(0.4)))

    def prefix(self):
        r = self.rng
        k = r.choice(self.keys + self.near)
        return k[:r.randrange(1, len(k) + 1)]

    def foreach(self):
        r = self.rng
        n = len(self.present)
        stop = r.choice([0, 0, 0, 1, 1, 2, max(1, n - 1), max(1, n), n + 1, r.randrange(1, n + 2)])
        pfx = ""
        if self.fl["prefix_iter"] and r.random() < 0.5:
            pfx = " " + hexk(self.prefix())
        self.ops.append("foreach %d%s" % (stop, pfx))

    def foreachs(self):
        """a traversal whose callback operates on the map: `foreachs STOP SCRIPT [PREFIX]`"""
        r = self.rng
        n = len(self.present)
        ncb = max(1, min(n, 6))
        sl = self.impl.endswith("sl")

        def put(cb, k):
            v = self.nextv
            self.nextv += 1
            lvl = ":%d" % r.choice([0, 0, 0, 1, 1, 2, 3, 4, 7, 8, 9, 12]) if sl else ""
            return "%d:put:%s:%d%s" % (cb, k, v, lvl)

        def other():
            x = r.random()
            if self.present and x < 0.6:
                return hexk(r.choice(sorted(self.present)))
            return hexk(r.choice(self.keys) if x < 0.85 else r.choice(self.near))
        cb = r.randrange(1, ncb + 1)
        x = r.random()
        items = []
        if x < 0.25:
            # find the entry, remove it, stop (or go on)
            items = ["%d:rm:." % cb]
            if r.random() < 0.3:
                items.append("%d:get:." % cb)
            stop = cb if r.random() < 0.7 else r.choice([0, cb + 1, cb + 2])
        elif x < 0.50:
            # remove the entry the traversal is positioned on and put it back, look it up, replace it
            items = ["%d:rm:." % cb, put(cb, ".")]
            for _ in range(r.randrange(0, 4)):
                y = r.random()
                items.append("%d:get:." % cb if y < 0.4 else put(cb, ".") if y < 0.65 else "%d:count" % cb if y < 0.8
                             else "%d:rm:." % cb)
            stop = r.choice([0, 0, cb, cb + 1, ncb + 1])
        else:
            removed_shown = False
            for _ in range(r.choice([1, 1, 2, 2, 3, 4, 6])):
                c = r.randrange(1, ncb + 2)
                y = r.random()
                if y < 0.18:
                    items.append("%d:rm:." % c)
                    removed_shown = True
                elif y < 0.36 and not (sl and removed_shown):
                    items.append("%d:rm:%s" % (c, other()))
                elif y < 0.46:
                    items.append(put(c, "."))
                elif y < 0.68:
                    items.append(put(c, other()))
                elif y < 0.80:
                    items.append("%d:get:." % c)
                elif y < 0.92:
                    items.append("%d:get:%s" % (c, other()))
                else:
                    items.append("%d:count" % c)
            items.sort(key=lambda it: int(it.split(":")[0]))      # stable: script order within a callback kept
            stop = r.choice([0, 0, 0, cb, ncb, ncb + 1, r.randrange(1, ncb + 2)])
        pfx = ""
        if self.fl["prefix_iter"] and r.random() < 0.3:
            pfx = " " + hexk(self.prefix())
        self.ops.append("foreachs %d %s%s" % (stop, ",".join(items) or "-", pfx))
        # steering only: keys named literally
        for it in parse_script(",".join(items) or "-"):
            if len(it) > 2 and it[2] is not None:
                if it[1] == "put":
                    self.present[it[2]] = it[3]
                elif it[1] == "rm":
                    self.present.pop(it[2], None)

    def notifier(self):
        r = self.rng
        x = r.random()
        if x < 0.6 or not self.notifs:
            glob = r.random() < 0.5
            if glob:
                k, ev = None, r.choice(EVMASKS_GLOBAL)
            else:
                k = self.key(0.2) if not self.fl["prefix_notify"] else (self.prefix() if r.random() < 0.5 else self.key(0.3))
                ev = r.choice(EVMASKS_ENTRY)
                if self.fl["prefix_notify"] and r.random() < 0.5:
                    ev |= EV_RECURSIVE
                if r.random() < 0.05:
                    ev |= EV_FREE       # refused with a key (EINVAL)
            ident = r.randrange(1, 6)
            self.ops.append("nadd %s %d %d" % ("*" if k is None else hexk(k), ev, ident))
            self.notifs.append((k, ev, ident))
        else:
            k, ev, ident = r.choice(self.notifs)
            if r.random() < 0.15:
                ev = r.choice(EVMASKS_GLOBAL)
            if r.random() < 0.5:
                self.ops.append("ndel %s %d" % ("*" if k is None else hexk(k), ev))
            else:
                self.ops.append("ndel2 %s %d %d" % ("*" if k is None else hexk(k), ev, ident if r.random() < 0.8 else r.randrange(1, 6)))


def gen_c17(rng, impl, nops=None):
    """C17: put/get/rm/count/foreach (complete or abandoned)/notifier add+del/destroy."""
    g = _G(rng, impl)
    nops = nops or rng.randrange(6, 70)
    style = rng.random()
    if rng.random() < 0.7:
        for _ in range(rng.randrange(0, 3)):
            g.notifier()
    for _ in range(nops):
        x = rng.random()
        pput = 0.40 if style < 0.6 else (0.55 if style < 0.8 else 0.25)
        if x < pput:
            g.put()
        elif x < pput + 0.17:
            g.rm()
        elif x < pput + 0.29:
            g.get()
        elif x < pput + 0.35:
            g.ops.append("count")
        elif x < pput + 0.41:
            g.foreach()
        elif x < pput + 0.47:
            g.foreachs()
        elif x < pput + 0.55:
            g.notifier()
        elif x < pput + 0.57:
            g.ops.append("destroy")
            g.present.clear()
            g.notifs = []
        else:
            # rm then get/rm of the same key, put twice, ...
            k = g.key(0.2)
            y = rng.random()
            if y < 0.4:
                g.rm(k)
                g.ops.append(rng.choice(["get %s", "rm %s"]) % hexk(k))
            elif y < 0.7:
                g.put(k)
                g.put(k)
            else:
                g.foreach()
                g.rm()
    tail = rng.random()
    if tail < 0.8:
        g.ops += ["count", "foreach 0"]
    if tail < 0.5:
        g.ops.append("destroy")
    return g.ops


def gen_c18(rng, impl, nops=None):
    """C18: interleavings of iterator create/next/free with put/rm/get (+count), any number of
    open iterators; usually ends with all iterators freed followed by a dictionary check."""
    g = _G(rng, impl)
    nops = nops or rng.randrange(10, 90)
    style = rng.random()
    open_ = []
    returned = {}    # iterator -> number of nexts issued (steering)
    if rng.random() < 0.5:
        g.ops.append("nadd * %d %d" % (rng.choice([1, 17, 21, 23, 16, 7]), rng.randrange(1, 6)))
    for _ in range(rng.randrange(1, min(20, len(g.keys) + 4))):
        g.put()
    maxit = rng.choice([1, 1, 2, 3, 5])
    removals_only = style < 0.35
    for _ in range(nops):
        x = rng.random()
        if (x < 0.10 and len(open_) < maxit) or (not open_ and x < 0.3):
            i = rng.choice([j for j in range(8) if j not in open_])
            pfx = ""
            if g.fl["prefix_iter"] and rng.random() < 0.4:
                pfx = " " + hexk(g.prefix())
            g.ops.append("iter_new %d%s" % (i, pfx))
            open_.append(i)
            returned[i] = 0
        elif x < 0.45 and open_:
            i = rng.choice(open_)
            g.ops.append("iter_next %d" % i)
            returned[i] += 1
            if rng.random() < 0.25:
                # operate on what the iterator is likely parked on: remove some present key twice,
                # look it up, re-insert it
                k = g.key(0.05)
                y = rng.random()
                g.rm(k)
                if y < 0.3:
                    g.ops.append("get %s" % hexk(k))
                elif y < 0.55:
                    g.rm(k)
                elif y < 0.7 and not removals_only:
                    g.put(k)
        elif x < 0.52 and open_:
            i = rng.choice(open_)
            g.ops.append("iter_free %d" % i)
            open_.remove(i)
        elif x < 0.72:
            g.rm(None if rng.random() < 0.8 or not g.present else rng.choice(sorted(g.present)))
        elif x < 0.84:
            if removals_only:
                g.get()
            else:
                g.put()
        elif x < 0.92:
            g.get()
        elif x < 0.96:
            g.ops.append("count")
        elif x < 0.98 and g.present:
            # remove everything
            for k in sorted(g.present):
                g.rm(k)
        else:
            g.ops.append(rng.choice(["iter_next %d", "iter_free %d"]) % rng.randrange(0, 8))   # maybe bad-iter
    end = rng.random()
    if end < 0.85:
        # run some iterators to the end, free all of them
        for i in list(open_):
            if rng.random() < 0.6:
                g.ops += ["iter_next %d" % i] * (len(g.present) + 2)
            g.ops.append("iter_free %d" % i)
        open_ = []
        for _ in range(rng.randrange(2, 10)):
            y = rng.random()
            if y < 0.35:
                g.get()
            elif y < 0.6:
                g.rm()
            elif y < 0.85:
                g.put()
            else:
                g.ops.append("count")
        g.ops += ["count", "foreach 0"]
        if rng.random() < 0.5:
            g.ops.append("destroy")
    return g.ops


# ------------------------------------------------------------------------------ transcript parsing
def parse_transcript(ops, lines):
    """-> (list of (op tokens, [event tuples], result tokens|None), outcome) ; outcome = SAN:/CRASH
    line or None.  Event tuple = (id, ev, key bytes|None, old, new)."""
    out = []
    i = 0
    outcome = None
    n = len(lines)
    for op in ops:
        t = op.split()
        evs = []
        res = None
        while i < n:
            l = lines[i]
            i += 1
            if l.startswith("SAN:") or l.startswith("CRASH") or l.startswith("TIMEOUT") or l.startswith("MODEL-"):
                outcome = l
                break
            w = l.split()
            if w and w[0] == "n" and len(w) == 6:
                evs.append((int(w[1]), int(w[2]), None if w[3] == "null" else unhex(w[3]), int(w[4]), int(w[5])))
                continue
            res = w
            break
        out.append((t, evs, res))
        if outcome:
            break
        if res is None:
            outcome = outcome or "TRUNCATED"
            break
    if outcome is None and i < n:
        rest = [l for l in lines[i:] if l.strip()]
        if rest:
            outcome = rest[0] if rest[0].startswith(("SAN:", "CRASH", "TIMEOUT")) else "EXTRA-OUTPUT " + rest[0]
    return out, outcome


# ------------------------------------------------------------------------------ the dictionary spec
class Spec:
    """Dictionary + notifier registry as documented in qbmap.h (see the header of
    lean/QbVerif/Model/MapSpec.lean for the reading of the documentation)."""

    def __init__(self, fl):
        self.fl = fl
        self.d = {}            # key -> value
        self.entry_ns = {}     # key -> [(ev, id)] newest first        (entry-attached flavours)
        self.pfx_ns = {}       # key string -> [(ev, id)]              (prefix flavour)
        self.globals = []      # [(ev, id)]: newest first, FREE ones appended

    @staticmethod
    def _clash(l, ev, ident):
        return any(((ev & EV_FREE) and fev == ev) or (fev == ev and fid == ident) for fev, fid in l)

    def _global_calls(self, ev, k, old, new):
        out = []
        for fev, fid in self.globals:
            if fev & ev:
                out.append((fid, ev, k, old, new))
            if (ev & (EV_DELETED | EV_REPLACED)) and (fev & EV_FREE):
                out.append((fid, EV_FREE, k, old, new))
        return out

    def notify(self, ev, k, old, new):
        out = []
        if self.fl["prefix_notify"]:
            for p in sorted((p for p in self.pfx_ns if k.startswith(p)), key=len, reverse=True):
                for fev, fid in self.pfx_ns[p]:
                    if (fev & ev) and ((fev & EV_RECURSIVE) or p == k):
                        out.append((fid, ev, k, old, new))
        else:
            for fev, fid in self.entry_ns.get(k, []):
                if fev & ev:
                    out.append((fid, ev, k, old, new))
        return out + self._global_calls(ev, k, old, new)

    # each returns (expected events, expected result tokens)
    def put(self, k, v):
        if k in self.d:
            old = self.d[k]
            self.d[k] = v
            return self.notify(EV_REPLACED, k, old, v), ["ok"]
        self.d[k] = v
        return self.notify(EV_INSERTED, k, 0, v), ["ok"]

    def get(self, k):
        return [], [str(self.d[k])] if k in self.d else ["none"]

    def rm(self, k):
        if k not in self.d:
            return [], ["0"]
        evs = self.notify(EV_DELETED, k, self.d[k], 0)
        del self.d[k]
        if not self.fl["prefix_notify"]:
            self.entry_ns.pop(k, None)
        return evs, ["1"]

    def count(self):
        return [], [str(len(self.d))]

    def nadd(self, k, ev, ident):
        if k is None:
            if self._clash(self.globals, ev, ident):
                return [], ["E"]
            if ev & EV_FREE:
                self.globals.append((ev, ident))
            else:
                self.globals.insert(0, (ev, ident))
            return [], ["0"]
        if ev & EV_FREE:
            return [], ["E"]
        if self.fl["prefix_notify"]:
            l = self.pfx_ns.setdefault(k, [])
            if self._clash(l, ev, ident):
                return [], ["E"]
            if ev & EV_RECURSIVE:
                l.append((ev, ident))
            else:
                l.insert(0, (ev, ident))
            return [], ["0"]
        if k not in self.d:
            return [], ["E"]
        l = self.entry_ns.setdefault(k, [])
        if self._clash(l, ev, ident):
            return [], ["E"]
        l.insert(0, (ev, ident))
        return [], ["0"]

    def ndel(self, k, ev, ident):
        if k is None:
            l = self.globals
        elif self.fl["prefix_notify"]:
            l = self.pfx_ns.get(k, [])
        else:
            if k not in self.d:
                return [], ["E"]
            l = self.entry_ns.get(k, [])
        keep = [(fev, fid) for fev, fid in l if not (fev == ev and (ident is None or fid == ident))]
        if len(keep) == len(l):
            return [], ["E"]
        l[:] = keep
        return [], ["0"]

    def destroy(self):
        evs = []
        for k in sorted(self.d):
            evs += self.notify(EV_DELETED, k, self.d[k], 0)
        self.d = {}
        self.entry_ns = {}
        self.pfx_ns = {}
        self.globals = []
        return evs, ["ok"]

    def range(self, pfx):
        ks = sorted(self.d, key=signed_key) if self.fl["ordered"] == "signed" else sorted(self.d)
        if self.fl["prefix_iter"] and pfx is not None:
            ks = [k for k in ks if k.startswith(pfx)]
        return ks


def _canon_rc(w):
    if w and w[0] != "0" and w[0].startswith("E"):
        return ["E"]
    return w


def _key_arg(s):
    return None if s == "*" else unhex(s)


def _check_visit(spec, t, res):
    """foreach result against the dictionary; returns description or None"""
    stop = int(t[1])
    pfx = unhex(t[2]) if len(t) > 2 else None
    if not res or res[0] != "visit" or len(res) < 3:
        return "malformed traversal result %r" % " ".join(res or [])
    n = int(res[1])
    items = res[2:-1]
    if len(items) != 2 * n:
        return "malformed traversal result"
    got = [(unhex(items[2 * j]) if items[2 * j] != "null" else None, int(items[2 * j + 1])) for j in range(n)]
    ks = spec.range(pfx)
    want_n = len(ks) if stop == 0 else min(stop, len(ks))
    complete = stop == 0 or len(ks) < stop
    if (res[-1] == "end") != complete:
        return "traversal ended with %s, expected %s" % (res[-1], "end" if complete else "stop")
    if n != want_n:
        return "traversal visited %d entries, expected %d" % (n, want_n)
    if spec.fl["ordered"]:
        want = [(k, spec.d[k]) for k in ks[:want_n]]
        if got != want:
            return "traversal visited %s, expected %s" % (_fmt(got), _fmt(want))
    else:
        seen = set()
        for k, v in got:
            if k not in spec.d or spec.d[k] != v:
                return "traversal visited %s which is not in the map" % _fmt([(k, v)])
            if k in seen:
                return "traversal visited key %s twice" % hexk(k)
            seen.add(k)
        if complete and seen != set(ks):
            return "complete traversal missed keys %s" % ",".join(hexk(k) for k in sorted(set(ks) - seen))
    return None


def _check_scripted(spec, t, res, on_insert=None, on_rm=None, ever=None):
    """`foreachs STOP SCRIPT [PREFIX]` against the dictionary, which is updated by the operations the
    callbacks perform.  Returns (description|None, notifier calls expected over the whole traversal).
    * every operation a callback performs gives the dictionary's result (get = latest put or nothing,
      rm = 1 iff present, count = number of keys), at the moment it is performed;
    * the pair a callback is shown is in the dictionary at that moment (and has the prefix);
    * no key is shown twice unless a key was inserted during the traversal; in ascending order (ordered
      flavours) as long as nothing was inserted;
    * the traversal stops exactly at the STOP-th callback; when it runs to the end, every key present
      from its beginning to its end was shown;
    * notifier calls (checked by the caller, as a multiset over the traversal: a DELETED/FREE of an
      entry removed while the traversal is positioned on it may come later, but before the traversal
      returns): those of the dictionary operations performed."""
    fl = spec.fl
    stop = int(t[1])
    try:
        script = parse_script(t[2])
    except (ValueError, IndexError):
        return "malformed script", []
    pfx = unhex(t[3]) if (len(t) > 3 and fl["prefix_iter"]) else None
    pv = parse_svisit(res)
    if pv is None:
        return "malformed traversal result %r" % " ".join(res or [])[:200], []
    vis, complete = pv
    stable = set(spec.range(pfx))
    returned = []
    inserted = False
    exp = []
    okey = (lambda k: signed_key(k)) if fl["ordered"] == "signed" else (lambda k: k)
    for j, (k, v, inner) in enumerate(vis, 1):
        if k not in spec.d or spec.d[k] != v:
            return "callback %d was shown %s which is not in the dictionary at that moment" % (j, _fmt([(k, v)])), exp
        if pfx is not None and not k.startswith(pfx):
            return "callback %d of a prefix traversal was shown key %s" % (j, hexk(k)), exp
        if not inserted:
            if k in returned:
                return "callback %d was shown key %s a second time although nothing was inserted meanwhile" % (j, hexk(k)), exp
            if fl["ordered"] and returned and not okey(returned[-1]) < okey(k):
                return "callback %d was shown key %s after %s: not in ascending order" % (j, hexk(k), hexk(returned[-1])), exp
        returned.append(k)
        if stop > 0 and j > stop:
            return "traversal went on after its callback had stopped it at call %d" % stop, exp
        todo = script_ops_at(script, j, k)
        if len(inner) != len(todo):
            return "callback %d performed %d operations, its script has %d" % (j, len(inner), len(todo)), exp
        for o, r in zip(todo, inner):
            if o[0] == "put":
                kk = unhex(o[1])
                if kk not in spec.d:
                    inserted = True
                    if on_insert:
                        on_insert(kk)
                if ever is not None:
                    ever.add(kk)
            elif o[0] == "rm":
                stable.discard(unhex(o[1]))
                if on_rm:
                    on_rm(unhex(o[1]))
            eevs, eres = apply_op(spec, o)
            exp += eevs
            if [r] != eres:
                return "callback %d, `%s`: result `%s`, a dictionary gives `%s`" % (j, " ".join(o), r, " ".join(eres)), exp
    n = len(vis)
    if complete:
        if stop > 0 and n >= stop:
            return "traversal made %d callbacks and ran to the end although the callback stops it at call %d" % (n, stop), exp
        missing = stable - set(returned)
        if missing:
            return "complete traversal did not show %s, present during the whole traversal" % ",".join(
                hexk(k) for k in sorted(missing)), exp
    elif n != stop:
        return "traversal stopped after %d callbacks, its callback stops it at call %d" % (n, stop), exp
    return None, exp


def _fmt(pairs):
    return "[" + " ".join("%s:%d" % ("null" if k is None else hexk(k), v) for k, v in pairs) + "]"


def _fmt_evs(evs):
    return "[" + "; ".join("id%d ev%d %s %d->%d" % (i, e, "null" if k is None else hexk(k), o, n) for i, e, k, o, n in evs) + "]"


def apply_op(spec, t):
    """expected (events, result tokens) of a non-iterator op, updating the spec"""
    if t[0] == "put":
        return spec.put(unhex(t[1]), int(t[2]))
    if t[0] == "get":
        return spec.get(unhex(t[1]))
    if t[0] == "rm":
        return spec.rm(unhex(t[1]))
    if t[0] == "count":
        return spec.count()
    if t[0] == "nadd":
        return spec.nadd(_key_arg(t[1]), int(t[2]), int(t[3]))
    if t[0] == "ndel":
        return spec.ndel(_key_arg(t[1]), int(t[2]), None)
    if t[0] == "ndel2":
        return spec.ndel(_key_arg(t[1]), int(t[2]), int(t[3]))
    if t[0] == "destroy":
        return spec.destroy()
    return None


# ------------------------------------------------------------------------------ C17 oracle
def oracle_c17(ops, lines):
    """C17 on the implementation's own output: results are those of a dictionary; per operation the
    notifier calls are exactly (as a multiset) those the registered notifiers subscribed to, with
    the right key / old / new, per-key notifiers before global ones, FREE once per value leaving."""
    impl = impl_of(ops)
    fl = FLAVOUR.get(impl)
    if fl is None:
        return None
    tr, outcome = parse_transcript(ops, lines)
    spec = Spec(fl)
    for idx, (t, evs, res) in enumerate(tr):
        where = "op %d `%s`: " % (idx + 1, " ".join(t))
        if res is None:
            break
        if t[0] == "map":
            if res != ["ok"]:
                return where + "map creation failed: " + " ".join(res)
            continue
        if t[0] == "foreach":
            d = _check_visit(spec, t, res)
            if d:
                return where + d
            if evs:
                return where + "unexpected notifier calls during a traversal " + _fmt_evs(evs)
            continue
        if t[0] == "foreachs":
            d, eevs = _check_scripted(spec, t, res)
            if d:
                return where + d
            if collections.Counter(evs) != collections.Counter(eevs):
                return where + "notifier calls during the traversal %s, expected (once each, before it returns) %s" % (
                    _fmt_evs(evs), _fmt_evs(eevs))
            continue
        if t[0] in ("iter_new", "iter_next", "iter_free"):
            continue        # C18's business
        exp = apply_op(spec, t)
        if exp is None:
            continue
        eevs, eres = exp
        if _canon_rc(res) != eres:
            return where + "result `%s`, a dictionary gives `%s`" % (" ".join(res), " ".join(eres))
        if collections.Counter(evs) != collections.Counter(eevs):
            return where + "notifier calls %s, expected %s" % (_fmt_evs(evs), _fmt_evs(eevs))
    if outcome:
        return "implementation died / misbehaved: %s (after %d ops)" % (outcome, len(tr))
    return None


# ------------------------------------------------------------------------------ C18 oracle
def oracle_c18(ops, lines):
    """C18 on the implementation's own output:
       * no memory error (no SAN:/CRASH outcome; LeakSanitizer at exit included),
       * every key present from iter_new until the iterator reports the end is returned by it;
         exactly once if no new key was inserted meanwhile; a returned key has been put before and
         the returned pair is in the dictionary at that moment (as the Lean monitor IterMon: `stale`);
         after reporting the end an iterator keeps reporting the end,
       * get/rm/count/put/foreach behave like a dictionary (the surviving entries) — checked on
         every such op of the history, in particular after the iterators are gone,
       * over the whole case (when it ends with no iterator open) the notifier calls are, as a
         multiset, those of the dictionary (a DELETED/FREE may be deferred until the last iterator
         leaves the node, but happens exactly once)."""
    impl = impl_of(ops)
    fl = FLAVOUR.get(impl)
    if fl is None:
        return None
    tr, outcome = parse_transcript(ops, lines)
    spec = Spec(fl)
    ever = set()
    watches = {}      # id -> dict(stable, returned(list), inserted, ended, pfx)
    all_evs = collections.Counter()
    exp_evs = collections.Counter()
    for idx, (t, evs, res) in enumerate(tr):
        where = "op %d `%s`: " % (idx + 1, " ".join(t))
        if res is None:
            break
        all_evs.update(evs)
        if t[0] == "map":
            continue
        if t[0] == "iter_new":
            i = int(t[1])
            if res == ["ok"]:
                if i in watches:
                    return where + "harness opened iterator %d twice" % i
                pfx = unhex(t[2]) if (len(t) > 2 and fl["prefix_iter"]) else None
                watches[i] = dict(stable=set(spec.range(pfx)), returned=[], inserted=False, ended=False, pfx=pfx)
            elif res != ["bad-iter"]:
                return where + "result `%s`" % " ".join(res)
            continue
        if t[0] == "iter_next":
            i = int(t[1])
            w = watches.get(i)
            if w is None:
                if res != ["bad-iter"]:
                    return where + "result `%s` for an iterator that is not open" % " ".join(res)
                continue
            if res == ["end"]:
                missing = w["stable"] - set(w["returned"])
                if missing:
                    return where + "iterator %d ended without returning %s, present during the whole iteration" % (
                        i, ",".join(hexk(k) for k in sorted(missing)))
                w["ended"] = True
            elif len(res) == 2:
                k = None if res[0] == "null" else unhex(res[0])
                if k not in ever:
                    return where + "iterator %d returned key %s which was never put" % (i, res[0])
                if k not in spec.d or str(spec.d[k]) != res[1]:
                    return where + "iterator %d returned %s %s which is not in the dictionary at that moment" % (i, res[0], res[1])
                if w["ended"]:
                    return where + "iterator %d returned key %s after it had reported the end" % (i, res[0])
                if not w["inserted"] and k in w["returned"]:
                    return where + "iterator %d returned key %s twice although nothing was inserted meanwhile" % (i, res[0])
                if w["pfx"] is not None and not k.startswith(w["pfx"]):
                    return where + "prefix iterator %d returned key %s" % (i, res[0])
                w["returned"].append(k)
            else:
                return where + "result `%s`" % " ".join(res)
            continue
        if t[0] == "iter_free":
            i = int(t[1])
            if i in watches:
                if res != ["ok"]:
                    return where + "result `%s`" % " ".join(res)
                del watches[i]
            elif res != ["bad-iter"]:
                return where + "result `%s` for an iterator that is not open" % " ".join(res)
            continue
        if t[0] == "foreach":
            d = _check_visit(spec, t, res)
            if d:
                return where + d
            continue
        if t[0] == "foreachs":
            def _ins(k):
                for w in watches.values():
                    w["inserted"] = True

            def _rm(k):
                for w in watches.values():
                    w["stable"].discard(k)
            d, eevs = _check_scripted(spec, t, res, _ins, _rm, ever)
            if d:
                return where + d
            exp_evs.update(eevs)
            continue
        if t[0] == "destroy" and watches:
            if res != ["EBUSY"]:
                return where + "harness destroyed a map with open iterators"
            continue
        if t[0] == "put":
            k = unhex(t[1])
            if k not in spec.d:
                for w in watches.values():
                    w["inserted"] = True
            ever.add(k)
        if t[0] == "rm":
            k = unhex(t[1])
            for w in watches.values():
                w["stable"].discard(k)
        exp = apply_op(spec, t)
        if exp is None:
            continue
        eevs, eres = exp
        exp_evs.update(eevs)
        if _canon_rc(res) != eres:
            return where + "result `%s`, a dictionary holding the surviving entries gives `%s`%s" % (
                " ".join(res), " ".join(eres), " (iterators open)" if watches else "")
    if outcome:
        return "memory error / abnormal end: %s (after %d ops)" % (outcome, len(tr))
    if not watches and all_evs != exp_evs:
        extra = all_evs - exp_evs
        miss = exp_evs - all_evs
        return "notifier calls over the whole case differ from the dictionary's: missing %s, extra %s" % (
            _fmt_evs(sorted(miss.elements(), key=str)), _fmt_evs(sorted(extra.elements(), key=str)))
    return None


# ------------------------------------------------------------------------------ correspondence
def compare_exact(ops, il, ml):
    """model vs implementation: exact equality of the transcript (results, notifier lines and their
    order); error codes included (they are part of what the model follows)."""
    if il == ml:
        return None
    for i in range(max(len(il), len(ml))):
        x = il[i] if i < len(il) else "<missing>"
        y = ml[i] if i < len(ml) else "<missing>"
        if x != y:
            return "line %d: impl=%r model=%r" % (i + 1, x[:80], y[:80])
    return None


# ------------------------------------------------------------------------------ coverage tags
def tags(ops, lines):
    """which interesting situations a case reached (evidence: distinct_nontrivial, hit:<tag>)"""
    tg = set()
    if any(o.startswith("foreachs") for o in ops):
        # scripted traversals: their own tags, then the tags of the equivalent iterator history
        for t, evs, res in parse_transcript(ops, lines)[0]:
            pv = parse_svisit(res) if t[0] == "foreachs" else None
            if pv is None:
                continue
            vis, complete = pv
            script = parse_script(t[2])
            tg.add("scripted-" + ("end" if complete else "stop"))
            for j, (k, v, inner) in enumerate(vis, 1):
                todo = script_ops_at(script, j, k or b"")
                done = [(o, r) for o, r in zip(todo, inner)]
                gone = False
                for o, r in done:
                    shown = len(o) > 1 and o[1] == hexk(k or b"")
                    if o[0] == "rm" and shown and r == "1":
                        gone = True
                        tg.add("scripted-rm-shown")
                    elif o[0] == "rm" and r == "1":
                        tg.add("scripted-rm-other")
                    elif o[0] == "put" and shown and gone:
                        gone = False
                        tg.add("scripted-reput-shown")
                    elif o[0] == "put":
                        tg.add("scripted-put")
                    elif o[0] == "get" and shown and gone:
                        tg.add("scripted-get-removed-shown")
                if gone and j == len(vis) and not complete:
                    tg.add("scripted-rm-shown-then-stop")
                if gone and evs:
                    tg.add("scripted-deferred-delete")
        ops, lines, _ = expand_scripted(ops, lines)
    tr, outcome = parse_transcript(ops, lines)
    present = {}
    parked = {}
    open_ = set()
    removed_while_parked = set()
    for t, evs, res in tr:
        if res is None:
            continue
        if t[0] == "put":
            k = unhex(t[1])
            tg.add("replace" if k in present else "insert")
            if k in removed_while_parked:
                tg.add("reinsert-while-zombie")
            if any(k != q and (q.startswith(k) or k.startswith(q)) for q in present):
                tg.add("key-prefix-of-key")
            if len(k) > 40:
                tg.add("long-key")
            if any(c >= 0x80 for c in k):
                tg.add("high-byte")
            present[k] = 1
        elif t[0] == "rm":
            k = unhex(t[1])
            if res == ["1"]:
                tg.add("rm-present")
                if k in parked.values():
                    tg.add("rm-parked")
                    removed_while_parked.add(k)
                if len(present) == 1 and open_:
                    tg.add("rm-last-under-iter")
            else:
                tg.add("rm-absent")
                if any(q.startswith(k) or k.startswith(q) for q in present):
                    tg.add("rm-absent-sharing")
                if k in removed_while_parked:
                    tg.add("rm-twice-zombie")
            present.pop(k, None)
        elif t[0] == "get" and unhex(t[1]) in removed_while_parked:
            tg.add("get-zombie")
        elif t[0] == "foreach" and res and res[0] == "visit":
            tg.add("foreach-" + res[-1])
            if len(t) > 2:
                tg.add("foreach-prefix")
        elif t[0] == "iter_new" and res == ["ok"]:
            open_.add(t[1])
            if len(open_) > 1:
                tg.add("multi-iter")
        elif t[0] == "iter_next" and res and res != ["bad-iter"]:
            if res == ["end"]:
                tg.add("iter-end")
                if parked.get(t[1], 0) is None:
                    tg.add("next-after-end")
                parked[t[1]] = None
            elif len(res) == 2:
                parked[t[1]] = unhex(res[0])
            if evs:
                tg.add("deferred-delete")
        elif t[0] == "iter_free" and res == ["ok"]:
            if parked.get(t[1]) is not None:
                tg.add("iter-abandoned")
            if evs:
                tg.add("deferred-delete")
            open_.discard(t[1])
            k = parked.pop(t[1], None)
            if k is not None and k not in parked.values():
                removed_while_parked.discard(k)
        elif t[0] in ("nadd", "ndel", "ndel2") and res:
            tg.add(t[0] + ("-ok" if res == ["0"] else "-err"))
        elif t[0] == "destroy" and res == ["ok"]:
            tg.add("destroy")
            present.clear()
        if evs:
            for e in evs:
                tg.add("ev%d" % e[1])
    if outcome:
        tg.add("outcome-" + outcome.split()[0])
    return tg


# ------------------------------------------------------------------------------ known-finding classes
def k_c18_ht(ops, lines):
    """Class predicate K_C18_ht / K_C18_trie on a transcript: some rm/put/get/nadd/ndel names, or some
    iterator returns, a key while it is removed-but-referenced (an iterator's last returned key that has been removed and
    not yet left by every iterator parked on it)."""
    ops, lines, _ = expand_scripted(ops, lines)
    tr, _ = parse_transcript(ops, lines)
    parked = {}
    zombies = set()
    for t, evs, res in tr:
        if res is None:
            break
        if t[0] in ("rm", "put", "get", "nadd", "ndel", "ndel2") and t[1] != "*":
            k = unhex(t[1])
            if k in zombies:
                return True
            if t[0] == "rm" and res == ["1"] and k in parked.values():
                zombies.add(k)
        elif t[0] == "iter_next" and res and res != ["bad-iter"]:
            old = parked.get(t[1])
            parked[t[1]] = unhex(res[0]) if len(res) == 2 else None
            if old is not None and old not in parked.values():
                zombies.discard(old)
            if parked[t[1]] in zombies:
                return True
        elif t[0] == "iter_free" and res == ["ok"]:
            old = parked.pop(t[1], None)
            if old is not None and old not in parked.values():
                zombies.discard(old)
    return False


def k_c18_sl(ops, lines):
    """K_C18_sl (D16, takeover-and-repoint in skiplist_rm), decided by replaying the history on the
    ownership of the forward arrays as lib/skiplist.c handles it (list order = strcmp order of the
    keys the dictionary holds; `rm`/`iter_next` results taken from the transcript):

    * skiplist_rm(F) with level-0 predecessor P (a node or the header) "takes over" when an iterator
      is parked on F or P is the header: P's array is FREED, P continues with F's array, F (if
      referenced: removed-but-referenced, "zombie") keeps reading that same array.  Otherwise F is
      destroyed together with its array.  So the array a zombie Z reads is owned by Z's predecessor
      at removal time, and passes on to the owner's predecessor whenever the owner is itself removed
      with takeover.
    * the array of a zombie Z is therefore freed under it by a further successful rm
        (i)  of the list successor of the array's current owner O, when an iterator is parked on that
             successor or O is the header (takeover frees O's array), or
        (ii) of O itself, when no iterator is parked on O and O's predecessor is not the header
             (O is destroyed with the array);
      class (A): after that, an iterator still parked on Z calls iter_next (reads the freed array).
    * an rm that empties the list lowers list->level to -1, the value skiplist_node_destroy takes
      for "teardown": a zombie destroyed then frees the array it reads, which the header owns;
      class (B): the last iterator leaves a zombie (iter_next, iter_free, or the harness's clean-up
      at the end of the case) while the map is empty.

    Everything else (rm of a parked entry followed by put/get/next, rm of entries that are neither
    the owner nor its successor, several iterators, zombies that are left by iter_free before the
    array is read, ...) is outside the class."""
    if impl_of(ops) != "sl":
        return False
    ops, lines, trunc = expand_scripted(ops, lines)
    if trunc:
        return True      # died inside a scripted traversal: what it was positioned on is not in the transcript
    tr, outcome = parse_transcript(ops, lines)
    HDR = ("hdr", 0)
    lst = []              # keys in the list, ascending
    node = {}             # key -> node id (key, incarnation)
    inc = {}
    arr = {HDR: 0}        # in-list node id (or HDR) -> array id
    nxt = [1]
    zarr = {}             # zombie node id -> array id it reads
    freed = set()
    parked = {}           # iterator -> node id | HDR | None (ended)
    level_neg = False

    def refs(n):
        return sum(1 for q in parked.values() if q == n)

    def leave(n):
        """an iterator leaves node n (already taken out of `parked`); True = class (B)"""
        if n in zarr and refs(n) == 0:
            a = zarr.pop(n)
            if level_neg:
                freed.add(a)
                return True
        return False
    for t, evs, res in tr:
        if t[0] == "iter_next" and t[1] in parked:
            n = parked[t[1]]
            if n in zarr and zarr[n] in freed:
                return True                      # class (A): reads the freed array (ASan stops here)
            if res is None or res == ["bad-iter"]:
                break
            k = unhex(res[0]) if len(res) == 2 and res[0] != "null" else None
            parked[t[1]] = node.get(k) if k is not None else None
            if n is not None and leave(n):
                return True
            continue
        if t[0] == "iter_free" and t[1] in parked and (res is None or res == ["ok"]):
            # (also when the op is the one the sanitizer stopped in: the zombie's destruction frees
            # the array a second time / under the header)
            n = parked.pop(t[1])
            if n is not None and leave(n):
                return True
            if res is None:
                break
            continue
        if res is None:
            break
        if t[0] == "put":
            k = unhex(t[1])
            if k not in node:
                inc[k] = inc.get(k, 0) + 1
                node[k] = (k, inc[k])
                arr[node[k]] = nxt[0]
                nxt[0] += 1
                lst.append(k)
                lst.sort()
                level_neg = False
        elif t[0] == "rm" and res == ["1"]:
            k = unhex(t[1])
            if k not in node:
                continue                         # not a dictionary history any more; not this class's business
            f = node.pop(k)
            idx = lst.index(k)
            pred = node[lst[idx - 1]] if idx > 0 else HDR
            lst.pop(idx)
            if refs(f) > 0 or pred == HDR:
                freed.add(arr[pred])
                arr[pred] = arr.pop(f)
                if refs(f) > 0:
                    zarr[f] = arr[pred]
            else:
                freed.add(arr.pop(f))
            if not lst:
                level_neg = True
        elif t[0] == "iter_new" and res == ["ok"]:
            parked[t[1]] = HDR
        elif t[0] == "destroy" and res == ["ok"]:
            lst, node, zarr, freed, level_neg = [], {}, {}, set(), False
            arr = {HDR: nxt[0]}
            nxt[0] += 1
    else:
        # the whole case ran: the harness frees the iterators still open, then destroys the map
        for i in list(parked):
            n = parked.pop(i)
            if n is not None and leave(n):
                return True
    return False


def k_c18_trie_split(ops, lines):
    """K_C18_trie_split (D83): trie; a key K that has no entry is inserted (put of an absent key, or
    nadd with key K, which creates K's node) while an open iterator is parked on a key P (the last key
    it returned) whose node the insertion may split: K != P, K and P share a non-empty prefix of
    length L, P is not a prefix of K, and no key present in the map is a proper prefix of P of
    length >= L (such an entry ends a node at or below the point where K leaves P's path, so the node
    holding P is not the one that is split); OR such a K is inserted while a PREFIX iterator is open whose
    prefix R it shares a first byte with without starting with R (the node R names may be split: the
    iterator's root then covers keys outside the prefix)."""
    if impl_of(ops) != "trie":
        return False
    ops, lines, _ = expand_scripted(ops, lines)
    tr, _ = parse_transcript(ops, lines)
    parked = {}
    roots = {}          # open PREFIX iterators: id -> prefix (the node the prefix names is the iterator's root)
    present = set()
    for t, evs, res in tr:
        if res is None:
            break
        if t[0] == "iter_new" and res == ["ok"] and len(t) > 2 and t[2] not in ("-", "*"):
            roots[t[1]] = unhex(t[2])
        if t[0] in ("put", "nadd") and t[1] != "*":
            k = unhex(t[1])
            if k not in present:
                # the same mechanism on the iterator's ROOT: an insertion that leaves the prefix's path inside the
                # prefix (shares a non-empty proper part of it) may split the node the prefix names; the upper half
                # keeps the iterator's root pointer and the traversal then runs outside the prefix (conservative:
                # every such insertion while the prefix iterator is open)
                for r in roots.values():
                    if r and not k.startswith(r) and k[:1] == r[:1]:
                        return True
                for q in parked.values():
                    if q is None or q == k or k.startswith(q):
                        continue
                    n = 0
                    while n < min(len(q), len(k)) and q[n] == k[n]:
                        n += 1
                    if n == 0:
                        continue
                    if any(len(x) >= n and len(x) < len(q) and q.startswith(x) for x in present):
                        continue
                    return True
            if t[0] == "put":
                present.add(k)
        elif t[0] == "rm" and res == ["1"]:
            present.discard(unhex(t[1]))
        elif t[0] == "destroy" and res == ["ok"]:
            present.clear()
        elif t[0] == "iter_next" and res and res != ["bad-iter"]:
            parked[t[1]] = unhex(res[0]) if len(res) == 2 and res[0] != "null" else None
        elif t[0] == "iter_free" and res == ["ok"]:
            parked.pop(t[1], None)
            roots.pop(t[1], None)
    return False


def k_c17_trie_ndel_prefix(ops, lines):
    """K_C17_trie_ndel_prefix (D84): trie; a notify_del (ndel / ndel2) names a key K that is a proper
    prefix of a key K' on which a notify_add succeeded earlier in the case (since the last destroy):
    trie_notify_del looks K up without exact match, so when K ends inside the segment of K''s node the
    call is accepted and removes K''s notifiers."""
    if impl_of(ops) != "trie":
        return False
    tr, _ = parse_transcript(ops, lines)
    reg = set()
    for t, evs, res in tr:
        if res is None:
            break
        if t[0] == "nadd" and t[1] != "*" and res == ["0"]:
            reg.add(unhex(t[1]))
        elif t[0] in ("ndel", "ndel2") and t[1] != "*":
            k = unhex(t[1])
            if any(len(q) > len(k) and q.startswith(k) for q in reg):
                return True
        elif t[0] == "destroy" and res == ["ok"]:
            reg.clear()
    return False


# class name (as in KNOWN_FINDINGS.txt `class=`) -> predicate(ops, transcript lines)
CLASSES = {"K_C18_ht": k_c18_ht, "K_C18_sl": k_c18_sl, "K_C18_trie_split": k_c18_trie_split,
           "K_C17_trie_ndel_prefix": k_c17_trie_ndel_prefix}


# Fallback for findings whose line is not (yet) in KNOWN_FINDINGS.txt (that file is maintained by the
# integrator).  Same shape as vlib.load_known_findings() entries; mapcheck.findings_for() uses an
# entry only as long as no line with its id is in KNOWN_FINDINGS.txt.
def _pf(prop, ident, cls, witness, text):
    return dict(kind="finding", property=prop, id=ident, witness=witness, text=text, **{"class": cls})


PROPOSED_FINDINGS = [
    _pf("C18", "KF-C18-sl-takeover", "K_C18_sl", "corpus/C18/sl-d16-shared-forward-array.ops",
        "D16: skiplist_rm frees a forward array that a removed-but-referenced node still shares (takeover-and-repoint "
        "passes the array to the predecessor, the next removal next to it frees it): heap-use-after-free in "
        "skiplist_node_next on the next qb_map_iter_next, e.g. removing the first two entries while an iterator is on the first"),
    _pf("C18", "KF-C18-trie-split", "K_C18_trie_split", "corpus/C18/trie-d83-split-under-iterator.ops",
        "D83: trie: an insertion that splits the node an iterator is parked on moves the entry together with the iterator's "
        "reference to a new child node; the iterator later releases the wrong node: the NEW entry is deleted when the "
        "iterator moves on or is freed (DELETED notified, count wrong) and the old entry keeps a reference for ever"),
]


def outside_known_classes(ctx, cases, classes, driver="map", model_args=()):
    """Generator filter of DESIGN.md 2.6: drop the cases that fall into a recorded finding's class
    (decided on the *model's* transcript, so that the exploration stays inside the proved region)."""
    import vlib
    preds = [CLASSES[c] for c in classes if c in CLASSES]
    if not preds or not cases or driver not in ctx.models:
        return cases
    res = vlib.run_batched(ctx, ctx.models[driver], cases, batch=50, args=list(model_args))
    keep = []
    for cid, ops in cases:
        ml = res[str(cid)][0]
        if any(p(ops, ml) for p in preds):
            ctx.count("filtered-known-class")
        else:
            keep.append((cid, ops))
    return keep
