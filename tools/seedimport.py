#!/usr/bin/env python3
"""usage: seedimport.py ID N "needs..."  — copy a confirmed seeded change from /tmp/seed/ID-out/N into
/verif/seeded/ID-N/ (patch.diff, demonstration, notes, confirm.json) and write meta.json."""
import json, os, shutil, sys
pid, n = sys.argv[1], sys.argv[2]
needs = sys.argv[3] if len(sys.argv) > 3 else ""
src = "/tmp/seed/%s-out/%s" % (pid, n)
dst = "/verif/seeded/%s-%s" % (pid, n)
conf = json.load(open(os.path.join(src, "confirm.json")))
def _passes(f):
    f = os.path.join(src, f)
    return sum(1 for l in open(f) if l.startswith("PASS:")) if os.path.exists(f) else 0
# tests that failed in the first run (IPC tests are flaky while several suites run at once) are re-run once by
# seedconfirm.sh: count the passes of both runs
conf["tests_pass"] = _passes("confirm-tests.log") + _passes("confirm-tests2.log")
ok = conf.get("applies") and conf.get("build_rc") == 0 and conf.get("tests_fail") == 0 and conf.get("tests_pass", 0) >= 11 \
    and conf.get("demo_rc_clean") == 0 and conf.get("demo_rc_changed") not in (0, None)
if not ok:
    print("NOT confirmed:", conf); sys.exit(1)
os.makedirs(dst, exist_ok=True)
for f in os.listdir(src):
    if f in ("patch.diff", "run.sh", "notes.md", "confirm.json") or f.startswith("demo") and not os.access(os.path.join(src, f), os.X_OK) or f.endswith((".c", ".h", ".sh")):
        shutil.copy2(os.path.join(src, f), os.path.join(dst, f))
sha = os.popen("git -C /repo rev-parse --short HEAD").read().strip()
meta = {"property": pid, "id": "%s-%s" % (pid, n), "needs_to_manifest": needs,
        "made_against_repo_commit": sha,
        "confirmed_by_integrator": {"what_was_run": "tools/seedconfirm.sh %s %s: clean tree -> demo exit %d; change applied -> builds, make -C tests check: %d PASS / %d FAIL, demo exit %d" % (
            pid, n, conf["demo_rc_clean"], conf["tests_pass"], conf["tests_fail"], conf["demo_rc_changed"])},
        "origin": "independent sub-agent given only the property text and a scratch worktree"}
json.dump(meta, open(os.path.join(dst, "meta.json"), "w"), indent=1)
print("imported", dst)
