"""Shared body of checks/C17.py and checks/C18.py (the qb_map properties): one differential stream
per implementation, known-finding plumbing, self-checks of the trusted python/Lean specification
pair."""
import os
import vlib
import mapgen

LIB = ["map", "hashtable", "skiplist", "trie", "strlcpy", "strlcat"]
# LeakSanitizer at exit: a value/node the library failed to release is an outcome `SAN:leak`
LEAK_ENV = {"ASAN_OPTIONS": vlib.SAN_ENV["ASAN_OPTIONS"].replace("detect_leaks=0", "detect_leaks=1")}

TRUSTED = ["Lean 4.33 kernel; axioms propext, Classical.choice, Quot.sound",
           "tools/extract.py (event bits, FNV prime, order computation and hash test vectors from lib/hashtable.c via the C compiler)",
           "harness/map/map_drv.c + exact differential comparison with `qb_map` (models written by hand)",
           "tools/mapgen.py oracles (cross-checked against the Lean Dict specification / IterMon monitor on every run)",
           "gcc, ASan/UBSan/LSan as the implementation-side detector of memory errors and leaks"]
ASSUMPTIONS = ["single-threaded use",
               "keys are non-empty NUL-terminated strings kept alive by the caller; values non-NULL",
               "fewer than 2^64 entries and 2^32 iterators on one node (counter wrap-around not modelled)",
               "hashtable max_size < 2^31",
               "qb_map_destroy is not called while iterators are open (the harness refuses it)"]


def spec_selfcheck(ctx, gen, oracle, impls, n):
    """trusted-base consistency: the python oracle accepts what the Lean `Dict` specification does
    (run through `qb_map` as `spec-<impl>`); a disagreement is a defect of the machinery."""
    if "map" not in ctx.models:
        return
    cases = []
    for impl in impls:
        if not mapgen.FLAVOUR[impl]["ordered"] and gen is mapgen.gen_c18:
            continue     # the specification's iterators are the ordered ones
        cases += [("s-%s-%d" % (impl, i), gen(ctx.rng, "spec-" + impl)) for i in range(n)]
    if not cases:
        return
    res = vlib.run_batched(ctx, ctx.models["map"], cases, batch=50)
    bad = 0
    for cid, ops in cases:
        d = oracle(ops, res[str(cid)][0])
        if d:
            bad += 1
            if bad == 1:
                p = ctx.write_replay("spec-selfcheck", "# python oracle vs Lean Dict specification: %s\ncase 1\n%s\n# Dict output:\n%s\n" % (
                    d, "\n".join(ops), "\n".join("#   " + l for l in res[str(cid)][0])))
                ctx.broken.append("python oracle rejects the Lean Dict specification's own run (%s); see %s" % (
                    d, os.path.relpath(p, vlib.VERIF)))
    ctx.count("spec-selfcheck-cases", len(cases))


def monitor_selfcheck(ctx, impls, n):
    """trusted-base consistency for C18: whenever the Lean monitor `IterMon` raises a flag on a run of
    the *pre-repair* models (which do violate C18), the python C18 oracle must reject the same
    transcript."""
    if "map" not in ctx.models:
        return
    cases = []
    for impl in impls:
        cases += [("m-%s-%d" % (impl, i), mapgen.gen_c18(ctx.rng, impl) + ["mon"]) for i in range(n)]
    res = vlib.run_batched(ctx, ctx.models["map"], cases, batch=50, args=["--orig"])
    flagged = 0
    for cid, ops in cases:
        ml = res[str(cid)][0]
        mon = [l for l in ml if l.startswith("mon ")]
        body = [l for l in ml if not l.startswith("mon ")]
        if mon and mon[-1] != "mon ok":
            flagged += 1
            if mapgen.oracle_c18(ops[:-1], body) is None:
                p = ctx.write_replay("mon-selfcheck", "# Lean IterMon raised `%s` but the python C18 oracle accepts\ncase 1\n%s\n# model (--orig) output:\n%s\n" % (
                    mon[-1], "\n".join(ops), "\n".join("#   " + l for l in ml)))
                ctx.broken.append("Lean IterMon and python C18 oracle disagree; see %s" % os.path.relpath(p, vlib.VERIF))
                break
    ctx.count("mon-selfcheck-cases", len(cases))
    ctx.count("mon-selfcheck-flagged", flagged)


def known_plumbing(ctx, exe, oracle):
    """replay the witnesses of recorded findings (CONVENTIONS.md 4); returns the class names the
    generators have to stay outside of"""
    classes = []
    for kf in ctx.known_findings():
        if kf.get("class"):
            classes.append(kf["class"])
        w = kf.get("witness")
        if not w:
            continue
        path = os.path.join(vlib.VERIF, w)
        if not os.path.exists(path):
            ctx.warnings.append("witness %s of %s missing" % (w, kf["id"]))
            continue
        still = False
        for cid, ops in vlib.read_case_file(path):
            r = vlib.run_batched(ctx, exe, [(cid, ops)], batch=1, env=LEAK_ENV)
            if oracle(ops, r[str(cid)][0]):
                still = True
        ctx.report_known(kf, still)
    return classes


def in_known_class(classes):
    def f(ops, il, desc):
        for c in classes:
            p = mapgen.CLASSES.get(c)
            if p and p(ops, il):
                return c
        return None
    return f if classes else None


def run(ctx, prop, streams, gen, oracle, nquick, nthorough, extra_selfcheck=None):
    ctx.trusted = TRUSTED
    ctx.assumptions = ASSUMPTIONS + ["implementations covered by this check: " + ", ".join(streams)]
    vlib.lean_prepare(ctx)
    ctx.compile_lib(sources=LIB)
    exe = ctx.compile_harness("map/map_drv.c")
    cmp_ = mapgen.compare_exact
    if ctx.replay:
        cases = vlib.read_case_file(ctx.replay)
        vlib.differential(ctx, exe, "map", cases, oracle, "replay", compare=cmp_, nontrivial=mapgen.tags, env=LEAK_ENV)
        return
    classes = known_plumbing(ctx, exe, oracle)
    kc = in_known_class(classes)
    spec_selfcheck(ctx, gen, oracle, streams, ctx.scale(100, 1000))
    if extra_selfcheck:
        extra_selfcheck(ctx)
    corpus = [c for c in vlib.corpus_cases(prop) if mapgen.impl_of(c[1]) in streams]
    vlib.differential(ctx, exe, "map", corpus, oracle, "corpus", compare=cmp_, nontrivial=mapgen.tags, known_class=kc, env=LEAK_ENV)
    if ctx.violations:
        return
    n = ctx.scale(nquick, nthorough)
    for impl in streams:
        cases = [("%s%d" % (impl, i), gen(ctx.rng, impl)) for i in range(n)]
        cases = mapgen.outside_known_classes(ctx, cases, classes)
        for lo in range(0, len(cases), 3000):
            vlib.differential(ctx, exe, "map", cases[lo:lo + 3000], oracle, impl, compare=cmp_, batch=40,
                              nontrivial=mapgen.tags, known_class=kc, env=LEAK_ENV)
            if ctx.violations:
                return
