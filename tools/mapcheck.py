"""Shared body of checks/C17.py and checks/C18.py (the qb_map properties): one differential stream
per implementation, known-finding plumbing, self-checks of the trusted python/Lean specification
pair."""
import os
import vlib
import mapgen

LIB = ["map", "hashtable", "skiplist", "trie", "strlcpy", "strlcat"]
# LeakSanitizer at exit: a value/node the library failed to release is an outcome `SAN:leak`
LEAK_ENV = {"ASAN_OPTIONS": vlib.SAN_ENV["ASAN_OPTIONS"].replace("detect_leaks=0", "detect_leaks=1")}


def env_for(impl):
    """hashtable and skiplist run under LeakSanitizer; the trie does not: trie_destroy never frees the
    root node, valueless nodes and notifier records (D82, a leak at qb_map_destroy that C17/C18 do not
    talk about), so every trie run would end in a leak report.  A trie value that is not released
    still shows as a missing FREE notification."""
    return None if impl == "trie" else LEAK_ENV

TRUSTED = ["Lean 4.33 kernel; axioms propext, Classical.choice, Quot.sound",
           "tools/extract.py (event bits, FNV prime, order computation and hash test vectors from lib/hashtable.c via the C compiler)",
           "harness/map/map_drv.c + exact differential comparison with `qb_map` (models written by hand)",
           "tools/mapgen.py oracles (cross-checked against the Lean Dict specification / IterMon monitor on every run)",
           "gcc, ASan/UBSan/LSan as the implementation-side detector of memory errors and leaks"]
ASSUMPTIONS = ["single-threaded use",
               "keys are non-empty NUL-terminated strings kept alive by the caller; values non-NULL",
               "fewer than 2^64 entries and 2^32 iterators on one node (counter wrap-around not modelled)",
               "hashtable max_size < 2^31",
               "qb_map_destroy is not called while iterators are open (the harness refuses it)"]


def spec_selfcheck(ctx, gen, oracle, impls, n):
    """trusted-base consistency: the python oracle accepts what the Lean `Dict` specification does
    (run through `qb_map` as `spec-<impl>`); a disagreement is a defect of the machinery."""
    if "map" not in ctx.models:
        return
    cases = []
    for impl in impls:
        if not mapgen.FLAVOUR[impl]["ordered"] and gen is mapgen.gen_c18:
            continue     # the specification's iterators are the ordered ones
        # the trie flavour (`spec-trie`) is the Lean Dict ordered by the signed-char byte order
        # (Model/TrieSpec.lean: TrieDict), so high bytes are included
        cases += [("s-%s-%d" % (impl, i), gen(ctx.rng, "spec-" + impl)) for i in range(n)]
    if not cases:
        return
    res = vlib.run_batched(ctx, ctx.models["map"], cases, batch=50)
    bad = 0
    for cid, ops in cases:
        d = oracle(ops, res[str(cid)][0])
        if d:
            bad += 1
            if bad == 1:
                p = ctx.write_replay("spec-selfcheck", "# python oracle vs Lean Dict specification: %s\ncase 1\n%s\n# Dict output:\n%s\n" % (
                    d, "\n".join(ops), "\n".join("#   " + l for l in res[str(cid)][0])))
                ctx.broken.append("python oracle rejects the Lean Dict specification's own run (%s); see %s" % (
                    d, os.path.relpath(p, vlib.VERIF)))
    ctx.count("spec-selfcheck-cases", len(cases))


def monitor_selfcheck(ctx, impls, n):
    """trusted-base consistency for C18: whenever the Lean monitor `IterMon` raises a flag on a run of
    the *pre-repair* models (which do violate C18), the python C18 oracle must reject the same
    transcript."""
    if "map" not in ctx.models:
        return
    cases = []
    for impl in impls:
        cases += [("m-%s-%d" % (impl, i), mapgen.gen_c18(ctx.rng, impl) + ["mon"]) for i in range(n)]
    res = vlib.run_batched(ctx, ctx.models["map"], cases, batch=50, args=["--orig"])
    flagged = 0
    for cid, ops in cases:
        ml = res[str(cid)][0]
        mon = [l for l in ml if l.startswith("mon ")]
        body = [l for l in ml if not l.startswith("mon ")]
        if mon and mon[-1] != "mon ok":
            flagged += 1
            if mapgen.oracle_c18(ops[:-1], body) is None:
                p = ctx.write_replay("mon-selfcheck", "# Lean IterMon raised `%s` but the python C18 oracle accepts\ncase 1\n%s\n# model (--orig) output:\n%s\n" % (
                    mon[-1], "\n".join(ops), "\n".join("#   " + l for l in ml)))
                ctx.broken.append("Lean IterMon and python C18 oracle disagree; see %s" % os.path.relpath(p, vlib.VERIF))
                break
    ctx.count("mon-selfcheck-cases", len(cases))
    ctx.count("mon-selfcheck-flagged", flagged)


def sl_class_selfcheck(ctx, n):
    """C18, skiplist: the class of KF-C18-sl-takeover is stated in Lean on the model (`K_C18_sl` of
    lean/QbVerif/Props/C18Sl.lean: a forward array is freed while another allocated node still holds it,
    the harness' clean-up included) and evaluated by the driver `qb_slclass`.  On generated cases (NOT
    filtered: inside and outside the class) and the corpus: (a) a case outside the Lean class never
    crashes in the model — the statement `sl_iter_memory_safe`, sampled; (b) the python class predicate
    `mapgen.k_c18_sl` (array ownership replayed on the dictionary; the generator's filter) only accepts
    cases of the Lean class; (c) every case of the Lean class is in K_parked (some rm removes an entry an
    iterator is parked on), the class outside which sl_iter_memory_safe_partial and
    sl_refines_dict_iters_partial are proved.  A disagreement is a defect of the machinery."""
    if "map" not in ctx.models or "slclass" not in ctx.models:
        return
    cases = [("k-%s" % cid, ops) for cid, ops in vlib.corpus_cases("C18") if mapgen.impl_of(ops) == "sl"]
    cases += [("k%d" % i, mapgen.gen_c18(ctx.rng, "sl")) for i in range(n)]
    ml = vlib.run_batched(ctx, ctx.models["map"], cases, batch=50)
    kl = vlib.run_batched(ctx, ctx.models["slclass"], [(cid, ops + ["slk"]) for cid, ops in cases], batch=50)
    nlean = npy = ncrash = nparked = 0
    for cid, ops in cases:
        line = [l for l in kl[str(cid)][0] if l.startswith("slk ")]
        if not line or len(line[-1].split()) != 4 or "-" in line[-1].split()[1:]:
            ctx.broken.append("qb_slclass gave no class line for case %s" % cid)
            break
        shared, crashed, parked = (w == "1" for w in line[-1].split()[1:])
        py = mapgen.k_c18_sl(ops, ml[str(cid)][0])
        uaf = any(l.startswith("SAN:") or l == "MODEL-DIVERGE" for l in ml[str(cid)][0])
        nlean += shared
        npy += bool(py)
        ncrash += crashed
        nparked += parked
        bad = None
        if shared and not parked:
            bad = "a case of the Lean class K_C18_sl lies outside K_parked (the class of the proved theorems)"
        elif (crashed or uaf) and not shared:
            bad = "the model crashes on a case outside the Lean class K_C18_sl"
        elif py and not shared:
            bad = "python k_c18_sl accepts a case that the Lean class K_C18_sl rejects"
        if bad:
            p = ctx.write_replay("slclass-selfcheck", "# %s\ncase 1\n%s\n# qb_slclass: %s\n# model output:\n%s\n" % (
                bad, "\n".join(ops), line[-1], "\n".join("#   " + l for l in ml[str(cid)][0])))
            ctx.broken.append("%s; see %s" % (bad, os.path.relpath(p, vlib.VERIF)))
            break
    ctx.count("slclass-selfcheck-cases", len(cases))
    ctx.count("slclass-in-lean-class", nlean)
    ctx.count("slclass-in-python-class", npy)
    ctx.count("slclass-model-crashes", ncrash)
    ctx.count("slclass-in-K_parked", nparked)


def findings_for(ctx):
    """recorded findings of this property: the lines of KNOWN_FINDINGS.txt plus the entries of
    mapgen.PROPOSED_FINDINGS whose id has no line there yet (KNOWN_FINDINGS.txt is maintained by the
    integrator; a proposed entry becomes redundant once its line, or the `fixed:` line of its repair,
    is in the file and the entry is dropped from the table)"""
    recorded = ctx.known_findings()
    ids = set(k.get("id") for k in vlib.load_known_findings())
    return recorded + [dict(k) for k in mapgen.PROPOSED_FINDINGS
                       if k["property"] == ctx.prop and k.get("kind", "finding") == "finding" and k["id"] not in ids]


def known_plumbing(ctx, exe, oracle, impls=None):
    """replay the witnesses of recorded findings (CONVENTIONS.md 4); returns the class names the
    known-class filter accepts failures in.  A finding whose witness passes (the defect has been
    repaired in the tree under test) is reported as no longer reproducing and its class is NOT
    excluded any more."""
    classes = []
    for kf in findings_for(ctx):
        w = kf.get("witness")
        if not w:
            if kf.get("class"):
                classes.append(kf["class"])
            continue
        path = os.path.join(vlib.VERIF, w)
        if not os.path.exists(path):
            ctx.warnings.append("witness %s of %s missing" % (w, kf["id"]))
            continue
        wcases = vlib.read_case_file(path)
        if impls is not None and not any(mapgen.impl_of(ops) in impls for _, ops in wcases):
            continue        # finding about an implementation this run does not cover
        pred = mapgen.CLASSES.get(kf.get("class"))
        still = False
        for cid, ops in wcases:
            r = vlib.run_batched(ctx, exe, [(cid, ops)], batch=1, env=env_for(mapgen.impl_of(ops)))
            il = r[str(cid)][0]
            if oracle(ops, il):
                still = True
                if kf.get("class") and not (pred and pred(ops, il)):
                    ctx.broken.append("witness %s (%s) of finding %s fails the property but lies outside its class %s" % (
                        w, cid, kf["id"], kf.get("class")))
        ctx.report_known(kf, still, "(witness %s passes on %s)" % (w, vlib.REPO))
        if still and kf.get("class"):
            classes.append(kf["class"])
    return list(dict.fromkeys(classes))


def in_known_class(ctx, classes):
    def f(ops, il, desc):
        for c in classes:
            p = mapgen.CLASSES.get(c)
            if p and p(ops, il):
                ctx.count("known-class-hit:" + c)
                return c
        return None
    return f if classes else None


def run(ctx, prop, streams, gen, oracle, nquick, nthorough, extra_selfcheck=None, oracle_streams=(), noracle=(700, 10000),
        gen_outside=()):
    """streams: implementations with a Lean model (exact differential comparison with `qb_map`);
    oracle_streams: implementations checked through the real code with the python dictionary oracle
    only (no Lean model of the implementation: `differential` is called without a driver);
    gen_outside: classes of findings recorded for ANOTHER property that the generated cases must stay outside of
    (dropped on the model's transcript, counted as filtered-known-class; a failure of a case that is run is never
    excused by them)."""
    oracle_streams = list(oracle_streams)
    every = list(streams) + oracle_streams
    ctx.trusted = TRUSTED
    ctx.assumptions = ASSUMPTIONS + [
        "implementations compared op by op with their Lean model (and checked by the python oracle): " + (", ".join(streams) or "none"),
        "implementations checked by the python dictionary oracle on the real code ONLY, no Lean model and no theorem about "
        "their code (the Lean results cover the Dict specification the oracle is cross-checked with): " + (", ".join(oracle_streams) or "none"),
        "a property failure of a generated case that lies inside the class of a recorded finding which still reproduces "
        "(KNOWN-FINDING lines) is counted (stats known-class-hit:<class>), not reported; the generators do not avoid the classes",
        "hashtable and skiplist run under LeakSanitizer; the trie does not (trie_destroy never frees the root node, valueless "
        "nodes and notifier records -- D82, outside C17/C18 -- so every trie run would end in a leak report); a trie value "
        "that is never released still shows as a missing FREE notification"]
    vlib.lean_prepare(ctx)
    ctx.compile_lib(sources=LIB)
    exe = ctx.compile_harness("map/map_drv.c")
    cmp_ = mapgen.compare_exact

    def diff(cases, stream, kc=None, batch=25):
        """model-backed and oracle-only cases of one stream, each through the right comparison"""
        for impl in dict.fromkeys(mapgen.impl_of(c[1]) for c in cases):
            part = [c for c in cases if mapgen.impl_of(c[1]) == impl]
            if impl in oracle_streams:
                vlib.differential(ctx, exe, None, part, oracle, stream, batch=batch,
                                  nontrivial=mapgen.tags, known_class=kc, env=env_for(impl))
            else:
                vlib.differential(ctx, exe, "map", part, oracle, stream, compare=cmp_, batch=batch,
                                  nontrivial=mapgen.tags, known_class=kc, env=env_for(impl))

    if ctx.replay:
        cases = vlib.read_case_file(ctx.replay)
        oracle_streams = [i for i in ("sl", "trie") if i not in streams]
        diff(cases, "replay")
        return
    classes = known_plumbing(ctx, exe, oracle, every)
    kc = in_known_class(ctx, classes)
    spec_selfcheck(ctx, gen, oracle, every, ctx.scale(100, 1000))
    if extra_selfcheck:
        extra_selfcheck(ctx)
    corpus = [c for c in vlib.corpus_cases(prop) if mapgen.impl_of(c[1]) in every]
    diff(corpus, "corpus", kc)
    if ctx.violations:
        return
    n = ctx.scale(nquick, nthorough)
    for impl in streams:
        cases = [("%s%d" % (impl, i), gen(ctx.rng, impl)) for i in range(n)]
        cases = mapgen.outside_known_classes(ctx, cases, list(dict.fromkeys(list(classes) + list(gen_outside))))
        for lo in range(0, len(cases), 3000):
            diff(cases[lo:lo + 3000], impl, kc, batch=40)
            if ctx.violations:
                return
    n = ctx.scale(*noracle)
    for impl in oracle_streams:
        cases = [("%s%d" % (impl, i), gen(ctx.rng, impl)) for i in range(n)]
        for lo in range(0, len(cases), 3000):
            diff(cases[lo:lo + 3000], impl, kc, batch=40)
            if ctx.violations:
                return
