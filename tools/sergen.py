#!/usr/bin/env python3
"""Generator + property oracle for C14 (blackbox record encode/decode), independent of the Lean model.

Streams (all one op per case, see harness/log/ser_drv.c for the op lines):
  wf        `rt`: well-formed printf formats from the grammar
                 literal* ( '%' flags* (width|'*')? ('.' (digits|'*')?)? (l|ll|z|t|j)? conv )*   (`l` also on e f g a)
            conv in d i o u x X c s p e E f F g G a A, "%%", flags - + space # 0 (rarely ' and I) in any
            order and number, typed arguments with extreme values; libc reference requested
  steer     the same cases again with maxLen / strLen moved to the observed record / text length -3..+2
  long      well-formed formats whose conversions exceed the decoder's mini format (bounds only)
  malformed `rt ... noref`: unknown conversions, truncated directives, flags after widths, `%%`
            adjacency, stray modifiers; arguments typed by what the scanner consumes; bounds only
  hostile   `deser`: arbitrary record bytes (mutated valid records, directive-dense noise); bounds only

Oracle (the property statement evaluated on the implementation's own output):
  (a) record fits (ret < maxLen), libc's text fits (len < strLen), no NUL argument for %c, every
      conversion fits the decoder's mini format  ==>  decoded text == libc's text
  (b) serialize: no sanitizer report, ret <= maxLen
  (c) deserialize: no sanitizer report, highest index stored < strLen, ret <= strLen,
      string terminated, result independent of the buffer's previous contents
"""
import re
import struct

INT_MIN, INT_MAX = -2**31, 2**31 - 1
LONG_MIN, LONG_MAX = -2**63, 2**63 - 1
MINI_MAX = 18          # longest conversion text (with '*' expanded) the decoder's fmt[20] can hold
XC = 7


def hx(b):
    return b.hex() if b else "-"


def unhx(h):
    return b"" if h == "-" else bytes.fromhex(h)


# ----------------------------------------------------------------------------- values
def pick_int(rng, bits):
    lo, hi = -2**(bits - 1), 2**(bits - 1) - 1
    r = rng.random()
    if r < 0.35:
        return rng.choice([0, 1, -1, lo, hi, lo + 1, hi - 1, 255, 256, -128, 65535, 2**31 - 1 if bits > 32 else 7,
                           -2**31 if bits > 32 else -7, 2**32 if bits > 32 else 9])
    if r < 0.7:
        return rng.randint(-1000, 1000)
    return rng.randint(lo, hi)


def pick_double_bits(rng):
    r = rng.random()
    if r < 0.5:
        v = rng.choice([0.0, -0.0, 1.0, -1.5, 0.1, 3.141592653589793, 1e300, -1e300, 1e-300, 5e-324, 123456789.125,
                        1e15, 1e16, 0.5, 2.5, 1e-5, 9.999999e22, float("inf"), float("-inf"), float("nan")])
        return struct.unpack("<Q", struct.pack("<d", v))[0]
    if r < 0.8:
        return struct.unpack("<Q", struct.pack("<d", rng.uniform(-1e6, 1e6)))[0]
    return rng.getrandbits(64)


def pick_text(rng, n, pct=0.05, hi=0.05):
    out = bytearray()
    for _ in range(n):
        r = rng.random()
        if r < pct:
            out.append(0x25)
        elif r < pct + hi:
            out.append(rng.randint(0x80, 0xff))
        elif r < pct + hi + 0.03:
            out.append(rng.choice([0x0a, 0x09, 0x5c, 0x22]))
        else:
            out.append(rng.randint(0x20, 0x7e))
    return bytes(b for b in out if b != XC)


def pick_string(rng):
    r = rng.random()
    if r < 0.08:
        return None
    if r < 0.18:
        return b""
    if r < 0.6:
        return pick_text(rng, rng.randint(1, 12), pct=0.1)
    if r < 0.9:
        return pick_text(rng, rng.randint(13, 90), pct=0.05)
    return pick_text(rng, rng.randint(91, 700), pct=0.02)


def pick_literal(rng):
    r = rng.random()
    if r < 0.2:
        return b""
    if r < 0.85:
        b = pick_text(rng, rng.randint(1, 10), pct=0.0)
    else:
        b = pick_text(rng, rng.randint(11, 120), pct=0.0)
    return b.replace(b"%", b"%%")


# ----------------------------------------------------------------------------- well-formed directives
INT_CONVS = "diouxX"
DBL_CONVS = "eEfFgGaA"


def gen_directive(rng, long_ok=False):
    """returns (bytes of the conversion, [arg tokens], meta dict)"""
    meta = {"tags": set()}
    conv = rng.choice("ddiouxXccsssspeEfFgGaA" if not long_ok else "ddxsu")
    nflags = rng.choice([0, 0, 0, 1, 1, 2, 3, 5]) if not long_ok else rng.randint(6, 24)
    flags = "".join(rng.choice("-+ #0") for _ in range(nflags))
    if rng.random() < 0.02:
        flags += rng.choice("'I")
    args = []
    expanded = "%" + flags
    text = "%" + flags
    r = rng.random()
    if r < 0.35:
        pass
    elif r < 0.8:
        w = str(rng.choice([1, 2, 3, 5, 8, 10, 15, 20, 32, 64, 100, 200, 511, 512, 600, rng.randint(1, 40)]))
        text += w
        expanded += w
    else:
        v = rng.choice([0, 1, 5, 12, 40, 300, -1, -7, -30, rng.randint(-50, 50)])
        text += "*"
        expanded += str(v)
        args.append("*:%d" % v)
        meta["tags"].add("star")
        if v < 0:
            meta["tags"].add("star-neg-width")
    r = rng.random()
    if r < 0.5:
        pass
    elif r < 0.6:
        text += "."
        expanded += "."
        meta["tags"].add("prec")
    elif r < 0.85:
        p = str(rng.choice([0, 1, 2, 3, 4, 6, 9, 10, 20, 32, 100, 600, rng.randint(0, 30)]))
        text += "." + p
        expanded += "." + p
        meta["tags"].add("prec")
    else:
        v = rng.choice([0, 1, 2, 3, 6, 10, 40, -1, -5, rng.randint(-10, 40)])
        text += ".*"
        args.append("*:%d" % v)
        meta["tags"].add("star")
        if v < 0:
            meta["tags"].add("star-neg-prec")
        else:
            expanded += ".%d" % v
        meta["tags"].add("prec")
    if conv in INT_CONVS:
        mod = rng.choice(["", "", "", "l", "ll", "z", "t", "j"])
        text += mod + conv
        expanded += mod + conv
        if mod == "":
            v = pick_int(rng, 32)
            args.append("i:%d" % v)
            if v in (INT_MIN, INT_MAX, -1):
                meta["tags"].add("extreme-int")
        else:
            v = pick_int(rng, 64)
            args.append(("l:%d" if mod == "l" else "q:%d") % v)
            meta["tags"].add("mod-" + mod)
            if v in (LONG_MIN, LONG_MAX, -1):
                meta["tags"].add("extreme-int")
    elif conv in DBL_CONVS:
        # `l` is legal on a floating conversion and has no effect ("%lf"); the scanners still see it
        mod = rng.choice(["", "", "l"])
        text += mod + conv
        expanded += mod + conv
        args.append("d:%016x" % pick_double_bits(rng))
        meta["tags"].add("float")
        if mod:
            meta["tags"].add("mod-l-float")
    elif conv == "c":
        text += conv
        expanded += conv
        args.append("c:%d" % rng.choice([65, 37, 255, 128, 32, 10, rng.randint(1, 255)]))
    elif conv == "s":
        text += conv
        expanded += conv
        s = pick_string(rng)
        if s is None:
            args.append("s:null")
            meta["tags"].add("null-string")
        else:
            args.append("s:" + hx(s))
            if len(s) > 90:
                meta["tags"].add("long-string")
            if not s:
                meta["tags"].add("empty-string")
            if b"%" in s:
                meta["tags"].add("pct-in-string")
        if "prec" in meta["tags"]:
            meta["tags"].add("prec-string")
    elif conv == "p":
        text += conv
        expanded += conv
        args.append("p:%x" % rng.choice([0, 1, 0xdeadbeef, 2**64 - 1, rng.getrandbits(48)]))
        meta["tags"].add("pointer")
    meta["expanded_len"] = len(expanded)
    return text.encode(), args, meta


def gen_wf(rng, long_ok=False):
    """one well-formed `rt` case: returns (fmt bytes, arg tokens, tags)"""
    n = rng.choice([0, 1, 1, 2, 2, 3, 4, 6, 9])
    if long_ok:
        n = rng.randint(1, 3)
    fmt = bytearray(pick_literal(rng))
    args = []
    tags = set()
    for k in range(n):
        d, a, meta = gen_directive(rng, long_ok=long_ok and (k == 0 or rng.random() < 0.5))
        if len(args) + len(a) > 20:
            break
        fmt += d
        args += a
        tags |= meta["tags"]
        if meta["expanded_len"] > MINI_MAX:
            tags.add("kf-mini")
        if rng.random() < 0.15:
            fmt += b"%%"
            tags.add("pct")
        fmt += pick_literal(rng)
    if b"%%" in fmt:
        tags.add("pct")
    if rng.random() < 0.04:
        # the extended-information marker, somewhere in literal text (not inside a conversion)
        pos = [i for i in range(len(fmt) + 1) if _literal_boundary(bytes(fmt), i)]
        if pos:
            i = rng.choice(pos + [len(fmt)] * 3) if rng.random() < 0.5 else len(fmt)
            fmt[i:i] = bytes([XC])
            tags.add("xc")
    return bytes(fmt), args, tags


def _literal_boundary(fmt, i):
    """position i of fmt is outside any conversion (so a byte may be inserted there)"""
    j = 0
    n = len(fmt)
    while j < n:
        if fmt[j] == 0x25:
            k = j + 1
            if k < n and fmt[k] == 0x25:
                k += 1
            else:
                while k < n and chr(fmt[k]) in "-+ #0'I0123456789.*lztj":
                    k += 1
                k += 1
            if j < i < k:
                return False
            j = k
        else:
            j += 1
    return True


def ref_format(fmt):
    """what the normal logging path prints for the extended-information marker: the first QB_XC
    becomes '|', or is dropped when it is the last character"""
    i = fmt.find(bytes([XC]))
    if i < 0:
        return fmt
    if i == len(fmt) - 1:
        return fmt[:i]
    return fmt[:i] + b"|" + fmt[i + 1:]


def rt_line(maxlen, strlen_, fmt, args, noref=False):
    toks = ["rt", str(maxlen), str(strlen_), hx(fmt)] + list(args)
    if noref:
        toks.append("noref")
    else:
        rf = ref_format(fmt)
        if rf != fmt:
            toks.append("reffmt:" + hx(rf))
    return " ".join(toks)


# ----------------------------------------------------------------------------- malformed formats
def scan_consumption(fmt):
    """argument kinds the (repaired) serializer's scanner takes from the va_list for this format --
    used only to pass arguments of the classes the code will read (anything else is UB in the harness)"""
    out = []
    i = 0
    n = len(fmt)
    while i < n:
        if fmt[i] != 0x25:
            i += 1
            continue
        i += 1
        tl = tll = False
        while i < n:
            c = chr(fmt[i])
            if c in "#- +'I.0123456789":
                i += 1
            elif c == "*":
                out.append("*")
                i += 1
            elif c == "l":
                i += 1
                tl = True
                if i < n and fmt[i] == 0x6c:
                    tl, tll = False, True
                    i += 1
            elif c in "ztj":
                tll = True
                i += 1
            elif c in INT_CONVS:
                out.append("l" if tl else ("q" if tll else "i"))
                i += 1
                break
            elif c in DBL_CONVS:
                out.append("d")
                i += 1
                break
            elif c == "c":
                out.append("c")
                i += 1
                break
            elif c == "s":
                out.append("s")
                i += 1
                break
            elif c == "p":
                out.append("p")
                i += 1
                break
            elif c == "%":
                i += 1
                break
            else:
                break
    return out


def args_for(rng, kinds):
    a = []
    for k in kinds:
        if k == "*":
            a.append("*:%d" % rng.choice([0, 1, 3, 7, 20, -1, -4, 100]))
        elif k == "i":
            a.append("i:%d" % pick_int(rng, 32))
        elif k == "l":
            a.append("l:%d" % pick_int(rng, 64))
        elif k == "q":
            a.append("q:%d" % pick_int(rng, 64))
        elif k == "d":
            a.append("d:%016x" % pick_double_bits(rng))
        elif k == "c":
            a.append("c:%d" % rng.randint(1, 255))
        elif k == "s":
            s = pick_string(rng)
            a.append("s:null" if s is None else "s:" + hx(s[:200]))
        elif k == "p":
            a.append("p:%x" % rng.getrandbits(40))
    return a


MAL_PIECES = ["%", "%-", "%5", "%.", "%.3", "%l", "%ll", "%*", "%hd", "%hhu", "%Lf", "%qd", "%n", "%m", "%k", "%y",
              "%!", "%5-d", "%5 d", "%..3d", "%.3.5d", "%l5d", "%dl", "%ld%", "%%%d", "%%%%", "%%d", "%5%", "%-%",
              "%.*%", "%#", "%0", "%+ ", "% %", "%%%", "%z", "%zz", "%lz", "%tld", "%jzd", "%lll", "%lld",
              "%*.*", "%.*.*d", "%**d", "%3$d", "%1$s", "%C", "%S", "%Z", "%v", "%'", "%I", "%Id", "%'d",
              "%-+ #0d", "%0-0-0-5d", "%5.5.5s", "%s%", "%c%c", "%p%%p", "%e%", "%5l", "%.l", "%l.3d"]


def gen_malformed(rng):
    fmt = bytearray()
    for _ in range(rng.randint(1, 6)):
        r = rng.random()
        if r < 0.55:
            fmt += rng.choice(MAL_PIECES).encode()
        elif r < 0.75:
            d, _, _ = gen_directive(rng)
            fmt += d
        elif r < 0.9:
            fmt += pick_text(rng, rng.randint(0, 8), pct=0.25)
        else:
            # directive-dense noise
            fmt += bytes(rng.choice(b"%%%%-+ #0.*123lzjtdiouxXcspefga%hLqnkm'I") for _ in range(rng.randint(1, 12)))
    fmt = bytes(b for b in fmt if b != 0)
    fmt = _strip_wide(fmt)
    kinds = scan_consumption(fmt)
    while len(kinds) > 20:
        fmt = fmt[:len(fmt) // 2]
        fmt = _strip_wide(fmt)
        kinds = scan_consumption(fmt)
    fmt = _limit_digits(fmt)
    return fmt, args_for(rng, scan_consumption(fmt)), {"malformed"}


def _strip_wide(fmt):
    """no l / z / t / j modifier in front of c / s (wide characters: outside what the code supports, and libc's
    conversion of arbitrary bytes fails with EILSEQ, which the model does not describe)"""
    fmt = re.sub(rb"%[-+ #0'I0-9.*lztj]*[cs]", lambda m: re.sub(rb"[lztj]", b"", m.group(0)), fmt)
    # "ll" in front of e f g a means `long double` to libc while the decoder passes a double: the text is
    # whatever the x87 argument area holds (seen: "+nan" in one run, "-nan" in the next) -- not a
    # function of the record, so neither the oracle nor the correspondence can say anything about it
    return re.sub(rb"%[-+ #0'I0-9.*lztj]*[eEfFgGaA]", lambda m: re.sub(rb"l{2,}", b"l", m.group(0)), fmt)


def _limit_digits(fmt):
    """digit runs of at most 4 (libc: widths beyond INT_MAX fail, huge ones take seconds)"""
    return re.sub(rb"[0-9]{5,}", lambda m: m.group(0)[:4], fmt)


# ----------------------------------------------------------------------------- hostile records
def gen_hostile(rng, valid_records):
    """a `deser` case on bytes no serializer produced"""
    r = rng.random()
    if valid_records and r < 0.5:
        rec = bytearray(rng.choice(valid_records))
        for _ in range(rng.randint(1, 4)):
            k = rng.random()
            if not rec:
                break
            if k < 0.4:
                rec[rng.randrange(len(rec))] = rng.choice(b"%%sd0.l\x00\xff1-")
            elif k < 0.6:
                del rec[rng.randrange(len(rec)):]
            elif k < 0.8:
                i = rng.randrange(len(rec))
                rec[i:i] = bytes(rng.choice(b"%sdlc0123456789.-+# ") for _ in range(rng.randint(1, 30)))
            else:
                i = rng.randrange(len(rec))
                del rec[i:i + rng.randint(1, 8)]
        rec = bytes(rec)
    else:
        n = rng.randint(0, 60)
        f = bytes(rng.choice(b"%%%%-+ #0.123456789lzjtdiouxXcspefgaEGAhLq ab\n") for _ in range(n))
        data = bytes(rng.getrandbits(8) for _ in range(rng.randint(0, 40)))
        if rng.random() < 0.3:
            data = b""
        rec = f + b"\x00" + data if rng.random() < 0.9 else f
    # keep libc inside the modelled behaviour: no huge widths, no '*' fed from arbitrary data
    # (a width taken from 4 random bytes is in the 10^9 range: libc needs seconds or fails), no wide chars
    z = rec.find(b"\x00")
    f = rec if z < 0 else rec[:z]
    f = _limit_digits(_strip_wide(f))
    if b"*" in f and rng.random() < 0.7:
        f = f.replace(b"*", b"")
    rest = b"" if z < 0 else rec[z:]
    if b"*" in f:
        rest = b"\x00" * len(rest)          # star values read from the data area are then 0
    rec = f + rest
    strlen_ = rng.choice([1, 2, 3, 8, 16, 64, 512, 512, rng.randint(1, 600)])
    return "deser %d %s" % (strlen_, hx(rec)), {"hostile"}


# ----------------------------------------------------------------------------- r: tokens
RENDERABLE = re.compile(rb"^%[-+ #0]*([0-9]*)(?:\.([0-9]*))?(?:(?:ll|l|z|t|j)?[diouxX]|[cs])$")


def model_renders(mini):
    """mirror of QbVerif.Ser.parseMini: the Lean model renders this mini format itself"""
    m = RENDERABLE.match(mini)
    if not m:
        return False
    for g in m.groups():
        if g and int(g) > 100000:
            return False
    return True


def tokens_from_ann(ann_line):
    """`ann m:<mini> k:<argkey> r:<len>:<text> ...` -> list of `r:MINI:KEY:LEN:TEXT` tokens for the
    mini formats the model does not render"""
    out = []
    seen = set()
    t = ann_line.split()
    i = 1
    while i + 2 < len(t):
        if not (t[i].startswith("m:") and t[i + 1].startswith("k:") and t[i + 2].startswith("r:")):
            break
        mini = unhx(t[i][2:])
        key = t[i + 1][2:]
        ln, _, text = t[i + 2][2:].partition(":")
        i += 3
        if model_renders(mini):
            continue
        if (mini, key) in seen:
            continue
        seen.add((mini, key))
        out.append("r:%s:%s:%s:%s" % (hx(mini), key, ln, text))
    return out


def strip_rtoks(line):
    return " ".join(t for t in line.split() if not t.startswith("r:"))


# ----------------------------------------------------------------------------- oracle
def parse_out(lines):
    d = {"san": None, "lines": lines}
    for l in lines:
        t = l.split()
        if not t:
            continue
        if t[0] == "ser" and len(t) >= 3:
            d["ser_ret"] = int(t[1])
            d["rec"] = unhx(t[2])
        elif t[0] == "deser" and len(t) >= 4:
            d["de_ret"] = int(t[1])
            d["text"] = unhx(t[2])
            d["maxw"] = None if t[3] == "maxw=none" else int(t[3][5:])
            d["flags"] = t[4:]
        elif t[0] == "ref" and len(t) >= 3:
            d["ref_len"] = int(t[1])
            d["ref"] = unhx(t[2])
        elif t[0].startswith("SAN:") or t[0].startswith("CRASH") or t[0] == "TIMEOUT":
            d["san"] = t[0]
    return d


def case_info(op):
    t = op.split()
    info = {"op": t[0]}
    if t[0] == "rt":
        info["maxlen"] = int(t[1])
        info["strlen"] = int(t[2])
        info["fmt"] = unhx(t[3])
        info["args"] = [x for x in t[4:] if not x.startswith("r:") and x != "noref" and not x.startswith("reffmt:")]
        info["noref"] = "noref" in t
    elif t[0] == "ser":
        info["maxlen"] = int(t[1])
        info["fmt"] = unhx(t[2])
        info["args"] = [x for x in t[3:] if not x.startswith("r:")]
    elif t[0] == "deser":
        info["strlen"] = int(t[1])
    return info


def expanded_lengths(fmt, args):
    """for a well-formed format: length of each conversion with its '*' replaced by the values"""
    stars = [int(a[2:]) for a in args if a.startswith("*:")]
    out = []
    i = 0
    n = len(fmt)
    si = 0
    while i < n:
        if fmt[i] != 0x25:
            i += 1
            continue
        j = i + 1
        if j < n and fmt[j] == 0x25:
            i = j + 1
            continue
        ln = 1
        while j < n and chr(fmt[j]) in "-+ #0'I0123456789.*lztj":
            if fmt[j] == 0x2a:
                v = stars[si] if si < len(stars) else 0
                si += 1
                if v < 0 and fmt[j - 1] == 0x2e:
                    # a negative '*' precision is dropped together with its '.', but the decoder has stored the
                    # '.' (and run its room check) before it reads the value: the '.' counts (Lean: Dir.miniNeed)
                    pass
                else:
                    ln += len(str(v))
            else:
                ln += 1
            j += 1
        out.append(ln + 1)
        i = j + 1
    return out


def oracle(ops, out):
    """None if the property holds on the implementation's output of this case, else a description"""
    op = ops[0]
    info = case_info(op)
    d = parse_out(out)
    if d["san"]:
        return "memory error / crash in %s: %s" % ("the encoder" if "ser_ret" not in d and info["op"] != "deser"
                                                    else "the decoder", d["san"])
    if info["op"] in ("rt", "ser"):
        if "ser_ret" not in d:
            return "no result from serialize"
        if d["ser_ret"] > info["maxlen"]:
            return "serialize returned %d > max_len %d" % (d["ser_ret"], info["maxlen"])
    if info["op"] in ("rt", "deser"):
        if "de_ret" not in d:
            return "no result from deserialize"
        sl = info["strlen"]
        if d["maxw"] is not None and d["maxw"] >= sl:
            return "deserialize stored at index %d of a %d-byte buffer" % (d["maxw"], sl)
        if "unterminated" in d["flags"]:
            return "decoded string not terminated inside the buffer"
        if "nondet" in d["flags"]:
            return "decoded text depends on the previous contents of the caller's buffer"
        if d["de_ret"] > sl:
            return "deserialize returned %d > str_len %d" % (d["de_ret"], sl)
        # the return value counts the text and its NUL; a %c conversion may legitimately put a NUL byte INTO the
        # text (argument 0, or whatever a malformed record holds there): the C string then ends earlier than the
        # decoded text, so with a 'c' anywhere in the format only ">=" can be demanded
        f = info.get("fmt")          # decode-only cases (arbitrary record bytes) have no format of their own
        may_nul = True if f is None else (0x63 in bytes(f))
        if (d["de_ret"] < len(d["text"]) + 1) if may_nul else (d["de_ret"] != len(d["text"]) + 1):
            return "deserialize returned %d but the string has %d bytes" % (d["de_ret"], len(d["text"]))
    if info["op"] == "rt" and not info["noref"] and "ref" in d:
        fits_rec = d["ser_ret"] < info["maxlen"]
        fits_txt = 0 <= d["ref_len"] < info["strlen"] and d["ref_len"] == len(d["ref"])
        nul_char = any(a == "c:0" for a in info["args"]) or b"\x00" in d["ref"]
        mini_ok = all(l <= MINI_MAX for l in expanded_lengths(info["fmt"], info["args"]))
        if fits_rec and fits_txt and not nul_char and mini_ok and d["text"] != d["ref"]:
            return "decoded %r, printf gives %r" % (d["text"][:80], d["ref"][:80])
    return None


def tags(ops, out):
    info = case_info(ops[0])
    d = parse_out(out)
    t = set()
    if "ser_ret" in d and d["ser_ret"] >= info.get("maxlen", 1 << 30):
        t.add("record-full")
    if "ser_ret" in d and info.get("maxlen") and 0 < info["maxlen"] - d["ser_ret"] <= 2:
        t.add("record-tight")
    if "de_ret" in d and d["de_ret"] == info.get("strlen"):
        t.add("text-truncated")
    if "de_ret" in d and info.get("strlen") and 0 < info["strlen"] - d["de_ret"] <= 2:
        t.add("text-tight")
    if info["op"] == "deser":
        t.add("hostile")
    if info["op"] == "rt":
        f = info["fmt"]
        if info["noref"]:
            t.add("malformed")
        if b"%%" in f:
            t.add("pct")
        if bytes([XC]) in f:
            t.add("xc")
        if b"*" in f:
            t.add("star")
        if re.search(rb"\.[0-9*]*s", f):
            t.add("prec-string")
        if any(a == "s:null" for a in info["args"]):
            t.add("null-string")
        if any(a.startswith("d:") for a in info["args"]):
            t.add("float")
        if any(a.startswith("s:") and len(a) > 180 for a in info["args"]):
            t.add("long-string")
        if any(a in ("i:%d" % INT_MIN, "i:%d" % INT_MAX, "l:%d" % LONG_MIN, "q:%d" % LONG_MIN, "q:%d" % LONG_MAX)
               for a in info["args"]):
            t.add("extreme-int")
        if not info["noref"] and any(l > MINI_MAX for l in expanded_lengths(f, info["args"])):
            t.add("kf-mini")
        if len(re.findall(rb"%[^%]", f)) >= 3:
            t.add("3+conversions")
        if (not info["noref"] and "ref" in d and "ser_ret" in d and d["ser_ret"] < info["maxlen"]
                and 0 <= d["ref_len"] < info["strlen"] and "kf-mini" not in t):
            t.add("roundtrip-compared-with-libc")
    return t


def compare(ops, il, ml):
    """correspondence: everything but the harness-only `ref` line"""
    a = [l for l in il if not l.startswith("ref ")]
    if a == ml:
        return None
    for i in range(max(len(a), len(ml))):
        x = a[i] if i < len(a) else "<missing>"
        y = ml[i] if i < len(ml) else "<missing>"
        if x != y:
            return "line %d: impl=%r model=%r" % (i + 1, x[:90], y[:90])
    return "differ"
