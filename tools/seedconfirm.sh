#!/bin/bash
# usage: seedconfirm.sh <ID> <n> [notests]
# Independent confirmation of a seeded change produced in /tmp/seed/<ID>-out/<n>/ using the
# scratch worktree /tmp/seed/<ID>-wt: (1) clean tree: demo passes; (2) change applied: builds,
# full test suite passes, demo fails.  Writes confirm.json next to the patch.
ID=$1; N=$2; NOTESTS=$3
WT=/tmp/seed/$ID-wt; OUT=/tmp/seed/$ID-out/$N; LOG=$OUT/confirm.log
cd $WT || exit 2
git checkout -q -- . ; : > $LOG
make -C lib -j8 >> $LOG 2>&1
( cd $OUT && bash ./run.sh ) >> $LOG 2>&1; CLEAN_RC=$?
git apply $OUT/patch.diff >> $LOG 2>&1 || { echo "{\"id\":\"$ID-$N\",\"applies\":false}" > $OUT/confirm.json; exit 1; }
make -C lib -j8 >> $LOG 2>&1; BUILD_RC=$?
if [ -z "$NOTESTS" ]; then
  make -C tests check > $OUT/confirm-tests.log 2>&1
  PASSN=$(grep -c '^PASS:' $OUT/confirm-tests.log); FAILN=$(grep -c '^FAIL:' $OUT/confirm-tests.log)
  if [ "$FAILN" != "0" ]; then   # IPC tests can be flaky when several suites run at once: retry failing ones once
     FAILED=$(grep '^FAIL:' $OUT/confirm-tests.log | sed 's/FAIL: //' | tr '\n' ' ')
     make -C tests check TESTS="$FAILED" > $OUT/confirm-tests2.log 2>&1
     FAILN=$(grep -c '^FAIL:' $OUT/confirm-tests2.log)
  fi
else PASSN=-1; FAILN=-1; fi
( cd $OUT && bash ./run.sh ) >> $LOG 2>&1; MUT_RC=$?
git checkout -q -- . ; make -C lib -j8 >> $LOG 2>&1
echo "{\"id\":\"$ID-$N\",\"applies\":true,\"build_rc\":$BUILD_RC,\"tests_pass\":$PASSN,\"tests_fail\":$FAILN,\"demo_rc_clean\":$CLEAN_RC,\"demo_rc_changed\":$MUT_RC}" > $OUT/confirm.json
cat $OUT/confirm.json
