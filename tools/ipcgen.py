"""Generator and property oracle for the C02 trace streams (harness/ipc/ipc_pair.c).

The oracle looks only at the implementation's trace (never at the Lean model):
  * per channel (request, response, event): the list of messages handed to the receiver is,
    at every moment, a prefix of the list of messages whose send call was accepted -- same
    order, same length, same bytes (checksum of the received bytes against the generated
    content of (seq, len)); after the final drain the two lists are equal;
  * a send call that reported an error contributes nothing (follows from the list equality:
    every send uses content that identifies it);
  * whenever the server is idle (its descriptor not ready for its registered events) and at
    least one accepted event is unread, the descriptor the client polls is readable.
"""
import re

HDR_REQ = 16
HDR_RES = 24
MIN_NEGOTIATED = 12328      # sizeof(struct qb_ipc_connection_response); checked against the setup line


# ------------------------------------------------------------------ message content (pr_msg.h)
def fill(seq, i):
    if seq % 5 == 3:
        return 0xA1
    return (seq * 131 + i * 7 + (i >> 8) * 13) & 0xFF


def build(seq, n):
    b = bytearray(fill(seq, i) for i in range(n))
    if n >= 4:
        b[0:4] = (seq & 0xFFFFFFFF).to_bytes(4, "little")
    if n >= 12:
        b[8:12] = n.to_bytes(4, "little")
    return bytes(b)


_ck_cache = {}


def cksum(seq, n):
    k = (seq, n)
    if k not in _ck_cache:
        a, s = 1, 0
        for x in build(seq, n):
            a = (a + x) % 65521
            s = (s + a) % 65521
        _ck_cache[k] = (s << 16) | a
    return _ck_cache[k]


# ------------------------------------------------------------------ generator
def pick_len(rng, lo, mx):
    x = rng.random()
    if x < 0.15:
        return lo
    if x < 0.25:
        return mx
    if x < 0.33:
        return mx + 1
    if x < 0.40:
        return mx - rng.randrange(1, 9)
    if x < 0.60:
        return lo + rng.randrange(0, 64)
    if x < 0.70:
        return rng.choice([4092, 4093, 4096, 4097, 8188, 8192, 8193])
    return rng.randrange(lo, mx + 1)


RATES = ["FAST", "NORMAL", "SLOW", "OFF", "OFF2"]


class Gen:
    def __init__(self, rng, tr=None, mx=None):
        self.rng = rng
        self.tr = tr or rng.choice(["shm", "shm", "shm", "sock"])
        self.mx_req = mx if mx is not None else rng.choice([0, 0, 0, 12328, 12329, 16000, 20000, 33000])
        self.mx = max(self.mx_req, MIN_NEGOTIATED)
        self.ops = ["setup %s %d" % (self.tr, self.mx_req)]
        self.rseq = 1
        self.pseq = 100000
        self.eseq = 200000
        self.retry = []          # (seq, len) of sends that certainly failed
        self.fc_off = False
        self.small = rng.random() < 0.5   # mostly small messages (many fit into a ring)

    def ln(self, lo):
        if self.small and self.rng.random() < 0.8:
            return lo + self.rng.randrange(0, 200)
        return pick_len(self.rng, lo, self.mx)

    def csend(self):
        r = self.rng
        if self.retry and not self.fc_off and r.random() < 0.6:
            seq, n = self.retry.pop(0)
            if n > self.mx:
                n = self.mx
        else:
            seq, n = self.rseq, self.ln(HDR_REQ)
            self.rseq += 1
        if n > self.mx or self.fc_off:
            self.retry.append((seq, n))
        if r.random() < 0.35:
            self.ops.append("C sendv %d %d %d" % (seq, n, r.randrange(1, 6)))
        else:
            self.ops.append("C send %d %d" % (seq, n))

    def ssend(self, kind, nested=False):
        r = self.rng
        if kind == "ev":
            seq = self.eseq
            self.eseq += 1
        else:
            seq = self.pseq
            self.pseq += 1
        n = self.ln(HDR_RES)
        vec = r.random() < 0.3
        name = ("evsend" if kind == "ev" else "rsend") + ("v" if vec else "")
        if nested:
            return "%s:%d:%d" % (name, seq, n) + (":%d" % r.randrange(1, 5) if vec else "")
        return "S %s %d %d" % (name, seq, n) + (" %d" % r.randrange(1, 5) if vec else "")

    def rate(self, nested=False):
        rl = self.rng.choice(RATES)
        self.fc_off = rl in ("OFF",)
        return ("rate:%s" % rl) if nested else ("S rate %s" % rl)

    def plan(self):
        r = self.rng
        rc = -1 if r.random() < 0.15 else 0
        acts = []
        for _ in range(r.choice([0, 0, 1, 1, 1, 2, 3])):
            x = r.random()
            if x < 0.5:
                acts.append(self.ssend("rs", True))
            elif x < 0.85:
                acts.append(self.ssend("ev", True))
            else:
                acts.append(self.rate(True))
        self.ops.append("S plan %d %s" % (rc, " ".join(acts)))

    def recv_cap(self):
        r = self.rng
        if self.tr == "shm" and r.random() < 0.15:
            return r.choice([0, 1, 23, 24, 100, self.mx - 1])
        if self.tr == "sock":
            return self.mx + 4096     # qb_ipc_us_recv_at_most ignores the buffer size (C06/D21)
        return self.mx + r.choice([0, 1, 4096])

    def step(self):
        r = self.rng
        x = r.random()
        if x < 0.30:
            self.csend()
        elif x < 0.42:
            self.ops.append("S run" + (" %d" % r.randrange(2, 5) if r.random() < 0.3 else ""))
        elif x < 0.52:
            self.plan()
        elif x < 0.62:
            self.ops.append(self.ssend("ev"))
        elif x < 0.68:
            self.ops.append(self.ssend("rs"))
        elif x < 0.76:
            self.ops.append("C recv %d" % self.recv_cap())
        elif x < 0.86:
            self.ops.append("C evrecv %d" % self.recv_cap())
        elif x < 0.90:
            self.ops.append("C poll")
        elif x < 0.94:
            self.ops.append(self.rate())
        elif x < 0.955:
            self.ops.append("quiesce")
            self.ops.append("C poll")
        elif x < 0.965:
            self.ops.append("C fcmax %d" % r.choice([0, 1, 2, 2, 3]))
        elif x < 0.975:
            self.ops.append("C resume")
        else:
            self.fault()

    def fault(self):
        r = self.rng
        if self.tr == "shm":
            k = r.random()
            if k < 0.4:
                self.ops.append("fault ns %d %d" % (r.randrange(1, 4), r.randrange(1, 4)))
            elif k < 0.7:
                if r.random() < 0.5:
                    # the client library is shown N EAGAINs on its notification byte before the harness
                    # parks it (the library spins there; a library that gives up has already queued the request)
                    self.ops.append("fault spin %d" % r.choice([1, 2, 7, 100, 300, 3000, 40000]))
                self.ops.append("fault park %d" % r.randrange(1, 3))
            elif k < 0.85:
                self.ops.append("S sndbuf 1")
            else:
                self.ops.append("C sndbuf 1")
        else:
            k = r.random()
            if k < 0.4:
                self.ops.append("fault dsc %d %d" % (r.randrange(1, 3), r.randrange(1, 3)))
            elif k < 0.8:
                self.ops.append("fault dss %d %d" % (r.randrange(1, 3), r.randrange(1, 3)))
            else:
                self.ops.append(r.choice(["S sndbuf 1", "C sndbuf 1", "S sndbuf 20000"]))

    def finish(self):
        self.ops += ["C resume", "S rate NORMAL", "C fcmax 1", "drain", "C poll", "end"]
        return self.ops


def gen_case(rng, nops=None):
    g = Gen(rng)
    style = rng.random()
    nops = nops or rng.randrange(20, 120)
    if style < 0.15 and g.tr == "shm":
        # event storm against a tiny notification socket, client drains, polls in between
        g.ops.append("S sndbuf 1")
        g.small = True
        for _ in range(rng.randrange(5, 40)):
            g.ops.append(g.ssend("ev"))
            if rng.random() < 0.2:
                g.ops.append("C poll")
        for _ in range(rng.randrange(1, 30)):
            g.ops.append("C evrecv %d" % g.recv_cap())
        g.ops.append("C poll")
        if rng.random() < 0.5:
            g.ops.append("S run")
            g.ops.append("C poll")
    elif style < 0.38 and style >= 0.30 and g.tr == "shm":
        # request burst while the server does not run: the client's notification byte meets a full
        # socket (tiny SO_SNDBUF and/or declared full) for a long time -- the library has to keep
        # trying (spin), the harness parks it, the server is run, the client resumes
        g.small = True
        if rng.random() < 0.5:
            g.ops.append("C sndbuf 1")
        for _ in range(rng.randrange(2, 6)):
            g.csend()
        for _ in range(rng.randrange(1, 4)):
            g.ops.append("fault spin %d" % rng.choice([1, 5, 130, 1100, 20000, 70000]))
            g.ops.append("fault park %d" % rng.randrange(1, 3))
            for _ in range(rng.randrange(1, 8)):
                g.csend()
            g.ops.append("S run %d" % rng.randrange(1, 4))
            g.ops.append("C resume")
    elif style < 0.30:
        # request burst with plans, then the server drains under changing rate limits
        g.small = True
        for _ in range(rng.randrange(5, 70)):
            if rng.random() < 0.3:
                g.plan()
            g.csend()
        for _ in range(rng.randrange(1, 6)):
            g.ops.append(g.rate())
            g.ops.append("S run %d" % rng.randrange(1, 4))
    for _ in range(nops):
        g.step()
    return g.finish()


def gen_free(rng, thorough=False):
    tr = rng.choice(["shm", "shm", "sock"])
    mx = rng.choice([0, 0, 16000])
    n = rng.randrange(50, 400 if not thorough else 3000)
    return ["setup %s %d" % (tr, mx), "free %d %d %d" % (n, rng.randrange(0, n), rng.randrange(1, 1 << 30)), "drain", "end"]


# ------------------------------------------------------------------ oracle
class Chan:
    def __init__(self, name):
        self.name = name
        self.called = []      # (seq, len) of every send call issued so far
        self.accepted = []    # (seq, len) of calls that returned success
        self.delivered = []   # (seq, len)


def oracle(ops, out):
    """None if the property holds on this trace, else a description."""
    req, resp, evt = Chan("request"), Chan("response"), Chan("event")
    pend = None
    ended = False
    negotiated = None
    for i, l in enumerate(out):
        w = l.split()
        if not w:
            continue
        if w[0] == "setup":
            m = re.search(r"max=(\d+)", l)
            negotiated = int(m.group(1)) if m else None
        if l.startswith("SAN:") or l.startswith("CRASH") or l.startswith("TIMEOUT"):
            return "harness outcome %s" % l
        if "CORRUPT" in l:
            return "received bytes differ from the bytes sent: %s" % l
        if w[0] == "free":
            m = dict(x.split("=") for x in w[1:] if "=" in x)
            a, b, c = m["req"].split("/")
            if not (a == b == c):
                return "free-running burst: requests seen/sent/wanted %s" % m["req"]
            if m["order"] != "0" or m["corrupt"] != "0":
                return "free-running burst: order=%s corrupt=%s" % (m["order"], m["corrupt"])
            x, y = m["resp"].split("/")
            if x != y:
                return "free-running burst: responses received/sent %s" % m["resp"]
            x, y = m["evt"].split("/")
            if x != y:
                return "free-running burst: events received/sent %s" % m["evt"]
            continue
        if w[:2] == ["C", "call"]:
            pend = (int(w[3]), int(w[4]))
            req.called.append(pend)
        elif w[:2] == ["C", "ret"]:
            if pend is None:
                return "line %d: return without call" % (i + 1)
            if w[2].isdigit():
                if int(w[2]) != pend[1]:
                    return "send of %d bytes returned %s" % (pend[1], w[2])
                if negotiated is not None and pend[1] > negotiated:
                    return "line %d: client send accepted %d bytes, larger than the negotiated maximum %d" % (
                        i + 1, pend[1], negotiated)
                req.accepted.append(pend)
            pend = None
        elif w[:2] == ["S", "cb"]:
            d = deliver(req, w[2:5], i, pending=pend)
            if d:
                return d
        elif w[0] == "S" and w[1] in ("evsend", "evsendv", "rsend", "rsendv"):
            ch = evt if w[1].startswith("ev") else resp
            seq, n = int(w[2]), int(w[3])
            r = w[w.index("->") + 1]
            if r.isdigit():
                if int(r) != n:
                    return "%s of %d bytes returned %s" % (w[1], n, r)
                if negotiated is not None and n > negotiated:
                    return ("line %d: %s accepted a message of %d bytes, larger than the negotiated maximum %d "
                            "(must report an error and have no effect)" % (i + 1, w[1], n, negotiated))
                ch.accepted.append((seq, n))
        elif w[:2] == ["C", "recv"] and len(w) >= 7:
            d = deliver(resp, w[4:7], i)
            if d:
                return d
        elif w[:2] == ["C", "evrecv"] and len(w) >= 7:
            d = deliver(evt, w[4:7], i)
            if d:
                return d
        elif w[:2] == ["C", "poll"]:
            unread = len(evt.accepted) - len(evt.delivered)
            sidle = "sidle=1" in w
            if sidle and unread > 0 and w[3] == "0":
                return ("line %d: server idle, %d accepted event(s) unread, but the descriptor the client polls "
                        "is not readable" % (i + 1, unread))
        elif w[0] == "end":
            ended = True
    if "drain" in ops and ended:
        for ch in (req, resp, evt):
            if ch.delivered != ch.accepted:
                k = len(ch.delivered)
                return "%s channel: %d accepted, %d delivered after the final drain (first missing: %s)" % (
                    ch.name, len(ch.accepted), k, ch.accepted[k] if k < len(ch.accepted) else "-")
    return None


def deliver(ch, f, i, pending=None):
    n, seq, ck = int(f[0]), int(f[1]), int(f[2])
    k = len(ch.delivered)
    acc = list(ch.accepted)
    if pending is not None:
        acc.append(pending)      # written to the ring, the call has not returned yet
    if k >= len(acc):
        return "line %d: %s channel delivered (seq %d, %d bytes) but only %d message(s) were accepted (duplicate / phantom)" % (
            i + 1, ch.name, seq, n, len(acc))
    if acc[k] != (seq, n):
        return "line %d: %s channel delivered (seq %d, %d bytes), expected (seq %d, %d bytes) (loss / reorder / wrong length)" % (
            i + 1, ch.name, seq, n, acc[k][0], acc[k][1])
    if cksum(seq, n) != ck:
        return "line %d: %s channel message seq %d: content differs (checksum)" % (i + 1, ch.name, seq)
    ch.delivered.append((seq, n))
    return None


def literal_unreadable(out):
    """number of instants at which an accepted event was unread while the client's descriptor was not
    readable (the literal 'at every instant' reading of the property; only possible while the server
    still has deferred notifications to flush)"""
    acc = dl = 0
    hits = 0
    for l in out:
        w = l.split()
        if len(w) > 3 and w[0] == "S" and w[1] in ("evsend", "evsendv") and w[w.index("->") + 1].isdigit():
            acc += 1
        elif w[:2] == ["C", "evrecv"] and len(w) >= 7:
            dl += 1
        elif w[:2] == ["C", "poll"] and w[3] == "0" and acc > dl:
            hits += 1
    return hits


def tags(ops, out):
    t = set()
    text = "\n".join(out)
    if "ns=" in text and ":EAGAIN" in text:
        t.add("notify-deferred")
    if re.search(r"^S disp I?O", text, re.M):
        t.add("pollout-resend")
    if "C parked" in text:
        t.add("client-parked")
    if "C ret EAGAIN" in text:
        t.add("send-eagain")
    if "C ret EMSGSIZE" in text or "-> EMSGSIZE" in text:
        t.add("emsgsize")
    if re.search(r"S (evsendv?|rsendv?) .* -> EAGAIN", text):
        t.add("server-send-eagain")
    if "-> ENOBUFS" in text:
        t.add("short-buffer")
    if "S cbret -1" in text:
        t.add("backoff")
    if "rate OFF" in text:
        t.add("flow-control")
    if re.search(r"nr=([2-9]|\d\d)", text):
        t.add("multi-dispatch")
    if literal_unreadable(out):
        t.add("literal-unreadable-instant")
    if "setup sock" in text:
        t.add("socket-transport")
    if re.search(r"C poll -> 1 sidle=1", text):
        t.add("quiescent-readable")
    return t
