#!/usr/bin/env python3
"""Regenerates the table of DESIGN.md section 7 (between the SEEDTABLE markers) from seeded/*/meta.json and
seeded/RESULTS.json (written by tools/seedtest.py)."""
import json, os, re
V = os.path.dirname(os.path.dirname(os.path.abspath(__file__)))
res = json.load(open(os.path.join(V, "seeded", "RESULTS.json")))
rows = ["| change | what it needs in order to manifest | check | reported as | replay |", "|---|---|---|---|---|"]
for sid in sorted(d for d in os.listdir(os.path.join(V, "seeded")) if os.path.isdir(os.path.join(V, "seeded", d))):
    m = json.load(open(os.path.join(V, "seeded", sid, "meta.json")))
    r = res.get(sid)
    need = m.get("needs_to_manifest", "").replace("|", "/")
    if not r or not r.get("applied"):
        rows.append("| %s | %s | — | not run (patch does not apply / no result) | |" % (sid, need))
        continue
    for p, c in r.get("checks", {}).items():
        vl = c.get("violation_lines") or []
        if c.get("exit") == 1 and vl:
            how = "VIOLATION with failing input" if c.get("with_input") else "VIOLATION no-failing-input-found"
            rp = vl[0].split("replay=")[1].split()[0]
        else:
            how, rp = "**missed** (exit %s)" % c.get("exit"), ""
        rows.append("| %s | %s | %s (%s) | %s | `%s` |" % (sid, need, p, r.get("tier", "quick"), how, rp))
p = os.path.join(V, "DESIGN.md")
s = open(p).read()
s2 = re.sub(r"(<!-- SEEDTABLE -->\n).*?(<!-- /SEEDTABLE -->)", lambda mm: mm.group(1) + "\n".join(rows) + "\n" + mm.group(2), s, flags=re.S)
open(p, "w").write(s2)
print(len(rows) - 2, "rows")
