"""Generator and property oracle for the log-routing streams (C12).

Op lines: see harness/log/route_drv.c.  The oracle evaluates the PROPERTY on the implementation's
own output, independently of the Lean model: it keeps only the configuration the user has set up
(which targets are open/enabled, which filters and tag filters are stored — taking the
implementation's return codes at their word), and for every `log` line requires

    delivered targets == [t ascending | t enabled, some stored filter of t matches the call site]
    tags reported     == own tags of the call if non-zero, else value of the last stored tag
                         filter that matches, else 0

A call site is (file, line, priority, format); the generators give every site one function name
and one own tag word (SiteWF) and never use line 0 (proposed known finding KF-C12-line0) or
lines >= 65536 (assert in qb_log_dcs_get)."""
import os
import re

VERIF = os.path.dirname(os.path.dirname(os.path.abspath(__file__)))


def gen_const(name, default):
    """constant from the regenerated Gen/LogRoute.lean (falls back to the default)"""
    try:
        txt = open(os.path.join(VERIF, "lean", "QbVerif", "Gen", "LogRoute.lean")).read()
        m = re.search(r"def %s : Nat := (\d+)" % name, txt)
        return int(m.group(1)) if m else default
    except OSError:
        return default


TOKEN_KEEP = gen_const("LOGR_TOKEN_KEEP", 498)
TARGET_MAX = gen_const("LOGR_TARGET_MAX", 32)
STATIC_MAX = gen_const("LOGR_TARGET_STATIC_MAX", 4)

FILES = ["a.c", "ab.c", "b.c", "lib/a.c", "main.c", "-"]
FUNCS = ["f", "fa", "g", "main", "f1", "-"]
FMTS = ["hello", "hello_world", "ring", "ringbuffer", "x", "o"]     # never empty: cs_format defect D7 (C13)
LINES = [1, 2, 10, 11, 255, 65535]
PRIOS = [0, 3, 4, 6, 7, 8]
FILE_TEXTS = ["a.c", "ab.c", "b.c", "a.c,b.c", "b.c,", ",a.c", "a", "*", "-", "lib/a.c,main.c", "a.c,,b.c", ",",
              "ab.c,a.c", "*,a.c"]
FUNC_TEXTS = ["f", "f,g", "fa", "main,f1", "g,", "*", "-", "f1,f", ",f"]
FMT_TEXTS = ["ring", "hello", "o", "_", "x", "*", "-", "ringbuffer", "hello_world!", "lo_w"]
RX_TEXTS = ["^a", "a\\.c$", "f.*", "ring", "[", "\\(", "*", "^$", ".", "b", "^f$", "l*o", "a\\{2\\}"]
WINDOWS = [(0, 7), (0, 7), (0, 8), (0, 3), (4, 7), (3, 3), (6, 6), (0, 255), (5, 2), (7, 8)]
TYPES = ["file", "func", "fmt", "filere", "funcre", "fmtre"]
LONG = "a" * TOKEN_KEEP


def tok(s):
    return s if s != "" else "-"


def untok(s):
    return "" if s == "-" else s


# ------------------------------------------------------------------ matching rule (spec level)
def alt_match(name, text):
    toks = text.split(",")
    if len(toks) > 1 and toks[-1] == "":
        toks = toks[:-1]                       # nothing follows the last comma: no further alternative
    return any(name == t[:TOKEN_KEEP] for t in toks)


class RxMissing(Exception):
    pass


def matches(rx, ty, text, hi, lo, site):
    """site = (file, func, line, prio, fmt)"""
    f, fn, _line, prio, fmt = site
    if prio > lo or prio < hi:
        return False
    if text == "*":
        return True
    if ty == "file":
        return alt_match(f, text)
    if ty == "func":
        return alt_match(fn, text)
    if ty == "fmt":
        return text in fmt
    s = {"filere": f, "funcre": fn, "fmtre": fmt}[ty]
    if (text, s) not in rx:
        raise RxMissing()
    return rx[(text, s)]


# ------------------------------------------------------------------ oracle
def simulate(ops, out):
    """returns (failure description or None, set of coverage tags)"""
    tags = set()
    rx = {}
    inited = False
    tstate = {}          # slot -> 'D' | 'E'
    filt = {}            # slot -> list of (type, text, hi, lo)
    tagf = []            # list of (type, text, hi, lo, value)
    seen = {}            # site key -> True (already executed)
    closed = set()       # slots closed since the last init
    if len(out) < len(ops):
        return "implementation stopped after %d of %d ops (%s)" % (len(out), len(ops), out[-1] if out else "no output"), tags
    for i, (op, res) in enumerate(zip(ops, out)):
        w = op.split()
        k = w[0]
        if res.startswith("SAN:") or res.startswith("CRASH") or res == "TIMEOUT":
            return "op %d `%s`: %s" % (i + 1, op, res), tags
        if k == "rx" and len(w) == 4:
            rx[(untok(w[1]), untok(w[2]))] = (w[3] == "1")
            if res != "ok":
                return "op %d: declared regex verdict differs from regcomp/regexec (%s)" % (i + 1, op), tags
        elif k == "rxbad":
            if res != "ok":
                return "op %d: regex declared invalid compiles (%s)" % (i + 1, op), tags
        elif k == "init":
            if res == "ok":
                if seen:
                    tags.add("reinit")
                inited = True
                tstate = {t: "D" for t in range(STATIC_MAX)}
                filt = {0: [("file", "*", 0, int(w[1]))]}
                seen = {}
                closed = set()
        elif k == "fini":
            inited = False
            tstate, filt, tagf, seen = {}, {}, [], {}
        elif k == "topen":
            if res.isdigit():
                n = int(res)
                if n in tstate:
                    return "op %d: topen returned slot %d which is in use" % (i + 1, n), tags
                tstate[n] = "D"
                filt.setdefault(n, [])
                if n in closed:
                    tags.add("slot-reuse")
            elif res == "EMFILE":
                tags.add("emfile")
        elif k == "tclose":
            if res == "ok" and inited and len(w) == 2 and w[1].isdigit() and int(w[1]) in tstate:
                t = int(w[1])
                del tstate[t]
                filt[t] = []                   # a closed target has no filters
                closed.add(t)
        elif k == "enable":
            if res == "ok":
                t = int(w[1])
                tstate[t] = "E" if w[2] == "1" else "D"
            elif res.startswith("E"):
                tags.add(res.lower())
        elif k == "filter":
            if res.startswith("E"):
                tags.add(res.lower())
            if res == "ok":
                t, c, ty, text, hi, lo = int(w[1]), w[2], w[3], untok(w[4]), int(w[5]), int(w[6])
                if ty.endswith("re"):
                    tags.add("regex")
                if "," in text:
                    tags.add("comma-alt")
                if c == "add":
                    filt.setdefault(t, []).append((ty, text, hi, lo))
                elif c == "remove":
                    l = filt.get(t, [])
                    for j, f in enumerate(l):
                        if f[0] == ty and f[3] <= lo and f[2] >= hi and (f[1] == text or text == "*"):
                            del l[j]
                            if l:
                                tags.add("remove-with-others-stored")
                            break
                    else:
                        tags.add("remove-nothing")
                elif c == "clearall":
                    filt[t] = []
                elif c == "tagset":
                    tagf.append((ty, text, hi, lo, t))
                elif c == "tagclear":
                    for j, f in enumerate(tagf):
                        if f[0] == ty and f[3] <= lo and f[2] >= hi and (f[1] == text or text == "*"):
                            del tagf[j]
                            break
                elif c == "tagclearall":
                    tagf = []
        elif k == "log":
            if not res.startswith("deliver"):
                return "op %d `%s`: unexpected answer %r" % (i + 1, op, res), tags
            got = res.split()[1:]
            if any("!" in g for g in got):
                return "op %d `%s`: callback got a different call site or message: %s" % (i + 1, op, res), tags
            site = (untok(w[1]), untok(w[2]), int(w[3]), int(w[4]), untok(w[5]))
            own = int(w[6])
            key = (site[0], site[2], site[3], site[4])
            try:
                if not inited:
                    want = []
                else:
                    tag = own
                    if own == 0:
                        for f in tagf:
                            if matches(rx, f[0], f[1], f[2], f[3], site):
                                tag = f[4]
                                tags.add("tag-from-filter")
                    else:
                        tags.add("own-tag")
                    sel = [t for t in sorted(tstate) if tstate[t] == "E" and
                           any(matches(rx, f[0], f[1], f[2], f[3], site) for f in filt.get(t, []))]
                    want = ["%d:%d" % (t, tag) for t in sel]
                    if any(tstate[t] == "D" and any(matches(rx, f[0], f[1], f[2], f[3], site) for f in filt.get(t, []))
                           for t in tstate if t >= STATIC_MAX) and key not in seen:
                        tags.add("first-use-selected-by-disabled-target")
            except RxMissing:
                tags.add("rx-missing")
                seen[key] = True
                continue
            if want:
                tags.add("delivered")
            if len(want) > 1:
                tags.add("multi-target")
            if key in seen and want:
                tags.add("known-site-delivered")
            seen[key] = True
            if got != want:
                return ("op %d `%s`: delivered to [%s] but the enabled targets whose stored filters select the call "
                        "site (with the tag the tag filters give) are [%s]" % (i + 1, op, " ".join(got), " ".join(want))), tags
    return None, tags


def oracle(ops, out):
    return simulate(ops, out)[0]


def cover(ops, out):
    return simulate(ops, out)[1]


# ------------------------------------------------------------------ generator
def gen_sites(rng):
    """a small universe of call sites: (file, func, line, prio, fmt, tags) with func a function of
    (file, line) and tags a function of the key (file, line, prio, fmt)"""
    n = rng.randrange(2, 8)
    funcs = {}
    sites = {}
    files = rng.sample(FILES, rng.randrange(1, 4))
    lines = rng.sample(LINES, rng.randrange(1, 4))
    if rng.random() < 0.05:
        files.append(LONG)
    while len(sites) < n:
        f = rng.choice(files)
        ln = rng.choice(lines)
        pr = rng.choice(PRIOS)
        fm = rng.choice(FMTS)
        fn = funcs.setdefault((f, ln), rng.choice(FUNCS))
        key = (f, ln, pr, fm)
        if key not in sites:
            sites[key] = (f, fn, ln, pr, fm, 0 if rng.random() < 0.7 else rng.choice([1, 5, 9]))
    return list(sites.values())


def gen_filter_args(rng, sites, kind=None):
    """(type, text, hi, lo) — mostly aimed at one of the sites, so that filters overlap"""
    ty = kind or rng.choice(TYPES + ["file", "func", "fmt"])
    r = rng.random()
    s = rng.choice(sites)
    if r < 0.55:
        f, fn, ln, pr, fm, _ = s
        f, fn, fm = untok(f), untok(fn), untok(fm)
        if ty == "file":
            text = rng.choice([f, f + ",zz.c", "zz.c," + f, f + ",", f[:-1] if f else f, "*"])
        elif ty == "func":
            text = rng.choice([fn, fn + ",zz", "zz," + fn, fn + "x", "*"])
        elif ty == "fmt":
            text = rng.choice([fm, fm[1:], fm[:2], fm + "z", "*", ""])
        elif ty == "filere":
            text = rng.choice(["^" + f[:1], f[:2] + ".*", "*", "."])
        elif ty == "funcre":
            text = rng.choice(["^" + fn + "$", fn[:1] + ".*", "*"])
        else:
            text = rng.choice([fm[:3], "^" + fm[:1], "*", "o$"])
        if f == LONG and ty == "file" and rng.random() < 0.7:
            text = rng.choice([LONG + "a", LONG, LONG + "a,b.c", LONG[:-1]])
        win = rng.choice([(0, 7), (0, pr), (pr, 7) if pr <= 7 else (0, pr), (pr, pr), (0, max(0, pr - 1))])
        if win[1] < win[0]:
            win = (0, 7)
    else:
        pool = {"file": FILE_TEXTS, "func": FUNC_TEXTS, "fmt": FMT_TEXTS}.get(ty, RX_TEXTS)
        text = rng.choice(pool)
        win = rng.choice(WINDOWS)
    text = untok(text)
    if " " in text:
        text = text.replace(" ", "_")
    return ty, text, win[0], win[1]


def log_line(s):
    return "log %s %s %d %d %s %d" % (tok(s[0]), tok(s[1]), s[2], s[3], tok(s[4]), s[5])


def filt_line(t, conf, a):
    return "filter %d %s %s %s %d %d" % (t, conf, a[0], tok(a[1]), a[2], a[3])


def gen_case(rng):
    """one history (list of op lines, WITHOUT the rx declarations — see add_rx)"""
    sites = gen_sites(rng)
    ops = []
    if rng.random() < 0.97:
        ops.append("init %d" % rng.choice([0, 3, 7]))
    slots = []               # slots we believe open (4, 5, … in allocation order)
    free = []
    nxt = [STATIC_MAX]
    stored = {}              # slot -> list of filter args
    tstored = []

    def a_topen():
        ops.append("topen")
        if free:
            free.sort()
            t = free.pop(0)
        else:
            t = nxt[0]
            nxt[0] += 1
        if t < TARGET_MAX:
            slots.append(t)
            stored.setdefault(t, [])

    def pick_t(any_ok=0.06):
        r = rng.random()
        if slots and r > any_ok:
            return rng.choice(slots)
        return rng.choice([0, 1, 3, 4, 5, 6, 7, TARGET_MAX - 1, TARGET_MAX, 40])

    def a_tclose():
        t = pick_t(0.05)
        ops.append("tclose %d" % t)
        if t in slots:
            slots.remove(t)
            free.append(t)
            stored[t] = []

    def a_enable(v=None):
        t = pick_t(0.04)
        ops.append("enable %d %d" % (t, rng.choice([1, 1, 0]) if v is None else v))

    def a_add(kind=None):
        t = pick_t()
        a = gen_filter_args(rng, sites, kind)
        ops.append(filt_line(t, "add", a))
        stored.setdefault(t, []).append(a)
        if len(slots) > 1 and rng.random() < 0.3:
            # the same (or a wider) filter on a second target: several targets select one site
            t2 = rng.choice([x for x in slots if x != t] or slots)
            b = a if rng.random() < 0.6 else (a[0], "*", 0, 7)
            ops.append(filt_line(t2, "add", b))
            stored.setdefault(t2, []).append(b)

    def a_remove():
        t = pick_t()
        l = stored.get(t, [])
        r = rng.random()
        if l and r < 0.6:
            a = rng.choice(l)
            if rng.random() < 0.15:
                a = (a[0], "*", 0, 255)
            elif rng.random() < 0.15:
                a = (a[0], a[1], 0, 255)
        else:
            a = gen_filter_args(rng, sites)
        ops.append(filt_line(t, "remove", a))

    def a_clearall():
        t = pick_t()
        ops.append(filt_line(t, "clearall", ("file", rng.choice(["*", "", "x"]), 0, rng.choice([0, 7]))))
        stored[t] = []

    def a_tagset():
        a = gen_filter_args(rng, sites)
        ops.append(filt_line(rng.choice([0, 1, 2, 3, 5, 7, 9]), "tagset", a))
        tstored.append(a)

    def a_tagclear():
        if tstored and rng.random() < 0.65:
            a = rng.choice(tstored)
            if rng.random() < 0.15:
                a = (a[0], "*", 0, 255)
        else:
            a = gen_filter_args(rng, sites)
        ops.append(filt_line(rng.choice([0, 3, 5]), "tagclear", a))

    def a_tagclearall():
        ops.append(filt_line(0, "tagclearall", ("file", "*", 0, 7)))
        del tstored[:]

    def a_log():
        ops.append(log_line(rng.choice(sites)))

    def a_reinit():
        ops.append("fini")
        if rng.random() < 0.3:
            a_log()
            a_add()
        ops.append("init %d" % rng.choice([0, 7]))
        del slots[:], free[:], tstored[:]
        nxt[0] = STATIC_MAX
        stored.clear()

    acts = [(a_topen, 7), (a_tclose, 4), (a_enable, 14), (a_add, 20), (a_remove, 10), (a_clearall, 2),
            (a_tagset, 7), (a_tagclear, 4), (a_tagclearall, 1), (a_log, 30), (a_reinit, 0.6)]
    tot = sum(w for _, w in acts)

    def rand_act():
        x = rng.random() * tot
        for f, w in acts:
            x -= w
            if x < 0:
                f()
                return
        a_log()

    shape = rng.random()
    if shape >= 0.45 and rng.random() < 0.85:
        # plain random history: start with a few open targets so that most ops mean something
        for _ in range(rng.randrange(1, 4)):
            a_topen()
        for t in list(slots):
            if rng.random() < 0.6:
                ops.append("enable %d 1" % t)
            if rng.random() < 0.5:
                a = gen_filter_args(rng, sites)
                ops.append(filt_line(t, "add", a))
                stored.setdefault(t, []).append(a)
    if shape < 0.15:
        # first use of a site while its target is disabled, enable later (D5 shape)
        a_topen()
        for _ in range(rng.randrange(1, 4)):
            a_add()
        if rng.random() < 0.5:
            a_enable(1)
            a_log()
            a_enable(0)
        for _ in range(rng.randrange(1, 4)):
            a_log()
        a_enable(1)
        for s in sites:
            ops.append(log_line(s))
    elif shape < 0.30:
        # overlapping filters, remove one (D6 shape), targets and tags
        a_topen()
        a_enable(1)
        for _ in range(rng.randrange(2, 5)):
            a_add()
        for _ in range(rng.randrange(0, 3)):
            a_tagset()
        for s in rng.sample(sites, max(1, len(sites) // 2)):
            ops.append(log_line(s))
        for _ in range(rng.randrange(1, 3)):
            a_remove()
            if rng.random() < 0.5:
                a_tagclear()
        for s in sites:
            ops.append(log_line(s))
    elif shape < 0.40:
        # close and reopen a slot (D29 shape)
        a_topen()
        a_enable(1)
        a_add()
        a_log()
        if slots:
            t = slots[-1]
            ops.append("tclose %d" % t)
            slots.remove(t)
            free.append(t)
            stored[t] = []
        a_topen()
        a_enable(1)
        for s in sites:
            ops.append(log_line(s))
    elif shape < 0.45:
        # fill every slot
        for _ in range(TARGET_MAX - STATIC_MAX + rng.randrange(0, 3)):
            a_topen()
        for _ in range(6):
            a_enable(1)
            a_add()
    for _ in range(rng.randrange(6, 36)):
        rand_act()
    return ops


def rx_needs(ops):
    """(regex text, string) pairs the regex filters of the history can be asked about"""
    texts = set()
    strs = {"filere": set(), "funcre": set(), "fmtre": set()}
    for op in ops:
        w = op.split()
        if w[0] == "filter" and len(w) == 7 and w[3] in strs:
            texts.add((w[3], untok(w[4])))
        elif w[0] == "log" and len(w) == 7:
            strs["filere"].add(untok(w[1]))
            strs["funcre"].add(untok(w[2]))
            strs["fmtre"].add(untok(w[5]))
    # (text, "") is always asked: it tells whether the regex compiles at all
    return sorted({(t, s) for ty, t in texts for s in strs[ty]} | {(t, "") for _, t in texts})


def add_rx(ops, table):
    """prepend the rx / rxbad declarations (verdicts from `table`: (text, str) -> '0' | '1' | 'bad')"""
    decl = []
    bad = set()
    for t, s in rx_needs(ops):
        v = table[(t, s)]
        if v == "bad":
            if t not in bad:
                bad.add(t)
                decl.append("rxbad %s" % tok(t))
        else:
            decl.append("rx %s %s %s" % (tok(t), tok(s), v))
    # the first line of a case survives shrinking: keep `init` (or whatever came first) there
    return ops[:1] + decl + ops[1:]
