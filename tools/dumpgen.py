"""Generators and the property oracle for C15 (blackbox dump files).

File layout (lib/log_blackbox.c, lib/ringbuffer.c):
  [new format only] 5 words marker block  0, 0xCCBBCCBB, 0xBBCCBBCC, 2, 0
  word_size, write_pt, read_pt, version(1), hash(=sum of the other four)  -- 5 words
  word_size*4 bytes of ring data (chunks: size word, magic word, payload rounded up to words)
Record (chunk payload): lineno u32, tags u32, priority u8, fn_size u32, function[fn_size],
  timestamp (struct timespec, 16 bytes; old format: time_t, 8 bytes), msg_len u32, message.

Everything here is written from the file format and the property statement, independent of the
Lean model.  All randomness comes from the rng passed in (ctx.rng)."""
import re
import struct

MAGIC = 0xA1A1A1A1
DEAD = 0xD0D0D0D0
ALLOC = 0xA110CED0
MARKER = struct.pack("<5I", 0, 0xCCBBCCBB, 0xBBCCBBCC, 2, 0)
PAGEW = 1024                      # words per page (4096-byte pages)
PRIO = ["emerg", "alert", "crit", "error", "warning", "notice", "info", "debug", "trace"]
TOO_LONG = b"Log message too long to be stored in the blackbox.  Maximum is QB_LOG_MAX_LEN"
M64 = (1 << 64) - 1


DIRECTIVE = re.compile(rb"%[-+ #0-9*]*(?:\.[0-9*]*)?(ll|l)?([diouxXcs])")


def u32(x):
    return struct.pack("<I", x & 0xFFFFFFFF)


# ------------------------------------------------------------------ building dumps in python
def ser_msg(fmt, args=()):
    """qb_vsnprintf_serialize for the simple directives used here: format, NUL, arguments."""
    out = bytearray(fmt) + b"\0"
    it = iter(args)
    for m in re.finditer(DIRECTIVE, fmt):
        for _ in range(m.group(0).count(b"*")):       # `*` width / precision: an int stored in front
            out += struct.pack("<i", next(it))
        a = next(it)
        if m.group(2) == b"s":
            out += a + b"\0"
        elif m.group(2) == b"c":
            out += bytes([a & 0xFF])
        elif m.group(1):
            out += struct.pack("<q", a) if a < 0 else struct.pack("<Q", a & M64)
        else:
            out += struct.pack("<i", a) if a < 0 else struct.pack("<I", a & 0xFFFFFFFF)
    return bytes(out)


def py_text(fmt, args=()):
    """what printf makes of (fmt, args), for the same simple directives"""
    def conv(m, it=iter(args)):
        spec = m.group(0).decode()
        while "*" in spec:                             # negative precision = none; negative width = left-justified
            v = next(it)
            i = spec.index("*")
            spec = (spec[:i - 1] + spec[i + 1:]) if (v < 0 and spec[i - 1] == ".") else (spec[:i] + str(v) + spec[i + 1:])
        a = next(it)
        k = spec[-1]
        spec = spec.replace("ll", "").replace("l", "")
        if k == "s":
            return (spec % a.decode("latin1")).encode("latin1")
        if k == "c":
            return (spec % chr(a & 0xFF)).encode("latin1")
        if k in "ouxX":
            bits = 64 if m.group(1) else 32
            a &= (1 << bits) - 1
        if k in "xX" and a == 0:
            spec = spec.replace("#", "")          # C prints "%#x" of 0 as "0" (python: "0x0")
        if k == "u":
            spec = spec[:-1] + "d"
        if k == "i":
            spec = spec[:-1] + "d"
        return (spec % a).encode()
    return re.sub(DIRECTIVE, conv, fmt)


def record(prio, line, tags, sec, nsec, fn, msg, newfmt=True, fn_size=None, msg_len=None, fn_nul=True):
    fnb = fn + (b"\0" if fn_nul else b"")
    ts = struct.pack("<qq", sec, nsec) if newfmt else struct.pack("<q", sec)
    return (u32(line) + u32(tags) + bytes([prio & 0xFF]) + u32(len(fnb) if fn_size is None else fn_size) + fnb + ts +
            u32(len(msg) if msg_len is None else msg_len) + msg)


def step(W, p, size):
    p = p + 2 + size // 4 + (1 if size % 4 else 0)
    return p % W if p > W - 1 else p


def build_ring(W, start, chunks, fill=0):
    """lay the chunks one after another from word `start`, circularly in W words"""
    mem = bytearray([fill]) * (4 * W) if fill else bytearray(4 * W)
    p = start
    for c in chunks:
        mem[4 * p:4 * p + 4] = u32(len(c))
        q = (p + 1) % W
        mem[4 * q:4 * q + 4] = u32(MAGIC)
        base = 4 * ((p + 2) % W)
        for j, b in enumerate(c):
            mem[(base + j) % (4 * W)] = b
        p = step(W, p, len(c))
    q = (p + 1) % W
    mem[4 * q:4 * q + 4] = u32(DEAD)
    return mem, start, p


def build_dump(W, rp, wp, mem, newfmt=True, version=1, hashv=None, ws=None):
    ws = W if ws is None else ws
    h = (ws + wp + rp + version) & 0xFFFFFFFF if hashv is None else hashv
    return (MARKER if newfmt else b"") + u32(ws) + u32(wp) + u32(rp) + u32(version) + u32(h) + bytes(mem)


class Dump:
    """a parsed dump: offsets of the fields the corruption generators aim at"""

    def __init__(self, data):
        self.data = bytes(data)
        self.new = data[:20] == MARKER
        self.h = 20 if self.new else 0           # offset of the ring header
        self.ws, self.wp, self.rp, self.ver, self.hash = struct.unpack_from("<5I", data, self.h)
        self.d = self.h + 20                       # offset of the ring data
        self.chunks = []                           # (word index, size) of live chunks
        p, n = self.rp, 0
        W = self.ws
        while W and p != self.wp and n <= W and p < W:
            sz = struct.unpack_from("<I", data, self.d + 4 * p)[0]
            self.chunks.append((p, sz))
            p = step(W, p, sz)
            n += 1

    def byte_off(self, word, j=0):
        """file offset of payload byte j of the chunk at `word`"""
        W = self.ws
        return self.d + (4 * ((word + 2) % W) + j) % (4 * W)


def set_hdr(data, new, ws=None, wp=None, rp=None, ver=None, hashv=None, rehash=True):
    h = 20 if new else 0
    f = list(struct.unpack_from("<5I", data, h))
    for i, v in enumerate((ws, wp, rp, ver)):
        if v is not None:
            f[i] = v & 0xFFFFFFFF
    f[4] = (sum(f[:4]) & 0xFFFFFFFF) if rehash else f[4]
    if hashv is not None:
        f[4] = hashv & 0xFFFFFFFF
    b = bytearray(data)
    b[h:h + 20] = struct.pack("<5I", *f)
    return b


def poke(data, off, bs):
    b = bytearray(data)
    if off < 0 or off >= len(b):
        return b
    b[off:off + len(bs)] = bs[:max(0, len(b) - off)]
    return b


# ------------------------------------------------------------------ random valid records
FUNCS = [b"main", b"f", b"qb_ipcs_dispatch_connection_request", b"a_rather_long_function_name_to_shift_alignment_by_one",
         b"x1", b"_t", b"worker_thread_3"]
WORDS = [b"", b"a", b"hello", b"ring buffer", b"100% sure", b"tab\there", b"x" * 37, b"y" * 120, b"(null)", b"A1A1A1A1"]

# (shape, format) -- no precision and no "%%" here: those are C14's defects D2/D3
FORMATS = {
    0: [b"plain text", b"", b"a", b"connection %s", b"starting up; pid follows"],
    1: [b"%d", b"v=%d;", b"%5d|", b"%-6d|", b"%05d", b"%x", b"%X", b"%o", b"%u", b"%i", b"%+d", b"%#x", b"c=%c.", b"rc %d\n"],
    2: [b"%s", b"[%s]", b"%10s|", b"%-10s|", b"name: %s\n"],
    3: [b"%d:%s", b"%4d [%s]"],
    4: [b"%lld", b"%llu", b"%llx", b"%20lld|"],
    5: [b"%s=%d", b"%s (%x)", b"node %-12s state %d", b"%10s|%d", b"%-3s:%x;", b"%40s %u"],
    6: [b"%d,%d", b"%u-%u", b"%c%c"],
    7: [b"%ld/%d", b"%lx %o"],
    # a `%s` whose printed length differs from its stored length (field width, width or precision taken from
    # the arguments) FOLLOWED by further conversions: everything after it must still be decoded from the right bytes
    8: [b"[%10s] [%s]", b"%-8s %-8s|", b"%s/%s", b"%-20s%s", b"%3s%3s."],
    9: [b"%.*s|%d", b"%*s|%d", b"%-*s<%x>", b"a %.*s b %u c"],
    10: [b"%-8s %-8d %5s %d", b"%s:%d %12s:%d"],
}


def rand_int(rng, bits=32, signed=True):
    r = rng.random()
    if r < 0.3:
        v = rng.choice([0, 1, -1, 7, 42, 255, 256, 65535, 2 ** 31 - 1, -2 ** 31, 0xA1A1A1A1 - 2 ** 32])
    else:
        v = rng.getrandbits(bits) - (2 ** (bits - 1) if signed else 0)
    if bits == 32:
        v = max(-2 ** 31, min(2 ** 31 - 1, v))
    return v


def rand_word(rng):
    if rng.random() < 0.6:
        return rng.choice(WORDS)
    n = rng.choice([1, 2, 3, 4, 5, 8, 15, 16, 17, 60, 200])
    return bytes(rng.choice(b"abcdefghijklmnopqrstuvwxyzABCXYZ0123456789 _-+/:.,") for _ in range(n))


def rand_time(rng):
    r = rng.random()
    if r < 0.7:
        sec = 1700000000 + rng.randrange(0, 10 ** 7)
    elif r < 0.85:
        sec = rng.choice([0, 1, 59, 2 ** 31 - 1, 2 ** 31, 2 ** 32, 2 ** 40, 2 ** 55 - 1])
    else:
        sec = rng.randrange(0, 2 ** 34)
    nsec = rng.choice([0, 999999, 1000000, 999999999, 123456789]) if rng.random() < 0.4 else rng.randrange(0, 10 ** 9)
    return sec, nsec


def rand_rec(rng):
    """(prio, line, tags, sec, nsec, fn, shape, fmt, args) with args as python values"""
    shape = rng.choice([0, 1, 1, 2, 2, 3, 4, 5, 5, 6, 7, 8, 8, 9, 9, 10])
    fmt = rng.choice(FORMATS[shape])
    if shape == 0:
        if b"%s" in fmt:
            shape, args = 2, [rand_word(rng)]
        else:
            args = []
            if rng.random() < 0.25:
                fmt = bytes(rng.choice(b"abcdefghij klmnop") for _ in range(rng.choice([1, 2, 3, 30, 31, 100, 300, 450])))
    elif shape == 1:
        args = [rng.randrange(33, 127) if b"%c" in fmt else rand_int(rng)]
    elif shape == 2:
        args = [rand_word(rng)]
    elif shape == 3:
        args = [rand_int(rng), rand_word(rng)]
    elif shape == 4:
        args = [rand_int(rng, 64)]
    elif shape == 5:
        args = [rand_word(rng), rand_int(rng)]
    elif shape == 6:
        args = [rng.randrange(33, 127), rng.randrange(33, 127)] if b"%c" in fmt else [rand_int(rng), rand_int(rng)]
    elif shape == 7:
        args = [rand_int(rng, 64), rand_int(rng)]
    elif shape == 8:
        args = [rand_word(rng), rand_word(rng)]
    elif shape == 9:
        args = [rng.choice([0, 1, 2, 3, 5, 8, 12, 16, 30, 64]), rand_word(rng), rand_int(rng)]
    else:
        args = [rand_word(rng), rand_int(rng), rand_word(rng), rand_int(rng)]
    sec, nsec = rand_time(rng)
    prio = rng.choice([0, 1, 2, 3, 4, 5, 6, 7, 8, 8, 9, 200, 255]) if rng.random() < 0.3 else rng.randrange(0, 9)
    line = rng.choice([0, 1, 65535, 65536, 2 ** 32 - 1]) if rng.random() < 0.2 else rng.randrange(1, 5000)
    tags = rng.choice([0, 1, 2 ** 31, 2 ** 32 - 1]) if rng.random() < 0.3 else rng.getrandbits(32)
    return (prio, line, tags, sec, nsec, rng.choice(FUNCS), shape, fmt, args)


def hexs(b):
    return b.hex() if b else "-"


def rec_op(r):
    prio, line, tags, sec, nsec, fn, shape, fmt, args = r
    a = [hexs(x) if isinstance(x, bytes) else str(x) for x in args]
    return "r %d %d %d %d %d %s %d %s %s" % (prio, line, tags, sec, nsec, hexs(fn), shape, hexs(fmt), " ".join(a))


def gen_mk_case(rng):
    """a case that builds a VALID dump through the real logger and prints it"""
    r = rng.random()
    if r < 0.5:
        size = rng.choice([1024, 1025, 2000, 4083, 4084, 4085])       # one page of ring (4084+13 > 4096: two)
    elif r < 0.85:
        size = rng.choice([8179, 8180, 9000, 12000])
    else:
        size = rng.randrange(1024, 40000)
    n = rng.choice([0, 1, 2, 3]) if rng.random() < 0.2 else rng.randrange(1, 120)
    ops = ["mk %d" % size]
    for _ in range(n):
        ops.append(rec_op(rand_rec(rng)))
    ops.append("dump")
    return ops


# ------------------------------------------------------------------ valid dumps built here
def want_op(prio, sec, nsec, fn, line, tags, text, newfmt=True):
    ms = ((nsec & M64) // 1000000) if newfmt else 0
    return "want %s %d %d %s %d %d %s" % (PRIO[min(prio, 8)], sec, ms, hexs(fn), line, tags, hexs(strip_msg(text)))


def strip_msg(t):
    """what the printer shows of decoded text t: cut at 511, trailing newlines removed (index 0 is kept)"""
    t = t[:511]
    if b"\0" in t:
        t = t[:t.index(b"\0")]
    i = len(t) - 1
    while i > 0 and t[i] == 10:
        i -= 1
    return t[:i + 1] if t else t


def gen_py_valid(rng, newfmt=None):
    """valid dump laid out by build_ring; returns (ops, dump bytes).  `want` ops carry the records the
    property says must be printed (the harness and the model answer `ok`)."""
    if newfmt is None:
        newfmt = rng.random() < 0.7
    W = PAGEW * rng.choice([1, 1, 1, 2, 3])
    n = rng.randrange(0, 12)
    recs, wants, used = [], [], 0
    for _ in range(n):
        prio, line, tags, sec, nsec, fn, shape, fmt, args = rand_rec(rng)
        msg = ser_msg(fmt, args)
        if len(msg) > 500 or (not newfmt and len(msg) < 2):
            continue
        if rng.random() < 0.1:
            sec = rng.choice([-1, -2 ** 55, -2 ** 55 - 1, 2 ** 55, 2 ** 63 - 1, -2 ** 63])
        c = record(prio, line, tags, sec, nsec, fn, msg, newfmt)
        if used + len(c) + 12 > 4 * W - 64:
            break
        used += len(c) + 12
        recs.append(c)
        wants.append(want_op(prio, sec, nsec, fn, line, tags, py_text(fmt, args), newfmt))
    r = rng.random()
    start = 0 if r < 0.3 else (W - rng.randrange(1, 12) if r < 0.7 else rng.randrange(0, W))
    mem, rp, wp = build_ring(W, start, recs, fill=0)
    return wants, build_dump(W, rp, wp, mem, newfmt)


# ------------------------------------------------------------------ hostile files
INTERESTING32 = [0, 1, 2, 3, 4, 12, 13, 26, 27, 28, 33, 34, 35, 255, 256, 511, 512, 513, 1023, 1024, 1025, 2047, 2048, 2049,
                 4095, 4096, 4097, 8191, 8192, 0x7FFFFFFF, 0x80000000, 0xFFFFFFFE, 0xFFFFFFFF, MAGIC, DEAD]


def near32(rng):
    """a value just below 2^32: sums like `field + header size` computed in 32 bits wrap to something small"""
    return (1 << 32) - rng.choice([1, 2, 3, 4, 8, 9, 12, 13, 16, 17, 20, 24, 25, 26, 27, 28, 29, 32, 33, 34, 35, 36, 37, 40, 41,
                                   48, 64, 100, 512, 513, 1024, 1025, 4096]) if rng.random() < 0.7 else (1 << 32) - rng.randrange(1, 5000)


def truncations(base, lengths):
    return [bytes(base[:n]) for n in lengths if n <= len(base)]


def header_corruptions(rng, base, count):
    """single header words changed WITH the hash recomputed; read_pt targets get a chunk magic
    where the reader will look for it, so that the bad pointer is actually used"""
    D = Dump(base)
    out = []
    st = len(base) - (20 if D.new else 0)            # what fstat reports minus the marker? (st_size is the whole file)
    stfull = len(base)
    W = D.ws
    ptr_vals = [W - 1, W, W + 1, 2 * W - 1, 2 * W, 2 * W + 1, 3 * W, stfull - 1, stfull, stfull + 1, stfull // 4,
                0xFFFFFFFF, 0x80000000, st] + INTERESTING32 + [near32(rng) for _ in range(6)] + [(1 << 32) - W, (1 << 32) - W + 1]
    ws_vals = [0, 1, 2, 3, 4, 5, W - 1, W + 1, W // 2, W // 2 + 1, 2 * W, stfull // 4, stfull // 4 + 1, stfull // 4 - 1,
               (stfull - 20) // 4, W - PAGEW, W + PAGEW, 1023, 1025, 0xFFFFFFFF, 0x40000000, 0x3FFFFFFF, 0x40000001, 0x80000000,
               0xC0000000] + [near32(rng) for _ in range(4)]
    for _ in range(count):
        k = rng.random()
        b = bytearray(base)
        if k < 0.40:
            rp = rng.choice(ptr_vals) if rng.random() < 0.8 else rng.getrandbits(rng.choice([8, 12, 14, 16, 32]))
            b = set_hdr(b, D.new, rp=rp)
            if W and rng.random() < 0.8:
                # make the reader find a live chunk at the bogus read pointer
                mw = (rp + 1) % W
                b = poke(b, D.d + 4 * mw, u32(MAGIC))
                if rp < W and rng.random() < 0.7:
                    b = poke(b, D.d + 4 * rp, u32(rng.choice([0, 27, 28, 40, 100, 1024, 1025, 0xFFFFFFFF, near32(rng)])))
        elif k < 0.55:
            wp = rng.choice(ptr_vals) if rng.random() < 0.8 else rng.getrandbits(32)
            b = set_hdr(b, D.new, wp=wp)
        elif k < 0.80:
            ws = rng.choice(ws_vals) if rng.random() < 0.85 else rng.getrandbits(rng.choice([8, 11, 12, 16, 32]))
            b = set_hdr(b, D.new, ws=ws)
            if rng.random() < 0.5:
                b = set_hdr(b, D.new, rp=rng.choice([0, 1, max(0, ws - 1), ws, 5]), wp=rng.choice([0, max(0, ws - 1), ws, 9]))
        elif k < 0.88:
            b = set_hdr(b, D.new, ver=rng.choice([0, 2, 3, 0xFFFFFFFF, rng.getrandbits(32)]))
        elif k < 0.94:
            b = set_hdr(b, D.new, hashv=rng.choice([0, D.hash + 1, D.hash - 1, rng.getrandbits(32)]))
        else:
            # damage inside the marker block / make it an old-format file
            if D.new:
                b = poke(b, rng.randrange(0, 20), bytes([rng.getrandbits(8)]))
            else:
                b = MARKER + b
        if rng.random() < 0.15:
            b = b[:rng.randrange(0, len(b) + 1)]
        out.append(bytes(b))
    return out


def chunk_corruptions(rng, base, count):
    D = Dump(base)
    out = []
    if not D.chunks:
        return out
    for _ in range(count):
        b = bytearray(base)
        w, sz = rng.choice(D.chunks[:3]) if rng.random() < 0.7 else rng.choice(D.chunks)
        k = rng.random()
        if k < 0.55:
            v = rng.choice(INTERESTING32 + [sz - 1, sz + 1, sz + 4, sz - 4, 4 * D.ws, 4 * D.ws - 8, 4 * D.ws - 12] +
                           [near32(rng) for _ in range(8)])
            b = poke(b, D.d + 4 * w, u32(v))
        elif k < 0.75:
            b = poke(b, D.d + 4 * ((w + 1) % D.ws), u32(rng.choice([DEAD, ALLOC, 0, MAGIC ^ 1, MAGIC])))
        else:
            # plant chunk headers all over the data area (cycles, zero-length chunks, overlaps)
            for _ in range(rng.randrange(1, 40)):
                q = rng.randrange(0, D.ws)
                b = poke(b, D.d + 4 * q, u32(rng.choice([0, 0, 1, 27, 28, 33, 40, 4 * (D.ws - 2), rng.randrange(0, 1100)])))
                b = poke(b, D.d + 4 * ((q + 1) % D.ws), u32(MAGIC))
        out.append(bytes(b))
    return out


NASTY_MSGS = [
    b"%s\0", b"%s", b"%d", b"%d\0", b"%lld\0", b"%p\0", b"%f\0", b"%c\0", b"%*d\0", b"%" + b"*" * 60 + b"d\0",
    b"%" + b"0" * 40 + b"d\0\x01\x00\x00\x00", b"%" + b"-+ #0" * 8 + b"ld\0", b"%500d\0\x07\0\0\0", b"%500d%500d\0" + b"\1\0\0\0" * 2,
    b"%s%s%s%s%s%s%s%s\0", b"%p" * 100 + b"\0", b"%lld" * 60 + b"\0", b"%*d" * 80 + b"\0", b"%n\0", b"%\0", b"%%\0", b"100%% %d\0",
    b"%q%d\0", b"A" * 600, b"A" * 511 + b"\0", b"A" * 512 + b"\0", b"%s\0" + b"B" * 700, b"x%", b"\0", b"", b"%ls\0", b"%hhd\0\1\0\0\0",
    b"%.3s|%s\0abcdef\0xyz\0", b"%lf\0" + b"\0" * 8, b"%Lf\0", b"%I64d\0", b"%'d\0\1\0\0\0", b"%c" * 200 + b"\0",
]


def record_corruptions(rng, count, newfmt=None):
    """dumps with a valid ring structure whose FIRST record has one field aimed at a limit"""
    out = []
    for _ in range(count):
        nf = (rng.random() < 0.75) if newfmt is None else newfmt
        T = 16 if nf else 8
        W = PAGEW * rng.choice([1, 1, 2])
        fn = rng.choice(FUNCS)
        msg = ser_msg(b"%d:%s", [5, b"tail"])
        good = record(6, 10, 1, 1700000000, 5000000, b"after", ser_msg(b"ok %d", [1]), nf)
        k = rng.random()
        kw = {}
        pad_to = None
        if k < 0.22:      # fn_size
            total = 17 + len(fn) + 1 + T + len(msg)
            kw["fn_size"] = rng.choice([0, 1, len(fn), len(fn) + 2, total - 27, total - 26, total - 28, total - 27 - 8, total - 17 - T,
                                        total - 17 - T + 1, total, 1024, 1024 - 27, 0xFFFFFFFF, 0xFFFFFFE5, 0x80000000, rng.getrandbits(32)] +
                                       [near32(rng) for _ in range(8)])
        elif k < 0.30:    # function without terminating NUL
            kw["fn_nul"] = False
            fn = rng.choice([b"main", b"Z" * 200, b"Z" * 960])
            kw["fn_size"] = len(fn)
        elif k < 0.52:    # msg_len
            kw["msg_len"] = rng.choice([0, 1, 2, len(msg) - 1, len(msg) + 1, 511, 512, 513, 600, 0xFFFFFFFF, 0x80000000, rng.getrandbits(32)] +
                                       [near32(rng) for _ in range(6)])
        elif k < 0.80:    # message body
            msg = rng.choice(NASTY_MSGS)
            if rng.random() < 0.3:
                msg = bytes(rng.choice(b"%sdl*0.5-c\0\0xp ") for _ in range(rng.randrange(1, 520)))
            if rng.random() < 0.3:
                kw["msg_len"] = rng.choice([1, len(msg), 512, max(1, min(512, len(msg) - 1))])
        elif k < 0.90:    # a record filling the 1024-byte chunk buffer exactly; fields pushed to its end
            fn = b"F" * rng.choice([1024 - 27 - 1, 1024 - 28 - 1, 1024 - 34 - 1, 1024 - 35 - 1, 980, 990])
            pad_to = 1024
        else:             # time stamp / priority extremes
            pass
        sec = rng.choice([1700000000, -1, 2 ** 55, 2 ** 55 - 1, -2 ** 55, -2 ** 55 - 1, 2 ** 63 - 1, -2 ** 63]) if k >= 0.90 else 1700000000
        nsec = rng.choice([0, -1, 2 ** 63 - 1, -2 ** 63, 10 ** 9, 999999999]) if k >= 0.90 else 1000000
        c = record(rng.choice([0, 6, 8, 9, 255]), rng.getrandbits(32), rng.getrandbits(32), sec, nsec, fn, msg, nf, **kw)
        if pad_to is not None:
            c = (c + b"\x41" * pad_to)[:rng.choice([pad_to, pad_to - 1, pad_to + 1, 1000])]
        elif rng.random() < 0.3:
            c = c[:rng.randrange(0, len(c) + 1)]         # chunk shorter than its fields claim
        elif rng.random() < 0.15:
            c = c + bytes(rng.getrandbits(8) for _ in range(rng.randrange(1, 40)))
        chunks = [c, good] if rng.random() < 0.7 else [good, c, good]
        fill = rng.choice([0, 0, 0x41, 0xFF])
        start = rng.choice([0, W - 3, W - 1, W - 9, rng.randrange(0, W)])
        if sum(len(x) + 12 for x in chunks) > 4 * W - 64:
            continue
        mem, rp, wp = build_ring(W, start, chunks, fill)
        out.append(build_dump(W, rp, wp, mem, nf))
    return out


def random_damage(rng, base, count):
    D = Dump(base)
    out = []
    for _ in range(count):
        b = bytearray(base)
        nd = rng.choice([1, 1, 2, 3, 5, 8, 16, 64])
        for _ in range(nd):
            r = rng.random()
            if r < 0.35 and D.chunks:       # inside a live chunk
                w, sz = rng.choice(D.chunks)
                off = D.byte_off(w, rng.randrange(0, max(1, min(sz, 4 * D.ws))) - 8)
            elif r < 0.5:
                off = rng.randrange(0, min(len(b), D.d + 16))
            else:
                off = rng.randrange(0, len(b))
            n = rng.choice([1, 1, 2, 4, 4, 8])
            v = bytes(rng.getrandbits(8) for _ in range(n)) if rng.random() < 0.6 else u32(rng.choice(INTERESTING32 + [near32(rng)]))[:n]
            b = poke(b, off, v)
        if rng.random() < 0.5:
            b = set_hdr(b, D.new)             # keep the header hash consistent
        out.append(bytes(b))
    return out


def arbitrary(rng, count):
    out = [b"", b"\0", MARKER, MARKER[:19], MARKER + b"\0" * 3, MARKER + u32(0) * 5, u32(0) * 5, MARKER + MARKER]
    for _ in range(count):
        r = rng.random()
        n = rng.choice([0, 1, 4, 19, 20, 21, 24, 28, 32, 36, 39, 40, 41, 44, 64, 200, 4136, 4137]) if rng.random() < 0.5 else rng.randrange(0, 300)
        body = bytes(rng.getrandbits(8) for _ in range(n)) if rng.random() < 0.7 else bytes([rng.choice([0, 0xFF, 0xA1])]) * n
        if r < 0.3:
            out.append(body)
        elif r < 0.6:
            out.append(MARKER + body)
        else:
            # plausible header (consistent hash, version 1) in front of arbitrary data
            ws = rng.choice([0, 1, 2, 3, 4, n // 4, n // 4 + 1, max(0, n // 4 - 1), PAGEW, rng.randrange(0, 64)])
            rp = rng.choice([0, 1, ws, max(0, ws - 1), rng.randrange(0, 64)])
            wp = rng.choice([0, 1, ws, max(0, ws - 1), rng.randrange(0, 64)])
            hdr = struct.pack("<5I", ws, wp, rp, 1, (ws + wp + rp + 1) & 0xFFFFFFFF)
            out.append((MARKER if rng.random() < 0.6 else b"") + hdr + body)
    return out


# ------------------------------------------------------------------ the property oracle
LINE_RE = re.compile(rb"^([a-z]+) +(-?\d+)(?:\.(\d+))? ([A-Za-z0-9_]*)\((\d+)\):(\d+): (.*)$", re.S)


def out_lines(out):
    """bytes of the `o` lines (record / diagnostic lines printed to stdout after the ring header)"""
    res = []
    for l in out:
        if l.startswith("o ") or l.startswith("o~ "):
            h = l.split(" ", 1)[1]
            res.append(b"" if h == "-" else bytes.fromhex(h))
    return res


def parse_records(out):
    recs, other = [], []
    for b in out_lines(out):
        m = LINE_RE.match(b)
        if m and not b.startswith(b"ERROR"):
            recs.append((m.group(1).decode(), int(m.group(2)), int(m.group(3)) if m.group(3) is not None else None,
                         m.group(4), int(m.group(5)), int(m.group(6)), m.group(7)))
        else:
            other.append(b)
    return recs, other


def safety_oracle(ops, out):
    """robustness clause, on the implementation's own output: every print ends with a result code,
    no crash / sanitizer report, nothing left in /dev/shm."""
    nprint = sum(1 for o in ops if o.startswith("print ") or o == "dump")
    for l in out:
        if l.startswith("SAN:") or l.startswith("CRASH") or l.startswith("TIMEOUT"):
            return "printing did not end with a result code: %s" % l
        if l.startswith("harness-error") or l == "bad-op":
            return "harness problem: %s" % l
        if l.startswith("residue ") and l != "residue 0":
            return "temporary shared-memory files left behind (%s)" % l
    if sum(1 for l in out if l.startswith("rc ")) != nprint:
        return "no result code reported (%d prints, %d result codes)" % (nprint, sum(1 for l in out if l.startswith("rc ")))
    return None


def roundtrip_oracle(ops, out):
    """round-trip clause.  mk cases: the printed records are exactly the `live K` newest logged
    records (priority, seconds, milliseconds, function, line, tags, message).  `want` cases: the
    printed records are exactly the wanted ones."""
    d = safety_oracle(ops, out)
    if d:
        return d
    want = []
    if any(o.startswith("want ") for o in ops):
        for o in ops:
            if o.startswith("want "):
                t = o.split()
                want.append((t[1], int(t[2]), int(t[3]), b"" if t[4] == "-" else bytes.fromhex(t[4]), int(t[5]), int(t[6]),
                             b"" if t[7] == "-" else bytes.fromhex(t[7])))
    elif any(o.startswith("mk ") for o in ops):
        logged, live = [], None
        for l in out:
            t = l.split()
            if t and t[0] == "logged":
                ref = b"" if t[7] == "-" else bytes.fromhex(t[7])
                fmt_too_long = False
                logged.append((PRIO[min(int(t[1]), 8)], int(t[2]), (int(t[3]) & M64) // 1000000,
                               b"" if t[4] == "-" else bytes.fromhex(t[4]), int(t[5]), int(t[6]), strip_msg(ref)))
            elif t and t[0] == "live":
                live = int(t[1])
            elif t and t[0] == "wrote" and int(t[1]) <= 0:
                return "qb_log_blackbox_write_to_file returned %s" % t[1]
        if live is None:
            return "no dump was written"
        # a format of 511 bytes or more is replaced by a fixed text by the logger
        for i, o in enumerate([o for o in ops if o.startswith("r ")]):
            t = o.split()
            if t[8] != "-" and len(t[8]) // 2 >= 511 and i < len(logged):
                logged[i] = logged[i][:6] + (TOO_LONG,)
        if live > len(logged):
            return "ring holds %d chunks but only %d records were logged" % (live, len(logged))
        if logged and live == 0:
            return "ring retained none of the %d logged records" % len(logged)
        want = logged[len(logged) - live:]
    else:
        return None
    recs, other = parse_records(out)
    got = []
    for r in recs:
        ms = r[2]
        if ms is None:
            ms = 0 if not (-(1 << 55) <= r[1] < (1 << 55)) else None
        got.append((r[0], r[1], ms, r[3], r[4], r[5], r[6]))
    wn = []
    for w in want:
        # outside localtime's range the printer shows the seconds only
        wn.append(w if (-(1 << 55) <= w[1] < (1 << 55)) else (w[0], w[1], 0) + w[3:])
    if got != wn:
        for i in range(max(len(got), len(wn))):
            g = got[i] if i < len(got) else None
            w = wn[i] if i < len(wn) else None
            if g != w:
                return "round trip: printed record %d is %r, logged/retained record is %r (%d printed, %d retained)" % (i, g, w, len(got), len(wn))
    return None


def tags(ops, out):
    t = set()
    recs, other = parse_records(out)
    if recs:
        t.add("records")
    if len(recs) >= 5:
        t.add("many-records")
    for b in other:
        if b.startswith(b"ERROR Corrupt file: fn_size"):
            t.add("err-fn_size")
        elif b.startswith(b"ERROR Corrupt file: msg_len"):
            t.add("err-msg_len")
        elif b.startswith(b"ERROR Corrupt file: blackbox header"):
            t.add("err-too-small")
        elif b.startswith(b"ERROR Corrupt file"):
            t.add("err-other")
    for l in out:
        if l.startswith("rc "):
            t.add("rc=" + l.split()[1])
        if l.startswith("live "):
            p = l.split()
            if int(p[2]) > int(p[3]):
                t.add("wrapped-ring")
            if int(p[2]) != 0:
                t.add("overwritten")
    return t
