#!/usr/bin/env python3
"""C05 (IPC admission): case generator, property oracle and comparison for harness/ipc/ipc_adm.c
and the model driver `admission`.  The oracle evaluates the property statement on the
implementation's own output and knows nothing about the Lean model.

Op lines (see the header of harness/ipc/ipc_adm.c):
  srv T UMASK | par N | cli I uid=U gid=G ids=res|eff rc=R auth=U:G:MODE|- fail=K:ENAME|- msgs=M
      [peer=raw hs=pre|win|post frag=N] [plant=K:NAME:f666|f644|link]
peer=raw: the connecting process is not libqb's client (plain socket, no SO_PASSCRED of its own, handshake
written by hand at a generated moment relative to the server's accept()).  plant=: a second process with
the client's ids plants a file / a symlink to a root-owned victim under a predictable ring or control
file name right after the K-th file-system call of the connection.
"""
import re

UIDS = [0, 1001, 1002, 1003, 65534]
GIDS = [0, 1001, 1002, 1004, 65534]
UMASKS = ["000", "002", "007", "022", "027", "077"]
RCS = [-13, -13, -11, -1, -12, -22, -107, -1000, 5, 1]
MODES_WIDE = ["0600", "0660", "0640", "0666", "0606", "0644", "0620", "0700", "0777", "0604"]   # all contain 0600
MODES_NARROW = ["0400", "0060", "0000", "0440", "0200", "0066"]                                 # class D27
ERRS = ["ENOSPC", "EACCES", "EPERM", "EIO", "ENOMEM"]

# ------------------------------------------------------------------ finding classes (KNOWN_FINDINGS.txt)
KF_NARROW = "KF-C05-narrow-mode-window"       # D27, class narrowMode: chosen mode does not contain 0600
KF_DIRCHMOD = "KF-C05-dir-chmod-failure-leak"  # class failAt2: the injected failure hits chmod(dir, 0770)
# (D27b socket-transport directory owner and D27c ring-header creation failure are repaired in /repo:
#  5cb555e, c2cb5c1; generated cases include both situations and must pass)


def fail_points(transport, refused):
    """call numbers a generated failure may hit (outside class failAt2)"""
    if refused:
        return [1, 3, 4, 5]
    if transport == "shm":
        # 1-3 handle_new_connection, 4 chown dir, 5-34 the three rings, 35.. tear-down
        return [k for k in range(1, 52) if k != 2]
    # socket transport: set-up calls only (1-3, 4 chown dir, 5-7 control file, 8 chown, 9 chmod); at tear-down
    # the client process removes the control file and the directory itself, so the server's calls there
    # find nothing left to fail on
    return [k for k in range(1, 10) if k != 2]


NAMES = {"shm": ["request-header", "request-data", "response-header", "response-data", "event-header", "event-data"],
         "sock": ["control"]}
SETUP_CALLS = {"shm": 34, "sock": 9}


def gen_extras(rng, transport):
    """(raw-peer keys, plant key): '' when not used"""
    raw = plant = ""
    if rng.random() < 0.3:
        raw = " peer=raw hs=%s frag=%d" % (rng.choice(["pre", "win", "win", "post"]), rng.choice([1, 1, 2, 3]))
    if rng.random() < 0.25:
        r = rng.random()
        # 3 = right after the directory has been handed to the peer, 4 = after the transport's chown of it
        k = 3 if r < 0.5 else 4 if r < 0.7 else rng.randint(1, SETUP_CALLS[transport])
        plant = " plant=%d:%s:%s" % (k, rng.choice(NAMES[transport]), rng.choice(["f666", "f644", "link", "link"]))
    return raw, plant


def gen_cli(rng, idx, transport, narrow=False):
    uid = rng.choice(UIDS)
    gid = rng.choice(GIDS)
    ids = "eff" if rng.random() < 0.12 else "res"
    rc = 0 if rng.random() < 0.6 else rng.choice(RCS)
    if rng.random() < 0.4:
        auth = "-"
    else:
        au = uid if rng.random() < 0.6 else rng.choice(UIDS)
        ag = gid if rng.random() < 0.6 else rng.choice(GIDS)
        auth = "%d:%d:%s" % (au, ag, rng.choice(MODES_NARROW if narrow else MODES_WIDE))
    if rng.random() < 0.3:
        fail = "%d:%s" % (rng.choice(fail_points(transport, rc != 0)), rng.choice(ERRS))
    else:
        fail = "-"
    msgs = rng.choice([0, 1, 1, 2, 3])
    raw, plant = gen_extras(rng, transport)
    if raw:
        msgs = 0        # a raw peer has no API handle to send requests with
    return "cli %d uid=%d gid=%d ids=%s rc=%d auth=%s fail=%s msgs=%d%s%s" % (
        idx, uid, gid, ids, rc, auth, fail, msgs, raw, plant)


def gen_case(rng, max_clients=4, par_prob=0.35, narrow=False):
    ops = []
    idx = 1
    for _ in range(rng.choice([1, 1, 2])):
        t = rng.choice(["shm", "sock"])
        ops.append("srv %s %s" % (t, rng.choice(UMASKS)))
        n = rng.randint(1, max_clients)
        if n > 1 and rng.random() < par_prob:
            ops.append("par %d" % n)
        for _ in range(n):
            ops.append(gen_cli(rng, idx, t, narrow))
            idx += 1
    return ops


# ------------------------------------------------------------------ parsing
def parse_cli(op):
    ws = op.split()
    d = {"idx": ws[1]}
    for w in ws[2:]:
        k, _, v = w.partition("=")
        d[k] = v
    d["uid"] = int(d["uid"])
    d["gid"] = int(d["gid"])
    d["rc"] = int(d["rc"])
    d["msgs"] = int(d.get("msgs", "0"))
    if d.get("auth", "-") != "-":
        u, g, m = d["auth"].split(":")
        d["authv"] = (int(u), int(g), int(m, 8))
    else:
        d["authv"] = None
    if d.get("fail", "-") != "-":
        k, e = d["fail"].split(":")
        d["failv"] = (int(k), e)
    else:
        d["failv"] = None
    d["raw"] = d.get("peer") == "raw"
    if d.get("plant", "-") != "-":
        k, name, kind = d["plant"].split(":")
        d["plantv"] = (int(k), name, kind)
    else:
        d["plantv"] = None
    return d


def clients_of(ops):
    """[(transport, umask, cli dict)] in script order"""
    out = []
    t, um = "shm", 0o22
    for op in ops:
        ws = op.split()
        if ws[0] == "srv":
            t, um = ws[1], int(ws[2], 8)
        elif ws[0] == "cli":
            out.append((t, um, parse_cli(op)))
    return out


def blocks_of(lines):
    """{idx: [lines of the block]}"""
    res = {}
    cur = None
    for l in lines:
        if l.startswith("cli "):
            cur = l.split()[1]
            res[cur] = []
        elif l.startswith("srv ") or l.startswith("par ") or l.startswith("SAN:") or l.startswith("CRASH") or l == "TIMEOUT":
            cur = None
        elif cur is not None:
            res[cur].append(l)
    return res


def parse_snap(s):
    """'-' -> {} ; else {name: (type, mode, uid, gid)}"""
    s = s.strip()
    if s == "-" or not s:
        return {}
    d = {}
    for ent in s.split(","):
        name, _, v = ent.partition("=")
        t = v[0]
        mode, uid, gid = v[1:].split(":")
        d[name] = (t, int(mode, 8), int(uid), int(gid))
    return d


FS_RE = re.compile(r"^fs (\S+) (\S+)(.*?) -> (\S+) \| (.*)$")


def parse_block(lines):
    b = {"fs": [], "accept": [], "authset": [], "connect": None, "snap": None, "msgs": None, "late": None,
         "residue": None, "ids": None, "order": [], "plant": None, "planted": None, "victim": None}
    for l in lines:
        m = FS_RE.match(l)
        if m:
            b["fs"].append({"call": m.group(1), "path": m.group(2), "args": m.group(3).strip(), "res": m.group(4),
                            "snap": parse_snap(m.group(5)), "pos": len(b["order"])})
            b["order"].append("fs")
        elif l.startswith("plant "):
            m = re.match(r"^plant (\S+) (\S+) -> (\S+) \| (.*)$", l)
            b["plant"] = {"name": m.group(1), "kind": m.group(2), "res": m.group(3), "snap": parse_snap(m.group(4)),
                          "nfs": len(b["fs"])}
            b["order"].append("plant")
        elif l.startswith("planted "):
            b["planted"] = l.split()[1]
        elif l.startswith("victim "):
            b["victim"] = tuple(l[7:].split(" -> "))
        elif l.startswith("accept "):
            b["accept"].append(tuple(int(x) for x in l.split()[1:3]))
            b["order"].append("accept")
        elif l.startswith("authset "):
            b["authset"].append(l.split()[1:])
            b["order"].append("authset")
        elif l.startswith("connect "):
            b["connect"] = int(l.split()[1])
        elif l.startswith("snap "):
            b["snap"] = parse_snap(l[5:])
        elif l.startswith("msgs "):
            m = re.match(r"msgs sent=(-?\d+) cbs=(-?\d+)", l)
            b["msgs"] = (int(m.group(1)), int(m.group(2)))
        elif l.startswith("late "):
            b["late"] = int(l.split("=")[1])
        elif l.startswith("residue "):
            b["residue"] = parse_snap(l[8:])
        elif l.startswith("ids "):
            m = re.match(r"ids real=(-?\d+):(-?\d+) eff=(-?\d+):(-?\d+)", l)
            b["ids"] = tuple(int(x) for x in m.groups())
    return b


def is_cleanup(f):
    """the call belongs to the clean-up / tear-down code (its failure is the environment's leak, not the library's)"""
    return f is not None and (f["call"] in ("unlink", "rmdir") or (f["call"] == "open" and f["args"] == "dir"))


def injected_call(b, c):
    """the fs record the injected failure hit (k-th logged call), or None"""
    if not c["failv"]:
        return None
    k = c["failv"][0]
    return b["fs"][k - 1] if 1 <= k <= len(b["fs"]) else None


def may_read_write(snap, uid, gid):
    """the kernel's owner/group/other rule for a process without supplementary groups"""
    def bits(ent):
        _, mode, u, g = ent
        if uid == 0:
            return 7
        if uid == u:
            return (mode >> 6) & 7
        if gid == g:
            return (mode >> 3) & 7
        return mode & 7
    if "." not in snap or not (bits(snap["."]) & 1):
        return False
    return all((bits(e) & 6) == 6 for n, e in snap.items() if n != ".")


# ------------------------------------------------------------------ the property, on the implementation's output
def check_client(t, um, c, b):
    """list of (kf_class_or_None, text): every way this client's block violates the property"""
    bad = []
    ident = "client %s (%s)" % (c["idx"], t)
    if b["ids"] is None or b["connect"] is None or b["residue"] is None:
        return [(None, ident + ": block incomplete (harness did not finish)")]
    ru, rg, eu, eg = b["ids"]
    if (eu, eg) != (c["uid"], c["gid"]):
        return [(None, ident + ": the child could not take the generated ids (harness problem): %s" % (b["ids"],))]
    refused = c["rc"] != 0
    inj = injected_call(b, c)
    residue = b["residue"]
    mode = c["authv"][2] if c["authv"] else 0o600
    ow = (c["authv"][0], c["authv"][1]) if c["authv"] else None
    # 0. a hostile peer's planted object: the server must never use an object it did not create
    pl = b["plant"] if (b["plant"] and b["plant"]["res"] == "ok") else None
    px = pl["name"] if pl else None
    pent = pl["snap"].get(px) if pl else None

    adopted = [None]    # index of the fs record at which the server took the planted object for its own

    def foreign(name, ent, k=None):
        """the peer's own object, exactly as the peer made it and not (yet) used by the server: not a file of
        the connection"""
        return (pl is not None and name == px and ent == pent
                and (adopted[0] is None or (k is not None and k < adopted[0])))

    def own(snap, k=None):
        return {n: e for n, e in snap.items() if not foreign(n, e, k)}
    if c["plantv"] and b["plant"] is None and b["fs"] and len(b["fs"]) >= c["plantv"][0]:
        bad.append((None, ident + ": harness problem: the planter did not act after call %d" % c["plantv"][0]))
    if pl:
        if pent is None:
            bad.append((None, ident + ": harness problem: planted object %s not in the snapshot" % px))
        for k, f in enumerate(b["fs"]):
            if k < pl["nfs"]:
                continue
            if f["call"] in ("open", "openat") and f["path"] == px and f["args"].startswith("creat") and f["res"] == "ok":
                adopted[0] = k
                bad.append((None, "%s: the server's `open %s %s` succeeded on the object the peer had planted there "
                            "(%s): it uses an object it did not create" % (ident, px, f["args"], pl["kind"])))
                break
        later = [("%s %s" % (f["call"], f["path"]), f["snap"]) for f in b["fs"][pl["nfs"]:]]
        later += [("connected", b["snap"]), ("gone", b["residue"])]
        for what, snap in later:
            if snap is not None and snap.get(px) != pent:
                bad.append((None, "%s: the peer's planted %s (%s) was %s by the server: %s after `%s`" % (
                    ident, px, pent, "removed" if px not in snap else "changed", snap.get(px), what)))
                break
        if b["planted"] != "same":
            bad.append((None, "%s: the planted object %s is %s at the end" % (ident, px, b["planted"])))
    if b["victim"] is not None and b["victim"][0] != b["victim"][1]:
        bad.append((None, "%s: the root-owned file OUTSIDE the connection directory was modified: %s -> %s" % (
            ident, b["victim"][0], b["victim"][1])))
    # a directory the server cannot remove because the peer's own (untouched) object sits in it is the peer's
    # litter, not a file or directory of the connection
    if pl and set(b["residue"]) <= {".", px} and foreign(px, b["residue"].get(px)):
        residue = {}
    # 1. credentials handed to accept = the kernel-reported ones of the connecting process
    for (u, g) in b["accept"]:
        if (u, g) != (ru, rg):
            bad.append((None, "%s: accept got uid/gid %d:%d, the process has real %d:%d effective %d:%d" % (
                ident, u, g, ru, rg, eu, eg)))
        if c["ids"] == "res" and (u, g) != (c["uid"], c["gid"]):
            bad.append((None, "%s: accept got %d:%d, connecting process runs as %d:%d" % (ident, u, g, c["uid"], c["gid"])))
    if not b["accept"] and not inj:
        bad.append((None, ident + ": accept callback never ran (connect %s)" % b["connect"]))
    if len(b["accept"]) > 1:
        bad.append((None, ident + ": accept called %d times for one connection" % len(b["accept"])))
    if ow is None and b["accept"]:
        ow = b["accept"][0]
    # 2. refusal
    if refused and b["accept"]:
        if b["connect"] != c["rc"]:
            bad.append((None, "%s: accept refused with %d, qb_ipcc_connect reports %d" % (ident, c["rc"], b["connect"])))
        if (b["msgs"] and b["msgs"][1]) or b["late"]:
            bad.append((None, ident + ": msg_process ran for a refused client"))
        for f in b["fs"]:
            if any(e[0] != "d" for n, e in own(f["snap"]).items()):
                bad.append((None, ident + ": a channel file exists for a refused client after `%s %s`" % (f["call"], f["path"])))
                break
        if residue and not is_cleanup(inj):
            bad.append((None, ident + ": refused, but left behind: %s" % sorted(residue)))
    # 3. never more permissive than the chosen mode, at any observed moment
    moments = [(("%s %s" % (f["call"], f["path"])), f["snap"]) for f in b["fs"]]
    moments += [("connected", b["snap"] or {}), ("gone", b["residue"])]
    chmodded = set()
    for k, (what, snap) in enumerate(moments):
        w = what.split()
        if w[0] == "chmod":
            chmodded.add(w[1])
        for name, (ty, m, u, g) in own(snap, k).items():
            if name == ".":
                if ty != "d" or (m & ~0o770):
                    bad.append((None, "%s: directory is %s%04o after `%s` (more than 0770)" % (ident, ty, m, what)))
            elif ty != "f":
                bad.append((None, "%s: unexpected object %s of type %s after `%s`" % (ident, name, ty, what)))
            elif m & ~mode:
                excess = m & ~mode
                kf = KF_NARROW if (excess & ~0o600) == 0 and name not in chmodded and (mode & 0o600) != 0o600 else None
                bad.append((kf, "%s: %s has mode %04o after `%s`, the chosen mode is %04o" % (ident, name, m, what, mode)))
    # 4. owner of everything = the authorised user/group once the connection is set up
    if not refused and not c["failv"] and b["accept"]:
        setup = []
        for f in b["fs"]:
            if f["call"] in ("rmdir",):
                break
            setup.append(f)
        final = own(b["snap"] if b["connect"] == 0 and t == "shm" else (setup[-1]["snap"] if setup else {}))
        for name, (ty, m, u, g) in final.items():
            if (u, g) != ow:
                bad.append((None, "%s: %s is owned by %d:%d, authorised owner is %d:%d" % (ident, name, u, g, ow[0], ow[1])))
        for name, (ty, m, u, g) in final.items():
            if name != "." and m != mode:
                bad.append((None, "%s: %s ends with mode %04o, chosen %04o" % (ident, name, m, mode)))
    # 5. a connection that failed leaves nothing and never reaches msg_process
    if b["connect"] != 0:
        if (b["msgs"] and b["msgs"][1]) or b["late"]:
            bad.append((None, ident + ": msg_process ran although connect failed with %d" % b["connect"]))
        if residue and not is_cleanup(inj) and not refused:
            kf = KF_DIRCHMOD if (inj and inj["call"] == "chmod" and inj["path"] == "." and set(residue) == {"."}) else None
            bad.append((kf, "%s: connect failed with %d but left behind: %s" % (ident, b["connect"], sorted(residue))))
    else:
        if b["msgs"] != (c["msgs"], c["msgs"]) or b["late"] != c["msgs"]:
            bad.append((None, "%s: %d requests, answered/processed %s late=%s" % (ident, c["msgs"], b["msgs"], b["late"])))
        if residue and not is_cleanup(inj):
            bad.append((None, "%s: disconnected, but left behind: %s" % (ident, sorted(residue))))
    return bad


def oracle_all(ops, out):
    if any(l.startswith(("SAN:", "CRASH", "TIMEOUT")) for l in out):
        tag = [l for l in out if l.startswith(("SAN:", "CRASH", "TIMEOUT"))][0]
        return [(None, "the server process died: %s" % tag)]
    blocks = blocks_of(out)
    bad = []
    for t, um, c in clients_of(ops):
        if c["idx"] not in blocks:
            bad.append((None, "client %s: no output block" % c["idx"]))
            continue
        bad += check_client(t, um, c, parse_block(blocks[c["idx"]]))
    return bad


def oracle(ops, out):
    """first violation outside the finding classes, else the first inside, else None"""
    bad = oracle_all(ops, out)
    new = [x for x in bad if x[0] is None]
    if new:
        return new[0][1]
    if bad:
        return "[%s] %s" % bad[0]
    return None


def known_class(ops, out, desc):
    m = re.match(r"^\[(KF-[\w-]+)\]", desc or "")
    return m.group(1) if m else None


# ------------------------------------------------------------------ correspondence
def compare(ops, il, ml):
    """model vs implementation.  Exact on the server's calls, results and ledgers up to the end of the
    set-up (and the refusal path); after that (the client acts on its own: unlinks the control file,
    removes the directory if it may) only the calls and paths, and the final residue."""
    ib, mb = blocks_of(il), blocks_of(ml)
    hdr_i = [l for l in il if l.startswith(("srv ", "par "))]
    hdr_m = [l for l in ml if l.startswith(("srv ", "par "))]
    if hdr_i != hdr_m:
        return "srv/par lines differ: %s / %s" % (hdr_i[:3], hdr_m[:3])
    for t, um, c in clients_of(ops):
        i, m = ib.get(c["idx"]), mb.get(c["idx"])
        if i is None or m is None:
            return "client %s: block missing (impl %s, model %s)" % (c["idx"], i is not None, m is not None)
        seq = lambda ls: [l for l in ls if l.startswith(("fs ", "accept ", "authset ", "plant "))]
        si, sm = seq(i), seq(m)
        # set-up length according to the model: everything before its `connect` line
        n_setup = len(seq(m[:next((k for k, l in enumerate(m) if l.startswith("connect ")), len(m))]))
        pm = parse_block(m)
        pi = parse_block(i)
        established = len(sm) > n_setup
        if si[:n_setup] != sm[:n_setup]:
            for k in range(n_setup):
                a = si[k] if k < len(si) else "<missing>"
                b = sm[k] if k < len(sm) else "<missing>"
                if a != b:
                    return "client %s step %d: impl=%r model=%r" % (c["idx"], k + 1, a[:150], b[:150])
        strip = lambda l: l.split(" -> ")[0]
        if [strip(l) for l in si[n_setup:]] != [strip(l) for l in sm[n_setup:]]:
            return "client %s teardown calls: impl=%r model=%r" % (c["idx"], [strip(l) for l in si[n_setup:]][:8],
                                                                  [strip(l) for l in sm[n_setup:]][:8])
        if pi["ids"] != pm["ids"]:
            return "client %s ids: impl=%s model=%s" % (c["idx"], pi["ids"], pm["ids"])
        if pm["connect"] != 0 or not established:
            if (pi["connect"], pi["msgs"], pi["late"]) != (pm["connect"], pm["msgs"], pm["late"]):
                return "client %s: connect/msgs impl=%s model=%s" % (
                    c["idx"], (pi["connect"], pi["msgs"], pi["late"]), (pm["connect"], pm["msgs"], pm["late"]))
        elif pi["connect"] == 0:
            if (pi["msgs"], pi["late"]) != (pm["msgs"], pm["late"]):
                return "client %s: msgs impl=%s model=%s" % (c["idx"], (pi["msgs"], pi["late"]), (pm["msgs"], pm["late"]))
            if t == "shm" and pi["snap"] != pm["snap"]:
                return "client %s: ledger when connected impl=%s model=%s" % (c["idx"], pi["snap"], pm["snap"])
        if pi["residue"] != pm["residue"]:
            return "client %s: residue impl=%s model=%s" % (c["idx"], pi["residue"], pm["residue"])
        if (pi["planted"], pi["victim"]) != (pm["planted"], pm["victim"]):
            return "client %s: planted object / victim file impl=%s model=%s" % (
                c["idx"], (pi["planted"], pi["victim"]), (pm["planted"], pm["victim"]))
    return None


def cover(ops, out):
    tags = set()
    blocks = blocks_of(out)
    cl = clients_of(ops)
    if any(o.startswith("par ") for o in ops):
        tags.add("concurrent-group")
    for t, um, c in cl:
        b = parse_block(blocks.get(c["idx"], []))
        if b["connect"] is None:
            continue
        if c["rc"] != 0 and b["accept"]:
            tags.add("refused-" + t)
        if c["rc"] == 0 and b["connect"] == 0:
            tags.add("accepted-" + t)
            if b["msgs"] and b["msgs"][1] > 0:
                tags.add("messages")
        if c["rc"] == 0 and b["connect"] != 0 and not c["failv"]:
            tags.add("client-side-denied")
        if c["authv"]:
            tags.add("auth-set")
            if (c["authv"][0], c["authv"][1]) != (c["uid"], c["gid"]):
                tags.add("auth-other-owner")
            if c["authv"][2] != 0o600:
                tags.add("auth-mode")
        if c["failv"] and injected_call(b, c) is not None:
            f = injected_call(b, c)
            tags.add("fail-" + f["call"])
            if f["path"].endswith("-header") and f["call"] in ("open", "ftruncate", "fallocate"):
                tags.add("fail-ring-header-create")
        if t == "sock" and c["authv"] and c["rc"] == 0 and b["accept"] and (c["authv"][0], c["authv"][1]) != b["accept"][0]:
            tags.add("sock-auth-other-owner")
        if c["ids"] == "eff":
            tags.add("real-ne-effective")
        if c["raw"] and b["accept"]:
            tags.add("raw-peer-" + c.get("hs", "pre"))
            if int(c.get("frag", "1")) > 1:
                tags.add("raw-peer-fragments")
        if b["plant"]:
            if b["plant"]["res"] == "ok":
                tags.add("plant-ok-" + ("link" if b["plant"]["kind"] == "link" else "file"))
                if b["connect"] == -17:
                    tags.add("planted-object-refused-" + t)
            else:
                tags.add("plant-" + b["plant"]["res"])
        if c["uid"] != 0:
            tags.add("non-root-peer")
        if um not in (0o22,):
            tags.add("umask")
    return tags
