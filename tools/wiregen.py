#!/usr/bin/env python3
"""C06: generator of hostile-peer scenarios for harness/ipc/ipc_hostile.c / `qb_wire`, and the
property oracle (independent of the Lean model) evaluated on the implementation's output.

Op grammar: see the head of harness/ipc/ipc_hostile.c.  Discipline kept by the generator (so that
the output is deterministic): between two `pump`s at most one peer has something new for the
server; every `msg`/`raw` is followed by `pump`; ids of raw requests are never 100 (the echo id of
the control client); shm requests have length 1..max+1 or >= max+8192 (refused by the ring).
"""
import struct

RESP = 12328          # sizeof(struct qb_ipc_connection_response): floor of the negotiated size
HDR = 16
REQ = 24
INT_MIN = -2 ** 31
INT_MAX = 2 ** 31 - 1


def rec(idv=-1, size=REQ, maxmsg=8192, pad=(0, 0, 0)):
    """the 24-byte struct qb_ipc_connection_request as hex"""
    b = struct.pack("<iIiIII", idv, pad[0] & 0xffffffff, size, pad[1] & 0xffffffff, maxmsg & 0xffffffff,
                    pad[2] & 0xffffffff)
    return b.hex()


def hexs(b):
    return b.hex() if b else "-"


class Case:
    def __init__(self, rng, transport):
        self.rng = rng
        self.t = transport
        self.ops = []
        self.np = 0
        self.open_raw = []

    def add(self, *o):
        self.ops += list(o)

    def peer(self):
        self.np += 1
        return self.np

    def control(self, k=1):
        r = self.rng
        self.add("ctl_connect %d %d" % (k, r.choice([0, 100, 8000, RESP, 20000])))
        for _ in range(r.randint(1, 2)):
            self.add("ctl_echo %d %d" % (k, r.choice([16, 17, 64, 1000, 8000, RESP - 1, RESP])))
        self.add("ctl_close %d" % k)


MAXES = [0, 1, 4, 15, 16, 17, 100, 8192, RESP - 1, RESP, RESP + 1, 20000, 65536, 1 << 20]


def gen_handshake_case(rng):
    """stream `hs`: bytes on the service socket from peers that are not (yet) accepted"""
    t = rng.choice(["shm", "sock"])
    c = Case(rng, t)
    c.add("svc %s %d" % (t, rng.choice([0, 0, 0, 100, RESP, 20000])))
    acc = 0
    for _ in range(rng.randint(2, 6)):
        if rng.random() < 0.2:
            acc = rng.choice([0, -13, -1, -12, 0])
            c.add("accept_rc %d" % acc)
        p = c.peer()
        kind = rng.choice(["prefix", "prefix", "mutate", "mutate", "garbage", "slow", "instant", "extra", "valid"])
        c.add("hs_open %d" % p)
        if kind == "instant":
            if rng.random() < 0.5:
                c.add("pump")
            c.add(rng.choice(["hs_close %d", "hs_die %d"]) % p, "pump", "residue")
            continue
        if kind == "prefix":
            full = bytes.fromhex(rec(maxmsg=rng.choice(MAXES)))
            k = rng.randint(0, REQ)
            if k:
                c.add("hs_send %d %s" % (p, hexs(full[:k])))
            how = rng.choice(["close", "close-nopump", "shutwr", "wait", "rest"])
            if how == "close":
                c.add("pump", "hs_state %d" % p, "residue", "hs_close %d" % p, "pump", "residue")
            elif how == "close-nopump":
                c.add("hs_close %d" % p, "pump", "residue")
            elif how == "shutwr":
                if rng.random() < 0.5:
                    c.add("pump")
                c.add("hs_shutwr %d" % p, "pump", "hs_state %d" % p, "hs_state %d" % p, "residue",
                      "hs_close %d" % p, "pump", "residue")
            elif how == "wait":
                c.add("pump", "hs_state %d" % p, "residue")
                c.control(p)
                c.add("hs_state %d" % p, "hs_die %d" % p, "pump", "residue")
            else:
                c.add("pump", "hs_state %d" % p)
                if k < REQ:
                    c.add("hs_send %d %s" % (p, hexs(full[k:])))
                c.add("pump", "hs_state %d" % p, "hs_state %d" % p, "residue", "hs_close %d" % p, "pump", "residue")
            continue
        if kind == "mutate":
            f = rng.choice(["id", "size", "pad", "max"])
            kw = {}
            if f == "id":
                kw["idv"] = rng.choice([0, 1, -2, -3, 100, INT_MIN, INT_MAX, rng.randint(INT_MIN, INT_MAX)])
            elif f == "size":
                kw["size"] = rng.choice([0, -1, 23, 25, INT_MIN, INT_MAX, rng.randint(INT_MIN, INT_MAX)])
            elif f == "pad":
                kw["pad"] = (rng.getrandbits(32), rng.getrandbits(32), rng.getrandbits(32))
            else:
                kw["maxmsg"] = rng.choice(MAXES + [rng.randint(0, 70000)])
            data = bytes.fromhex(rec(**kw))
        elif kind == "garbage":
            n = rng.choice([1, 2, 7, 8, 23, 24, 24, 25, 64, 300, 5000])
            data = bytes(rng.getrandbits(8) for _ in range(n))
        elif kind == "extra":
            data = bytes.fromhex(rec(maxmsg=rng.choice(MAXES))) + bytes(rng.getrandbits(8) for _ in range(rng.randint(1, 40)))
        else:
            data = bytes.fromhex(rec(maxmsg=rng.choice(MAXES)))
        if kind == "slow" or rng.random() < 0.3:
            # arbitrary fragmentation, the server running (or not) between the fragments
            if kind == "slow":
                data = bytes.fromhex(rec(maxmsg=rng.choice(MAXES)))
            i = 0
            while i < len(data):
                n = rng.randint(1, max(1, min(9, len(data) - i)))
                c.add("hs_send %d %s" % (p, hexs(data[i:i + n])))
                if rng.random() < 0.7:
                    c.add("pump")
                i += n
        else:
            c.add("hs_send %d %s" % (p, hexs(data)))
        end = rng.choice(["pump", "pump", "close-nopump"])
        if end == "close-nopump":
            c.add("hs_close %d" % p, "pump", "residue")
            continue
        c.add("pump", "hs_state %d" % p, "residue")
        if rng.random() < 0.4:
            c.control(p)
        c.add("hs_state %d" % p, rng.choice(["hs_close %d", "hs_die %d"]) % p, "pump", "residue")
    c.add("accept_rc 0")
    c.control(9)
    c.add("residue")
    return c.ops


def sizes_for(rng, ln, L):
    return rng.choice([ln, ln, ln - 1, ln + 1, 0, -1, 15, 16, 17, L, L + 1, L - 1, INT_MIN, INT_MAX, 10000, 60000,
                       rng.randint(-70000, 70000)])


def gen_msg_case(rng):
    """stream `msg`: an accepted client (hand-made handshake) lying in its request headers"""
    t = rng.choice(["shm", "sock"])
    c = Case(rng, t)
    svcmax = rng.choice([0, 0, 0, 20000])
    c.add("svc %s %d" % (t, svcmax))
    for _ in range(rng.randint(1, 3)):
        p = c.peer()
        reqmax = rng.choice([0, 4, 100, 8192, RESP, 16000, 40000])
        L = max(reqmax, svcmax, RESP)
        c.add("hs_open %d" % p, "hs_send %d %s" % (p, rec(maxmsg=reqmax)), "pump", "hs_state %d" % p, "attach %d" % p)
        for _ in range(rng.randint(1, 6)):
            if rng.random() < 0.15:
                n = rng.choice([1, 5, 8, 12, 15, 16, 20, 40])
                if t == "sock" and rng.random() < 0.2:
                    n = 0
                c.add("raw %d %s" % (p, hexs(bytes(rng.getrandbits(8) for _ in range(n)))))
            else:
                ln = rng.choice([1, 8, 15, 16, 17, 20, 32, 64, 1000, L - 1, L, L + 1, rng.randint(16, L)])
                if t == "sock":
                    ln = rng.choice([ln, ln, ln, L + 100, 60000, 100000])
                elif rng.random() < 0.1:
                    ln = L + 8192 + rng.randint(0, 5000)
                idv = rng.choice([0, 0, 1, 7, -1, -2, -3, 99, 101, rng.randint(-5, 200)])
                if idv == 100:
                    idv = 7
                c.add("msg %d %d %d %d" % (p, idv, sizes_for(rng, ln, L), ln))
            c.add("pump")
            if rng.random() < 0.25:
                c.control(p)
        c.add("hs_state %d" % p, rng.choice(["hs_close %d", "hs_die %d"]) % p, "pump", "residue")
    c.control(9)
    c.add("residue")
    return c.ops


# ------------------------------------------------------------------------------------------ oracle
def oracle(ops, out):
    """The property C06 evaluated on the implementation's own output lines.
    Returns None or a description of the violation."""
    res, cbs = pair(ops, out)
    if isinstance(res, str):
        return res
    accept_rc = 0
    accepted = {}       # cid -> rc of accept
    created = set()
    closed = set()
    destroyed = set()
    pending = []        # lengths of requests emitted and not yet seen by msg_process
    negotiated = {}     # raw peer -> max from the response it read
    last_resp_peer_max = None
    maxes = []          # negotiated maxima seen (bound for any report)
    live_raw = set()
    ctl_ok = set()
    for i, op in enumerate(ops):
        w = op.split()
        r = res[i]
        if w[0] == "ctl_echo":
            pending.append((int(w[2]), None))     # the control client's own (truthful) request
        for cb in cbs[i]:
            cw = cb.split()
            kind, cid = cw[1], cw[2]
            if kind == "accept":
                accepted[cid] = accept_rc
            elif kind == "created":
                if accepted.get(cid) != 0:
                    return "created for %s which was not accepted (op %d)" % (cid, i)
                created.add(cid)
            elif kind == "msg":
                size = int(cw[3].split("=")[1])
                if accepted.get(cid) != 0 or cid not in created or cid in closed:
                    return "msg_process for %s which is not an accepted, live connection (op %d: %s)" % (cid, i, cb)
                if not pending:
                    return "msg_process called although no request was emitted (op %d: %s)" % (i, cb)
                ln, mx = pending.pop(0)
                if size > ln:
                    return "msg_process reported %d bytes, the request had %d (op %d: %s)" % (size, ln, i, op)
                if mx is not None and size > mx:
                    return "msg_process reported %d bytes, negotiated maximum is %d (op %d: %s)" % (size, mx, i, op)
            elif kind == "closed":
                if cid not in created:
                    return "closed for %s without created" % cid
                closed.add(cid)
            elif kind == "destroyed":
                if cid in destroyed:
                    return "destroyed twice for %s" % cid
                destroyed.add(cid)
        if r is None:
            continue
        if r.startswith("SAN:") or r.startswith("CRASH") or r == "TIMEOUT":
            return "server did not survive: %s at op %d (%s)" % (r, i, op)
        if w[0] == "accept_rc":
            accept_rc = int(w[1])
        elif w[0] == "hs_open":
            live_raw.add(w[1])
        elif w[0] in ("hs_close", "hs_die"):
            live_raw.discard(w[1])
        elif w[0] == "hs_state" and r.startswith("resp 0 "):
            negotiated[w[1]] = int(r.split()[2])
        elif w[0] in ("msg", "raw") and r.startswith("sent "):
            ln = int(r.split()[1])
            pending.append((ln, negotiated.get(w[1])))
        elif w[0] == "pump":
            pending = []          # whatever was not delivered by now was refused
        elif w[0] == "ctl_connect":
            if accept_rc == 0 and r != "ok" and r != "bad-op":
                return "control client could not connect: %s (op %d)" % (r, i)
            if r == "ok":
                ctl_ok.add(w[1])
        elif w[0] == "ctl_close":
            ctl_ok.discard(w[1])
        elif w[0] == "ctl_echo":
            ln = int(w[2])
            if w[1] in ctl_ok and ln <= RESP and r != "echo %d" % ln:
                return "control client not served: %s (op %d: %s)" % (r, i, op)
        elif w[0] == "residue":
            if not live_raw and not ctl_ok and r != "fds 0 dirs 0":
                return "not released after all peers went away: %s (op %d)" % (r, i)
            if not live_raw and not ctl_ok and set(accepted) != destroyed:
                return "connections never destroyed: %s" % sorted(set(accepted) - destroyed)
    return None


def pair(ops, out):
    """Align output lines with ops: returns ([result line or None per op], [cb lines per op])."""
    res = []
    cbs = []
    j = 0
    for op in ops:
        cur = []
        while j < len(out) and out[j].startswith("cb "):
            cur.append(out[j])
            j += 1
        if j < len(out):
            res.append(out[j])
            j += 1
        else:
            res.append(None)
        cbs.append(cur)
        if res[-1] is not None and (res[-1].startswith("SAN:") or res[-1].startswith("CRASH") or res[-1] == "TIMEOUT"):
            # the process died during this op: nothing follows
            while len(res) < len(ops):
                res.append(None)
                cbs.append([])
            break
    return res, cbs


def tags(ops, out):
    t = set()
    txt = "\n".join(out)
    if "cb msg" in txt:
        t.add("delivered")
    for o, r in zip(ops, pair(ops, out)[0]):
        w = o.split()
        if w[0] == "hs_state" and r:
            t.add("hs:" + r.split()[0] + ("-err" if r.startswith("resp E") else ""))
        if w[0] == "msg" and r and r.startswith("sent"):
            sz, ln = int(w[3]), int(w[4])
            t.add("lie:" + ("neg" if sz < 0 else "zero" if sz == 0 else "larger" if sz > ln else "smaller" if sz < ln else "true"))
            if ln > RESP:
                t.add("len>floor")
        if w[0] == "raw":
            t.add("raw")
        if w[0] == "hs_shutwr":
            t.add("shutwr")
    if "cb accept" in txt and "cb created" not in txt:
        t.add("refused")
    return t
