"""C13: generator of `logfmt` op lines and the property oracle (python, independent of the Lean model).

The oracle evaluates the property statement on the implementation's own output:
  * no memory error (the runner appends SAN:... when a sanitizer stops the harness),
  * the result is NUL-terminated inside the stated limit and nothing at or beyond the limit was written,
  * the text equals the directive specification below, truncated to max_line_length - 1, newline
    stripped, last three bytes replaced by "..." when the option is on and the line was cut.

Directive specification (include/qb/qblog.h: "%n FUNCTION NAME, %f FILENAME, %l FILELINE, %p PRIORITY,
%t TIMESTAMP, %T TIMESTAMP with milliseconds, %b BUFFER, %g TAGS, %N name, %P PID, %H hostname; any number
between % and character specify field length to pad or chop"; '-' (right-align) is not documented and
taken from the code): `%[-][digits]X`; width 0/absent = natural length, otherwise the value is padded with
blanks (left-aligned, with '-' right-aligned) or chopped (always at the end) to the width; an unknown
letter X expands to nothing.

Two behaviours of the code differ from the statement read literally and are recorded as proposed known
findings (class predicates `kf_exact_fit`, `kf_ralign_straddle`): inside those classes the oracle checks the
recorded as-is behaviour instead, everything else is checked against the strict specification.
"""
import re
import time

ABS_MAX = 4096
LOG_MAX = 512
MONTHS = ["Jan", "Feb", "Mar", "Apr", "May", "Jun", "Jul", "Aug", "Sep", "Oct", "Nov", "Dec"]
PRIO = ["emerg", "alert", "crit", "error", "warning", "notice", "info", "debug", "trace"]
XC = 7
SZ = 1 << 64


def hx(b):
    b = bytes(b)
    return b.hex() if b else "-"


def unhx(s):
    return b"" if s == "-" else bytes.fromhex(s)


def kv(tokens):
    d = {}
    for t in tokens:
        if "=" in t:
            k, v = t.split("=", 1)
            d.setdefault(k, v)
    return d


# ----------------------------------------------------------------------------- specification
def atoi_width(digits):
    """(size_t) atoi(digits) as glibc computes it ((int) strtol)."""
    if not digits:
        return 0
    v = min(int(digits), (1 << 63) - 1) & 0xffffffff
    if v >= 1 << 31:
        v += SZ - (1 << 32)
    return v


def scan(fmt):
    """format bytes -> items ('lit', byte) | ('dir', ralign, digits(bytes), letter or None, source bytes)"""
    items = []
    i, n = 0, len(fmt)
    while i < n:
        c = fmt[i]
        if c != 0x25:
            items.append(("lit", c))
            i += 1
            continue
        j = i + 1
        ralign = False
        if j < n and fmt[j] == 0x2d:
            ralign = True
            j += 1
        k = j
        while k < n and 0x30 <= fmt[k] <= 0x39:
            k += 1
        letter = fmt[k] if k < n else None
        end = k + 1 if k < n else k
        items.append(("dir", ralign, bytes(fmt[j:k]), letter, bytes(fmt[i:end])))
        i = end
    return items


def field(src, width, ralign, limit):
    """value padded/chopped to `width` (0 = natural), at most `limit` bytes of it"""
    if width == 0:
        return src[:limit]
    s = src[:width]
    pad = width - len(s)
    if ralign:
        return (b" " * min(pad, limit) + s)[:limit]
    return (s + b" " * min(pad, limit))[:limit]


def expansion(letter, f):
    if letter is None:
        return b""
    c = chr(letter)
    if c == "n":
        return f["fn"]
    if c == "f":
        return f["file"]          # in-tree build (BUILDING_IN_PLACE): whole name
    if c == "l":
        return b"%d" % (f["line"] % (1 << 32))
    if c == "p":
        return PRIO[min(f["prio"] % 256, 8)].encode()
    if c == "t":
        return f["t"]
    if c == "T":
        return f["T"]
    if c == "b":
        return f["msg"]
    if c == "g":
        return f["tags"] if f["tags"] is not None else b""
    return b""


def line_strict(r_len, text, M, ell):
    """text = first M-1 bytes of the rendering, r_len = full length of the rendering"""
    t = text[:M - 1]
    if ell and r_len > M - 1:
        return t[:M - 4] + b"..."
    if t.endswith(b"\n"):
        return t[:-1]
    return t


def line_asis(r_len, text, M, ell):
    t = text[:M - 1]
    if ell and r_len >= M - 1:
        return t[:M - 4] + b"..."
    if t.endswith(b"\n"):
        return t[:-1]
    return t


def spec_line(fmt, f, M, ell):
    """Full evaluation: returns (strict, asis, classes)."""
    room = M - 1
    strict = bytearray()
    asis = bytearray()
    total = 0
    classes = set()
    for it in scan(fmt):
        if it[0] == "lit":
            text, src, w, ralign, eff = bytes([it[1]]), None, 0, False, 1
        else:
            _, ralign, digits, letter, _s = it
            src = expansion(letter, f)
            w = atoi_width(digits)
            eff = w if w else len(src)
            text = field(src, w, ralign, room + 1)
        if len(strict) <= room:
            strict += text[:room + 1 - len(strict)]
        left = room - len(asis)
        if left > 0:
            if src is not None and ralign and w != 0 and len(src) < w and w > left:
                classes.add("kf_ralign_straddle")
                s = src[:left]
                asis += b" " * (left - len(s)) + s
            else:
                asis += text[:left]
        total += eff
    if ell and total == room:
        classes.add("kf_exact_fit")
    return (line_strict(total, bytes(strict), M, ell), line_asis(total, bytes(asis), M, ell), classes)


def static_text(fmt, sf, M):
    """qb_log_target_format_static: %P %N %H expanded, everything else copied; cut to M-1."""
    room = M - 1
    out = bytearray()
    asis_classes = set()
    for it in scan(fmt):
        if len(out) >= room:
            break
        left = room - len(out)
        if it[0] == "lit":
            out += bytes([it[1]])
            continue
        _, ralign, digits, letter, src_text = it
        w = atoi_width(digits)
        if letter in (0x50, 0x4e, 0x48):
            src = {0x50: b"%d" % sf["pid"], 0x4e: sf["name"],
                   0x48: (sf["host"][:254] if sf["host"] is not None else b"localhost")}[letter]
            if ralign and w != 0 and len(src) < w and w > left:
                asis_classes.add("kf_ralign_straddle")
                s = src[:left]
                out += b" " * (left - len(s)) + s
            else:
                out += field(src, w, ralign, left)
        else:
            t = src_text if letter is not None else src_text + b" "
            out += t[:left]
    return bytes(out), asis_classes


def cs_message(exp, maxlen):
    """cs_format: vsnprintf into maxlen bytes, one trailing newline of an untruncated text dropped"""
    if len(exp) < maxlen:
        return exp[:-1] if exp.endswith(b"\n") else exp
    return exp[:maxlen - 1]


def do_extended(msg, ext):
    """qb_do_extended: None = logger not called"""
    p = msg.find(bytes([XC]))
    if p < 0:
        return msg
    if p == 0 and not ext:
        return None
    if ext and p + 1 < len(msg):
        return msg[:p] + b"|" + msg[p + 1:]
    return msg[:p]


# ----------------------------------------------------------------------------- oracle
def accepted_range(M):
    return 4 <= M <= ABS_MAX


def parse_report(line):
    """`HEX nul=K maxw=I` | `NONUL HEX maxw=I` -> (text or None, nul, maxw)"""
    p = line.split()
    try:
        if p[0] == "NONUL":
            return None, None, int(p[2].split("=")[1])
        d = kv(p[1:])
        return unhx(p[0]), int(d["nul"]), int(d["maxw"])
    except (IndexError, KeyError, ValueError):
        return "bad", None, None


def fields_of(d):
    return {"fn": unhx(d.get("fn", "-")), "file": unhx(d.get("file", "-")), "line": int(d.get("line", "0")),
            "prio": int(d.get("prio", "6")), "msg": unhx(d.get("msg", "-")), "t": unhx(d.get("t", "-")),
            "T": unhx(d.get("T", "-")),
            "tags": None if d.get("tags", "none") == "none" else unhx(d["tags"])}


def sfields_of(d):
    return {"name": unhx(d.get("name", "-")), "pid": int(d.get("pid", "4242")),
            "host": None if d.get("host") == "fail" else unhx(d.get("host", "-"))}


def check_text(got, strict, asis, classes, what, hits):
    if got == strict:
        if classes and strict != asis:
            for c in classes:
                hits["gone:" + c] = hits.get("gone:" + c, 0) + 1
        return None
    if classes and got == asis:
        for c in classes:
            hits[c] = hits.get(c, 0) + 1
        return None
    return "%s: text %r differs from the specification %r" % (what, bytes(got)[:60], bytes(strict)[:60])


def oracle_op(op, out, hits):
    """op: op line, out: implementation result line (or None).  Returns None or a description."""
    tok = op.split()
    if out is None:
        return "no result for `%s`" % op[:60]
    if out.startswith("SAN:") or out.startswith("CRASH") or out.startswith("TIMEOUT"):
        return "memory error / crash (%s) on `%s`" % (out, op[:80])
    if out == "bad-op":
        return "harness did not understand `%s`" % op[:60]
    kind = tok[0]
    if kind in ("fmt", "static", "fset", "log") and out.startswith("E"):
        return None       # the control API refused the configuration: nothing is formatted
    if kind == "fmt":
        M, ell = int(tok[1]), tok[2] != "0"
        d = kv(tok[4:])
        text, nul, maxw = parse_report(out)
        if text == "bad":
            return "unparsable result %r" % out[:60]
        if text is None:
            return "fmt: line is not NUL-terminated inside its %d-byte buffer" % M
        if M <= 0:
            return "fmt: formatting happened with max_line_length %d" % M
        if nul >= M or maxw >= M:
            return "fmt: NUL at %d / highest write %d not inside max_line_length %d" % (nul, maxw, M)
        if M < 4:
            # nothing sensible is specified below 4 (no room for "..."); bounds only
            return None
        strict, asis, classes = spec_line(unhx(tok[3]), fields_of(d), M, ell)
        return check_text(text, strict, asis, classes, "fmt", hits)
    if kind == "static":
        M, cap = int(tok[1]), int(tok[2])
        text, nul, maxw = parse_report(out)
        if text == "bad":
            return "unparsable result %r" % out[:60]
        if text is None:
            return "static: result is not NUL-terminated inside its %d-byte buffer" % cap
        lim = min(M, cap) if M > 0 else cap
        if nul >= lim or maxw >= lim:
            return "static: NUL at %d / highest write %d not inside limit %d" % (nul, maxw, lim)
        if M < 4:
            return None
        exp, classes = static_text(unhx(tok[3]), sfields_of(kv(tok[4:])), M)
        if text != exp:
            return "static: text %r differs from the specification %r" % (text[:60], exp[:60])
        for c in classes:
            hits[c] = hits.get(c, 0) + 1
        return None
    if kind == "fset":
        M = int(tok[1])
        try:
            text = unhx(out.strip())
        except ValueError:
            return "unparsable result %r" % out[:60]
        if M < 4:
            return None
        exp, classes = static_text(unhx(tok[2]), sfields_of(kv(tok[3:])), M)
        if text != exp:
            return "fset: stored format %r differs from the specification %r" % (text[:60], exp[:60])
        return None
    if kind == "cut":
        cap, src, cutoff, ralign, buflen = int(tok[1]), unhx(tok[2]), int(tok[3]), tok[4] != "0", int(tok[5])
        if buflen == 0:
            # not in the domain of the static helper (no caller can pass it): the harness does not call it
            return None if out == "EDOM" else "cut: buf_len 0 executed (%r)" % out[:40]
        p = out.split(None, 1)
        text, nul, maxw = parse_report(p[1] if len(p) > 1 else "")
        if text == "bad":
            return "unparsable result %r" % out[:60]
        if maxw >= buflen:
            return "cut: wrote index %d with buf_len %d" % (maxw, buflen)
        if buflen == 1:
            # room for the terminator only: nothing is copied, the return value is 0
            return None if p[0] == "0" else "cut: returned %s with buf_len 1" % p[0]
        if text is None:
            return "cut: destination not NUL-terminated (buf_len %d)" % buflen
        w = cutoff if cutoff else len(src)
        w = min(w, buflen - 1)
        s = src[:w]
        exp = (b" " * (w - len(s)) + s) if ralign else (s + b" " * (w - len(s)))
        if text != exp or p[0] != str(len(exp)):
            return "cut: got %s %r, expected %d %r" % (p[0], text[:40], len(exp), exp[:40])
        return None
    if kind == "log":
        d = kv(tok[1:])
        got = kv(out.split())
        if not all(k in got for k in "cfso"):
            return "unparsable result %r" % out[:60]
        on = {k: (d.get(k, "off") != "off") for k in ("mc", "mf", "ms")}
        Ms = {k: int(d[k]) for k in on if on[k]}
        if any(not accepted_range(m) for m in Ms.values()):
            return None   # accepted a length outside 4..4096: bounds are checked by the sanitizer only
        ell, ext, old = d.get("ell", "0") != "0", d.get("ext", "1") != "0", d.get("old", "0") != "0"
        exp = unhx(d.get("exp", "-"))
        maxM = max(Ms.values()) if Ms else LOG_MAX
        msg = cs_message(exp, maxM)
        prio = int(d.get("prio", "6"))
        want = {}
        want["o"] = do_extended(msg, True) if old else None
        want["c"] = do_extended(msg, ext) if on["mc"] else None
        sf = sfields_of(d)
        base = {"fn": unhx(d.get("fn", "-")), "file": unhx(d.get("file", "-")), "line": int(d.get("line", "1")),
                "prio": prio, "t": b"", "T": b"", "tags": None}
        for key, mk in (("f", "mf"), ("s", "ms")):
            if not on[mk] or (key == "s" and prio % 256 > 7):
                want[key] = None
                continue
            m2 = do_extended(msg, ext)
            if m2 is None:
                want[key] = None
                continue
            f2 = dict(base)
            f2["msg"] = m2
            tf, _cl = static_text(unhx(d.get("ffmt", "-")), sf, Ms[mk])
            want[key] = spec_line(tf, f2, Ms[mk], ell)
        for key in "cfso":
            g = None if got[key] == "none" else unhx(got[key])
            w = want[key]
            if key in "fs" and w is not None:
                strict, asis, classes = w
                if g is None:
                    return "log: target %s received nothing, expected %r" % (key, strict[:60])
                r = check_text(g, strict, asis, classes, "log/" + key, hits)
                if r:
                    return r
            elif g != w:
                return "log: %s got %r, expected %r" % (key, g if g is None else g[:60], w if w is None else w[:60])
        return None
    return None


def oracle(ops, out, hits=None):
    """ops: op lines of one case; out: implementation output lines (may end with SAN:...)."""
    hits = hits if hits is not None else {}
    for i, op in enumerate(ops):
        o = out[i] if i < len(out) else None
        if o is None and out and (out[-1].startswith("SAN:") or out[-1].startswith("CRASH")):
            o = out[-1]
        r = oracle_op(op, o, hits)
        if r:
            return "op %d: %s" % (i + 1, r)
    return None


def tags(ops, out):
    """non-trivial branches a case reaches (evidence counters)"""
    t = set()
    for i, op in enumerate(ops):
        tok = op.split()
        o = out[i] if i < len(out) else ""
        if tok[0] == "fmt":
            M = int(tok[1])
            fmt = unhx(tok[3])
            if o.startswith("E"):
                t.add("ctl-refused")
                continue
            text, nul, maxw = parse_report(o)
            if isinstance(text, bytes):
                if nul == M - 1:
                    t.add("line-full")
                if nul == 0:
                    t.add("line-empty")
                if tok[2] != "0" and text.endswith(b"...") and nul == M - 1:
                    t.add("ellipsis")
            if fmt.endswith(b"\n"):
                t.add("newline-end")
            if re.search(rb"%-?\d*$", fmt):
                t.add("dangling-directive")
            if re.search(rb"%-\d", fmt):
                t.add("ralign")
            if re.search(rb"%-?\d*[^nflptTbgNPH\d-]", fmt):
                t.add("unknown-directive")
            if re.search(rb"%-?\d{4,}", fmt):
                t.add("width>=1000")
        elif tok[0] == "static":
            t.add("static")
        elif tok[0] == "fset":
            n = len(unhx(tok[2]))
            t.add("fset>255" if n > 255 else "fset")
        elif tok[0] == "cut":
            t.add("cut-noroom" if int(tok[5]) <= 1 else "cut")
        elif tok[0] == "log":
            d = kv(tok[1:])
            e = unhx(d.get("exp", "-"))
            t.add("log")
            if not e:
                t.add("log-empty")
            if e.endswith(b"\n"):
                t.add("log-newline")
            if bytes([XC]) in e:
                t.add("log-xc")
            if len(e) >= 511:
                t.add("log-long")
            if d.get("old", "0") != "0":
                t.add("log-oldfn")
    return t


# ----------------------------------------------------------------------------- generator
LENS_OK = [4, 5, 6, 7, 8, 9, 12, 16, 31, 32, 33, 64, 100, 128, 255, 256, 257, 300, 511, 512, 513, 600, 1024,
           2048, 4095, 4096]
LENS_BAD = [-2147483648, -4096, -512, -2, -1, 0, 1, 2, 3, 4097, 5000, 65536, 2147483647]
LETTERS = "nflptTbg" + "NPH"
TEXT = b"abcdefghijklmnopqrstuvwxyzABCXYZ0123456789 _.,:;/[]()<>=+#!-"


def pick_len(rng, bad=0.08):
    r = rng.random()
    if r < bad:
        return rng.choice(LENS_BAD)
    if r < 0.6:
        return rng.choice(LENS_OK)
    if r < 0.9:
        return rng.randrange(4, 80)
    return rng.randrange(4, ABS_MAX + 1)


def text(rng, n, alphabet=TEXT, spice=True):
    b = bytearray(rng.choice(alphabet) for _ in range(n))
    if spice and n and rng.random() < 0.15:
        for _ in range(1 + n // 40):
            b[rng.randrange(n)] = rng.choice([0x0a, 0x25, 0x07, 0x80, 0xff, 0x09, 0x2d, 0x7c, 0x01])
    return bytes(b)


def pick_textlen(rng):
    r = rng.random()
    if r < 0.15:
        return 0
    if r < 0.7:
        return rng.randrange(1, 24)
    if r < 0.9:
        return rng.randrange(24, 300)
    return rng.choice([254, 255, 256, 257, 510, 511, 512, 513, 1000, 4094, 4095, 4096, 4097, 5000])


def pick_width(rng):
    r = rng.random()
    if r < 0.25:
        return ""
    if r < 0.6:
        return str(rng.randrange(0, 16))
    if r < 0.8:
        return str(rng.randrange(16, 600))
    if r < 0.95:
        return str(rng.randrange(600, 5001))
    return rng.choice(["00", "007", "2147483647", "2147483648", "4294967295", "4294967296", "4294967299",
                       "9223372036854775807", "9223372036854775808", "99999999999999999999999"])


def gen_format(rng, letters=LETTERS, unknown=True):
    n = rng.choice([0, 1, 1, 2, 2, 3, 3, 4, 5, 6, 8, 12])
    parts = []
    for _ in range(n):
        r = rng.random()
        if r < 0.40:
            parts.append(text(rng, rng.randrange(1, 12), TEXT, spice=False))
        elif r < 0.90:
            parts.append(b"%" + (b"-" if rng.random() < 0.3 else b"") + pick_width(rng).encode()
                         + rng.choice(letters).encode())
        elif unknown:
            parts.append(b"%" + (b"-" if rng.random() < 0.3 else b"") + pick_width(rng).encode()
                         + bytes([rng.choice(b"qzxZ%- #.\n\xc3")]))
        else:
            parts.append(b"%%")
    f = b"".join(parts)
    r = rng.random()
    if r < 0.10:
        f += b"\n"
    elif r < 0.20 and unknown:
        f += rng.choice([b"%", b"%-", b"%12", b"%-7", b"%0"])
    return f


def ts_strings(sec, nsec):
    tm = time.gmtime(sec)
    t = "%s %02d %02d:%02d:%02d" % (MONTHS[tm.tm_mon - 1], tm.tm_mday, tm.tm_hour, tm.tm_min, tm.tm_sec)
    return t.encode(), ("%s.%03d" % (t, nsec // 1000000)).encode()


def gen_fmt_op(rng):
    M = pick_len(rng)
    ell = rng.random() < 0.5
    f = {"fn": text(rng, pick_textlen(rng)), "file": text(rng, pick_textlen(rng)),
         "line": rng.choice([0, 1, 7, 99, 12345, 4294967295, rng.randrange(1 << 32)]),
         "prio": rng.choice([0, 1, 2, 3, 4, 5, 6, 7, 8, 9, 200, 255]),
         "msg": text(rng, pick_textlen(rng)),
         "tags": None if rng.random() < 0.3 else text(rng, rng.randrange(0, 12))}
    sec = rng.choice([0, 1, 86399, 951782400, 1700000000, rng.randrange(1 << 31)])
    nsec = rng.choice([0, 999999, 1000000, 999999999, rng.randrange(1000000000)])
    f["t"], f["T"] = ts_strings(sec, nsec)
    fmt = gen_format(rng)
    if 4 <= M <= ABS_MAX and rng.random() < 0.6:
        # steer the rendered length to M-1 + {-3 .. +3}
        target = M - 1 + rng.randrange(-3, 4)
        _s, _a, _c = spec_line(fmt, f, ABS_MAX * 4, False)
        cur = len(_a)
        nl = fmt.endswith(b"\n")
        body = fmt[:-1] if nl else fmt
        if re.search(rb"%-?\d*$", body):
            body = body + b"q"
        if cur < target:
            if b"%b" in body and rng.random() < 0.5:
                f["msg"] = f["msg"] + text(rng, target - cur, TEXT, spice=False)
            else:
                body += text(rng, target - cur, TEXT, spice=False)
        fmt = body + (b"\n" if nl else b"")
    op = "fmt %d %d %s fn=%s file=%s line=%d prio=%d msg=%s ts=%d:%d t=%s T=%s tags=%s" % (
        M, 1 if ell else 0, hx(fmt), hx(f["fn"]), hx(f["file"]), f["line"], f["prio"], hx(f["msg"]), sec, nsec,
        hx(f["t"]), hx(f["T"]), "none" if f["tags"] is None else hx(f["tags"]))
    return op


def gen_sfields(rng):
    name = text(rng, rng.choice([0, 1, 5, 5, 8, 30, 255, 256, 300, 600, 4095]), TEXT, spice=False)
    pid = rng.choice([1, 77, 4242, 32768, 4194304, 2147483647, -5])
    r = rng.random()
    if r < 0.1:
        host = "fail"
    else:
        host = hx(text(rng, rng.choice([0, 1, 6, 9, 64, 253, 254, 255, 256, 300]), TEXT, spice=False))
    return "name=%s pid=%d host=%s" % (hx(name), pid, host)


def gen_static_fmt(rng):
    r = rng.random()
    if r < 0.2:
        n = rng.choice([254, 255, 256, 257, 398, 399, 510, 511, 512, 513, 600])
        base = text(rng, n, TEXT, spice=False)
        if rng.random() < 0.5:
            k = rng.randrange(0, max(1, n - 3))
            base = base[:k] + rng.choice([b"%N", b"%5P", b"%-9H", b"%b", b"%12n"]) + base[k:]
        return base
    if r < 0.3:
        return b"%" + rng.choice([b"", b"-"]) + str(rng.choice([255, 256, 257, 300, 511, 512, 600, 5000])).encode() + \
            rng.choice([b"N", b"P", b"H"])
    return gen_format(rng, letters="NPHNPH" + "nflptTbg")


def gen_static_op(rng):
    M = pick_len(rng, bad=0.05)
    cap = M if M > 0 else 0
    if rng.random() < 0.25:
        cap = rng.choice([max(M, 0), 256, 512, 4096])
        cap = max(cap, M if M > 0 else 0)
    return "static %d %d %s %s" % (M, min(cap, 8192), hx(gen_static_fmt(rng)), gen_sfields(rng))


def gen_fset_op(rng):
    M = pick_len(rng, bad=0.05)
    return "fset %d %s %s" % (M, hx(gen_static_fmt(rng)), gen_sfields(rng))


def gen_cut_op(rng):
    # buf_len >= 1: the domain of the helper (its callers pass >= 2, Props.C13.caller_buf_len_ge_two)
    buflen = rng.choice([1, 2, 2, 3, 4, 8, 16, 64, rng.randrange(1, 300)])
    src = text(rng, rng.choice([0, 1, 2, 3, 7, 8, 15, 16, 17, 63, 64, 65, rng.randrange(0, 400)]))
    cutoff = rng.choice([0, 0, 1, 2, 5, 8, 16, 64, 300, 5000, (1 << 64) - 1, rng.randrange(0, 400)])
    return "cut %d %s %d %d %d" % (buflen, hx(src), cutoff, rng.randrange(2), buflen)


def gen_printf(rng, want_len=None):
    """-> (format bytes, shape, [args as op tokens], expansion bytes)"""
    r = rng.random()
    if r < 0.12:
        return b"%s", "s", ["a=-"], b""            # the empty expansion
    if r < 0.18:
        return b"", "-", [], b""
    pieces = []
    shape = ""
    args = []
    exp = bytearray()
    n = rng.randrange(1, 5)
    for _ in range(n):
        k = rng.random()
        if k < 0.4 or len(shape) >= 3:
            lit = text(rng, rng.randrange(0, 10), TEXT, spice=False)
            pieces.append(lit)
            exp += lit
        elif k < 0.5:
            pieces.append(b"%%")
            exp += b"%"
        elif k < 0.8:
            s = text(rng, pick_textlen(rng), TEXT, spice=False)
            conv = rng.choice(["%s", "%s", "%-8s", "%12s", "%.3s"])
            pieces.append(conv.encode())
            shape += "s"
            args.append("a=" + hx(s))
            if conv == "%s":
                exp += s
            elif conv == "%-8s":
                exp += s.ljust(8)
            elif conv == "%12s":
                exp += s.rjust(12)
            else:
                exp += s[:3]
        else:
            v = rng.choice([0, 1, -1, 42, 2147483647, -2147483648, rng.randrange(-100000, 100000)])
            conv = rng.choice(["%d", "%5d", "%x"])
            pieces.append(conv.encode())
            shape += "d"
            args.append("a=%d" % v)
            if conv == "%d":
                exp += b"%d" % v
            elif conv == "%5d":
                exp += b"%5d" % v
            else:
                exp += b"%x" % (v & 0xffffffff)
    pf = b"".join(pieces)
    if want_len is not None and len(exp) < want_len and len(shape) < 3:
        s = text(rng, want_len - len(exp), TEXT, spice=False)
        pf += b"%s"
        shape += "s"
        args.append("a=" + hx(s))
        exp += s
    r = rng.random()
    if r < 0.2:
        pf += b"\n"
        exp += b"\n"
    r = rng.random()
    if r < 0.25:
        # extended-information marker somewhere (also first / last)
        pos = rng.choice([0, len(pf), rng.randrange(0, len(pf) + 1)])
        # keep conversions intact: only insert at a position that is not inside a conversion
        safe = [m.end() for m in re.finditer(rb"%%|%-?\d*\.?\d*[sdx]|[^%]", pf)] + [0]
        pos = min(safe, key=lambda x: abs(x - pos))
        # position in the expansion: expand the prefix
        pre = expand_prefix(pf[:pos], args)
        pf = pf[:pos] + bytes([XC]) + pf[pos:]
        exp = bytearray(pre + bytes([XC]) + bytes(exp[len(pre):]))
    return pf, (shape or "-"), args, bytes(exp)


def expand_prefix(pf, args):
    """expansion of a prefix of the printf format (conversions complete) with the first args"""
    out = bytearray()
    ai = 0
    for m in re.finditer(rb"%%|%(-?)(\d*)(\.?)(\d*)([sdx])|[^%]", pf):
        t = m.group(0)
        if t == b"%%":
            out += b"%"
        elif t[:1] == b"%":
            a = args[ai][2:]
            ai += 1
            c = m.group(5)
            if c == b"s":
                s = unhx(a)
                if m.group(3):
                    s = s[:int(m.group(4) or 0)]
                w = int(m.group(2) or 0)
                out += s.ljust(w) if m.group(1) else s.rjust(w)
            else:
                v = int(a)
                s = (b"%d" % v) if c == b"d" else (b"%x" % (v & 0xffffffff))
                out += s.rjust(int(m.group(2) or 0))
        else:
            out += t
    return bytes(out)


def gen_log_op(rng, line):
    def ml(p_off, bad=0.04):
        if rng.random() < p_off:
            return "off"
        return str(pick_len(rng, bad=bad))
    mc, mf, ms = ml(0.3), ml(0.3), ml(0.6)
    old = rng.random() < 0.12
    if old and rng.random() < 0.5:
        mc = mf = ms = "off"
    lens = [int(x) for x in (mc, mf, ms) if x != "off" and 4 <= int(x) <= ABS_MAX]
    want = None
    if lens and rng.random() < 0.5:
        want = max(lens) - 1 + rng.randrange(-3, 4)
    pf, shape, args, exp = gen_printf(rng, want)
    ffmt = gen_format(rng, letters="nflpbgNPHbbb")
    ffmt = re.sub(rb"%(-?\d*)[tT]", rb"%\1b", ffmt)
    prio = rng.choice([0, 3, 4, 6, 7, 8])
    return "log mc=%s mf=%s ms=%s ell=%d ext=%d old=%d ffmt=%s pf=%s sh=%s %s prio=%d line=%d fn=%s file=%s %s exp=%s" % (
        mc, mf, ms, rng.randrange(2), rng.randrange(2), 1 if old else 0, hx(ffmt), hx(pf), shape, " ".join(args), prio,
        line, hx(text(rng, rng.randrange(0, 12), TEXT, spice=False)),
        hx(text(rng, rng.randrange(0, 20), TEXT, spice=False)), gen_sfields(rng), hx(exp))


def gen_case(rng, nops=None):
    n = nops or rng.choice([1, 2, 3, 4, 6])
    ops = []
    for i in range(n):
        r = rng.random()
        if r < 0.50:
            ops.append(gen_fmt_op(rng))
        elif r < 0.62:
            ops.append(gen_static_op(rng))
        elif r < 0.72:
            ops.append(gen_fset_op(rng))
        elif r < 0.82:
            ops.append(gen_cut_op(rng))
        else:
            ops.append(gen_log_op(rng, 1 + rng.randrange(20000)))
    return ops
