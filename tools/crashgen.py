#!/usr/bin/env python3
"""C03 — case generation (fault enumeration) and the property oracle, independent of the Lean model.

Op lines (one per case; harness/ipc/ipc_crash.c and the Lean driver `qb_ipclife` read the same):

  cdry   T SCRIPT MODE       run SCRIPT in the victim without a crash; prints the victim's call list
  cdeath T SCRIPT MODE K     the victim _exits immediately before its K-th library-visible call
  gdry   T SCRIPT            as cdry (mode S) but prints the SERVER's call list while it handles the victim
  gdeath T SCRIPT J          the server SIGKILLs the victim immediately before the server's own J-th call
  hs     T MODE N            a raw client sends the first N bytes of a valid handshake record and dies
  sdry   T PRE API TMO       server-death direction, no death: prints the forked server's call list
  sdeath T PRE API TMO S [D] the forked server dies immediately before its S-th call while API(TMO) runs
                             (S = 0: SIGKILLed and reaped before the call); then the later calls and
                             qb_ipcc_disconnect (with D: no later calls, the next call is qb_ipcc_disconnect)
  sidle  T PRE REAP CALLS    the forked server is SIGKILLed while the client is idle (in no library call),
                             after the preparation PRE (E events queued, S response queued, Q round trip,
                             N request without response, H server stopped from here on: what follows stays
                             queued on the server's side).  REAP = 0 reaped before the client's next call |
                             1..4 a zombie, reaped during the REAP-th 10 ms pause of qb_ipcc_disconnect |
                             n a zombie until qb_ipcc_disconnect has returned.  CALLS = the client's calls
                             after the death: D disconnect (last), I is_connected, S send, Q sendv_recv(-1),
                             V event_recv(0), W event_recv(-1), R recv(0)

T = shm | sock.  SCRIPT = API letters: C connect, D disconnect, Q sendv_recv(echo), E sendv_recv(3 events),
S send(echo), N send(request without response), R recv, V event_recv.
MODE = S (server always caught up) | R (server runs only while the victim waits; sees the rest only
after the death) | L (as R, but the server catches up right before the death).
"""
import re

TRANSPORTS = ["shm", "sock"]
# idle / mid-request / requests queued / events queued / request that is never answered
SCRIPTS = ["CD", "CQD", "CSSSRRRD", "CEVVVD", "CNSD"]
GATE_SCRIPTS = ["CEVD", "CSQD"]
MODES = ["S", "R", "L"]
AUTH_LEN = 24

# server-death scenarios: (PRE, API, TMO)
SDEATH = [
    ("-", "sendv_recv", -1), ("-", "sendv_recv", 0), ("-", "sendv_recv", 700), ("-", "sendv_recv", 2000),
    ("-", "sendv_recv", 2001), ("-", "sendv_recv", 5300),
    ("-", "sendv_recv_ev", -1), ("-", "sendv_recv_ev", 4100),
    ("-", "send", 0),
    ("E", "event_recv", -1), ("E", "event_recv", 0), ("E", "event_recv", 1500),
    ("-", "event_recv", -1), ("-", "event_recv", 1500),
    ("N", "recv", 0), ("N", "recv", 900), ("S", "recv", 900),
    ("Q", "sendv_recv", -1), ("E", "sendv_recv", 2500),
]

# the server dies while the client is idle: preparation (queues empty / events queued / response queued /
# request queued / events and a request queued), when the dead server is reaped, what the client calls next
SIDLE_PRE = ["-", "Q", "E", "S", "HN", "EHN"]
SIDLE_REAP = ["0", "1", "2", "3", "4", "n"]
SIDLE_CALLS = ["D", "ID", "SD", "QD", "VD", "WD", "RD"]
# qb_ipcc_shm_disconnect probes kill(server_pid, 0) four times, 10 ms apart: a server reaped before the
# fourth probe is "gone" for the client (the documented hypothesis of the clause about the files)
REAPED_IN_TIME = ("0", "1", "2", "3")
DISCONNECT_MAX_MS = 40


def idle_ops():
    """(direct, others): `direct` = the client's FIRST call after the death is qb_ipcc_disconnect"""
    direct, others = [], []
    for t in TRANSPORTS:
        for pre in SIDLE_PRE:
            for reap in SIDLE_REAP:
                for calls in SIDLE_CALLS:
                    c = ("i-%s-%s-%s-%s" % (t, pre, reap, calls), ["sidle %s %s %s %s" % (t, pre, reap, calls)])
                    (direct if calls == "D" else others).append(c)
    return direct, others


def dry_ops():
    ops = []
    for t in TRANSPORTS:
        for sc in SCRIPTS:
            for m in MODES:
                ops.append(("dry-c-%s-%s-%s" % (t, sc, m), ["cdry %s %s %s" % (t, sc, m)]))
        for sc in GATE_SCRIPTS:
            ops.append(("dry-g-%s-%s" % (t, sc), ["gdry %s %s" % (t, sc)]))
        for pre, api, tmo in SDEATH:
            ops.append(("dry-s-%s-%s-%s-%d" % (t, pre, api, tmo), ["sdry %s %s %s %d" % (t, pre, api, tmo)]))
    return ops


def count_of(lines, tag):
    for l in lines:
        m = re.match(r"^%s (\d+):" % tag, l)
        if m:
            return int(m.group(1))
    return None


# ---------------------------------------------------------------------------- oracle: client death
def cb_of(lines, who):
    out = []
    for l in lines:
        w = l.split()
        if len(w) >= 3 and w[0] == "cb" and w[2] == who:
            out.append(w[1])
    return out


def client_death_oracle(ops, lines):
    """The statement of C03, client-death half, on the implementation's own output:
    destroyed exactly once for a connection the application was told about (accept), never otherwise;
    closed exactly once iff created, in the order accept, created, …, closed, destroyed; every
    descriptor / shm file / temporary directory / mapping / loop registration / heap byte released;
    the other client still served."""
    text = "\n".join(lines)
    for bad in ("TIMEOUT", "ERROR", "SAN:", "CRASH", "bad-op"):
        if bad in text:
            return "harness reports %s: %s" % (bad, [l for l in lines if bad in l][:1])
    v = cb_of(lines, "v")
    a, c, x, d = v.count("accept"), v.count("created"), v.count("closed"), v.count("destroyed")
    if a > 1:
        return "victim accepted %d times" % a
    if d != a:
        return "destroyed fired %d times for %d connection(s) of the dead client" % (d, a)
    if x != c:
        return "closed fired %d times, created %d times" % (x, c)
    if c > a:
        return "created without accept"
    if v:
        order = [e for e in v if e != "msg"]
        want = ["accept"] + (["created", "closed"] if c else []) + ["destroyed"]
        if order != want:
            return "callback order for the dead client: %s" % " ".join(v)
        if v[-1] != "destroyed":
            return "callback after destroyed: %s" % " ".join(v)
        if "msg" in v and not c:
            return "msg_process without created"
        if "msg" in v and not (v.index("created") < v.index("msg") and
                                len(v) - 1 - v[::-1].index("msg") < v.index("closed")):
            return "msg_process outside created..closed: %s" % " ".join(v)
    res = [l for l in lines if l.startswith("residue ") or l.startswith("final-residue ")]
    if len(res) != 2:
        return "residue lines missing"
    for l in res:
        for kv in l.split()[1:]:
            k, _, val = kv.partition("=")
            if val != "0":
                return "resource not released after the client's death: %s" % l
    hp = [l for l in lines if l.startswith("heap ")]
    if not hp or hp[0].split()[1:] != ["residue=0", "final=0"]:
        return "heap not released: %s" % (hp[:1],)
    if "bystander phase=2 exit=0" not in lines:
        return "the other client was not served: %s" % [l for l in lines if l.startswith("bystander")]
    b = cb_of(lines, "b")
    if b != ["accept", "created", "msg", "msg", "msg", "closed", "destroyed"]:
        return "callbacks of the other client: %s" % " ".join(b)
    for l in lines:
        if l.startswith("cb msg b") and ("fail" in l):
            return "a send to the live client failed: " + l
    if ops and ops[0].startswith(("cdry", "gdry")):
        rc = [l for l in lines if l.startswith("rcs")]
        if ops[0].startswith("cdry") and (not rc or any(x != "ok" for x in rc[0].split()[1:])):
            return "an API call of the undisturbed victim failed: %s" % rc
    return None


# ---------------------------------------------------------------------------- oracle: server death
QB_IPC_MAX_WAIT_MS = 2000
SLACK = 0            # the clock is virtual: bounds are exact


def parse_calls(lines):
    out = []
    for l in lines:
        m = re.match(r"^call (\S+)(?: tmo=(-?\d+) rc=(\S+))? ?vms=(-?\d+)( BLOCKED-FOREVER)?", l)
        if m:
            out.append({"api": m.group(1), "tmo": int(m.group(2)) if m.group(2) else None, "rc": m.group(3),
                        "ms": int(m.group(4)), "blocked": bool(m.group(5))})
    return out


def server_death_oracle(ops, lines):
    """Server-death half of the statement on the implementation's output (virtual milliseconds).
    first call (server dies before or during it):
       finite timeout T  -> returns within T
       sendv_recv / event_recv with T = -1 -> returns within QB_IPC_MAX_WAIT_MS, with a disconnect error
       unless the answer had been delivered completely
    later calls: fail immediately (0 ms) with a disconnect error, never block
    disconnect: no shm file of the dead server is left (files=0), no descriptor or mapping leaked."""
    text = "\n".join(lines)
    for bad in ("ERROR", "SAN:", "CRASH", "bad-op", "TIMEOUT"):
        if bad in text:
            return "harness reports %s: %s" % (bad, [l for l in lines if bad in l][:1])
    calls = parse_calls(lines)
    if not calls:
        return "no call lines"
    w = ops[0].split()
    dry = w[0] == "sdry"
    first = calls[0]
    tmo = int(w[4])
    if dry:
        return None if first["rc"] not in ("DISC",) else "undisturbed call failed"
    srv = [l for l in lines if l.startswith("server ")]
    answered = first["rc"] is not None and first["rc"].isdigit()
    if first["blocked"]:
        return "%s(%d) never returns after the server died" % (first["api"], tmo)
    if tmo >= 0 and first["ms"] > tmo + SLACK:
        return "%s with timeout %d ms returned after %d ms" % (first["api"], tmo, first["ms"])
    if tmo < 0 and first["api"] in ("sendv_recv", "sendv_recv_ev", "event_recv"):
        if first["ms"] > QB_IPC_MAX_WAIT_MS + SLACK:
            return "%s(-1) returned after %d ms" % (first["api"], first["ms"])
        if not answered and first["rc"] != "DISC":
            return "%s(-1) returned %s, not a disconnect error" % (first["api"], first["rc"])
    later = calls[1:]
    names = [c["api"] for c in later]
    if "disconnect" not in names:
        return "disconnect not reached"
    for c in later:
        if c["api"] == "disconnect":
            continue
        if c["blocked"]:
            return "later call %s(%s) never returns" % (c["api"], c["tmo"])
        if c["api"] == "is_connected":
            if c["rc"] != "0":
                return "qb_ipcc_is_connected still true after the server died"
            continue
        if c["ms"] != 0:
            return "later call %s(%s) took %d ms instead of failing immediately" % (c["api"], c["tmo"], c["ms"])
        if c["rc"] != "DISC" and not (c["rc"] or "").isdigit():
            return "later call %s(%s) returned %s, not a disconnect error" % (c["api"], c["tmo"], c["rc"])
    res = [l for l in lines if l.startswith("residue ")]
    if not res:
        return "residue line missing"
    kv = dict(x.split("=") for x in res[0].split()[1:])
    if kv.get("files") != "0":
        return "shared-memory files of the dead server left after qb_ipcc_disconnect: " + res[0]
    if kv.get("fds") != "0" or kv.get("maps") != "0":
        return "client leaks after qb_ipcc_disconnect: " + res[0]
    return None


def server_idle_oracle(ops, lines):
    """The server died while the client was idle.  Calls before qb_ipcc_disconnect: never stuck, a finite
    timeout kept, wait-for-ever calls back within QB_IPC_MAX_WAIT_MS, result = a disconnect error or
    something that had been queued; qb_ipcc_is_connected false.  qb_ipcc_disconnect -- whether or not an
    earlier call noticed the death -- returns within its four 10 ms probes, leaks no descriptor and no
    mapping, and leaves no file of that connection in /dev/shm (the directory is allowed) provided the
    dead server is reaped before the fourth probe (socket transport: in every case)."""
    text = "\n".join(lines)
    for bad in ("ERROR", "SAN:", "CRASH", "bad-op", "TIMEOUT"):
        if bad in text:
            return "harness reports %s: %s" % (bad, [l for l in lines if bad in l][:1])
    w = ops[0].split()
    t, reap = w[1], w[3]
    calls = parse_calls(lines)
    if not calls or calls[-1]["api"] != "disconnect":
        return "disconnect not reached"
    for c in calls[:-1]:
        if c["blocked"]:
            return "%s(%s) never returns after the server died" % (c["api"], c["tmo"])
        if c["api"] == "is_connected":
            if c["rc"] != "0":
                return "qb_ipcc_is_connected still true after the server died"
            continue
        bound = QB_IPC_MAX_WAIT_MS if (c["tmo"] or 0) < 0 else (c["tmo"] or 0)
        if c["ms"] > bound + SLACK:
            return "%s(%s) returned after %d ms" % (c["api"], c["tmo"], c["ms"])
        if c["rc"] != "DISC" and not (c["rc"] or "").isdigit():
            return "%s(%s) returned %s, not a disconnect error" % (c["api"], c["tmo"], c["rc"])
    d = calls[-1]
    if d["blocked"]:
        return "qb_ipcc_disconnect never returns"
    if d["ms"] > DISCONNECT_MAX_MS:
        return "qb_ipcc_disconnect took %d ms" % d["ms"]
    res = [l for l in lines if l.startswith("residue ")]
    if not res:
        return "residue line missing"
    kv = dict(x.split("=") for x in res[0].split()[1:])
    if kv.get("fds") != "0" or kv.get("maps") != "0":
        return "client leaks after qb_ipcc_disconnect: " + res[0]
    if (t == "sock" or reap in REAPED_IN_TIME) and kv.get("files") != "0":
        return ("shared-memory files of the dead server left after qb_ipcc_disconnect (server died while the "
                "client was idle, calls after the death: %s, reaped: %s): %s" % (w[4], reap, res[0]))
    return None


def oracle(ops, lines):
    if not ops:
        return None
    op = ops[0].split()[0]
    if op == "sidle":
        return server_idle_oracle(ops, lines)
    if op in ("sdry", "sdeath"):
        return server_death_oracle(ops, lines)
    return client_death_oracle(ops, lines)


# ---------------------------------------------------------------------------- tags (evidence)
def tags(ops, lines):
    t = []
    if not ops:
        return t
    w = ops[0].split()
    t.append("op:" + w[0])
    t.append("transport:" + w[1])
    if w[0] == "cdeath":
        t.append("mode:" + w[3])
        for l in lines:
            m = re.match(r"^victim k=\d+ call=(\S+) api=(\S)", l)
            if m:
                t.append("die-before:" + m.group(1))
                t.append("die-in-api:" + m.group(2))
    v = cb_of(lines, "v")
    if w[0] in ("cdeath", "gdeath", "hs"):
        if not v:
            t.append("shape:no-connection")
        elif "created" not in v:
            t.append("shape:destroyed-without-created")
        elif "msg" in v:
            t.append("shape:msgs-then-closed-destroyed")
        else:
            t.append("shape:created-closed-destroyed")
        if any("fail" in l for l in lines if l.startswith("cb msg v")):
            t.append("send-to-dead-peer-failed")
    if w[0] == "sdeath":
        c = parse_calls(lines)
        if c:
            t.append("first:%s:%s" % (c[0]["api"], "answered" if (c[0]["rc"] or "").isdigit() else c[0]["rc"]))
            if c[0]["ms"] > 0:
                t.append("waited")
        t.append("server-dies:" + ("before" if w[5] == "0" else "during"))
        if len(w) > 6 and w[6] == "D":
            noticed = any(l.startswith("call ") and l.endswith("conn=0") for l in lines)
            t.append("disconnect-is-next-call:" + ("death-noticed-before" if noticed else "death-not-noticed-before"))
    if w[0] == "sidle":
        t.append("idle-death:reap=" + w[3])
        t.append("idle-death:first-call-after=" + w[4][0])
        q = [l for l in lines if l.startswith("queues ")]
        t.append("idle-death:queues=" + ("empty" if w[2] in ("-", "Q") else "non-empty"))
        noticed = any(l.startswith("call ") and l.endswith("conn=0") for l in lines)
        t.append("idle-death:disconnect-" + ("after-death-noticed" if noticed else "is-first-to-notice"))
        res = [l for l in lines if l.startswith("residue ")]
        if res and "files=0" not in res[0]:
            t.append("idle-death:files-left-because-server-not-reaped-in-time")
    return t
