"""Generators, schedule enumeration and the property oracle for the logging-thread schedule
harness (C16).  A case is a list of lines (one operation / one schedule chunk per line, so
that the line-level shrinker can drop operations and schedule steps):

    C <op>          operation appended to the controller's program
    P log:<len>     operation appended to the producer's program
    s <CPW...>      schedule characters appended to the schedule

The oracle works on the implementation's output only (independent of the Lean model)."""
import re

ABS_MAX = 4095          # QB_LOG_ABSOLUTE_MAX_LEN - 1 (longest message the harness produces)
SETUP = ["init", "open", "enable:1", "threaded:1", "start"]


# ----------------------------------------------------------------------------- case <-> lines
def case_lines(cops, pops, sched, chunk=1):
    lines = ["C " + o for o in cops] + ["P " + o for o in pops]
    for i in range(0, len(sched), chunk):
        lines.append("s " + sched[i:i + chunk])
    return lines


def parse_case(lines):
    cops, pops, sched = [], [], []
    for l in lines:
        w = l.split()
        if not w:
            continue
        if w[0] in ("C", "C:"):
            cops += w[1:]
        elif w[0] in ("P", "P:"):
            pops += w[1:]
        elif w[0] in ("s", "sched"):
            sched.append(w[1] if len(w) > 1 else "")
    return cops, pops, "".join(sched)


def well_formed(cops, pops):
    """Usage contract assumed by the property (and by the model's theorems): the producer only
    logs; with a producer, the controller joins it before it logs itself or finalises (one
    thread logs at a time; nobody logs while qb_log_fini runs); message lengths 8..4095."""
    for o in pops:
        if not o.startswith("log:"):
            return False
    for o in cops + pops:
        if o.startswith("log:"):
            try:
                n = int(o[4:])
            except ValueError:
                return False
            if n < 8 or n > ABS_MAX:
                return False
        elif o.split(":")[0] not in ("init", "open", "threaded", "enable", "ctl", "start", "startfail", "fini", "joinp"):
            return False
    if pops:
        joined = False
        for o in cops:
            if o == "joinp":
                joined = True
            elif (o == "fini" or o.startswith("log:")) and not joined:
                return False
    return True


def steady(cops):
    """the target is never disabled / switched back to unthreaded: full delivery is promised"""
    return not any(o in ("enable:0", "threaded:0") for o in cops)


# ----------------------------------------------------------------------------- oracle
LOG_RE = re.compile(r"^log (\d+) (\d+) e=([01]) t=([01])$")
WRITE_RE = re.compile(r"^write (-?\d+)( damaged)?$")
LOST_RE = re.compile(r"^(\d+) messages lost$")


def oracle(lines, out):
    """C16 on the implementation's own output.  None = holds."""
    cops, pops, _ = parse_case(lines)
    if not well_formed(cops, pops):
        return None
    if not out:
        return "no output"
    last = out[-1]
    if not last.startswith("end "):
        return "unsafe: run ends with `%s`" % last[:60]
    st = steady(cops)
    eligible = []          # sequence numbers logged while the target was enabled
    written = []
    lost = 0
    # Backlog clause ("... unless the backlog limit was exceeded"): the oracle keeps its OWN count of the bytes
    # queued, from the log / write events alone (never the library's logt_memory_used).  In a steady history that
    # ran to its end every accepted record has been written (fini drains; without fini the harness lets the logging
    # thread run until it blocks), so accepted = written.  `queued` = bytes of the accepted records logged so far
    # and not yet written.  One thread logs at a time, so between a `log` line and the return of that call the
    # queue can only shrink: if the message is refused, the backlog was over the limit at the decision only if
    # queued (at the `log` line) + its own record size > limit.  (Sound for every schedule; exact when the logging
    # thread does not run inside the call.)
    wset = set()
    for l in out:
        m = WRITE_RE.match(l)
        if m:
            wset.add(int(m.group(1)))
    queued = 0
    size = {}
    for i, l in enumerate(out):
        m = LOG_RE.match(l)
        if m:
            if m.group(3) == "1":
                seq = int(m.group(1))
                eligible.append(seq)
                size[seq] = REC_SIZE + int(m.group(2)) + 1
                if seq in wset:
                    queued += size[seq]
                elif st and queued + size[seq] <= BACKLOG_LIMIT:
                    return ("message %d (%d bytes with its record) was never written although only %d bytes were "
                            "queued when it was logged (backlog limit %d not exceeded)"
                            % (seq, size[seq], queued, BACKLOG_LIMIT))
            continue
        m = WRITE_RE.match(l)
        if m:
            seq = int(m.group(1))
            if m.group(2):
                return "message %d reached the target damaged" % seq
            if seq in written:
                return "message %d written twice" % seq
            if seq not in eligible:
                return "message %d written but never logged to the enabled target" % seq
            if st and written and seq < written[-1]:
                return "message %d written after message %d (producer order violated)" % (seq, written[-1])
            written.append(seq)
            queued -= size.get(seq, 0)
            continue
        m = LOST_RE.match(l)
        if m:
            lost += int(m.group(1))
            continue
        if l == "ret C fini":
            if st:
                if len(written) + lost != len(eligible):
                    missing = [s for s in eligible if s not in written]
                    return ("qb_log_fini returned with %d logged, %d written, %d reported lost (not written: %s)"
                            % (len(eligible), len(written), lost, missing[:8]))
            elif len(written) + lost > len(eligible):
                return "more written+lost (%d+%d) than logged (%d)" % (len(written), lost, len(eligible))
            # the snapshot of the same step shows the queue
            if i + 1 < len(out) and out[i + 1].startswith("step C") and " q=" in out[i + 1]:
                q = int(out[i + 1].split(" q=")[1].split()[0])
                if q != 0:
                    return "qb_log_fini returned with %d records still queued" % q
    return None


def tags(lines, out):
    t = set()
    text = "\n".join(out)
    if "messages lost" in text:
        t.add("backlog-drop")
        # a burst was dropped, the queue drained completely, and messages were logged afterwards
        k = text.find("messages lost")
        m = re.search(r"^step W .* q=0 mem=\d+ drop=0$", text[k:], re.M)
        if m and re.search(r"^log \d+ \d+ e=1 t=1$", text[k + m.end():], re.M):
            t.add("log-after-drained-burst")
    if "\nskip " in text:
        t.add("blocked-thread")
    if text.count("ret C fini") >= 2 and text.count("ret C init") >= 2:
        t.add("reinit")
    if "/lock " in text and ("ctl/lock" in text or "enable/lock" in text):
        t.add("pause-lock")
    if re.search(r"^step [CP] \S+/lock .*lock=W", text, re.M) or re.search(r"^step W lock .*lock=[CP]", text, re.M):
        t.add("lock-contention")
    first_start = text.find("ret C start")
    m = re.search(r"^log \d+ \d+ e=1 t=1$", text, re.M)
    if m and (first_start < 0 or m.start() < first_start):
        t.add("log-before-start")
    if re.search(r"q=[2-9]|q=\d\d", text):
        t.add("queue>=2")
    if "step W done" in text:
        t.add("worker-exit")
    if re.search(r"^step C fini/(unlock|post|join) .*\n(?:.*\n)*?step W ", text, re.M):
        t.add("worker-during-stop")
    if "ret P log" in text:
        t.add("producer-thread")
    if "ret C startfail" in text:
        t.add("create-fails")
    return t


# ----------------------------------------------------------------------------- generators
BACKLOG_LIMIT = 512000  # used by the oracle; set_consts() replaces both by the values regenerated from /repo
REC_SIZE = 48


def set_consts(path):
    global BACKLOG_LIMIT, REC_SIZE
    BACKLOG_LIMIT, REC_SIZE = gen_consts(path)
    return BACKLOG_LIMIT, REC_SIZE


def gen_consts(path):
    """(backlog limit, sizeof(struct qb_log_record)) as regenerated from /repo"""
    vals = {"LOGT_BACKLOG_LIMIT": 512000, "LOGT_REC_SIZE": 48}
    try:
        for m in re.finditer(r"^def (\w+) : Nat := (\d+)", open(path).read(), re.M):
            vals[m.group(1)] = int(m.group(2))
    except OSError:
        pass
    return vals["LOGT_BACKLOG_LIMIT"], vals["LOGT_REC_SIZE"]


def rand_sched(rng, n, threads="CW"):
    """n schedule characters in segments with their own bias (starvation phases)"""
    out = []
    while len(out) < n:
        seg = rng.randrange(1, 12)
        w = [rng.random() ** 2 + 0.02 for _ in threads]
        if rng.random() < 0.3:
            w[rng.randrange(len(threads))] = 0.0     # one thread starved in this segment
            if sum(w) == 0:
                w = [1.0] * len(threads)
        out += rng.choices(threads, weights=w, k=seg)
    return "".join(out[:n])


def msg_len(rng):
    r = rng.random()
    if r < 0.6:
        return rng.randrange(8, 64)
    if r < 0.9:
        return rng.randrange(64, 600)
    return rng.randrange(600, ABS_MAX + 1)


def gen_orders(rng):
    """all orders of init / set-threaded / thread-start / control / log / fini / re-init, one thread"""
    cops = []
    for _ in range(rng.choice([1, 1, 2, 2, 3])):
        setup = ["open", "enable:1", "threaded:1", "start"]
        rng.shuffle(setup)
        if rng.random() < 0.15:
            setup.remove(rng.choice(setup))
        if "start" in setup and rng.random() < 0.08:
            setup[setup.index("start")] = "startfail"
        ep = ["init"] + setup
        for _ in range(rng.randrange(0, 4)):
            ep.insert(rng.randrange(1, len(ep) + 1),
                      rng.choice(["ctl", "log:%d" % msg_len(rng), "enable:1", "ctl", "start", "threaded:1",
                                  "enable:0", "threaded:0"] if rng.random() < 0.3 else
                                 ["ctl", "log:%d" % msg_len(rng), "enable:1", "ctl", "log:%d" % msg_len(rng)]))
        for _ in range(rng.randrange(0, 5)):
            ep.append(rng.choice(["log:%d" % msg_len(rng)] * 4 + ["ctl", "enable:1"]))
        if rng.random() < 0.9:
            ep.append("fini")
        if rng.random() < 0.2:
            ep.append(rng.choice(["fini", "ctl", "log:%d" % msg_len(rng), "start", "enable:1", "open"]))
        if rng.random() < 0.05:
            ep = ep[1:]                      # no init at all in this epoch
        cops += ep
    n = sum(4 if o.startswith("log") else 3 for o in cops)
    sched = rand_sched(rng, rng.randrange(0, 2 * n + 1), "CW")
    return case_lines(cops, [], sched)


def gen_conc(rng):
    """producer / logging thread / control operations racing; optionally a separate producer thread"""
    pre = list(SETUP)
    if rng.random() < 0.3:
        rng.shuffle(pre)
        pre.remove("init")
        pre = ["init"] + pre
    cops = pre
    pops = []
    nlog = rng.randrange(1, 9)
    ctl_pool = ["ctl", "enable:1", "ctl"] + (["enable:0", "enable:1", "threaded:0", "threaded:1"] if rng.random() < 0.2 else [])
    if rng.random() < 0.5:
        pops = ["log:%d" % msg_len(rng) for _ in range(nlog)]
        cops = cops + [rng.choice(ctl_pool) for _ in range(rng.randrange(0, 5))] + ["joinp"]
        for _ in range(rng.randrange(0, 3)):
            cops.append(rng.choice(["log:%d" % msg_len(rng), "ctl"]))
    else:
        for _ in range(nlog):
            cops.append("log:%d" % msg_len(rng))
            if rng.random() < 0.3:
                cops.append(rng.choice(ctl_pool))
    cops.append("fini")
    if rng.random() < 0.25:
        cops += ["init", "open", "enable:1"] + (["start"] if rng.random() < 0.7 else []) + \
                ["log:%d" % msg_len(rng) for _ in range(rng.randrange(0, 3))] + ["ctl", "fini"]
    n = 4 * (len(cops) + len(pops))
    sched = rand_sched(rng, rng.randrange(n // 2, 2 * n + 1), "CPW" if pops else "CW")
    return case_lines(cops, pops, sched)


def gen_burst_drain(rng, limit=512000, rec=48):
    """one or two bursts that exceed the backlog limit while the logging thread is starved (from a few to more than
    a whole backlog of refused messages), then the logging thread drains the queue completely (or a random part
    of it), then the producer logs further small and large messages into the empty / partly filled backlog under a
    random schedule, then fini.  Everything logged while the queued bytes are below the limit must be written."""
    cops = list(SETUP)
    sched = PREFIX
    for _ in range(rng.choice([1, 1, 1, 2])):
        ln = rng.choice([ABS_MAX, ABS_MAX, ABS_MAX - rng.randrange(0, 200), rng.randrange(3000, ABS_MAX)])
        fit = limit // (rec + ln + 1)
        over = rng.choice([rng.randrange(1, 9), rng.randrange(9, fit), fit + rng.randrange(1, 40)])
        burst = fit + over
        cops += ["log:%d" % ln for _ in range(burst)]
        sched += "C" * (4 * burst + rng.randrange(0, 4))
        # drain: 3 steps of the logging thread per record (sem_wait, lock+pop+write, unlock)
        if rng.random() < 0.7:
            sched += "W" * (3 * fit + 12)                      # completely (blocked steps are skipped)
        else:
            sched += "W" * rng.randrange(0, 3 * fit)          # partly
        more = rng.randrange(3, 40)
        for _ in range(more):
            cops.append("log:%d" % (rng.randrange(8, 200) if rng.random() < 0.8 else rng.choice([ln, msg_len(rng)])))
            if rng.random() < 0.1:
                cops.append(rng.choice(["ctl", "enable:1"]))
        r = rng.random()
        if r < 0.3:
            sched += "C" * (4 * more + 8)                      # all of them before the logging thread runs again
        else:
            sched += rand_sched(rng, rng.randrange(2 * more, 8 * more + 20), "CW")
    cops.append("fini")
    sched += rand_sched(rng, rng.randrange(0, 30), "CW")
    return case_lines(cops, [], sched, chunk=8)


def gen_backlog(rng, limit=512000, rec=48):
    """enough large messages to exceed the backlog limit while the logging thread is starved"""
    if rng.random() < 0.5:
        return gen_burst_drain(rng, limit, rec)
    ln = rng.choice([ABS_MAX, ABS_MAX, ABS_MAX - rng.randrange(0, 200), rng.randrange(2500, ABS_MAX)])
    fit = limit // (rec + ln + 1)
    n1 = fit + rng.randrange(-3, 8)
    cops = list(SETUP) + ["log:%d" % ln for _ in range(n1)]
    sched = "CCCCCWC" + "C" * (4 * n1 + rng.randrange(0, 6))
    # now let the logging thread drain a little, log some more (some dropped, some not), finish
    more = rng.randrange(0, 12)
    for _ in range(more):
        cops.append("log:%d" % rng.choice([ln, msg_len(rng)]))
        if rng.random() < 0.15:
            cops.append("ctl")
    cops.append("fini")
    sched += rand_sched(rng, rng.randrange(0, 8 * more + 40), "CW")
    return case_lines(cops, [], sched, chunk=8)


# configurations whose schedules are enumerated by the model (after the setup prefix "CCCCCWC":
# init open enable threaded start/wait | W posts | start returns)
def exhaustive_configs(quick=True):
    base = list(SETUP)
    cfgs = []
    for nmsg in (1, 2, 3):
        logs = ["log:%d" % (20 + i) for i in range(nmsg)]
        cfgs.append(("m%d" % nmsg, base + logs + ["fini"], [], "all"))
        for ctl in ("ctl", "enable:1"):
            for pos in range(nmsg + 1):
                body = logs[:pos] + [ctl] + logs[pos:]
                cfgs.append(("m%d-%s@%d" % (nmsg, ctl.split(":")[0], pos), base + body + ["fini"], [],
                             "all" if nmsg <= 2 else "cover"))
    # re-initialisation after the stop, and a stop right after the start
    cfgs.append(("reinit", base + ["log:20", "fini", "init", "open", "enable:1", "start", "log:21", "fini"], [], "all"))
    cfgs.append(("stop-at-once", base + ["fini"], [], "all"))
    cfgs.append(("disable", base + ["log:20", "enable:0", "log:21", "enable:1", "log:22", "fini"], [], "all"))
    # a separate producer thread
    cfgs.append(("p1", base + ["joinp", "fini"], ["log:20"], "all"))
    cfgs.append(("p2-ctl", base + ["ctl", "joinp", "fini"], ["log:20", "log:21"], "all" if not quick else "cover"))
    cfgs.append(("p3", base + ["joinp", "fini"], ["log:20", "log:21", "log:22"], "cover"))
    cfgs.append(("p2-c1", base + ["enable:1", "joinp", "log:30", "fini"], ["log:20", "log:21"], "cover"))
    return cfgs


PREFIX = "CCCCCWC"


def enum_input(cfgs):
    text = []
    for name, cops, pops, mode in cfgs:
        text.append("case %s" % name)
        text += case_lines(cops, pops, PREFIX, chunk=64)
    return "\n".join(text) + "\n"


def parse_enum(lines):
    res = {}
    cur = None
    for l in lines:
        if l.startswith("case "):
            cur = l.split()[1]
            res[cur] = []
        elif l.startswith("s ") and cur is not None:
            res[cur].append(l[2:].strip())
        elif l.strip() == "s" and cur is not None:
            res[cur].append("")
    return res
