"""Generators and property oracles for C09 (timers never fire early; the loop never sleeps past
the next expiry).  Two streams:

  heap  -> harness/loop/tl_drv.c    / model driver qb_heap   (include/tlist.h)
  loop  -> harness/loop/timer_drv.c / model driver qb_timer  (real qb_loop, virtual clock)

The oracles evaluate the property statement on the implementation's own output with unbounded
python integers; they do not use the Lean model."""

U64 = 1 << 64
MS = 1000000
HZS = [1, 10, 100, 250, 1000, 1000000000]
FULL_LIMIT = 40


# ------------------------------------------------------------------ durations
def pick_duration(rng, now):
    """nanosecond durations steered to the boundaries the property names"""
    r = rng.random()
    if r < 0.10:
        return rng.choice([0, 1, 2])
    if r < 0.30:
        k = rng.choice([1, 2, 3, 10, 49, 50, 51, 100, 1000, rng.randrange(1, 5000)])
        return max(0, k * MS + rng.choice([-1, 0, 1]))
    if r < 0.42:
        return (1 << 31) * MS + rng.choice([-MS - 1, -MS, -MS + 1, -1, 0, 1, MS - 1, MS, MS + 1])
    if r < 0.54:
        return (1 << 32) * MS + rng.choice([-MS - 1, -MS, -MS + 1, -1, 0, 1, MS - 1, MS, MS + 1])
    if r < 0.66:
        return max(0, min(U64 - 1, U64 - 1 - now + rng.choice([-MS, -2, -1, 0, 1, 2, MS, now])))
    if r < 0.72:
        return rng.choice([U64 - 1, U64 - 2, 1 << 63, (1 << 63) - 1, (1 << 63) + 1, 1 << 62])
    if r < 0.80:
        return rng.randrange(0, U64)
    if r < 0.90:
        return rng.randrange(0, 1 << rng.randrange(1, 64))
    return rng.randrange(0, 200 * MS)


# ------------------------------------------------------------------ heap stream
def gen_heap_case(rng, big=False):
    ops = []
    hz = rng.choice(HZS)
    ops.append("hz %d" % hz)
    nid = [0]
    live = []
    now = [rng.choice([0, 1, 1000, rng.randrange(0, 1 << 40), rng.randrange(0, 1 << 62)])]
    ops.append("now %d" % now[0])
    keymode = rng.random()

    def key():
        if keymode < 0.25:
            return rng.randrange(0, 8)                    # many equal keys
        if keymode < 0.55:
            return rng.randrange(0, 1000)
        if keymode < 0.75:
            return rng.randrange(0, U64)
        return rng.choice([0, 1, U64 - 1, U64 - 2, 1 << 63, rng.randrange(0, 100), rng.randrange(0, U64)])

    def add():
        i = nid[0]
        nid[0] += 1
        live.append(i)
        if rng.random() < 0.3:
            if rng.random() < 0.3:
                now[0] = rng.choice([now[0], now[0] + rng.randrange(0, 10 * MS), rng.randrange(0, 1 << 62)])
                ops.append("now %d" % now[0])
            ops.append("addd %d %d" % (i, pick_duration(rng, now[0])))
        else:
            ops.append("add %d %d" % (i, key()))

    def delete():
        if not live:
            return
        r = rng.random()
        j = 0 if r < 0.15 else (len(live) - 1 if r < 0.3 else rng.randrange(len(live)))
        i = live.pop(j)
        ops.append("del %d" % i)

    if big:
        n = rng.choice([100, 300, 1000, 2500])
        for _ in range(n):
            add()
        for _ in range(rng.randrange(n // 2, 2 * n)):
            r = rng.random()
            if r < 0.45:
                add()
            elif r < 0.9:
                delete()
            elif r < 0.95:
                ops.append("msec %d" % key())
            else:
                # expire is not tracked here (ids fired are unknown to the generator): stop deleting them
                break
        ops.append("expire %d" % key())
        return ops
    nops = rng.randrange(4, 70)
    style = rng.random()
    for _ in range(nops):
        r = rng.random()
        pa = 0.55 if style < 0.5 else 0.35
        if r < pa or not live:
            add()
        elif r < pa + 0.25:
            delete()
        elif r < pa + 0.35:
            t = rng.choice([key(), now[0], now[0] + 1, rng.randrange(0, U64)])
            ops.append("msec %d" % t)
        else:
            # an `expire` makes the generator's view of live ids stale: forget them, later `del`s
            # only address timers added afterwards
            t = rng.choice([key(), key(), now[0], now[0] + 1, U64 - 1, rng.randrange(0, U64)])
            ops.append("expire %d" % t)
            live[:] = []
    return ops


def _parse_heap_line(l):
    """'heap ALLOC v=V: id:key:pos …' or the digest form -> dict"""
    p = l.split()
    if len(p) < 3 or p[0] != "heap":
        return None
    d = {"alloc": int(p[1])}
    if p[2].endswith(":"):
        d["v"] = int(p[2][2:-1])
        d["entries"] = [tuple(int(x) for x in e.split(":")) for e in p[3:]]
    else:
        d["v"] = int(p[2][2:])
        for kv in p[3:]:
            k, _, v = kv.partition("=")
            d[k] = v
        d["n"] = int(d["n"])
    return d


def heap_oracle(ops, out):
    """Property on the implementation's output: a timer is fired by `expire NOW` iff its true
    expiry (unbounded arithmetic) is < NOW; firing order is non-decreasing in expiry; the array
    always is a heap holding exactly the live timers with correct back-pointers; the msec value
    is never negative/infinite with a timer pending and never sleeps past the earliest expiry
    plus one tick."""
    if out and (out[-1].startswith("SAN:") or out[-1].startswith("CRASH") or out[-1] == "TIMEOUT"):
        return "implementation died: " + out[-1]
    live = {}   # id -> true expiry
    now = 0
    hz = 1000000000
    k = 0
    for op in ops:
        t = op.split()
        if k + 1 >= len(out):
            return "output truncated at op %r" % op
        res = out[k] if k < len(out) else ""
        hl = out[k + 1] if k + 1 < len(out) else ""
        k += 2
        if res == "bad-op":
            continue
        if t[0] == "hz":
            hz = int(t[1])
            live = {}
        elif t[0] == "now":
            now = int(t[1])
        elif t[0] == "add":
            live[int(t[1])] = int(t[2])
        elif t[0] == "addd":
            live[int(t[1])] = now + int(t[2])
        elif t[0] == "del":
            live.pop(int(t[1]), None)
        elif t[0] == "expire":
            now = int(t[1])
            if not res.startswith("fired:"):
                return "op %r: unexpected result %r" % (op, res)
            fired = [int(x) for x in res.split()[1:]]
            prev = None
            for i in fired:
                if i not in live:
                    return "op %r: fired %d which is not pending" % (op, i)
                e = live.pop(i)
                if not e < now:
                    return "op %r: timer %d fired EARLY: clock %d, expiry %d (now + duration)" % (op, i, now, e)
                if prev is not None and e < prev:
                    return "op %r: timers fired out of expiry order (%d after %d)" % (op, e, prev)
                prev = e
            late = [i for i, e in live.items() if e < now]
            if late:
                return "op %r: timer %d (expiry %d) is due at clock %d but was not fired" % (op, late[0], live[late[0]], now)
        elif t[0] == "msec":
            now = int(t[1])
            p = res.split()
            if len(p) != 2:
                return "op %r: unexpected result %r" % (op, res)
            ms = int(p[1])
            if live:
                mn = min(live.values())
                tick = 1000 // hz
                if ms < 0:
                    return ("op %r: poll timeout %d is negative (blocks for ever) with a timer pending "
                            "(earliest expiry %d, clock %d)" % (op, ms, mn, now))
                if mn < now and ms != 0:
                    return "op %r: earliest timer already due but timeout is %d" % (op, ms)
                if mn >= now and now + ms * MS > mn + tick * MS:
                    return "op %r: timeout %d ms sleeps past earliest expiry %d + tick (clock %d)" % (op, ms, mn, now)
        h = _parse_heap_line(hl)
        if h is None:
            return "op %r: no heap line (%r)" % (op, hl)
        if h["v"] != 1:
            return "op %r: timerlist_debug_is_valid_heap = 0" % op
        if "entries" in h:
            es = h["entries"]
            if sorted(e[0] for e in es) != sorted(live):
                return "op %r: heap holds ids %s, pending are %s" % (op, sorted(e[0] for e in es)[:8], sorted(live)[:8])
            for i, e in enumerate(es):
                if e[2] != i:
                    return "op %r: heap_pos of timer %d is %d at index %d" % (op, e[0], e[2], i)
                if i > 0 and es[(i - 1) // 2][1] > e[1]:
                    return "op %r: heap order violated at index %d" % (op, i)
        else:
            if h["n"] != len(live):
                return "op %r: heap size %d, pending %d" % (op, h["n"], len(live))
    return None


def heap_tags(ops, out):
    tags = set()
    n = 0
    for l in out:
        if l.startswith("fired: ") and len(l.split()) > 2:
            tags.add("multi-fire")
        if l.startswith("heap ") and " n=" in l:
            tags.add("big-heap")
    for op in ops:
        t = op.split()
        if t[0] == "del":
            n += 1
        if t[0] == "addd":
            d = int(t[2])
            if d >= (1 << 31) * MS:
                tags.add("dur>=2^31ms")
            if d >= (1 << 63):
                tags.add("dur>=2^63ns")
    if n >= 3:
        tags.add("deletes")
    return tags


# ------------------------------------------------------------------ loop stream
def gen_loop_case(rng):
    hz = rng.choice(HZS)
    now0 = rng.choice([0, 1, 1000, 10 ** 9, rng.randrange(0, 1 << 40), rng.randrange(0, 1 << 61)])
    ops = ["init %d %d" % (hz, now0)]
    now = now0          # only an estimate (used to steer durations)
    nid = 0
    ids = []
    nops = rng.randrange(5, 60)
    small = rng.random() < 0.6   # mostly short timers, so that many fire
    for _ in range(nops):
        r = rng.random()
        if r < 0.30:
            if small and rng.random() < 0.8:
                d = rng.choice([0, 1, rng.randrange(0, 3 * MS), rng.randrange(0, 120 * MS), rng.randrange(0, 20) * MS])
            else:
                d = pick_duration(rng, now)
            ops.append("timer_add %d %d %d" % (rng.randrange(0, 3), d, nid))
            ids.append(nid)
            nid += 1
        elif r < 0.38 and ids:
            ops.append("timer_del %d" % rng.choice(ids))
        elif r < 0.44:
            ops.append("job_add %d %d" % (rng.randrange(0, 3), 1000 + nid))
            nid += 1
        elif r < 0.50:
            a = rng.choice([1, 999999, MS, rng.randrange(0, 30 * MS)])
            ops.append("advance %d" % a)
            now += a
        elif r < 0.80:
            if rng.random() < 0.25:
                ops.append("iterate %d" % rng.choice([0, 1, rng.randrange(0, 20 * MS)]))
            else:
                ops.append("iterate")
            now += 5 * MS
        elif ids:
            ops.append("%s %d" % (rng.choice(["remaining", "running", "running", "exptime"]), rng.choice(ids)))
    for _ in range(rng.randrange(0, 8)):
        ops.append("iterate")
    return ops


def loop_oracle(ops, out):
    """The property statement on the implementation's output (virtual clock):
    no callback before its expiry; same-priority timers run in expiry order; every epoll_wait
    issued while a timer is pending has 0 <= timeout and (timeout = 0 or clock + timeout <=
    earliest expiry + slack), slack = one tick, or 50 ms when jobs were queued since the last
    wait; remaining/is_running are zero for timers that are not pending, remaining is
    expiry - clock (non-zero) while the expiry is ahead, is_running is 1 then."""
    if out and (out[-1].startswith("SAN:") or out[-1].startswith("CRASH") or out[-1] == "TIMEOUT"):
        return "implementation died: " + out[-1]
    now = 10 ** 9
    hz = 10 ** 9
    pend = {}      # id -> (prio, true expiry)
    lastexp = {}   # prio -> expiry of the last dispatched timer
    jobs_queued = False
    k = 0
    for op in ops:
        t = op.split()
        if k >= len(out):
            return "output truncated at op %r (loop hung or died)" % op
        res = out[k]
        k += 1
        if res == "bad-op":
            continue
        if t[0] == "init":
            hz, now = int(t[1]), int(t[2])
            pend, lastexp, jobs_queued = {}, {}, False
        elif t[0] == "timer_add":
            if res != "0":
                return "op %r: qb_loop_timer_add failed: %s" % (op, res)
            pend[int(t[3])] = (int(t[1]), now + int(t[2]))
        elif t[0] == "timer_del":
            i = int(t[1])
            if i in pend:
                if res != "0":
                    return "op %r: deleting a pending timer failed: %s" % (op, res)
                del pend[i]
        elif t[0] == "job_add":
            jobs_queued = True
        elif t[0] == "advance":
            now += int(t[1])
            if res != "now %d" % (now % U64):
                return "op %r: clock is %s, expected %d" % (op, res, now)
        elif t[0] == "iterate":
            m = res.split()
            if len(m) < 3 or not m[0].startswith("wait=") or not m[1].startswith("now=") or m[2] != "cbs:":
                return "op %r: unexpected result %r" % (op, res)
            tmo = int(m[0][5:])
            now = int(m[1][4:])
            for ev in m[3:]:
                kind, _, rest = ev.partition(":")
                if kind != "t":
                    continue
                i, _, at = rest.partition("@")
                i, at = int(i), int(at)
                if i not in pend:
                    return "op %r: callback of timer %d which is not pending (deleted or already run)" % (op, i)
                prio, e = pend.pop(i)
                if at < e:
                    return ("op %r: timer %d dispatched EARLY: clock %d, expiry %d (add time + duration), "
                            "%d ns too soon" % (op, i, at, e, e - at))
                if prio in lastexp and e < lastexp[prio]:
                    return "op %r: priority %d timers dispatched out of expiry order (%d after %d)" % (op, prio, e, lastexp[prio])
                lastexp[prio] = e
            if pend:
                mn = min(e for _, e in pend.values())
                slack = max(1000 // hz, 50 if jobs_queued else 0) * MS
                if tmo < 0:
                    return ("op %r: epoll_wait timeout %d (blocks for ever) while timer(s) are pending "
                            "(earliest expiry %d, clock %d)" % (op, tmo, mn, now))
                if tmo > 0 and now + tmo * MS > mn + slack:
                    return ("op %r: epoll_wait timeout %d ms sleeps past the earliest expiry %d + slack %d "
                            "(clock %d)" % (op, tmo, mn, slack, now))
            jobs_queued = False
        elif t[0] in ("remaining", "running", "exptime"):
            i = int(t[1])
            v = int(res)
            if i not in pend:
                if v != 0:
                    return "op %r: %s is %d for a timer that is not pending" % (op, t[0], v)
            else:
                e = pend[i][1]
                if t[0] == "remaining":
                    if e >= now and e < U64 and v != e - now:
                        return "op %r: remaining is %d, expiry %d - clock %d = %d" % (op, v, e, now, e - now)
                    if e > now and v == 0:
                        return "op %r: remaining is 0 for a pending timer whose expiry %d is ahead of clock %d" % (op, e, now)
                    if e >= U64 and not (0 < v <= e - now):
                        return "op %r: remaining is %d for a timer %d ns away" % (op, v, e - now)
                elif t[0] == "running":
                    if e >= now and e > 0 and v != 1:
                        return "op %r: is_running is 0 for a pending timer (expiry %d, clock %d)" % (op, e, now)
    return None


def loop_tags(ops, out):
    tags = set()
    for l in out:
        if l.startswith("wait="):
            if " t:" in l:
                tags.add("timer-fired")
            w = int(l.split()[0][5:])
            if w == 50:
                tags.add("wait-50")
            elif w == 2147483647:
                tags.add("wait-clamped")
            elif w > 0:
                tags.add("wait-timer")
            elif w == 0:
                tags.add("wait-0")
    for op in ops:
        t = op.split()
        if t[0] == "timer_add":
            d = int(t[2])
            if d >= (1 << 31) * MS:
                tags.add("dur>=2^31ms")
            if d >= (1 << 63):
                tags.add("dur>=2^63ns")
        if t[0] == "timer_del":
            tags.add("del")
    return tags
