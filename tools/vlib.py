#!/usr/bin/env python3
"""Shared machinery for the per-property checks (see DESIGN.md section 2).

A check module (checks/Cxx.py) defines `run(ctx)`; it uses the helpers here to
  * regenerate Gen/*.lean from /repo and rebuild + audit the Lean theorems,
  * build the property's C harness against an ASan/UBSan build of /repo/lib,
  * run generated cases through the real code and through the `qbmodel` executable,
  * evaluate the property oracle on the implementation's own output,
  * shrink failing cases, write replay files, evidence and the verdict.
"""
import concurrent.futures as cf
import fcntl
import hashlib
import json
import os
import random
import re
import shutil
import subprocess
import sys
import time

VERIF = os.path.dirname(os.path.dirname(os.path.abspath(__file__)))
REPO = os.environ.get("VERIF_REPO", "/repo")
LEAN = os.path.join(VERIF, "lean")
GUARD = "CLUSTERLABS_LIBQB_VERIF"
NCPU = max(1, (os.cpu_count() or 4))

LIB_SOURCES = """util hdb ringbuffer ringbuffer_helper array loop loop_poll loop_job
loop_timerlist ipcc ipcs ipc_shm ipc_setup ipc_socket log log_thread log_blackbox log_file
log_syslog log_dcs log_format map skiplist hashtable trie unix loop_poll_epoll strlcpy
strlcat""".split()

BASE_CFLAGS = ["-g", "-O1", "-fno-omit-frame-pointer", "-DHAVE_CONFIG_H", "-D" + GUARD,
               "-D_GNU_SOURCE",
               "-I" + REPO + "/include", "-I" + REPO + "/lib", "-I" + VERIF + "/harness/common",
               "-w"]
SAN_FLAGS = ["-fsanitize=address,undefined", "-fno-sanitize-recover=all"]
ALLOWED_AXIOMS = {"propext", "Classical.choice", "Quot.sound"}
FORBIDDEN = re.compile(r"sorry|\badmit\b|^axiom |native_decide|bv_decide|implemented_by|unsafe |maxHeartbeats 0")

SAN_ENV = {
    "ASAN_OPTIONS": "detect_leaks=0:abort_on_error=0:exitcode=99:allocator_may_return_null=1:handle_abort=1",
    "UBSAN_OPTIONS": "print_stacktrace=0:exitcode=99",
}


def log(msg):
    sys.stdout.write(msg.rstrip("\n") + "\n")
    sys.stdout.flush()


def sh(cmd, **kw):
    kw.setdefault("stdout", subprocess.PIPE)
    kw.setdefault("stderr", subprocess.STDOUT)
    kw.setdefault("text", True)
    return subprocess.run(cmd, **kw)


class Ctx:
    def __init__(self, prop, tier, seed, replay=None):
        self.prop = prop
        self.tier = tier
        self.seed = seed
        self.replay = replay
        self.t0 = time.time()
        self.rng = random.Random((seed * 1000003) ^ int(hashlib.sha256(prop.encode()).hexdigest()[:8], 16))
        self.build = os.path.join(VERIF, "build", "%s-%d" % (prop, os.getpid()))
        os.makedirs(self.build, exist_ok=True)
        self.cov = {}            # extra coverage keys
        self.stats = {}          # counters (op mix, branches hit ...)
        self.samples = []
        self.evaluations = 0
        self.nontrivial = set()
        self.rule = ""
        self.obligations = 0
        self.discharged = 0
        self.checker_cmd = ""
        self.trusted = []
        self.assumptions = []
        self.warnings = []
        self.traces_validated = 0
        self.violations = []     # (replay_path, description, found_input: bool)
        self.known = []          # KNOWN-FINDING lines printed
        self.broken = []         # names of proof obligations / correspondences that no longer check
        self.models = {}         # driver name -> copied model executable
        self.libqb = None

    # ---------------------------------------------------------------- counters
    def count(self, key, n=1):
        self.stats[key] = self.stats.get(key, 0) + n

    def quick(self):
        return self.tier == "quick"

    def scale(self, quick, thorough):
        return quick if self.tier == "quick" else thorough

    # ---------------------------------------------------------------- C builds
    def compile_lib(self, sources=None, extra=(), sanitize=True, tag="lib"):
        """Compile /repo/lib/*.c (current working tree) into an archive in the build dir."""
        sources = sources or LIB_SOURCES
        odir = os.path.join(self.build, tag)
        os.makedirs(odir, exist_ok=True)
        flags = BASE_CFLAGS + (SAN_FLAGS if sanitize else []) + list(extra)

        def one(s):
            src = os.path.join(REPO, "lib", s + ".c")
            obj = os.path.join(odir, s + ".o")
            r = sh(["gcc"] + flags + ["-c", src, "-o", obj])
            return (s, r.returncode, r.stdout, obj)
        objs = []
        with cf.ThreadPoolExecutor(NCPU) as ex:
            for s, rc, out, obj in ex.map(one, sources):
                if rc != 0:
                    raise BuildError("compiling lib/%s.c failed:\n%s" % (s, out[-3000:]))
                objs.append(obj)
        ar = os.path.join(self.build, tag + ".a")
        r = sh(["ar", "rcs", ar] + objs)
        if r.returncode != 0:
            raise BuildError("ar failed: " + r.stdout)
        self.libqb = ar
        return ar

    def compile_harness(self, src_rel, out=None, libs=None, extra=(), sanitize=True, cc="gcc"):
        srcs = [src_rel] if isinstance(src_rel, str) else list(src_rel)
        srcs = [s if os.path.isabs(s) else os.path.join(VERIF, "harness", s) for s in srcs]
        out = out or os.path.join(self.build, os.path.splitext(os.path.basename(srcs[0]))[0])
        libs = libs if libs is not None else ([self.libqb] if self.libqb else [])
        flags = BASE_CFLAGS + (SAN_FLAGS if sanitize else []) + list(extra)
        r = sh([cc] + flags + srcs + ["-o", out] + libs + ["-lpthread", "-lrt", "-ldl", "-lm"])
        if r.returncode != 0:
            raise BuildError("compiling harness %s failed:\n%s" % (src_rel, r.stdout[-4000:]))
        return out

    # ---------------------------------------------------------------- running
    def run_exe(self, exe, text, timeout=60, args=(), env=None):
        """Run an executable with `text` on stdin.  Returns (stdout_lines, rc, stderr)."""
        e = dict(os.environ)
        e.update(SAN_ENV)
        if env:
            e.update(env)
        try:
            p = subprocess.run([exe] + list(args), input=text, stdout=subprocess.PIPE, stderr=subprocess.PIPE,
                               text=True, timeout=timeout, env=e, errors="replace")
            return p.stdout.splitlines(), p.returncode, p.stderr
        except subprocess.TimeoutExpired as ex:
            out = ex.stdout or ""
            if isinstance(out, bytes):
                out = out.decode(errors="replace")
            return out.splitlines(), -999, "TIMEOUT"

    def run_model(self, driver, text, timeout=120, args=()):
        if driver not in self.models:
            raise BuildError("model executable qb_%s not available" % driver)
        lines, rc, err = self.run_exe(self.models[driver], text, timeout=timeout, args=list(args))
        if rc != 0:
            lines.append("MODEL-EXIT %d %s" % (rc, err.strip().splitlines()[-1] if err.strip() else ""))
        return lines

    # ---------------------------------------------------------------- verdicts
    def write_replay(self, name, text):
        d = os.path.join(VERIF, "replays")
        os.makedirs(d, exist_ok=True)
        path = os.path.join(d, "%s-%s.txt" % (self.prop, name))
        with open(path, "w") as f:
            f.write(text if text.endswith("\n") else text + "\n")
        return path

    def violation(self, name, replay_text, desc, found_input=True):
        path = self.write_replay(name, replay_text)
        self.violations.append((path, desc, found_input))
        return path

    def known_findings(self):
        return [k for k in load_known_findings() if k["property"] == self.prop and k["kind"] == "finding"]

    def report_known(self, kf, still_fails, detail=""):
        if still_fails:
            line = "KNOWN-FINDING: property=%s %s %s" % (self.prop, kf["id"], kf["text"])
            self.known.append(line)
            log(line)
        else:
            self.warnings.append("known finding %s no longer reproduces (%s)" % (kf["id"], detail))
            log("note: known finding %s no longer reproduces %s" % (kf["id"], detail))


class BuildError(Exception):
    pass


def sanitizer_kind(stderr):
    """Map sanitizer output to the model's outcome vocabulary."""
    if not stderr:
        return None
    m = re.search(r"ERROR: AddressSanitizer: ([a-zA-Z\-]+)", stderr)
    if m:
        k = m.group(1)
        if k in ("heap-use-after-free", "double-free", "attempting"):
            return "SAN:uaf"
        if k == "SEGV":
            if re.search(r"address 0x0000000000[0-9a-f]{2}\b", stderr) or "zero page" in stderr:
                return "SAN:null"
            return "SAN:segv"
        if k in ("ABRT",):
            return "SAN:abort"
        return "SAN:oob"
    if "runtime error:" in stderr:
        return "SAN:ub"
    if "Assertion" in stderr and "failed" in stderr:
        return "SAN:abort"
    if "LeakSanitizer" in stderr:
        return "SAN:leak"
    return None


# -------------------------------------------------------------------- known findings
def load_known_findings():
    out = []
    p = os.path.join(VERIF, "KNOWN_FINDINGS.txt")
    if not os.path.exists(p):
        return out
    for line in open(p):
        line = line.strip()
        if not line or line.startswith("#"):
            continue
        kind, _, rest = line.partition(":")
        kind = kind.strip()
        rest = rest.strip()
        d = {"kind": kind, "raw": rest}
        toks = rest.split()
        text = []
        for t in toks:
            if "=" in t and not text and t.split("=")[0] in ("property", "id", "class", "witness"):
                k, v = t.split("=", 1)
                d[k] = v
            else:
                text.append(t)
        d["text"] = " ".join(text)
        d.setdefault("property", "")
        d.setdefault("id", "")
        out.append(d)
    return out


# -------------------------------------------------------------------- Lean side
class LeanLock:
    def __enter__(self):
        os.makedirs(os.path.join(VERIF, "build"), exist_ok=True)
        self.f = open(os.path.join(VERIF, "build", ".lean.lock"), "w")
        fcntl.flock(self.f, fcntl.LOCK_EX)
        return self

    def __exit__(self, *a):
        fcntl.flock(self.f, fcntl.LOCK_UN)
        self.f.close()


def theorems_for(prop):
    p = os.path.join(LEAN, "theorems.d", prop + ".json")
    if not os.path.exists(p):
        return {}
    return json.load(open(p))


def strip_comments(src):
    # remove /- ... -/ (nested) and -- ... comments
    out = []
    i = 0
    depth = 0
    n = len(src)
    while i < n:
        if src.startswith("/-", i):
            depth += 1
            i += 2
        elif depth and src.startswith("-/", i):
            depth -= 1
            i += 2
        elif depth:
            if src[i] == "\n":
                out.append("\n")
            i += 1
        elif src.startswith("--", i):
            while i < n and src[i] != "\n":
                i += 1
        else:
            out.append(src[i])
            i += 1
    return "".join(out)


def grep_forbidden(files):
    hits = []
    for f in files:
        try:
            src = strip_comments(open(f).read())
        except OSError:
            continue
        for ln, line in enumerate(src.splitlines(), 1):
            if FORBIDDEN.search(line):
                hits.append("%s:%d: %s" % (os.path.relpath(f, VERIF), ln, line.strip()[:120]))
    return hits


def lean_files(modules):
    """Source files of the given modules and of everything they import from this library."""
    seen = {}
    todo = list(modules)
    while todo:
        m = todo.pop()
        if m in seen or not (m.startswith("QbVerif") or m.startswith("Mains")):
            continue
        path = os.path.join(LEAN, *m.split(".")) + ".lean"
        if not os.path.exists(path):
            continue
        seen[m] = path
        for mm in re.finditer(r"^import\s+([\w.]+)", open(path).read(), re.M):
            todo.append(mm.group(1))
    return sorted(seen.values())


def lean_prepare(ctx, leanchecker=None):
    """Regenerate Gen, build qbmodel + the property's Props module, audit axioms.

    Fills ctx.obligations/discharged/checker_cmd, ctx.qbmodel; records every theorem or
    module that no longer checks in ctx.broken (never raises for a proof failure)."""
    import extract
    info = theorems_for(ctx.prop)
    modules = info.get("modules", [])
    theorems = info.get("theorems", [])
    t0 = time.time()
    with LeanLock():
        warns = extract.regenerate(REPO, LEAN, os.path.join(ctx.build, "extract"))
        ctx.warnings += warns
        import genmain
        genmain.main()
        for drvname in info.get("drivers", []):
            drv = drvname.lower()
            r = sh(["lake", "build", "qb_" + drv], cwd=LEAN)
            if r.returncode != 0:
                ctx.broken.append("lake build qb_%s (model no longer compiles against regenerated Gen/): %s"
                                  % (drv, tail_err(r.stdout)))
            else:
                dst = os.path.join(ctx.build, "qb_" + drv)
                shutil.copy2(os.path.join(LEAN, ".lake", "build", "bin", "qb_" + drv), dst)
                ctx.models[drv] = dst
        mods_ok = {}
        for m in modules:
            r = sh(["lake", "build", m], cwd=LEAN)
            mods_ok[m] = (r.returncode == 0)
            if r.returncode != 0:
                ctx.broken.append("module %s no longer checks: %s" % (m, tail_err(r.stdout)))
        # axiom audit
        ax = {}
        if theorems and any(mods_ok.values()):
            # modules that no longer check are left out, so that the theorems of the others are still audited
            probe = os.path.join(ctx.build, "Audit.lean")
            with open(probe, "w") as f:
                for m in modules:
                    if mods_ok[m]:
                        f.write("import %s\n" % m)
                for t in theorems:
                    f.write("#print axioms %s\n" % t)
            r = sh(["lake", "env", "lean", probe], cwd=LEAN)
            ax = parse_axioms(r.stdout, theorems)
        if leanchecker is None:
            leanchecker = (ctx.tier == "thorough")
        lc_ok = True
        if leanchecker and modules and all(mods_ok.values()):
            for m in modules:
                r = sh(["lake", "env", "leanchecker", m], cwd=LEAN)
                if r.returncode != 0:
                    lc_ok = False
                    ctx.broken.append("leanchecker rejected %s: %s" % (m, tail_err(r.stdout)))
            ctx.cov["leanchecker_modules"] = len(modules)
    hits = grep_forbidden(lean_files(modules + ["Mains." + d for d in info.get("drivers", [])]))
    if hits:
        ctx.broken.append("forbidden construct in Lean sources: " + "; ".join(hits[:5]))
    ctx.obligations = len(theorems)
    ok = 0
    for t in theorems:
        a = ax.get(t)
        if a is None:
            ctx.broken.append("theorem %s: not found / does not check" % t)
        elif not set(a) <= ALLOWED_AXIOMS:
            ctx.broken.append("theorem %s depends on axioms %s" % (t, sorted(set(a) - ALLOWED_AXIOMS)))
        else:
            ok += 1
    ctx.discharged = ok if not hits else 0
    ctx.checker_cmd = "cd lean && lake build %s && lake env lean <#print axioms of %d theorems>%s" % (
        " ".join(modules) or "QbVerif", len(theorems), " && lake env leanchecker <module>" if leanchecker else "")
    ctx.cov["theorems"] = theorems[:]
    ctx.cov["lean_s"] = round(time.time() - t0, 1)
    return not ctx.broken


def tail_err(out):
    lines = [l for l in out.splitlines() if "error" in l.lower()]
    return " | ".join(lines[:3])[:600] if lines else out[-300:].replace("\n", " | ")


def parse_axioms(out, theorems):
    res = {}
    # "'name' depends on axioms: [a, b]" (possibly multi-line) or "'name' does not depend on any axioms"
    text = out.replace("\n", " ")
    for m in re.finditer(r"'([^']+)' depends on axioms: \[([^\]]*)\]", text):
        res[m.group(1)] = [a.strip() for a in m.group(2).split(",") if a.strip()]
    for m in re.finditer(r"'([^']+)' does not depend on any axioms", text):
        res[m.group(1)] = []
    # names are printed fully qualified; allow suffix match
    out2 = {}
    for t in theorems:
        if t in res:
            out2[t] = res[t]
        else:
            for k, v in res.items():
                if k.endswith("." + t) or t.endswith("." + k):
                    out2[t] = v
    return out2


# -------------------------------------------------------------------- case running
def split_cases(lines):
    """Split harness/model output into {case_id: [lines]} by `case N` marker lines."""
    res = {}
    cur = None
    for l in lines:
        if l.startswith("case "):
            cur = l.split()[1] if len(l.split()) > 1 else ""
            res[cur] = []
        elif cur is not None:
            res[cur].append(l)
    return res


def run_batched(ctx, exe, cases, batch=25, timeout=120, args=(), env=None):
    """cases: list of (id, [op lines]).  Runs them in batches (in parallel); a batch in which
    the process dies (sanitizer abort, crash) is re-run case by case so that every case
    gets its own outcome.  Returns {id: (lines, outcome)} where outcome is None or a
    `SAN:...`/`CRASH:...` string (appended to the lines as a final line as well)."""
    res = {}

    def run_group(group):
        text = "".join("case %s\n%s\n" % (cid, "\n".join(ops)) for cid, ops in group)
        lines, rc, err = ctx.run_exe(exe, text, timeout=timeout, args=args, env=env)
        return group, lines, rc, err

    groups = [cases[i:i + batch] for i in range(0, len(cases), batch)]
    retry = []
    with cf.ThreadPoolExecutor(NCPU) as ex:
        for group, lines, rc, err in ex.map(run_group, groups):
            if rc == 0:
                sp = split_cases(lines)
                for cid, _ in group:
                    res[str(cid)] = (sp.get(str(cid), []), None)
            elif len(group) == 1:
                cid = str(group[0][0])
                sp = split_cases(lines)
                out = sp.get(cid, [])
                oc = sanitizer_kind(err) or ("TIMEOUT" if rc == -999 else "CRASH:%d" % rc)
                out = out + [oc]
                res[cid] = (out, oc)
                ctx.last_stderr = err
            else:
                retry += [[c] for c in group]
        for group, lines, rc, err in ex.map(run_group, retry):
            cid = str(group[0][0])
            sp = split_cases(lines)
            out = sp.get(cid, [])
            oc = None
            if rc != 0:
                oc = sanitizer_kind(err) or ("TIMEOUT" if rc == -999 else "CRASH:%d" % rc)
                out = out + [oc]
                res.setdefault("_stderr", {})
                res["_stderr"][cid] = err[-3000:]
            res[cid] = (out, oc)
    return res


def ddmin(items, fails, max_tests=400):
    """Delta-debugging: smallest sublist (1-minimal within budget) for which fails(sub) holds."""
    tests = [0]

    def t(x):
        tests[0] += 1
        return fails(x)
    n = 2
    cur = list(items)
    while len(cur) >= 2 and tests[0] < max_tests:
        chunk = max(1, len(cur) // n)
        subsets = [cur[i:i + chunk] for i in range(0, len(cur), chunk)]
        reduced = False
        for i in range(len(subsets)):
            comp = [x for j, s in enumerate(subsets) if j != i for x in s]
            if comp and t(comp):
                cur = comp
                n = max(n - 1, 2)
                reduced = True
                break
        if not reduced:
            if n >= len(cur):
                break
            n = min(len(cur), n * 2)
    return cur


# -------------------------------------------------------------------- evidence + exit
def finish(ctx):
    wall = time.time() - ctx.t0
    cov = {
        "obligations": ctx.obligations,
        "discharged": ctx.discharged,
        "checker_cmd": ctx.checker_cmd or "n/a",
        "trusted_base": ctx.trusted,
        "evaluations": ctx.evaluations,
        "distinct_nontrivial": len(ctx.nontrivial),
        "rule": ctx.rule,
        "samples": ctx.samples[:6] if ctx.samples else ["(no generated cases in this run)"],
        "traces_validated_against_impl": ctx.traces_validated,
        "stats": ctx.stats,
        "broken": ctx.broken,
        "known_findings_reported": ctx.known,
        "warnings": ctx.warnings,
    }
    cov.update(ctx.cov)
    ev = {
        "property_id": ctx.prop,
        "tier": ctx.tier,
        "seed": ctx.seed,
        "level": "proof",
        "coverage": cov,
        "assumptions": ctx.assumptions,
        "wall_s": round(wall, 2),
        "violations": len(ctx.violations) + (1 if ctx.broken and not ctx.violations else 0),
    }
    # evidence/ is for runs against /repo itself; a run against a scratch worktree (VERIF_REPO: testing a
    # patch or a seeded change) or a replay writes its evidence next to the build output instead
    evdir = os.path.join(VERIF, "evidence") if (os.path.realpath(REPO) == "/repo" and not ctx.replay) \
        else os.path.join(VERIF, "build", "evidence-scratch")
    os.makedirs(evdir, exist_ok=True)
    tmp = os.path.join(evdir, ".%s.json.%d" % (ctx.prop, os.getpid()))
    with open(tmp, "w") as f:
        json.dump(ev, f, indent=1, sort_keys=True)
        f.write("\n")
    os.replace(tmp, os.path.join(evdir, ctx.prop + ".json"))
    shutil.rmtree(ctx.build, ignore_errors=True)
    rc = 0
    if ctx.violations:
        for path, desc, found in ctx.violations:
            log("VIOLATION property=%s replay=%s%s" % (ctx.prop, os.path.relpath(path, VERIF),
                                                        "" if found else " no-failing-input-found"))
            log("  " + desc)
        rc = 1
    elif ctx.broken:
        text = "The following proof obligations / correspondences no longer check:\n" + "\n".join(ctx.broken) + "\n"
        path = ctx.write_replay("broken", text)
        log("VIOLATION property=%s replay=%s no-failing-input-found" % (ctx.prop, os.path.relpath(path, VERIF)))
        for b in ctx.broken[:10]:
            log("  broken: " + b[:400])
        rc = 1
    else:
        log("OK property=%s tier=%s seed=%d obligations=%d/%d evaluations=%d nontrivial=%d wall=%.1fs" % (
            ctx.prop, ctx.tier, ctx.seed, ctx.discharged, ctx.obligations, ctx.evaluations,
            len(ctx.nontrivial), wall))
    return rc


# -------------------------------------------------------------------- differential pattern
def differential(ctx, exe, driver, cases, oracle, stream, compare=None, batch=25, timeout=120,
                 model_args=(), shrink_budget=150, nontrivial=None, known_class=None, env=None):
    """The D-tie of DESIGN.md 2.3 plus the property oracle, for one stream of cases.

    cases: list of (case_id, [op lines]).
    oracle(ops, impl_lines) -> None if the property holds on the implementation's own output,
        else a description.  (Independent of the Lean model.)
    compare(ops, impl_lines, model_lines) -> None or description; default: exact equality.
    nontrivial(ops, impl_lines) -> iterable of tags; a case is non-trivial if it has any tag.
    known_class(ops, impl_lines, desc) -> id of a known finding this failure belongs to, or None.
    Outcome: violations (with shrunk replay) for oracle failures; ctx.broken entry (with a
    replay of a shrunk differing case) when only the correspondence fails."""
    if not cases:
        return {"oracle_fail": 0, "diff": 0}
    impl = run_batched(ctx, exe, cases, batch=batch, timeout=timeout, env=env)
    mexe = ctx.models.get(driver)
    model = run_batched(ctx, mexe, cases, batch=batch, timeout=timeout, args=model_args) if mexe else {}
    ofail = []
    diffs = []
    known_hits = {}
    for cid, ops in cases:
        cid = str(cid)
        il = impl[cid][0]
        ctx.evaluations += 1
        key = hashlib.sha1("\n".join(ops).encode()).hexdigest()
        if nontrivial:
            tags = list(nontrivial(ops, il))
            for t in tags:
                ctx.count("hit:" + t)
            if tags:
                ctx.nontrivial.add(key)
        else:
            ctx.nontrivial.add(key)
        d = oracle(ops, il)
        if d:
            k = known_class(ops, il, d) if known_class else None
            if k:
                known_hits.setdefault(k, (cid, ops, d))
            else:
                ofail.append((cid, ops, d))
            continue
        if model:
            ml = model[cid][0]
            c = compare(ops, il, ml) if compare else (None if il == ml else first_diff(il, ml))
            if c:
                diffs.append((cid, ops, c))
            else:
                ctx.traces_validated += 1
    if len(ctx.samples) < 6 and cases:
        c = cases[min(len(cases) - 1, 3)]
        ctx.samples.append({"stream": stream, "ops": c[1][:12], "impl": impl[str(c[0])][0][:12]})

    def rerun(ops):
        r = run_batched(ctx, exe, [("r", ops)], batch=1, timeout=timeout, env=env)
        return r["r"][0]

    if ofail:
        # confirm: a failure must show again in one of two re-runs of the same case; what does not reproduce
        # (a time-out of a real client thread under load, ...) is recorded as a warning, not reported
        ofail.sort(key=lambda x: len(x[1]))
        confirmed = []
        for cid, ops, d in ofail[:6]:
            for _ in range(2):
                dd = oracle(ops, rerun(ops))
                if dd and not (known_class and known_class(ops, rerun(ops), dd)):
                    confirmed.append((cid, ops, dd))
                    break
            if confirmed:
                break
        if not confirmed:
            ctx.warnings.append("%s: %d oracle failure(s) did not reproduce on re-run (transient; first: case %s: %s)" % (
                stream, len(ofail), ofail[0][0], ofail[0][2][:200]))
            ctx.count("transient-oracle-failures:" + stream, len(ofail))
            log("note: %s: %d oracle failure(s) did not reproduce on re-run (case %s: %s)" % (
                stream, len(ofail), ofail[0][0], ofail[0][2][:160]))
            ofail = []
    if ofail:
        cid, ops, d = confirmed[0]
        head = ops[:1]

        def fails(sub):
            o = head + sub
            dd = oracle(o, rerun(o))
            return bool(dd) and not (known_class and known_class(o, rerun(o), dd))
        small = head + ddmin(ops[1:], fails, max_tests=shrink_budget) if len(ops) > 2 else ops
        il = rerun(small)
        d2 = oracle(small, il) or d
        text = "# property %s, stream %s, seed %d, case %s\n# %s\ncase 1\n%s\n# implementation output:\n%s\n" % (
            ctx.prop, stream, ctx.seed, cid, d2, "\n".join(small), "\n".join("#   " + l for l in il))
        ctx.violation("%s-%s" % (stream, cid), text,
                      "%s: %s (%d of %d cases fail the property oracle on the implementation)" % (
                          stream, d2, len(ofail), len(cases)))
    elif diffs:
        diffs.sort(key=lambda x: len(x[1]))
        cid, ops, d = diffs[0]
        head = ops[:1]

        def differs(sub):
            o = head + sub
            il = rerun(o)
            ml = run_batched(ctx, mexe, [("r", o)], batch=1, args=model_args)["r"][0]
            return bool(compare(o, il, ml) if compare else il != ml)
        small = head + ddmin(ops[1:], differs, max_tests=shrink_budget) if len(ops) > 2 else ops
        il = rerun(small)
        ml = run_batched(ctx, mexe, [("r", small)], batch=1, args=model_args)["r"][0]
        text = ("# correspondence '%s' (model driver `%s` vs implementation) no longer checks\n"
                "# %d of %d cases differ; property oracle found no failing input in this stream\n"
                "case 1\n%s\n# implementation output:\n%s\n# model output:\n%s\n") % (
            stream, driver, len(diffs), len(cases), "\n".join(small),
            "\n".join("#   " + l for l in il), "\n".join("#   " + l for l in ml))
        p = ctx.write_replay("corr-%s" % stream, text)
        ctx.broken.append("correspondence %s: model and implementation differ on %d/%d cases (e.g. %s; see %s)" % (
            stream, len(diffs), len(cases), d, os.path.relpath(p, VERIF)))
    ctx.count("cases:" + stream, len(cases))
    return {"oracle_fail": len(ofail), "diff": len(diffs), "known": known_hits, "impl": impl, "model": model}


def first_diff(a, b):
    for i in range(max(len(a), len(b))):
        x = a[i] if i < len(a) else "<missing>"
        y = b[i] if i < len(b) else "<missing>"
        if x != y:
            return "line %d: impl=%r model=%r" % (i + 1, x[:80], y[:80])
    return None


def read_case_file(path):
    """Replay/corpus files: op lines; optional `case` lines split several cases."""
    cases = []
    cur = None
    for line in open(path):
        line = line.rstrip("\n")
        if not line.strip() or line.lstrip().startswith("#"):
            continue
        if line.startswith("case "):
            cur = []
            cases.append(cur)
        else:
            if cur is None:
                cur = []
                cases.append(cur)
            cur.append(line)
    return [(("%s#%d" % (os.path.basename(path), i)), c) for i, c in enumerate(cases) if c]


def corpus_cases(prop, sub=""):
    d = os.path.join(VERIF, "corpus", prop, sub)
    out = []
    if os.path.isdir(d):
        for f in sorted(os.listdir(d)):
            if f.endswith(".ops"):
                out += read_case_file(os.path.join(d, f))
    return out
