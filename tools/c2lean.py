#!/usr/bin/env python3
"""Translator T3 (DESIGN.md 2.3): straight-line integer C functions -> Lean definitions.

Input: the clang JSON AST of one function of /repo (taken from the CURRENT working tree on every
check run).  Output: a Lean `def <name>_c` over `Int`, in which every C expression is wrapped to
the range of its C type exactly where the C semantics converts/truncates (`wrapU 32`, `wrapS 32`,
…), so unsigned wrap-around, mixed signed/unsigned comparison and truncating conversions are
what the compiler does.  The hand-written models are then PROVED equal to these generated
definitions (Lemmas/*C.lean); when the C code changes, the generated definition changes and the
equivalence theorem is re-checked against what the code says now.

Supported subset (enough for leaf arithmetic functions): local variable declarations,
assignments (=, +=, -=, ++, --), if/else chains, `do { … } while (0)` macro bodies, return;
integer literals, sizeof, parameters and locals, unary - ! ~, binary + - * / % << >> & | ^
< > <= >= == != && ||, conditional ?:, casts.  Everything the function reads from memory becomes
an explicit input of the Lean definition:
  * a member chain rooted at a parameter (`rb->shared_hdr->write_pt`) -> input `rb_shared_hdr_write_pt`
  * a pointer parameter compared with NULL -> input `rb` (0 = NULL)
  * a call through a function pointer member -> input `call_<chain>` (its result)
  * an array element `rb->shared_data[i]` -> input function `<chain> : Int → Int`
Loops, calls to other functions, address-of, and writes through pointers are rejected (the
function is then hand-modelled and tied by the differential correspondence alone)."""
import json
import subprocess
import sys

INT_TYPES = {
    "_Bool": (False, 8), "char": (True, 8), "signed char": (True, 8), "unsigned char": (False, 8),
    "short": (True, 16), "unsigned short": (False, 16), "int": (True, 32), "unsigned int": (False, 32),
    "long": (True, 64), "unsigned long": (False, 64), "long long": (True, 64),
    "unsigned long long": (False, 64),
}


class Unsupported(Exception):
    pass


def clang_ast(repo, cfile, func, extra_flags=()):
    cmd = ["clang-14", "-fsyntax-only", "-w", "-DHAVE_CONFIG_H", "-D_GNU_SOURCE",
           "-I" + repo + "/include", "-I" + repo + "/lib"] + list(extra_flags) + [
           "-Xclang", "-ast-dump=json", "-Xclang", "-ast-dump-filter=" + func, cfile]
    r = subprocess.run(cmd, stdout=subprocess.PIPE, stderr=subprocess.PIPE, text=True)
    txt = r.stdout
    dec = json.JSONDecoder()
    i = 0
    best = None
    while i < len(txt):
        while i < len(txt) and txt[i].isspace():
            i += 1
        if i >= len(txt):
            break
        o, i = dec.raw_decode(txt, i)
        if o.get("kind") == "FunctionDecl" and o.get("name") == func and any(
                c.get("kind") == "CompoundStmt" for c in o.get("inner", [])):
            best = o
    if best is None:
        raise Unsupported("function %s not found in %s" % (func, cfile))
    return best


def ctype(node):
    t = node.get("type", {})
    q = t.get("desugaredQualType") or t.get("qualType") or ""
    q = q.replace("volatile ", "").replace("const ", "").strip()
    return q


def int_type(q):
    if q in INT_TYPES:
        return INT_TYPES[q]
    if q.endswith("*") or "(*)" in q:
        return (False, 64)
    if q.startswith("enum "):
        return (False, 32)
    raise Unsupported("non-integer type %r" % q)


def wrap(q, e):
    s, b = int_type(q)
    return "(%s %d %s)" % ("wrapS" if s else "wrapU", b, e)


class Tr:
    def __init__(self, fn):
        self.fn = fn
        self.inputs = {}      # lean name -> lean type
        self.params = []
        self.locals = set()

    def inp(self, name, ty="Int"):
        self.inputs.setdefault(name, ty)
        return name

    def chain(self, n):
        """member chain rooted at a parameter -> flattened name, or None"""
        k = n["kind"]
        if k in ("ImplicitCastExpr", "ParenExpr", "CStyleCastExpr"):
            return self.chain(n["inner"][0])
        if k == "DeclRefExpr":
            nm = n["referencedDecl"]["name"]
            if nm in self.params:
                return nm
            return None
        if k == "MemberExpr":
            base = self.chain(n["inner"][0])
            if base is None:
                return None
            return base + "_" + n["name"]
        return None

    # ---- expressions: returns Lean term of type Int (value already in range of its C type)
    def expr(self, n):
        k = n["kind"]
        if k == "ParenExpr":
            return self.expr(n["inner"][0])
        if k == "IntegerLiteral":
            return "(%s : Int)" % n["value"]
        if k == "CharacterLiteral":
            return "(%d : Int)" % n["value"]
        if k == "UnaryExprOrTypeTraitExpr":
            if n.get("name") != "sizeof":
                raise Unsupported(n.get("name"))
            at = n.get("argType", {})
            q = (at.get("desugaredQualType") or at.get("qualType") or "").strip()
            if not q and n.get("inner"):
                q = ctype(n["inner"][0])
            if q in INT_TYPES:
                return "(%d : Int)" % (INT_TYPES[q][1] // 8)
            if q.endswith("*"):
                return "(8 : Int)"
            raise Unsupported("sizeof(%s)" % q)
        if k == "DeclRefExpr":
            nm = n["referencedDecl"]["name"]
            if nm in self.locals:
                return nm
            if nm in self.params:
                return self.inp(nm)
            if n["referencedDecl"].get("kind") == "EnumConstantDecl":
                raise Unsupported("enum constant %s (use a literal)" % nm)
            raise Unsupported("reference to %s" % nm)
        if k == "MemberExpr":
            c = self.chain(n)
            if c is None:
                raise Unsupported("member access not rooted at a parameter")
            return self.inp(c)
        if k == "ArraySubscriptExpr":
            base = self.chain(n["inner"][0])
            if base is None:
                raise Unsupported("array base")
            self.inp(base, "Int → Int")
            return "(%s %s)" % (base, self.expr(n["inner"][1]))
        if k == "CallExpr":
            c = self.chain(n["inner"][0])
            if c is None:
                raise Unsupported("call to a named function")
            return self.inp("call_" + c)
        if k in ("ImplicitCastExpr", "CStyleCastExpr"):
            ck = n.get("castKind")
            sub = n["inner"][0]
            if ck in ("LValueToRValue", "NoOp", "FunctionToPointerDecay", "ArrayToPointerDecay"):
                return self.expr(sub)
            if ck == "IntegralCast" or ck == "IntegralToBoolean" or ck == "BooleanToSignedIntegral":
                e = self.expr(sub)
                if ck == "IntegralToBoolean":
                    return "(if %s ≠ 0 then 1 else 0)" % e
                return wrap(ctype(n), e)
            if ck in ("NullToPointer",):
                return "(0 : Int)"
            if ck in ("BitCast", "PointerToIntegral", "IntegralToPointer"):
                return self.expr(sub)
            if ck == "PointerToBoolean":
                return "(if %s ≠ 0 then 1 else 0)" % self.expr(sub)
            raise Unsupported("cast kind %s" % ck)
        if k == "UnaryOperator":
            op = n["opcode"]
            a = self.expr(n["inner"][0])
            if op == "-":
                return wrap(ctype(n), "(- %s)" % a)
            if op == "+":
                return a
            if op == "!":
                return "(if %s = 0 then 1 else 0)" % a
            if op == "~":
                s, b = int_type(ctype(n))
                return wrap(ctype(n), "(-1 - %s)" % a)
            raise Unsupported("unary %s" % op)
        if k == "BinaryOperator":
            op = n["opcode"]
            if op == ",":
                raise Unsupported("comma")
            if op in ("&&", "||"):
                return "(if %s then 1 else 0)" % self.cond(n)
            if op in ("<", ">", "<=", ">=", "==", "!="):
                return "(if %s then 1 else 0)" % self.cond(n)
            a = self.expr(n["inner"][0])
            b = self.expr(n["inner"][1])
            q = ctype(n)
            s, bits = int_type(q)
            if op in ("+", "-", "*"):
                return wrap(q, "(%s %s %s)" % (a, op, b))
            if op == "/":
                return wrap(q, ("(Int.tdiv %s %s)" if s else "(%s / %s)") % (a, b))
            if op == "%":
                return wrap(q, ("(Int.tmod %s %s)" if s else "(%s %% %s)") % (a, b))
            if op == "<<":
                return wrap(q, "(%s * 2 ^ (%s).toNat)" % (a, b))
            if op == ">>":
                if s:
                    raise Unsupported("signed >>")
                return "(%s / 2 ^ (%s).toNat)" % (a, b)
            if op in ("&", "|", "^"):
                if s:
                    raise Unsupported("signed bit operation")
                f = {"&": "Nat.land", "|": "Nat.lor", "^": "Nat.xor"}[op]
                return "(Int.ofNat (%s (%s).toNat (%s).toNat))" % (f, a, b)
            raise Unsupported("binary %s" % op)
        if k == "ConditionalOperator":
            return "(if %s then %s else %s)" % (self.cond(n["inner"][0]), self.expr(n["inner"][1]),
                                                self.expr(n["inner"][2]))
        raise Unsupported("expression kind %s" % k)

    # ---- conditions: Lean Prop (decidable)
    def cond(self, n):
        k = n["kind"]
        if k == "ParenExpr":
            return self.cond(n["inner"][0])
        if k == "BinaryOperator":
            op = n["opcode"]
            if op in ("&&", "||"):
                return "(%s %s %s)" % (self.cond(n["inner"][0]), "∧" if op == "&&" else "∨",
                                       self.cond(n["inner"][1]))
            if op in ("<", ">", "<=", ">=", "==", "!="):
                lo = {"<": "<", ">": ">", "<=": "≤", ">=": "≥", "==": "=", "!=": "≠"}[op]
                return "(%s %s %s)" % (self.expr(n["inner"][0]), lo, self.expr(n["inner"][1]))
        if k == "UnaryOperator" and n["opcode"] == "!":
            return "(¬ %s)" % self.cond(n["inner"][0])
        if k == "ImplicitCastExpr" and n.get("castKind") in ("IntegralToBoolean", "PointerToBoolean"):
            return self.cond(n["inner"][0])
        return "(%s ≠ 0)" % self.expr(n)

    # ---- statements with continuation `rest` (list of following statements)
    def stmts(self, ss, ret_q, ind):
        if not ss:
            return None       # falls off the end
        s, rest = ss[0], ss[1:]
        k = s["kind"]
        pad = "  " * ind
        if k == "CompoundStmt":
            return self.stmts(list(s.get("inner", [])) + rest, ret_q, ind)
        if k == "NullStmt":
            return self.stmts(rest, ret_q, ind)
        if k == "DoStmt":
            body, c = s["inner"][0], s["inner"][1]
            if c.get("kind") == "IntegerLiteral" and c.get("value") == "0":
                return self.stmts([body] + rest, ret_q, ind)
            raise Unsupported("loop")
        if k in ("WhileStmt", "ForStmt", "GotoStmt", "LabelStmt", "SwitchStmt"):
            raise Unsupported(k)
        if k == "DeclStmt":
            out = ""
            for v in s["inner"]:
                if v["kind"] != "VarDecl":
                    raise Unsupported("declaration " + v["kind"])
                nm = v["name"]
                init = [c for c in v.get("inner", []) if c.get("kind", "").endswith("Expr") or c.get("kind") in (
                    "IntegerLiteral", "BinaryOperator", "UnaryOperator", "ConditionalOperator")]
                val = self.expr(init[0]) if init else "(0 : Int)"
                self.locals.add(nm)
                out += "%slet %s : Int := %s\n" % (pad, nm, val)
            r = self.stmts(rest, ret_q, ind)
            if r is None:
                raise Unsupported("function may fall off the end")
            return out + r
        if k == "ReturnStmt":
            if not s.get("inner"):
                raise Unsupported("void return")
            return pad + self.expr(s["inner"][0]) + "\n"
        if k == "IfStmt":
            inner = s["inner"]
            c = self.cond(inner[0])
            saved = set(self.locals)
            t = self.stmts([inner[1]] + rest, ret_q, ind + 1)
            self.locals = set(saved)
            e = self.stmts(([inner[2]] if len(inner) > 2 else []) + rest, ret_q, ind + 1)
            self.locals = set(saved)
            if t is None or e is None:
                raise Unsupported("function may fall off the end")
            return "%sif %s then\n%s%selse\n%s" % (pad, c, t, pad, e)
        if k in ("BinaryOperator", "CompoundAssignOperator", "UnaryOperator"):
            op = s["opcode"]
            tgt = s["inner"][0]
            while tgt["kind"] == "ParenExpr":
                tgt = tgt["inner"][0]
            if tgt["kind"] != "DeclRefExpr" or tgt["referencedDecl"]["name"] not in self.locals:
                raise Unsupported("store to something that is not a local variable")
            nm = tgt["referencedDecl"]["name"]
            q = ctype(tgt)
            if k == "UnaryOperator":
                if op not in ("++", "--"):
                    raise Unsupported("statement " + op)
                val = wrap(q, "(%s %s 1)" % (nm, "+" if op == "++" else "-"))
            elif op == "=":
                val = self.expr(s["inner"][1])
            elif op in ("+=", "-=", "*="):
                # computation type: usual arithmetic conversions; clang records it
                cq = (s.get("computeResultType", {}).get("desugaredQualType")
                      or s.get("computeResultType", {}).get("qualType") or q)
                lhs = wrap(cq, nm) if cq != q else nm
                val = wrap(q, wrap(cq, "(%s %s %s)" % (lhs, op[0], self.expr(s["inner"][1]))))
            else:
                raise Unsupported("statement " + op)
            r = self.stmts(rest, ret_q, ind)
            if r is None:
                raise Unsupported("function may fall off the end")
            return "%slet %s : Int := %s\n%s" % (pad, nm, val, r)
        raise Unsupported("statement kind %s" % k)


def translate(fn_ast, lean_name=None):
    tr = Tr(fn_ast)
    body = None
    for c in fn_ast["inner"]:
        if c["kind"] == "ParmVarDecl":
            tr.params.append(c["name"])
            if ctype(c) in INT_TYPES:
                # by-value integer parameter: an input that the body may also assign to
                tr.locals.add(c["name"])
                tr.inputs[c["name"]] = "Int"
        elif c["kind"] == "CompoundStmt":
            body = c
    rq = fn_ast["type"]["qualType"].split("(")[0].strip()
    text = tr.stmts([body], rq, 1)
    if text is None:
        raise Unsupported("function may fall off the end")
    name = lean_name or (fn_ast["name"] + "_c")
    args = " ".join("(%s : %s)" % (n, t) for n, t in sorted(tr.inputs.items()))
    return "def %s %s : Int :=\n%s" % (name, args, text), sorted(tr.inputs.items())


PRELUDE = """/-- value of a C unsigned integer type of `n` bits -/
def wrapU (n : Nat) (x : Int) : Int := x % (2 ^ n)
/-- value of a C signed (two's complement) integer type of `n` bits -/
def wrapS (n : Nat) (x : Int) : Int := (x + 2 ^ (n - 1)) % (2 ^ n) - 2 ^ (n - 1)
"""

if __name__ == "__main__":
    repo = "/repo"
    ast = clang_ast(repo, repo + "/lib/" + sys.argv[1], sys.argv[2])
    print(translate(ast)[0])
