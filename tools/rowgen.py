"""C11 — overwrite ring: generators and the property oracle (python, independent of the Lean model).

Op lines are those of driver `ring` / harness rb_seq (see ringgen.py): open S FLAGS PAGE;
write HEX; alloc N; commit HEX; read CAP; peek; reclaim; free; used; sem.  FLAGS always contain
QB_RB_FLAG_OVERWRITE (2), with or without QB_RB_FLAG_NO_SEMAPHORE (0x10).

The oracle evaluates the C11 statement on the implementation's own output:
  * every write / alloc of at most S bytes succeeds;
  * what the reader gets is, at any time, the oldest chunk of "the newest k chunks written",
    byte-identical, where the writer may only have dropped chunks that do NOT belong to the run of
    newest chunks fitting in S (16 bytes of overhead each, the new chunk included), and never the
    chunk written last (k >= 1);
  * literally, for every write-only stretch followed by a drain: the drained chunks are a suffix
    of the chunks written, end with the last one, and contain every newest run that fits.
Chunks are identified by absolute index in the list of accepted chunks; `cand` is the set of
admissible indices of the oldest stored chunk (identical payloads make it a set).
"""
import os

PAGE = os.sysconf("SC_PAGESIZE")
MAGICS = ["a1a1a1a1", "d0d0d0d0", "d0ce10a1"]   # little-endian bytes of MAGIC, DEAD, ALLOC
OW = 2
NOSEM = 0x10


def words_of(S):
    return ((S + 13) + PAGE - 1) // PAGE * PAGE // 4


def cw(n):
    return 2 + (n + 3) // 4


# ----------------------------------------------------------------------------------------------
# generator
# ----------------------------------------------------------------------------------------------

def payload(rng, n, serial):
    """n bytes, hex; first 4 bytes (when there is room) are a serial number so that chunks are
    distinguishable; the rest is seeded with the marker constants and plausible header words."""
    if n == 0:
        return "-"
    b = bytearray()
    kind = rng.random()
    if kind < 0.3:
        b = bytearray(rng.getrandbits(8) for _ in range(min(n, 64)))
        while len(b) < n:
            b += b[:64]
    elif kind < 0.5:
        while len(b) < n:
            b += bytes.fromhex(rng.choice(MAGICS))
    elif kind < 0.7:
        while len(b) < n:
            b += int(rng.choice([0, 1, 4, 5, 8, 12, n % 64])).to_bytes(4, "little") + bytes.fromhex("a1a1a1a1")
    else:
        b = bytearray([rng.getrandbits(8)]) * n
    b = b[:n]
    if n >= 4 and rng.random() < 0.9:
        b[0:4] = (serial & 0xffffffff).to_bytes(4, "little")
    return bytes(b).hex()


def pick_size(rng):
    r = rng.random()
    if r < 0.35:
        return rng.choice([PAGE - 16, PAGE - 15, PAGE - 14, PAGE - 13, PAGE - 12, 2 * PAGE - 13, 2 * PAGE - 12])
    if r < 0.55:
        return rng.randrange(1, 300)
    if r < 0.85:
        return rng.randrange(300, PAGE)
    return rng.randrange(PAGE, 3 * PAGE)


class _Track:
    """generator-side estimate of what is stored (used only to steer lengths to the boundaries)"""

    def __init__(self, W):
        self.W = W
        self.st = []

    def free(self):
        return 4 * self.W if not self.st else 4 * (self.W - sum(self.st) - 1)

    def room(self, n):
        while self.free() < n + 12:
            if not self.st:
                return False
            self.st.pop(0)
        return True

    def push(self, n):
        self.st.append(cw(n))

    def pop(self):
        if self.st:
            self.st.pop(0)


def gen_case(rng, nosem=None, style=None, nops=None):
    """One overwrite-mode case.  Styles: blackbox (writes, drains at generated points), mixed
    (reader ops at arbitrary points), twophase (fixed reservation, short commits: the blackbox
    logger's pattern), boundary (full-ring chunks, exact fits, S-1/S/S+1, oversize)."""
    S = pick_size(rng)
    W = words_of(S)
    if nosem is None:
        nosem = rng.random() < 0.5
    flags = OW | (NOSEM if nosem else 0)
    ops = ["open %d %d %d" % (S, flags, PAGE)]
    style = style or rng.choice(["blackbox", "blackbox", "mixed", "mixed", "twophase", "boundary"])
    nops = nops or rng.randrange(6, 50)
    big = 4 * W + 64
    tr = _Track(W)
    serial = [rng.randrange(0, 1 << 20)]
    cap = 4 * W - 12            # largest length the ring can hold at all

    def length():
        x = rng.random()
        if style == "boundary":
            if x < 0.25:
                return max(0, cap - rng.randrange(0, 5))                  # chunk of W-1 / W-2 words
            if x < 0.45:
                return max(0, S + rng.choice([-2, -1, 0, 0, 1]))
            if x < 0.70:
                return max(0, min(cap, tr.free() - 12 + rng.choice([-4, -1, 0, 0, 1, 4])))   # exact fit / one drop
            if x < 0.78:
                return cap + rng.randrange(1, 2 * PAGE)                   # can never fit: EINVAL
            if x < 0.9:
                return rng.choice([0, 1, 2, 3, 4, 5, 7, 8])
            return rng.randrange(0, S + 1)
        if x < 0.30:
            return rng.choice([0, 1, 2, 3, 4, 5, 7, 8, 9, 12, 16])
        if x < 0.45:
            return rng.randrange(0, 80)
        if x < 0.65:
            return max(0, S - rng.randrange(0, 24))                       # near capacity
        if x < 0.75:
            return max(0, min(cap, tr.free() - 12 + rng.choice([-4, -1, 0, 1, 4])))
        if x < 0.80:
            return max(0, S // 2 - rng.randrange(0, 40))
        if x < 0.83:
            return cap + rng.randrange(1, PAGE)
        return rng.randrange(0, S + 1)

    def do_write(n):
        serial[0] += 1
        ops.append("write " + payload(rng, n, serial[0]))
        if tr.room(n):
            tr.push(n)

    def do_twophase(n, ln):
        serial[0] += 1
        ops.append("alloc %d" % n)
        ok = tr.room(n)
        if rng.random() < 0.15:
            reader()
        ops.append("commit " + payload(rng, ln, serial[0]))
        if ok:
            tr.push(ln)

    def drain():
        k = len(tr.st) + rng.randrange(1, 4)
        if not nosem:
            k += 2
        for _ in range(k):
            ops.append("read %d" % big)
        tr.st = []

    def reader():
        c = rng.random()
        if c < 0.55:
            if rng.random() < 0.85:
                ops.append("read %d" % big)
                tr.pop()
            else:
                ops.append("read %d" % rng.randrange(0, 48))              # short read (ENOBUFS) or tiny chunk
                tr.st = tr.st[:]                                          # estimate only
        elif c < 0.80:
            ops.append("peek")
            ops.append("reclaim")
            tr.pop()
        elif c < 0.85 and nosem:
            ops.append("reclaim")
            tr.pop()
        elif c < 0.93:
            ops.append(rng.choice(["free", "used", "sem"]))
        else:
            drain()

    reserve = None
    if style == "twophase":
        reserve = rng.choice([min(S, 32 + 512), max(1, S // rng.randrange(2, 9)), S, min(S, 600)])
    for _ in range(nops):
        r = rng.random()
        if style == "blackbox":
            if r < 0.88:
                do_write(length())
            elif r < 0.96:
                drain()
            else:
                ops.append(rng.choice(["free", "used", "sem"]))
        elif style == "twophase":
            if r < 0.75:
                ln = rng.choice([reserve, max(0, reserve - rng.randrange(0, 9)), rng.randrange(0, reserve + 1),
                                 rng.randrange(0, min(reserve, 40) + 1)])
                do_twophase(reserve, ln)
            elif r < 0.85:
                do_write(length())
            elif r < 0.93:
                reader()
            else:
                drain()
        else:
            wprob = 0.6 if style == "mixed" else 0.7
            if r < wprob:
                n = length()
                if rng.random() < 0.2:
                    do_twophase(n, rng.choice([n, max(0, n - rng.randrange(0, 12)), rng.randrange(0, n + 1)]))
                else:
                    do_write(n)
            else:
                reader()
    drain()
    return ops


# ----------------------------------------------------------------------------------------------
# oracle
# ----------------------------------------------------------------------------------------------

def _data(line):
    p = line.split()
    if len(p) == 2 and p[0].isdigit():
        return int(p[0]), ("" if p[1] == "-" else p[1])
    return None


def c11_oracle(ops, out):
    """None if the C11 statement holds on this implementation output, else a description."""
    if not ops or not ops[0].startswith("open"):
        return None
    o = ops[0].split()
    S = int(o[1])
    flags = int(o[2])
    if not flags & OW:
        return "not an overwrite case"
    nosem = bool(flags & NOSEM)
    if len(out) < 1 or not out[0].startswith("ok"):
        return "open failed: %r" % (out[:1],)
    Wr = []            # every accepted chunk (hex), oldest first, never trimmed: absolute indices
    An = []            # length that was allocated for it (= its length for a plain write)
    cand = {0}         # admissible indices of the oldest stored chunk (len(Wr) = nothing stored)
    pend = None        # allocated length of a pending alloc
    slack = 0          # peeks not yet followed by a reclaim (notification count below chunk count)
    seg = 0            # index of the first chunk written since the ring was last known empty
    gbound = 0         # no chunk with index >= gbound may have been dropped by the writer since `seg`
    clean = True       # since `seg` the reader has not touched the ring before the current run of reads
    run = []           # chunks returned by the current run of consecutive successful reads

    def blen(i):
        return len(Wr[i]) // 2

    def fit_start(n):
        """index of the first chunk of the run of newest chunks that fits in S together with a new
        chunk of n bytes, each counted with 16 bytes of overhead (len(Wr) if the new chunk alone does not)"""
        tot = n + 16
        j = len(Wr)
        if tot > S:
            return j
        while j > 0 and tot + blen(j - 1) + 16 <= S:
            tot += blen(j - 1) + 16
            j -= 1
        return j

    def literal_check(i):
        """the statement itself, for a write-only stretch Wr[seg:] followed by the drain `run`"""
        w = Wr[seg:]
        if not w:
            return ("op %d: %d chunks drained from a ring into which nothing was written" % (i, len(run))) if run else None
        if not run:
            return "op %d: ring reported empty although %d chunks were written since it was last empty (k = 0)" % (i, len(w))
        if len(run) > len(w) or w[len(w) - len(run):] != run:
            return ("op %d: the %d chunks drained are not the newest %d of the %d chunks written, in order and "
                    "byte-identical" % (i, len(run), len(run), len(w)))
        if all(An[seg + x] == len(c) // 2 for x, c in enumerate(w)):
            # plain writes: the newest chunks that fit in S, 16 bytes of overhead each
            tot = 0
            need = 0
            for c in reversed(w):
                tot += len(c) // 2 + 16
                if tot > S:
                    break
                need += 1
            need = max(need, 1)
        else:
            # reserve/commit: what fitted when each reservation was made
            need = max(1, len(Wr) - max(gbound, seg))
        if len(run) < need:
            return ("op %d: only the newest %d chunks were readable although the newest %d fit in S=%d with 16 "
                    "bytes of overhead each" % (i, len(run), need, S))
        return None

    for i, op in enumerate(ops[1:], 1):
        if i >= len(out):
            return "op %d (%s): no output (implementation died: %s)" % (i, op.split()[0], out[-1] if out else "")
        res = out[i]
        t = op.split()
        if res.startswith(("SAN:", "CRASH", "TIMEOUT")):
            return "op %d (%s): %s" % (i, t[0], res)
        if t[0] in ("write", "alloc", "commit", "peek", "reclaim") and run:
            # a run of reads that did not reach the empty indication: a partial read-back
            run = []
            clean = False
        if t[0] in ("write", "alloc"):
            if pend is not None:
                if res != "bad-op":
                    return "op %d: %s while an allocation is pending was executed (%s)" % (i, t[0], res)
                continue
            if t[0] == "write":
                h = "" if t[1] == "-" else t[1]
                n = len(h) // 2
                good = res == str(n)
            else:
                n = int(t[1])
                good = res == "ok"
            if good:
                j = fit_start(n)
                gbound = max(gbound, j)
                cand = {b for a in cand for b in range(a, max(a, j) + 1)}
                if t[0] == "write":
                    Wr.append(h)
                    An.append(n)
                else:
                    pend = n
            elif n <= S:
                return "op %d: %s of %d bytes (<= requested size %d) failed with %s in overwrite mode" % (i, t[0], n, S, res)
            elif res == "EINVAL":
                cand = set(range(min(cand), len(Wr) + 1))       # the reclaim loop may have dropped anything
                clean = False
            else:
                return "op %d: %s of %d bytes returned %s" % (i, t[0], n, res)
        elif t[0] == "commit":
            h = "" if t[1] == "-" else t[1]
            n = len(h) // 2
            if pend is None or n > pend:
                if res != "bad-op":
                    return "op %d: ill-formed commit was executed (%s)" % (i, res)
                continue
            if res != "0":
                return "op %d: commit of %d bytes (allocated %d) returned %s" % (i, n, pend, res)
            Wr.append(h)
            An.append(pend)
            pend = None
        elif t[0] in ("read", "peek"):
            d = _data(res)
            if d is not None:
                n, h = d
                if n != len(h) // 2:
                    return "op %d: %s returned length %d with %d bytes" % (i, t[0], n, len(h) // 2)
                if t[0] == "read" and n > int(t[1]):
                    return "op %d: read returned %d bytes into a %d-byte buffer" % (i, n, int(t[1]))
                hit = {a for a in cand if a < len(Wr) and Wr[a] == h}
                if not hit:
                    if all(a >= len(Wr) for a in cand):
                        return "op %d: %s returned a %d-byte chunk from an empty ring (phantom chunk)" % (i, t[0], n)
                    if h in Wr[min(cand):]:
                        return ("op %d: %s returned a chunk out of turn: chunk %d of the chunks written, but the "
                                "oldest stored chunk must be one of chunks %d..%d (a chunk of the newest run that "
                                "fits was lost, or order broken)" % (
                                    i, t[0], len(Wr) - 1 - Wr[::-1].index(h), min(cand), min(max(cand), len(Wr) - 1)))
                    return ("op %d: %s returned %d bytes that are not byte-identical to any chunk still admissible "
                            "(oldest admissible chunk %d has %d bytes)" % (
                                i, t[0], n, min(cand), blen(min(min(cand), len(Wr) - 1))))
                if t[0] == "read":
                    cand = {a + 1 for a in hit}
                    run.append(h)
                else:
                    cand = hit
                    slack += 1
                    clean = False
            elif res == "ENOBUFS" and t[0] == "read":
                hit = {a for a in cand if a < len(Wr) and blen(a) > int(t[1])}
                if not hit:
                    return "op %d: ENOBUFS although no admissible oldest chunk is longer than %s bytes" % (i, t[1])
                cand = hit
            elif res in ("ETIMEDOUT", "timeout", "EBADMSG"):
                definite = nosem or slack == 0
                if len(Wr) not in cand and definite:
                    return ("op %d: %s reported %s (nothing readable) although the newest chunk written must still "
                            "be stored (k >= 1; at least %d chunks)" % (i, t[0], res, len(Wr) - max(cand)))
                if definite:
                    if t[0] == "read" and clean and pend is None:
                        e = literal_check(i)
                        if e:
                            return e
                    cand = {len(Wr)}
                    seg = len(Wr)
                    gbound = seg
                    clean = True
                run = []
            else:
                return "op %d: %s returned %s" % (i, t[0], res)
        elif t[0] == "reclaim":
            cand = {min(a + 1, len(Wr)) for a in cand}
            slack = max(0, slack - 1)
            clean = False
    return None


def tags(ops, out):
    t = set()
    S = int(ops[0].split()[1])
    W = words_of(S)
    flags = int(ops[0].split()[2])
    semtag = "nosem" if flags & NOSEM else "sem"
    stored = 0
    nw = 0
    last_alloc = None
    for op, r in zip(ops[1:], out[1:]):
        p = op.split()
        if (p[0] == "write" and r.isdigit()) or (p[0] == "commit" and r == "0"):
            n = 0 if p[1] == "-" else len(p[1]) // 2
            nw += 1
            stored += cw(n)
            if stored > W:
                t.add("overwrote-old-chunks")
            if n <= 8:
                t.add("tiny-chunk")
            if n + 24 >= S and n <= S:
                t.add("near-capacity-chunk")
            if n > S:
                t.add("above-S-but-fits")
            if cw(n) == W - 1:
                t.add("full-ring-chunk")
            if p[0] == "commit" and last_alloc is not None and n < last_alloc:
                t.add("short-commit")
            if "a1a1a1a1" in p[1]:
                t.add("magic-in-payload")
        elif p[0] == "alloc" and r == "ok":
            last_alloc = int(p[1])
        elif p[0] == "read" and _data(r):
            t.add("read-back")
            stored = 0 if stored <= 0 else stored
        elif r == "ENOBUFS":
            t.add("short-read")
        elif r in ("ETIMEDOUT", "EBADMSG"):
            t.add("empty-read")
        if r == "EINVAL":
            t.add("oversize-einval")
    if nw >= 3:
        t.add("multi-chunk")
    if "overwrote-old-chunks" in t:
        t.add("overwrote:" + semtag)
    return t


# ----------------------------------------------------------------------------------------------
# blackbox clause: records logged through the REAL blackbox target (harness/log/bb_print.c, ops
# `mk SIZE`, `r …`, `dump` — see tools/dumpgen.py), dumped with qb_log_blackbox_write_to_file and
# printed with qb_log_blackbox_print_from_file.  One record history is dumped at several moments:
# the harness closes the target after a dump, so "a dump after the first k records" is a segment
# `mk SIZE, r_1 … r_k, dump`; logging is deterministic, so the segments of a case are dumps of
# one history at the moments k_1 < k_2 < ….
# ----------------------------------------------------------------------------------------------

BB_MAXLINE = 512                  # QB_LOG_MAX_LEN, default max_line_length of a target
BB_FIXED = 4 * 4 + 1 + 16         # lineno, tags, fn_size, msg_len; priority; struct timespec


def gen_bb_case(rng):
    import dumpgen as G
    r = rng.random()
    if r < 0.45:
        size = rng.choice([1024, 1025, 1500, 2000, 4083, 4084, 4085])
    elif r < 0.8:
        size = rng.choice([8179, 8180, 9000, 12000])
    else:
        size = rng.randrange(1024, 30000)
    n = rng.choice([1, 2, 3]) if rng.random() < 0.15 else rng.randrange(3, 90)
    recs = []
    for k in range(n):
        rec = list(G.rand_rec(rng))
        rec[1] = k + 1                                   # line number = position in the history
        recs.append(G.rec_op(tuple(rec)))
    cuts = sorted(set([n] + [rng.randrange(1, n + 1) for _ in range(rng.choice([0, 1, 2]))]))
    ops = []
    for c in cuts:
        ops.append("mk %d" % size)
        ops += recs[:c]
        ops.append("dump")
    return ops


def bb_oracle(ops, out):
    """every dump = an unbroken run of the latest records, ending with the very last one, at least
    as long as the run of newest records whose reservations (fixed part + function name + maximum
    line length, 16 bytes of overhead each) fit in the configured size"""
    import dumpgen as G
    d = G.safety_oracle(ops, out)
    if d:
        return d
    # split ops and output into segments at `mk`
    segs = []
    for o in ops:
        if o.startswith("mk "):
            segs.append([int(o.split()[1]), [], False])
        elif o.startswith("r ") and segs and not segs[-1][2]:
            segs[-1][1].append(o.split())
        elif o == "dump" and segs:
            segs[-1][2] = True
    osegs = []
    for l in out:
        if l.startswith("ok ") or (l.startswith("E") and " " not in l):
            osegs.append([])
        elif osegs:
            osegs[-1].append(l)
    if len(osegs) != len(segs):
        return "harness output has %d segments for %d mk ops" % (len(osegs), len(segs))
    for si, ((S, rops, dumped), ol) in enumerate(zip(segs, osegs)):
        if not dumped:
            continue                                     # nothing was dumped at this moment
        logged = []
        for l in ol:
            t = l.split()
            if t and t[0] == "logged":
                ref = b"" if t[7] == "-" else bytes.fromhex(t[7])
                logged.append((G.PRIO[min(int(t[1]), 8)], int(t[2]), (int(t[3]) & G.M64) // 1000000,
                               b"" if t[4] == "-" else bytes.fromhex(t[4]), int(t[5]), int(t[6]), G.strip_msg(ref)))
            elif t and t[0] == "wrote" and int(t[1]) <= 0:
                return "dump %d: qb_log_blackbox_write_to_file returned %s" % (si, t[1])
        if len(logged) != len(rops):
            return "dump %d: %d records logged for %d r ops" % (si, len(logged), len(rops))
        for i, t in enumerate(rops):
            if t[8] != "-" and len(t[8]) // 2 >= 511:
                logged[i] = logged[i][:6] + (G.TOO_LONG,)
        recs, _other = G.parse_records(ol)
        got = []
        for r in recs:
            ms = r[2]
            if ms is None:
                ms = 0 if not (-(1 << 55) <= r[1] < (1 << 55)) else None
            got.append((r[0], r[1], ms, r[3], r[4], r[5], r[6]))
        want = [w if (-(1 << 55) <= w[1] < (1 << 55)) else (w[0], w[1], 0) + w[3:] for w in logged]
        if not want:
            if got:
                return "dump %d: %d records printed, none logged" % (si, len(got))
            continue
        if not got:
            return "dump %d: no record in the dump although %d were logged (k = 0)" % (si, len(want))
        if got[-1] != want[-1]:
            return "dump %d: the last record of the dump is %r, the last record logged is %r" % (si, got[-1], want[-1])
        if len(got) > len(want) or want[len(want) - len(got):] != got:
            for i in range(1, len(got) + 1):
                if i > len(want) or got[-i] != want[-i]:
                    return ("dump %d: not an unbroken run of the latest records: record %d from the end is %r, "
                            "logged was %r" % (si, i, got[-i], want[-i] if i <= len(want) else None))
        tot = 0
        need = 0
        for t in reversed(rops):
            fn = 0 if t[6] == "-" else len(t[6]) // 2
            tot += BB_FIXED + fn + 1 + BB_MAXLINE + 16
            if tot > S:
                break
            need += 1
        if len(got) < max(1, need):
            return ("dump %d: only the latest %d records are in the dump although the reservations of the latest "
                    "%d fit in the configured size %d" % (si, len(got), need, S))
    return None


def bb_tags(ops, out):
    t = set()
    nlog = sum(1 for l in out if l.startswith("logged "))
    ndump = sum(1 for o in ops if o == "dump")
    lives = [int(l.split()[1]) for l in out if l.startswith("live ")]
    if ndump > 1:
        t.add("bb-several-dump-moments")
    if lives and nlog and min(lives) < max(1, nlog // max(1, ndump)):
        t.add("bb-records-overwritten")
    if lives and max(lives) >= 5:
        t.add("bb-many-records")
    if lives and min(lives) == 1:
        t.add("bb-single-record")
    return t
