"""C01: case generators, schedule enumeration helpers, the property oracle (independent of the
Lean model) and the source scanner for the structural (T) check of lib/ringbuffer.c.

Case = op lines for harness/rb/rb_conc.c and `qb_ringconc`:
    open S FLAGS 4096 / progw w:HEX f:HEX … / progr r:CAP p P … / sched wrw… / drain
"""
import os
import re

MAGIC = "a1a1a1a1"
DEAD = "d0d0d0d0"
ALLOC = "d0ce10a1"     # 0xA110CED0 little-endian
SEM, NOSEM = 4, 20
S_DEFAULT = 4080       # -> word_size 1024 with 4 KiB pages


# ----------------------------------------------------------------------------- building cases
def hexbytes(n, seed=0):
    """n bytes, recognisable and different per seed"""
    return "".join("%02x" % ((seed * 37 + i * 11 + 1) & 0xff) for i in range(n)) if n else "-"


def wlen(tok):
    h = tok.split(":", 1)[1]
    return 0 if h == "-" else len(h) // 2


def steps_bound_w(tok):
    n = wlen(tok)
    return 18 + ((n + 3) // 4 + 2 if tok.startswith("f:") else 0)


def steps_bound_r(tok, maxlen):
    return 18 + ((maxlen + 3) // 4 + 2 if tok == "P" else 0)


def pad_for(progw, progr):
    maxlen = max([wlen(t) for t in progw] + [0])
    nw = sum(steps_bound_w(t) for t in progw)
    nr = sum(steps_bound_r(t, maxlen) for t in progr)
    return nw, nr


def mk_case(flags, progw, progr, sched, S=S_DEFAULT):
    return ["open %d %d 4096" % (S, flags), "progw " + " ".join(progw), "progr " + " ".join(progr),
            "sched " + sched, "drain"]


def finish(sched, progw, progr, first="w"):
    """append enough steps for both programs to finish (extra characters are stutter steps)"""
    nw, nr = pad_for(progw, progr)
    return sched + ("w" * nw + "r" * nr if first == "w" else "r" * nr + "w" * nw)


# ----------------------------------------------------------------------------- enumeration patterns
def patterns(thorough=False):
    """(name, progw, progr, preNW, preNR): the first preNW writes and preNR reads run sequentially
    (they move the pointers / fill the ring), the rest is interleaved in every way."""
    big = "w:" + hexbytes(4000, 3)
    P = [
        ("small", ["w:0102030405", "w:" + MAGIC], ["r:100", "p"], 0, 0),
        ("fine", ["f:0102030405", "f:" + MAGIC + MAGIC], ["P", "r:100"], 0, 0),
        # write_pt = 1002 after the preamble, 1023 after the 76-byte chunk: the next header
        # straddles the end of the buffer (size word at 1023, magic word at 0)
        ("wrap", [big, "w:" + hexbytes(76, 5), "w:" + MAGIC + DEAD], ["r:5000", "r:100", "p"], 1, 1),
        # 4084 bytes = 1023 words: the ring is completely full, the second write is refused until
        # the reader has advanced read_pt; the next-magic store of commit is skipped
        ("full", ["w:" + hexbytes(4084, 7), "w:0a0b0c0d0e"], ["r:5000", "r:100"], 0, 0),
        ("zero-unaligned", ["w:-", "f:010203"], ["p", "P"], 0, 0),
        ("short-buffer", ["w:0102030405", "w:06"], ["r:3", "r:10"], 0, 0),
        # D1: the payload word MAGIC of the first chunk lies exactly under the magic word of the header
        # position that follows the 4080-byte chunk (write_pt = 2 after it); the reader polls meanwhile
        ("d1", ["w:04000000" + MAGIC, "w:" + hexbytes(4080, 4)], ["r:5000", "r:5000", "p"], 1, 1),
    ]
    if thorough:
        P += [
            ("full-4081", ["w:" + hexbytes(4081, 9), "f:0a0b0c0d0e"], ["p", "r:100"], 0, 0),
            ("wrap-fine", [big, "w:" + hexbytes(76, 5), "f:" + MAGIC + ALLOC + "ee"], ["r:5000", "P", "P"], 1, 1),
            ("refuse", ["w:" + hexbytes(2000, 1), "w:" + hexbytes(2100, 2), "w:0102"], ["r:5000", "p"], 1, 0),
            ("three", ["w:0102030405", "w:" + MAGIC, "f:0607"], ["r:100", "p", "P"], 0, 0),
            ("three-wrap", [big, "w:" + hexbytes(76, 5), "w:" + MAGIC + DEAD, "f:01"], ["r:5000", "r:100", "p", "P"], 1, 1),
        ]
    return P


def bounded_switch(prefix, a_max, b_max, k, rng=None, cap=None):
    """all schedules prefix + w^a r^b [w^c] … / r^a w^b [r^c] … with at most k context switches
    before the final run-to-completion padding (added by the caller via finish())."""
    out = []
    for a in range(0, a_max + 1):
        for b in range(1, b_max + 1):
            out.append((prefix + "w" * a + "r" * b, "w"))
            if a > 0:
                out.append((prefix + "r" * b + "w" * a, "r"))
    if k >= 3:
        for a in range(1, a_max + 1):
            for b in range(1, b_max + 1):
                for c in range(1, a_max - a + 1):
                    out.append((prefix + "w" * a + "r" * b + "w" * c, "r"))
                for c in range(1, b_max - b + 1):
                    out.append((prefix + "r" * b + "w" * a + "r" * c, "w"))
    if cap and len(out) > cap and rng:
        out = rng.sample(out, cap)
    return out


# ----------------------------------------------------------------------------- random cases
def rand_payload(rng, n):
    if n == 0:
        return "-"
    words = []
    for i in range((n + 3) // 4):
        x = rng.random()
        if x < 0.12:
            words.append(MAGIC)
        elif x < 0.16:
            words.append(DEAD)
        elif x < 0.19:
            words.append(ALLOC)
        elif x < 0.25:
            words.append("%02x000000" % rng.choice([0, 1, 4, 5, 8]))   # plausible length words
        else:
            words.append("%08x" % rng.getrandbits(32))
    return "".join(words)[:2 * n]


def rand_len(rng):
    x = rng.random()
    if x < 0.08:
        return 0
    if x < 0.55:
        return rng.randint(1, 24)
    if x < 0.75:
        return rng.randint(25, 200)
    if x < 0.93:
        return rng.randint(600, 1800)
    return rng.choice([3000, 3500, 4000, 4080, 4081, 4083, 4084, 4085, 4090])


def bursty(rng, n):
    out = []
    t = rng.choice("wr")
    while len(out) < n:
        x = rng.random()
        run = 1 if x < 0.45 else (rng.randint(2, 5) if x < 0.8 else rng.randint(6, 40))
        out.append(t * run)
        t = "r" if t == "w" else "w"
    return "".join(out)[:n]


def gen_random_case(rng):
    flags = rng.choice([SEM, NOSEM])
    nw = rng.randint(5, 12)
    progw = []
    for _ in range(nw):
        n = rand_len(rng)
        kind = "f" if (n <= 48 and rng.random() < 0.4) else "w"
        progw.append("%s:%s" % (kind, rand_payload(rng, n)))
    nr = rng.randint(nw, nw + 4)
    progr = []
    for _ in range(nr):
        x = rng.random()
        if x < 0.45:
            progr.append("r:%d" % (5000 if rng.random() < 0.8 else rng.choice([0, 3, 8, 100, 1000])))
        elif x < 0.75:
            progr.append("p")
        else:
            progr.append("P" if max(wlen(t) for t in progw) <= 256 else "p")
    bw, br = pad_for(progw, progr)
    sched = bursty(rng, rng.randint((bw + br) // 3, bw + br))
    return mk_case(flags, progw, progr, finish(sched, progw, progr, rng.choice("wr")))


# ----------------------------------------------------------------------------- parsing outputs
def parse_ops(ops):
    d = {"flags": None, "progw": [], "progr": [], "sched": ""}
    for l in ops:
        t = l.split()
        if not t:
            continue
        if t[0] == "open":
            d["S"] = int(t[1])
            d["flags"] = int(t[2])
        elif t[0] == "progw":
            d["progw"] = t[1:]
        elif t[0] == "progr":
            d["progr"] = t[1:]
        elif t[0] == "sched":
            d["sched"] += t[1]
    return d


def unhex(h):
    return b"" if h == "-" else bytes.fromhex(h)


def fifo_oracle(ops, out):
    """The property C01 evaluated on the implementation's own output.  None = holds."""
    d = parse_ops(ops)
    sem_mode = (d["flags"] & 16) == 0
    payloads = [unhex(t.split(":", 1)[1]) for t in d["progw"]]
    wres, rres, drained = [], [], []
    drain_end = None
    final = None
    events = []            # ('W'|'R', index of result) and step markers, in output order
    for l in out:
        if l.startswith(("SAN:", "CRASH", "TIMEOUT")):
            return "implementation run ended with " + l
        if l.startswith("W "):
            wres.append(l[2:])
            events.append(("W", len(wres) - 1))
        elif l.startswith("R "):
            rres.append(l[2:])
            events.append(("R", len(rres) - 1))
        elif l.startswith("r "):
            events.append(("rstep", int(l.split()[1])))
        elif l.startswith("drain-end"):
            drain_end = l.split()[1] if len(l.split()) > 1 else ""
        elif l.startswith("drain-notquiescent"):
            return "programs did not finish within the schedule (harness/generator problem?)"
        elif l.startswith("drain "):
            t = l.split()
            drained.append(unhex(t[2]))
        elif l.startswith("final "):
            final = l.split()
        elif l.startswith("bad-op"):
            return "harness rejected an op line"
    if len(wres) != len(d["progw"]):
        return "writer completed %d of %d calls" % (len(wres), len(d["progw"]))
    if len(rres) != len(d["progr"]):
        return "reader completed %d of %d calls" % (len(rres), len(d["progr"]))
    wok = []
    for i, r in enumerate(wres):
        if r == "EAGAIN":
            continue
        if r != str(len(payloads[i])):
            return "write #%d of %d bytes returned %s" % (i + 1, len(payloads[i]), r)
        wok.append(payloads[i])
    # walk the events in time order: what may each read result be
    nread = 0                 # chunks returned so far
    wdone = 0                 # successful writes that had RETURNED
    wdone_at_start = 0        # ... when the current reader call started
    wi = 0
    reader_in_call = False
    for kind, x in events:
        if kind == "W":
            if wres[x] != "EAGAIN":
                wdone += 1
            wi += 1
        elif kind == "rstep":
            if not reader_in_call:
                # first step of a call: started from the state before this step; the step lines are
                # printed after the step, so use the count valid before it (writes completed earlier)
                reader_in_call = True
                wdone_at_start = wdone
        elif kind == "R":
            reader_in_call = False
            res = rres[x]
            op = d["progr"][x]
            t = res.split()
            if t[0].isdigit():
                got = unhex(t[1]) if len(t) > 1 else b""
                if int(t[0]) != len(got):
                    return "read #%d: length %s but %d bytes" % (x + 1, t[0], len(got))
                if nread >= len(wok):
                    return "read #%d returned a chunk (%d bytes) that was never written (phantom or duplicate)" % (x + 1, len(got))
                if got != wok[nread]:
                    exp = wok[nread]
                    why = "torn/damaged" if len(got) == len(exp) else "wrong chunk"
                    if got in wok[:nread]:
                        why = "duplicate of an already consumed chunk"
                    elif got in wok[nread + 1:]:
                        why = "out of order"
                    return "read #%d returned %d bytes %s..., expected chunk #%d (%d bytes %s...): %s" % (
                        x + 1, len(got), got[:8].hex(), nread + 1, len(exp), exp[:8].hex(), why)
                if op.startswith("r:") and int(op[2:]) < len(got):
                    return "read #%d returned %d bytes into a %s-byte buffer" % (x + 1, len(got), op[2:])
                nread += 1
            elif t[0] in ("ETIMEDOUT", "timeout", "EBADMSG"):
                if t[0] == "EBADMSG" and (sem_mode or not op.lower().startswith("p")):
                    return "read #%d returned EBADMSG (%s mode, op %s)" % (x + 1, "semaphore" if sem_mode else "no-semaphore", op)
                if t[0] == "timeout" and not sem_mode:
                    return "peek returned 0/NULL without a semaphore"
                if wdone_at_start > nread:
                    return ("read #%d found nothing (%s) although write(s) had returned success before it started "
                            "and %d chunk(s) were unread" % (x + 1, t[0], wdone_at_start - nread))
            elif t[0] == "ENOBUFS":
                if not op.startswith("r:"):
                    return "ENOBUFS from a peek"
                if nread >= len(wok):
                    return "read #%d: ENOBUFS for a chunk that was never written" % (x + 1)
                if int(op[2:]) >= len(wok[nread]):
                    return "read #%d: ENOBUFS although the next chunk (%d bytes) fits %s" % (x + 1, len(wok[nread]), op[2:])
            else:
                return "read #%d returned %s" % (x + 1, res)
    if drain_end is None:
        return "no drain result"
    rest = wok[nread:]
    if drained != rest:
        if len(drained) < len(rest):
            return "at quiescence %d written chunk(s) are not readable (lost): drained %d of %d" % (
                len(rest) - len(drained), len(drained), len(rest))
        for i, (a, b) in enumerate(zip(drained, rest)):
            if a != b:
                return "at quiescence unread chunk #%d is damaged: got %d bytes %s..., expected %d bytes %s..." % (
                    nread + i + 1, len(a), a[:8].hex(), len(b), b[:8].hex())
        return "at quiescence %d extra chunk(s) are readable that were never written" % (len(drained) - len(rest))
    if drain_end != "ETIMEDOUT":
        return "drain ended with %s" % drain_end
    if final and sem_mode and final[3] != "0":
        return "semaphore value %s after everything was read" % final[3]
    return None


def tags(ops, out):
    d = parse_ops(ops)
    t = set()
    last_wp = None
    prev = None
    for l in out:
        c = l[:2]
        if c in ("w ", "r "):
            f = l.split()
            wp = int(f[3])
            if last_wp is not None and wp < last_wp:
                t.add("wrap")
            last_wp = wp
            if prev is not None and prev[0] != f[0] and prev[1] != "0" and f[1] != "0":
                t.add("interleaved-mid-call")
            prev = (f[0], f[1])
        elif l == "W EAGAIN":
            t.add("refusal")
        elif l == "R ENOBUFS":
            t.add("enobufs")
        elif l in ("R ETIMEDOUT", "R timeout", "R EBADMSG"):
            t.add("empty-read")
        elif l.startswith("W ") and l[2:].isdigit() and int(l[2:]) >= 4081:
            t.add("full-ring")
    for tok in d["progw"]:
        if MAGIC in tok:
            t.add("marker-payload")
        if wlen(tok) % 4:
            t.add("unaligned")
        if tok.startswith("f:"):
            t.add("fine-copy")
        if wlen(tok) == 0:
            t.add("zero-length")
    if (d["flags"] & 16):
        t.add("no-semaphore")
    else:
        t.add("semaphore")
    return t


# ----------------------------------------------------------------------------- T: source scanner
FUNCS = ["qb_rb_space_free", "qb_rb_chunk_alloc", "qb_rb_chunk_step", "qb_rb_chunk_commit", "qb_rb_chunk_write",
         "_rb_chunk_reclaim", "qb_rb_chunk_peek", "qb_rb_chunk_read"]


def _strip_comments(s):
    s = re.sub(r"/\*.*?\*/", " ", s, flags=re.S)
    return re.sub(r"//[^\n]*", " ", s)


def _balanced(s, i, open_c, close_c):
    """s[i] == open_c; index just after the matching close"""
    depth = 0
    j = i
    while j < len(s):
        if s[j] == open_c:
            depth += 1
        elif s[j] == close_c:
            depth -= 1
            if depth == 0:
                return j + 1
        j += 1
    return len(s)


def _remove_calls(s, name):
    while True:
        m = re.search(r"\b" + re.escape(name) + r"\s*\(", s)
        if not m:
            return s
        e = _balanced(s, m.end() - 1, "(", ")")
        s = s[:m.start()] + " " + s[e:]


def _remove_if_block(s, cond_regex, keep_else=False):
    """remove `if (<cond>) { … }`; with keep_else the else-block's content is kept in place"""
    while True:
        m = re.search(r"if\s*\(\s*" + cond_regex + r"\s*\)\s*\{", s)
        if not m:
            return s
        e = _balanced(s, m.end() - 1, "{", "}")
        rest = s[e:]
        m2 = re.match(r"\s*else\s*\{", rest)
        if keep_else and m2:
            e2 = _balanced(rest, m2.end() - 1, "{", "}")
            s = s[:m.start()] + rest[m2.end():e2 - 1] + rest[e2:]
        else:
            s = s[:m.start()] + " " + rest


def function_body(src, name):
    m = re.search(r"^" + re.escape(name) + r"\s*\(", src, flags=re.M)
    if not m:
        return None
    i = src.find("{", m.end())
    if i < 0:
        return None
    return src[i:_balanced(src, i, "{", "}")]


def hook_ids(repo):
    ids = {}
    p = os.path.join(repo, "lib", "verif_hooks.h")
    if not os.path.exists(p):
        return ids
    for m in re.finditer(r"\b(QB_VP_\w+)\s*=\s*(\d+)", _strip_comments(open(p).read())):
        ids[m.group(1)] = int(m.group(2))
    return ids


TOKEN_RE = re.compile(
    r"(?P<pt>QB_VERIF_POINT\s*\(\s*(?P<ptid>\w+))"
    r"|(?P<hst>rb->shared_hdr->(?P<hstn>write_pt|read_pt)\s*=(?!=))"
    r"|(?P<hld>rb->shared_hdr->(?P<hldn>write_pt|read_pt)\b)"
    r"|(?P<szst>rb->shared_data\s*\[\s*\w+\s*\]\s*=(?!=)\s*(?P<szv>\w+))"
    r"|(?P<szld>QB_RB_CHUNK_SIZE_GET\s*\()"
    r"|(?P<mgld>QB_RB_CHUNK_MAGIC_GET\s*\()"
    r"|(?P<mgst>QB_RB_CHUNK_MAGIC_SET\s*\(\s*\w+\s*,\s*\w+\s*,\s*QB_RB_CHUNK_MAGIC(?P<mgv>_\w+)?\s*\))"
    r"|(?P<call>\b(?P<cn>qb_rb_chunk_step|qb_rb_space_free|qb_rb_chunk_alloc|qb_rb_chunk_commit|_rb_chunk_reclaim)\s*\()"
    r"|(?P<memcpy>\bmemcpy\s*\()"
    r"|(?P<wait>notifier\.timedwait_fn\s*\()"
    r"|(?P<post>notifier\.post_fn\s*\()"
    r"|(?P<qlen>notifier\.q_len_fn\s*\()")

CALLN = {"qb_rb_chunk_step": "chunk_step", "qb_rb_space_free": "space_free", "qb_rb_chunk_alloc": "alloc",
         "qb_rb_chunk_commit": "commit", "_rb_chunk_reclaim": "reclaim"}


def scan_source(repo):
    """{function: 'tok tok …'} derived from the current text of lib/ringbuffer.c"""
    src = _strip_comments(open(os.path.join(repo, "lib", "ringbuffer.c")).read())
    ids = hook_ids(repo)
    res = {}
    for fn in FUNCS:
        b = function_body(src, fn)
        if b is None:
            res[fn] = "<function not found>"
            continue
        b = b[1:]
        for name in ("DEBUG_PRINTF", "qb_util_log", "qb_util_perror"):
            b = _remove_calls(b, name)
        b = _remove_if_block(b, r"rb->flags\s*&\s*QB_RB_FLAG_OVERWRITE", keep_else=True)
        b = _remove_if_block(b, r"rb->notifier\.space_used_fn")
        b = _remove_if_block(b, r"rb->notifier\.reclaim_fn")
        toks = []
        for m in TOKEN_RE.finditer(b):
            if m.group("pt"):
                toks.append("P%s" % ids.get(m.group("ptid"), "?" + m.group("ptid")))
            elif m.group("hst"):
                toks.append("store:" + m.group("hstn"))
            elif m.group("hld"):
                toks.append("load:" + m.group("hldn"))
            elif m.group("szst"):
                toks.append("store:size=" + m.group("szv"))
            elif m.group("szld"):
                toks.append("load:size")
            elif m.group("mgld"):
                toks.append("load:magic")
            elif m.group("mgst"):
                toks.append("store:magic=" + (m.group("mgv")[1:] if m.group("mgv") else "MAGIC"))
            elif m.group("call"):
                toks.append("call:" + CALLN[m.group("cn")])
            elif m.group("memcpy"):
                toks.append("memcpy")
            elif m.group("wait"):
                toks.append("wait")
            elif m.group("post"):
                toks.append("post")
            elif m.group("qlen"):
                toks.append("qlen")
        res[fn] = " ".join(toks)
    return res


def parse_steplist(lines):
    res = {}
    for l in lines:
        if ":" in l and not l.startswith("case"):
            fn, _, rest = l.partition(":")
            res[fn.strip()] = " ".join(rest.split())
    return res
