"""Generators and the FIFO oracle for the sequential ring-buffer streams (C07, C11)."""
import os

PAGE = os.sysconf("SC_PAGESIZE")
MAGICS = ["a1a1a1a1", "d0d0d0d0", "d0ce10a1"]   # little-endian bytes of MAGIC, DEAD, ALLOC


def payload(rng, n, S):
    """n bytes as hex; seeded with marker constants and plausible length words."""
    if n == 0:
        return "-"
    kind = rng.random()
    if kind < 0.35:
        b = bytearray(rng.getrandbits(8) for _ in range(n))
    elif kind < 0.55:
        b = bytearray()
        while len(b) < n:
            b += bytes.fromhex(rng.choice(MAGICS))
        b = b[:n]
    elif kind < 0.75:
        # words that look like a chunk header: small length followed by MAGIC
        b = bytearray()
        while len(b) < n:
            b += int(rng.choice([0, 1, 4, 5, 8, 12, n % 64])).to_bytes(4, "little") + bytes.fromhex("a1a1a1a1")
        b = b[:n]
    else:
        b = bytearray([rng.getrandbits(8)] * n)
        for _ in range(min(4, n // 4)):
            o = 4 * rng.randrange(0, max(1, n // 4))
            b[o:o + 4] = bytes.fromhex(rng.choice(MAGICS))
        b = b[:n]
    return bytes(b).hex()


def pick_size(rng):
    r = rng.random()
    if r < 0.30:
        return rng.choice([PAGE - 13 - 2, PAGE - 13 - 1, PAGE - 13, PAGE - 13 + 1, PAGE - 16, 2 * PAGE - 13, 2 * PAGE - 12])
    if r < 0.55:
        return rng.randrange(1, 200)
    if r < 0.85:
        return rng.randrange(200, PAGE)
    return rng.randrange(PAGE, 3 * PAGE)


def words_of(S):
    real = ((S + 13) + PAGE - 1) // PAGE * PAGE
    return real // 4


def gen_case(rng, overwrite=False, nops=None, nosem=None):
    S = pick_size(rng)
    W = words_of(S)
    if nosem is None:
        nosem = rng.random() < 0.6
    flags = (2 if overwrite else 0) | (0x10 if nosem else 0)
    ops = ["open %d %d %d" % (S, flags, PAGE)]
    nops = nops or rng.randrange(5, 60)
    style = rng.random()
    queued = 0   # rough estimate of bytes queued, for steering
    peeked = False
    for _ in range(nops):
        r = rng.random()
        # length distribution: steer towards the interesting regions
        def length():
            x = rng.random()
            if x < 0.15:
                return rng.choice([0, 1, 2, 3, 4, 5, 7, 8])
            if x < 0.35:
                return rng.randrange(0, 64)
            if x < 0.55:
                return max(0, min(S + 20, S - rng.randrange(0, 24)))
            if x < 0.70:
                return max(0, 4 * W - queued - rng.randrange(0, 40))     # around the refusal boundary
            if x < 0.80:
                return S + rng.randrange(0, 3 * PAGE)
            return rng.randrange(0, max(1, S))
        wprob = 0.55 if style < 0.5 else (0.75 if style < 0.8 else 0.35)
        if r < wprob:
            n = length()
            if n > 5 * PAGE:
                n = 5 * PAGE
            ops.append("write " + payload(rng, n, S))
            queued += n + 8
        elif r < wprob + 0.25:
            c = rng.random()
            cap = 4 * W + 64 if c < 0.8 else rng.randrange(0, 64)
            ops.append("read %d" % cap)
            queued = max(0, queued - 64)
        elif r < wprob + 0.35:
            ops.append("peek")
            if rng.random() < 0.85:
                ops.append("reclaim")
        elif r < wprob + 0.38 and nosem:
            ops.append("reclaim")
        elif r < wprob + 0.42:
            ops.append("free")
        elif r < wprob + 0.45:
            ops.append("used")
        else:
            # drain
            for _ in range(rng.randrange(1, 6)):
                ops.append("read %d" % (4 * W + 64))
            queued = 0
    # final drain so that everything written is observed
    for _ in range(rng.randrange(0, 8)):
        ops.append("read %d" % (4 * W + 64))
    return ops


def parse_data(line):
    """'n HEX' -> (n, hex) or None"""
    p = line.split()
    if len(p) == 2 and p[0].isdigit():
        return int(p[0]), ("" if p[1] == "-" else p[1])
    return None


def fifo_oracle(ops, out, overwrite=False):
    """The property evaluated on the implementation's own output.
    Non-overwrite (C07): write result must be len or EAGAIN, EAGAIN only when the 16-byte
    accounting says it does not fit; reads/peeks return the head of the queue of accepted
    writes, byte for byte; ENOBUFS leaves the chunk; ETIMEDOUT (no semaphore) only when empty.
    Overwrite (C11): every write <= S succeeds; contents = newest suffix covering all that fit."""
    if not ops or not ops[0].startswith("open"):
        return None
    o = ops[0].split()
    S = int(o[1])
    flags = int(o[2])
    nosem = bool(flags & 0x10)
    if len(out) < 1 or not out[0].startswith("ok"):
        return "open failed: %r" % (out[:1],)
    q = []          # accepted, unread chunks (hex strings)
    sem = 0         # semaphore value when present
    peeked = None
    for i, op in enumerate(ops[1:], 1):
        if i >= len(out):
            return "op %d (%s): no output (implementation died: %s)" % (i, op.split()[0], out[-1] if out else "")
        res = out[i]
        t = op.split()
        if res.startswith("SAN:") or res.startswith("CRASH") or res.startswith("TIMEOUT"):
            return "op %d (%s): %s" % (i, t[0], res)
        if t[0] == "write":
            h = "" if t[1] == "-" else t[1]
            n = len(h) // 2
            if res == str(n):
                if overwrite:
                    # oldest chunks may have been overwritten; handled on read
                    q.append(h)
                else:
                    q.append(h)
                sem += 1
            elif res == "EAGAIN" and not overwrite:
                fits = sum(len(c) // 2 + 16 for c in q) + n + 16 <= S
                if not q and n <= S:
                    return "op %d: write of %d bytes refused by an EMPTY ring created for S=%d" % (i, n, S)
                if fits:
                    return "op %d: write of %d bytes refused although %d unread chunks + it fit in S=%d with 16 bytes overhead each" % (i, n, len(q), S)
            elif overwrite and n > S and res in ("EINVAL", "EAGAIN"):
                pass
            else:
                return "op %d: write of %d bytes returned %s" % (i, n, res)
        elif t[0] in ("read", "peek"):
            d = parse_data(res)
            if d is not None:
                n, h = d
                if overwrite:
                    # drop overwritten (oldest) chunks: the returned chunk must be some queued
                    # chunk, and everything older than it is gone for good
                    while q and q[0] != h:
                        q.pop(0)
                    if not q:
                        return "op %d: %s returned a chunk (%d bytes) that is not any retained written chunk" % (i, t[0], n)
                else:
                    if not q:
                        return "op %d: %s returned a %d-byte chunk from an empty ring (phantom chunk)" % (i, t[0], n)
                    if q[0] != h or n != len(h) // 2:
                        return "op %d: %s returned %d bytes that differ from the oldest unread chunk (%d bytes)" % (i, t[0], n, len(q[0]) // 2)
                if t[0] == "read":
                    cap = int(t[1])
                    if n > cap:
                        return "op %d: read returned %d bytes into a %d-byte buffer" % (i, n, cap)
                    q.pop(0)
                sem = max(0, sem - 1)
            elif res == "ENOBUFS" and t[0] == "read":
                if not overwrite and (not q or len(q[0]) // 2 <= int(t[1])):
                    return ("op %d: ENOBUFS from an empty ring (phantom chunk)" % i) if not q else ("op %d: ENOBUFS although the oldest chunk fits" % i)
            elif res in ("ETIMEDOUT", "timeout", "EBADMSG"):
                if nosem and q and not overwrite:
                    return "op %d: %s reported %s although %d chunks are unread" % (i, t[0], res, len(q))
                if res == "EBADMSG" and not nosem and not overwrite:
                    # semaphore said there is a chunk but the head is not valid
                    if q:
                        return "op %d: EBADMSG with %d unread chunks" % (i, len(q))
            else:
                return "op %d: %s returned %s" % (i, t[0], res)
        elif t[0] == "reclaim":
            if q and not overwrite:
                q.pop(0)
            elif q and overwrite:
                q.pop(0) if False else None
    return None


def tags(ops, out):
    t = set()
    if any(r == "EAGAIN" for r in out):
        t.add("refused")
    if any(r == "ENOBUFS" for r in out):
        t.add("short-read")
    if any(r in ("ETIMEDOUT", "timeout") for r in out):
        t.add("empty-read")
    nw = sum(1 for op, r in zip(ops, out) if op.startswith("write") and r.isdigit())
    if nw >= 3:
        t.add("multi-chunk")
    if any(op.startswith("write") and ("a1a1a1a1" in op) for op in ops):
        t.add("magic-in-payload")
    if any(op.startswith("write") and op.split()[1] != "-" and (len(op.split()[1]) // 2) % 4 for op in ops):
        t.add("unaligned-len")
    return t
