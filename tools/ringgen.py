"""Generators and the property oracle for the sequential ring-buffer streams (C07, C11).

Op lines (driver `ring` / harness rb_seq): open S FLAGS PAGE; write HEX; alloc N; commit HEX;
read CAP; peek; reclaim; free; used; ptrs; sem.  `alloc N` + `commit HEX` is the two-phase write
(`qb_rb_chunk_alloc(N)`, memcpy, `qb_rb_chunk_commit(len)`, len <= N); ill-formed uses (alloc or
write while an allocation is pending, commit without one or longer than allocated) are answered
`bad-op` by both sides and not executed.
"""
import os

PAGE = os.sysconf("SC_PAGESIZE")
MAGICS = ["a1a1a1a1", "d0d0d0d0", "d0ce10a1"]   # little-endian bytes of MAGIC, DEAD, ALLOC


def payload(rng, n, S):
    """n bytes as hex; seeded with marker constants and plausible length words."""
    if n == 0:
        return "-"
    kind = rng.random()
    if kind < 0.35:
        b = bytearray(rng.getrandbits(8) for _ in range(n))
    elif kind < 0.55:
        b = bytearray()
        while len(b) < n:
            b += bytes.fromhex(rng.choice(MAGICS))
        b = b[:n]
    elif kind < 0.75:
        # words that look like a chunk header: small length followed by MAGIC
        b = bytearray()
        while len(b) < n:
            b += int(rng.choice([0, 1, 4, 5, 8, 12, n % 64])).to_bytes(4, "little") + bytes.fromhex("a1a1a1a1")
        b = b[:n]
    else:
        b = bytearray([rng.getrandbits(8)] * n)
        for _ in range(min(4, n // 4)):
            o = 4 * rng.randrange(0, max(1, n // 4))
            b[o:o + 4] = bytes.fromhex(rng.choice(MAGICS))
        b = b[:n]
    return bytes(b).hex()


def pick_size(rng):
    r = rng.random()
    if r < 0.30:
        return rng.choice([PAGE - 13 - 2, PAGE - 13 - 1, PAGE - 13, PAGE - 13 + 1, PAGE - 16, 2 * PAGE - 13, 2 * PAGE - 12])
    if r < 0.55:
        return rng.randrange(1, 200)
    if r < 0.85:
        return rng.randrange(200, PAGE)
    return rng.randrange(PAGE, 3 * PAGE)


def words_of(S):
    real = ((S + 13) + PAGE - 1) // PAGE * PAGE
    return real // 4


def gen_case(rng, overwrite=False, nops=None, nosem=None):
    S = pick_size(rng)
    W = words_of(S)
    if nosem is None:
        nosem = rng.random() < 0.6
    flags = (2 if overwrite else 0) | (0x10 if nosem else 0)
    ops = ["open %d %d %d" % (S, flags, PAGE)]
    nops = nops or rng.randrange(5, 60)
    style = rng.random()
    twophase = rng.random() < 0.7          # this case uses alloc+commit at all
    queued = [0]   # rough estimate of bytes queued, for steering
    big = 4 * W + 64

    def length():
        x = rng.random()
        if x < 0.15:
            return rng.choice([0, 1, 2, 3, 4, 5, 7, 8])
        if x < 0.35:
            return rng.randrange(0, 64)
        if x < 0.55:
            return max(0, min(S + 20, S - rng.randrange(0, 24)))
        if x < 0.70:
            return max(0, 4 * W - queued[0] - rng.randrange(0, 40))     # around the refusal / drop boundary
        if x < 0.80:
            return S + rng.randrange(0, 3 * PAGE)
        return rng.randrange(0, max(1, S))

    def reader_op():
        c = rng.random()
        if c < 0.6:
            ops.append("read %d" % (big if rng.random() < 0.8 else rng.randrange(0, 64)))
        elif c < 0.9:
            ops.append("peek")
            if rng.random() < 0.85:
                ops.append("reclaim")
        else:
            ops.append("free")

    for _ in range(nops):
        r = rng.random()
        wprob = 0.55 if style < 0.5 else (0.75 if style < 0.8 else 0.35)
        if r < wprob:
            n = min(length(), 5 * PAGE)
            if twophase and rng.random() < 0.5:
                # two-phase write; the committed length is often (much) smaller than the allocated one
                y = rng.random()
                if y < 0.25:
                    ln = n
                elif y < 0.65:
                    ln = max(0, n - rng.choice([1, 2, 3, 4, 5, 7, 8, 9, 12, 16]))
                else:
                    ln = rng.randrange(0, n + 1)
                ops.append("alloc %d" % n)
                z = rng.random()
                if z < 0.25:
                    reader_op()                       # the reader runs between alloc and commit
                elif z < 0.28:
                    ops.append(rng.choice(["alloc 4", "write 00"]))   # ill-formed: both sides say bad-op
                if rng.random() < 0.02:
                    ops.append("commit " + payload(rng, n + 1 + rng.randrange(0, 8), S))   # longer than allocated: bad-op
                ops.append("commit " + payload(rng, ln, S))
                queued[0] += ln + 8
            else:
                ops.append("write " + payload(rng, n, S))
                queued[0] += n + 8
        elif r < wprob + 0.25:
            c = rng.random()
            cap = big if c < 0.8 else rng.randrange(0, 64)
            ops.append("read %d" % cap)
            queued[0] = max(0, queued[0] - 64)
        elif r < wprob + 0.35:
            ops.append("peek")
            if rng.random() < 0.85:
                ops.append("reclaim")
        elif r < wprob + 0.38 and nosem:
            ops.append("reclaim")
        elif r < wprob + 0.42:
            ops.append("free")
        elif r < wprob + 0.45:
            ops.append("used")
        elif r < wprob + 0.46:
            ops.append("commit 00")                   # commit without alloc: bad-op on both sides
        else:
            # drain
            for _ in range(rng.randrange(1, 6)):
                ops.append("read %d" % big)
            queued[0] = 0
    # final drain so that everything still stored is observed
    for _ in range(rng.randrange(0, 8) if not overwrite else rng.randrange(2, 10)):
        ops.append("read %d" % big)
    return ops


def gen_case_ow(rng, nops=None, nosem=None):
    """Overwrite-mode case: mixes tiny and near-capacity chunks and drains the ring at generated points."""
    return gen_case(rng, overwrite=True, nops=nops, nosem=nosem)


def parse_data(line):
    """'n HEX' -> (n, hex) or None"""
    p = line.split()
    if len(p) == 2 and p[0].isdigit():
        return int(p[0]), ("" if p[1] == "-" else p[1])
    return None


def fifo_oracle(ops, out, overwrite=False):
    """The property evaluated on the implementation's own output (independent of the Lean model).

    Knowledge state: `q` = every accepted, not yet consumed chunk (hex), oldest first, and `K` = the
    set of admissible numbers of chunks actually stored (the stored contents are the newest k
    chunks of q for some k in K).  Plain ring (C07): K = {len(q)}; a write/alloc is refused
    (EAGAIN) only when the unread chunks plus the (allocated) length, 16 bytes of overhead each,
    do not fit in S, and never by an empty ring when the length is at most S; a refused write
    changes nothing.  Overwrite ring (C11): every write/alloc of at most S bytes succeeds; it may
    drop oldest chunks, but every run of newest chunks that fits in S together with the new
    (allocated) length by the 16-byte accounting survives, and the new chunk is stored (k >= 1).
    Reads/peeks return the oldest stored chunk byte for byte, ENOBUFS leaves it in place, an empty
    result is only allowed when k = 0 is admissible (or, with a semaphore, when a peeked chunk has
    not been reclaimed)."""
    if not ops or not ops[0].startswith("open"):
        return None
    o = ops[0].split()
    S = int(o[1])
    flags = int(o[2])
    nosem = bool(flags & 0x10)
    if len(out) < 1 or not out[0].startswith("ok"):
        return "open failed: %r" % (out[:1],)
    q = []          # accepted, not yet consumed chunks (hex strings), oldest first
    st = {"K": {0},       # admissible numbers of stored chunks
          "pend": None,   # allocated length of the pending alloc
          "slack": 0}     # successful peeks not (yet) followed by a reclaim (semaphore below chunk count)

    def head(k):
        return q[len(q) - k]

    def fitlen(n):
        """length of the longest suffix of q that fits in S together with a new chunk of n bytes"""
        tot = n + 16
        j = 0
        for c in reversed(q):
            tot += len(c) // 2 + 16
            if tot > S:
                break
            j += 1
        return j

    def trim():
        # chunks older than the largest admissible k are gone for good
        m = max(st["K"])
        if m < len(q):
            del q[:len(q) - m]

    def alloc(i, n, res, what):
        """space rule at alloc time; returns (error, accepted)"""
        K = st["K"]
        if res in ("ok", str(n)) and not (what == "alloc" and res != "ok") and not (what == "write" and res != str(n)):
            if overwrite:
                f = fitlen(n)
                st["K"] = set(range(min(min(K), f), max(K) + 1))
            return None, True
        if overwrite:
            if n <= S:
                return "op %d: %s of %d bytes (<= S=%d) failed with %s in overwrite mode" % (i, what, n, S, res), False
            if res == "EINVAL":
                st["K"] = set(range(0, max(K) + 1))      # the reclaim loop may have dropped anything
                return None, False
            return "op %d: %s of %d bytes returned %s" % (i, what, n, res), False
        if res == "EAGAIN":
            cur = q[len(q) - max(K):] if max(K) else []
            if not cur and n <= S:
                return "op %d: %s of %d bytes refused by an EMPTY ring created for S=%d" % (i, what, n, S), False
            if sum(len(c) // 2 + 16 for c in cur) + n + 16 <= S:
                return ("op %d: %s of %d bytes refused although %d unread chunks + it fit in S=%d with 16 bytes "
                        "overhead each" % (i, what, n, len(cur), S)), False
            return None, False
        return "op %d: %s of %d bytes returned %s" % (i, what, n, res), False

    def push(h):
        q.append(h)
        st["K"] = {k + 1 for k in st["K"]}

    for i, op in enumerate(ops[1:], 1):
        if i >= len(out):
            return "op %d (%s): no output (implementation died: %s)" % (i, op.split()[0], out[-1] if out else "")
        res = out[i]
        t = op.split()
        if res.startswith("SAN:") or res.startswith("CRASH") or res.startswith("TIMEOUT"):
            return "op %d (%s): %s" % (i, t[0], res)
        if t[0] == "write":
            if st["pend"] is not None:
                if res != "bad-op":
                    return "op %d: write while an allocation is pending was executed (%s)" % (i, res)
                continue
            h = "" if t[1] == "-" else t[1]
            n = len(h) // 2
            err, ok = alloc(i, n, res, "write")
            if err:
                return err
            if ok:
                push(h)
            trim()
        elif t[0] == "alloc":
            if st["pend"] is not None:
                if res != "bad-op":
                    return "op %d: alloc while an allocation is pending was executed (%s)" % (i, res)
                continue
            n = int(t[1])
            err, ok = alloc(i, n, res, "alloc")
            if err:
                return err
            if ok:
                st["pend"] = n
            trim()
        elif t[0] == "commit":
            h = "" if t[1] == "-" else t[1]
            n = len(h) // 2
            if st["pend"] is None or n > st["pend"]:
                if res != "bad-op":
                    return "op %d: ill-formed commit was executed (%s)" % (i, res)
                continue
            if res != "0":
                return "op %d: commit of %d bytes (allocated %d) returned %s" % (i, n, st["pend"], res)
            st["pend"] = None
            push(h)
        elif t[0] in ("read", "peek"):
            K = st["K"]
            d = parse_data(res)
            if d is not None:
                n, h = d
                if n != len(h) // 2:
                    return "op %d: %s returned length %d with %d bytes" % (i, t[0], n, len(h) // 2)
                cand = {k for k in K if k >= 1 and head(k) == h}
                if not cand:
                    if not any(k >= 1 for k in K):
                        return "op %d: %s returned a %d-byte chunk from an empty ring (phantom chunk)" % (i, t[0], n)
                    return ("op %d: %s returned %d bytes that are not the oldest stored chunk of any admissible "
                            "contents (oldest unread chunk has %d bytes)" % (i, t[0], n, len(head(max(K))) // 2))
                if t[0] == "read":
                    cap = int(t[1])
                    if n > cap:
                        return "op %d: read returned %d bytes into a %d-byte buffer" % (i, n, cap)
                    st["K"] = {k - 1 for k in cand}
                else:
                    st["K"] = cand
                    st["slack"] += 1
                trim()
            elif res == "ENOBUFS" and t[0] == "read":
                cap = int(t[1])
                cand = {k for k in K if k >= 1 and len(head(k)) // 2 > cap}
                if not cand:
                    if not any(k >= 1 for k in K):
                        return "op %d: ENOBUFS from an empty ring (phantom chunk)" % i
                    return "op %d: ENOBUFS although the oldest chunk fits" % i
                st["K"] = cand
                trim()
            elif res in ("ETIMEDOUT", "timeout", "EBADMSG"):
                empty_ok = 0 in K
                if not empty_ok and nosem:
                    return "op %d: %s reported %s although at least %d chunks are stored" % (i, t[0], res, min(K))
                if not empty_ok and not nosem and st["slack"] == 0:
                    return ("op %d: %s reported %s although at least %d chunks are stored and every peeked chunk "
                            "was reclaimed" % (i, t[0], res, min(K)))
                if empty_ok and nosem:
                    st["K"] = {0}
                    trim()
            else:
                return "op %d: %s returned %s" % (i, t[0], res)
        elif t[0] == "reclaim":
            st["K"] = {max(k - 1, 0) for k in st["K"]}
            trim()
            st["slack"] = max(0, st["slack"] - 1)
    return None


def tags(ops, out):
    t = set()
    if any(r == "EAGAIN" for r in out):
        t.add("refused")
    if any(r == "ENOBUFS" for r in out):
        t.add("short-read")
    if any(r in ("ETIMEDOUT", "timeout") for r in out):
        t.add("empty-read")
    nw = sum(1 for op, r in zip(ops, out) if (op.startswith("write") and r.isdigit()) or (op.startswith("commit") and r == "0"))
    if nw >= 3:
        t.add("multi-chunk")
    if any((op.startswith("write") or op.startswith("commit")) and ("a1a1a1a1" in op) for op in ops):
        t.add("magic-in-payload")
    if any(op.startswith("write") and op.split()[1] != "-" and (len(op.split()[1]) // 2) % 4 for op in ops):
        t.add("unaligned-len")
    # two-phase writes whose committed length is smaller than the allocated one
    last = None
    for op, r in zip(ops, out):
        p = op.split()
        if p[0] == "alloc" and r == "ok":
            last = int(p[1])
        elif p[0] == "commit" and r == "0" and last is not None:
            n = 0 if p[1] == "-" else len(p[1]) // 2
            if n < last:
                t.add("short-commit")
            if n + 8 <= last:
                t.add("short-commit-2words")
            last = None
        elif p[0] in ("read", "peek") and last is not None and r != "bad-op":
            t.add("reader-between-alloc-commit")
    if any(r == "bad-op" for r in out):
        t.add("ill-formed-rejected")
    return t


def tags_ow(ops, out):
    """non-triviality tags for overwrite cases: chunks overwritten, contents read back, oversize"""
    t = tags(ops, out)
    S = int(ops[0].split()[1])
    stored = 0
    for op, r in zip(ops[1:], out[1:]):
        p = op.split()
        if (p[0] == "write" and r.isdigit()) or (p[0] == "commit" and r == "0"):
            n = 0 if p[1] == "-" else len(p[1]) // 2
            stored += n + 8
            if stored > 4 * words_of(S):
                t.add("wrapped-over-old-chunks")
        elif p[0] == "read" and parse_data(r):
            t.add("read-back")
        if r == "EINVAL":
            t.add("oversize-einval")
    return t
