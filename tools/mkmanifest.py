#!/usr/bin/env python3
"""Writes MANIFEST.json from tools/manifest.d/Cxx.json fragments (one per claimed property) and
tools/manifest.d/_not_applicable.json; validates against the schema if jsonschema is available."""
import glob
import json
import os
import subprocess

HERE = os.path.dirname(os.path.abspath(__file__))
ROOT = os.path.dirname(HERE)
ALL = ["C%02d" % i for i in range(1, 21)]


def main():
    checks = []
    claimed = set()
    # fragments are written by the per-property workers; a property is claimed only once the integrator
    # has validated its check (several seeds, green on /repo) and listed it in _claimed.json
    allowed = set(json.load(open(os.path.join(HERE, "manifest.d", "_claimed.json"))))
    for f in sorted(glob.glob(os.path.join(HERE, "manifest.d", "C*.json"))):
        c = json.load(open(f))
        pid = c["property_id"]
        if pid not in allowed:
            continue
        claimed.add(pid)
        c.setdefault("quick_cmd", "./check %s --tier quick" % pid)
        c.setdefault("thorough_cmd", "./check %s --tier thorough" % pid)
        c.setdefault("evidence_file", "/verif/evidence/%s.json" % pid)
        c.setdefault("replay_cmd_template", "./check %s --replay {path}" % pid)
        c.setdefault("engine", "qbverif-lean")
        checks.append(c)
    na_path = os.path.join(HERE, "manifest.d", "_not_applicable.json")
    na_reasons = json.load(open(na_path)) if os.path.exists(na_path) else {}
    na = [{"property_id": p, "reason": na_reasons.get(p, "not yet built in this round: the Lean model, theorems and correspondence harness for this property are not finished; no check is claimed")}
          for p in ALL if p not in claimed]
    hooks_commits = []
    hc = os.path.join(HERE, "manifest.d", "_hook_commits.json")
    if os.path.exists(hc):
        hooks_commits = json.load(open(hc))
    m = {
        "version": 1,
        "setup_cmd": "./tools/setup.sh",
        "hooks": {
            "guard": "CLUSTERLABS_LIBQB_VERIF",
            "enable": "checks compile /repo/lib/*.c themselves with -DCLUSTERLABS_LIBQB_VERIF -fsanitize=address,undefined into /verif/build/<id>-<pid>/ (tools/vlib.py compile_lib); most harnesses need no source hook (libc interposition or #include of the .c file)",
            "baseline_off_cmd": "make -C /repo -j16 && make -C /repo/tests check",
            "source_commits": hooks_commits,
            "add_only": True,
        },
        "engines": [{
            "name": "qbverif-lean",
            "path": "/verif/lean",
            "serves_properties": sorted(claimed),
            "kind_free_text": "Lean 4 library QbVerif: executable models + theorems (kernel-checked, axioms audited on every run); models tied to /repo by constants regenerated from the C sources (tools/extract.py) and by differential / schedule-controlled / trace correspondence against an ASan build of /repo/lib (tools/vlib.py, harness/)",
        }],
        "checks": checks,
        "not_applicable": na,
        "notes": "See DESIGN.md. Every check: regenerates Gen/*.lean from /repo, rebuilds and audits the Lean theorems (#print axioms, grep for sorry/native_decide/...), rebuilds the harness from /repo's working tree, runs corpus + generated cases through implementation and model, evaluates the property oracle on the implementation output. KNOWN_FINDINGS.txt lists recorded defects.",
    }
    out = os.path.join(ROOT, "MANIFEST.json")
    with open(out, "w") as f:
        json.dump(m, f, indent=1)
        f.write("\n")
    try:
        import jsonschema
        jsonschema.validate(m, json.load(open("/root/.vp/MANIFEST.schema.json")))
        print("MANIFEST.json valid; claimed:", " ".join(sorted(claimed)))
    except ImportError:
        r = subprocess.run(["python3-vt", "-c", "import json,jsonschema;jsonschema.validate(json.load(open('%s')),json.load(open('/root/.vp/MANIFEST.schema.json')));print('MANIFEST.json valid')" % out])


if __name__ == "__main__":
    main()
