#!/usr/bin/env python3
"""Generators, log parser and python property oracles for the event-loop checks (C10, C08).

Everything here is independent of the Lean models: the oracles evaluate the property statements
on the implementation's own output (harness/loop/loop_drv.c)."""
import math

LOW, MED, HIGH = 0, 1, 2
LEVELS = (HIGH, MED, LOW)
TICK = 4096          # clock granularity used by the generators (timer durations get a unique
                     # low-order sequence number < TICK added by the harness, so expiry times never tie)


# ----------------------------------------------------------------------------- log parsing
class Iter:
    """one `iterate`: wait timeout, the callbacks in order (with their nested result lines)"""
    def __init__(self):
        self.wait = None
        self.cbs = []        # [kind, id, extra tokens, nested lines]
        self.misc = []       # usleep etc
        self.end = None      # 'done' | 'run-returned' | None (output ended)


class Parsed:
    def __init__(self):
        self.items = []      # ('op', opline, [extra lines], result) | ('iter', opline, Iter)
        self.san = None
        self.complete = True
        self.extra = []


def parse_log(ops, lines):
    """Align op lines with the harness/model output.  Never raises: `complete` is False if the
    output ended early or does not have the expected shape."""
    P = Parsed()
    i = 0
    n = len(lines)
    if n and (lines[-1].startswith("SAN:") or lines[-1].startswith("CRASH") or lines[-1] == "TIMEOUT"
              or lines[-1].startswith("MODEL-EXIT")):
        P.san = lines[-1]
        n -= 1
    for op in ops:
        t = op.split()
        if not t:
            continue
        if i >= n:
            P.complete = False
            break
        if t[0] == "iterate":
            it = Iter()
            if not lines[i].startswith("wait "):
                P.complete = False
                break
            it.wait = lines[i].split()[1]
            i += 1
            while i < n:
                l = lines[i]
                if l in ("done", "run-returned"):
                    it.end = l
                    i += 1
                    break
                if l.startswith("cb "):
                    w = l.split()
                    it.cbs.append([w[1], int(w[2]), w[3:], []])
                elif l.startswith("> "):
                    if it.cbs:
                        it.cbs[-1][3].append(l[2:])
                    else:
                        it.misc.append(l)
                else:
                    it.misc.append(l)
                i += 1
            P.items.append(("iter", op, it))
            if it.end is None:
                P.complete = False
                break
        else:
            extra = []
            while i < n and lines[i].startswith("epoll "):
                extra.append(lines[i])
                i += 1
            if i >= n:
                P.complete = False
                break
            P.items.append(("op", op, extra, lines[i]))
            i += 1
    if i < n:
        P.extra = lines[i:n]
    return P


def split_script(op):
    """`script ID [times=R] a b ; c d ; ret X` -> (id, times or None, [op strings], ret)"""
    t = op.split()
    sid = int(t[1])
    k = 2
    times = None
    if k < len(t) and t[k].startswith("times="):
        times = int(t[k][6:])
        k += 1
    body = []
    cur = []
    ret = 0
    for w in t[k:] + [";"]:
        if w == ";":
            if cur:
                if cur[0] == "ret":
                    ret = int(cur[1])
                else:
                    body.append(" ".join(cur))
            cur = []
        else:
            cur.append(w)
    return sid, times, body, ret


# ----------------------------------------------------------------------------- C10: arrivals
class ArrivalSim:
    """Which items ARRIVE in the job lists in which iteration, for add-only workloads (job_add,
    timer_add, poll_add, open, advance, script, iterate).  It does NOT know the dispatch rule of
    the loop (rotation, to_process): which callbacks ran in which iteration is taken from the
    implementation's log.  Used (a) by the C10 oracle to know what was pending when, (b) to feed the
    `sched` model with the same arrivals."""

    def __init__(self):
        self.now = 10 ** 9
        self.tseq = 0
        self.wait = {LOW: [], MED: [], HIGH: []}
        self.timers = []            # (expiry, level, id)
        self.fds = {}               # fd -> (level, id, events)
        self.open = set()
        self.queued_fd = set()      # ids of descriptors currently in a job list
        self.scripts = {}
        self.runs = {}
        self.level = {}             # ('job', id) -> level ...
        self.in_run = False
        self.next_arr = []          # arrivals collected for the coming iteration: (level, kind, id)

    def api(self, op):
        t = op.split()
        o = t[0]
        if o == "script":
            sid, times, body, ret = split_script(op)
            self.scripts[sid] = (times, body, ret)
            self.runs[sid] = 0
        elif o == "job_add":
            p, i = int(t[1]), int(t[2])
            if p in self.wait:
                self.wait[p].append(i)
                self.level[("job", i)] = p
        elif o == "timer_add":
            p, ns, h, i = int(t[1]), int(t[2]), int(t[3]), int(t[4])
            self.tseq += 1
            self.timers.append((self.now + ns + self.tseq, p, i))
            self.level[("timer", i)] = p
        elif o == "open":
            self.open.add(int(t[1]))
        elif o == "poll_add":
            p, fd, ev, i = int(t[1]), int(t[2]), int(t[3]), int(t[4])
            if fd in self.open and fd not in self.fds:
                self.fds[fd] = (p, i, ev)
                self.level[("fd", i)] = p
        elif o == "advance":
            self.now += int(t[1])
        elif o in ("info", "nonce"):
            pass
        else:
            raise ValueError("op outside the C10 workload class: " + op)

    def polls(self):
        """job source poll + timer source poll at the top of an iteration"""
        for p in (LOW, MED, HIGH):
            for i in self.wait[p]:
                self.next_arr.append((p, "job", i))
            self.wait[p] = []
        due = sorted(x for x in self.timers if x[0] < self.now)
        for x in due:
            self.timers.remove(x)
            self.next_arr.append((x[1], "timer", x[2]))

    def begin_iteration(self, op):
        """returns the arrivals of this iteration in queue order"""
        if not self.in_run:
            self.in_run = True
            self.polls()
        seen = set()
        for w in op.split()[1:]:
            fd, _, ev = w.partition(":")
            fd = int(fd)
            ev = int(ev) if ev else 1
            if fd in seen or fd not in self.fds:
                continue
            seen.add(fd)
            p, i, reg = self.fds[fd]
            if not (ev & (reg | 8 | 16)) or i in self.queued_fd:
                continue
            self.queued_fd.add(i)
            self.next_arr.append((p, "fd", i))
        arr = self.next_arr
        self.next_arr = []
        return arr

    def callback(self, kind, i):
        if kind == "fd":
            self.queued_fd.discard(i)
        sc = self.scripts.get(i)
        if sc:
            self.runs[i] += 1
            if sc[0] is None or self.runs[i] <= sc[0]:
                for o in sc[1]:
                    self.api(o)

    def end_iteration(self, end):
        if end == "done":
            self.polls()
        else:
            self.in_run = False


def c10_trace(ops, lines):
    """(per-iteration records, to_process, problem).  A record is
    {'arr': [(level, kind, id)], 'disp': [(level, kind, id)], 'end': ...}."""
    P = parse_log(ops, lines)
    sim = ArrivalSim()
    recs = []
    tp = None
    for it in P.items:
        if it[0] == "op":
            if it[1].split()[0] == "info":
                w = it[3].split()
                if len(w) == 4 and w[0] == "to_process":
                    tp = {HIGH: int(w[1]), MED: int(w[2]), LOW: int(w[3])}
            try:
                sim.api(it[1])
            except ValueError as e:
                return recs, tp, str(e)
        else:
            arr = sim.begin_iteration(it[1])
            disp = []
            for kind, i, extra, nested in it[2].cbs:
                lv = sim.level.get((kind, i))
                disp.append((lv, kind, i))
                sim.callback(kind, i)
            recs.append({"arr": arr, "disp": disp, "end": it[2].end, "wait": it[2].wait})
            sim.end_iteration(it[2].end)
    prob = None
    if P.san:
        prob = "implementation died: " + P.san
    elif not P.complete or P.extra:
        prob = "output does not have the shape one-result-per-op"
    return recs, tp, prob


def c10_oracle(ops, lines):
    """The C10 statement evaluated on the implementation's dispatch log:
       FIFO per level; at most to_process dispatches per level and iteration; every level with
       pending work dispatches at least one item in any three consecutive iterations; whenever a
       level is served, every higher level with pending work is served in the same iteration
       (higher priorities get at least as many opportunities); an item that arrives at position n is
       dispatched within 3*ceil((n+1)/to_process) iterations."""
    recs, tp, prob = c10_trace(ops, lines)
    if prob:
        return prob
    if tp is None:
        tp = {HIGH: 4, MED: 4, LOW: 4}
    q = {LOW: [], MED: [], HIGH: []}          # expected FIFO contents: (kind, id, deadline iteration)
    pends, cnts, stops = [], [], []
    for t, r in enumerate(recs):
        for (p, kind, i) in r["arr"]:
            n = len(q[p])
            dl = t + 3 * math.ceil((n + 1) / max(1, tp[p])) - 1
            q[p].append((kind, i, dl))
        pend = {p: bool(q[p]) for p in q}
        cnt = {LOW: 0, MED: 0, HIGH: 0}
        stopped = r["end"] != "done"
        for (p, kind, i) in r["disp"]:
            if p is None or not q[p]:
                return "iteration %d: callback %s %s dispatched but nothing is pending for it" % (t + 1, kind, i)
            if q[p][0][:2] != (kind, i):
                return "iteration %d: level %d dispatched %s %d but the head of its FIFO is %s %d" % (
                    t + 1, p, kind, i, q[p][0][0], q[p][0][1])
            if t > q[p][0][2] and not any(stops):
                return "iteration %d: %s %d dispatched after its bound (iteration %d)" % (t + 1, kind, i, q[p][0][2] + 1)
            q[p].pop(0)
            cnt[p] += 1
        for p in q:
            if cnt[p] > max(1, tp[p]):
                return "iteration %d: level %d dispatched %d items (to_process %d)" % (t + 1, p, cnt[p], tp[p])
        if not stopped:
            # opportunities: the served levels are upward closed among the levels with pending work
            for lo, hi in ((LOW, MED), (LOW, HIGH), (MED, HIGH)):
                if cnt[lo] > 0 and pend[hi] and cnt[hi] == 0:
                    return "iteration %d: level %d was served but the higher level %d with pending work was not" % (t + 1, lo, hi)
            for p in q:
                if q[p] and t > q[p][0][2] and not any(stops):
                    return "iteration %d: %s %d at the head of level %d is past its bound" % (t + 1, q[p][0][0], q[p][0][1], p)
        pends.append(pend)
        cnts.append(cnt)
        stops.append(stopped)
    # every level with pending work dispatches at least one item in any three consecutive iterations
    for t in range(len(recs) - 2):
        if stops[t] or stops[t + 1] or stops[t + 2]:
            continue
        for p in (LOW, MED, HIGH):
            if pends[t][p] and cnts[t][p] + cnts[t + 1][p] + cnts[t + 2][p] == 0:
                return "level %d had pending work in iteration %d and dispatched nothing in iterations %d..%d" % (
                    p, t + 1, t + 1, t + 3)
    # over the whole run, higher levels with permanent backlog get at least as many dispatches
    return None


def c10_to_sched(ops, lines):
    """op lines for the `sched` model driver carrying the same arrivals, and the expected output
    derived from the implementation's log (served counts + arrival numbers dispatched per level)."""
    recs, tp, prob = c10_trace(ops, lines)
    sops = ["info"] if tp else []
    exp = ["to_process %d %d %d" % (tp[HIGH], tp[MED], tp[LOW])] if tp else []
    num = {}
    nxt = 0
    for r in recs:
        for (p, kind, i) in r["arr"]:
            sops.append("add %d 1" % p)
            exp.append("ok")
            num.setdefault((kind, i), []).append(nxt)
            nxt += 1
        sops.append("iterate")
        ids = {LOW: [], MED: [], HIGH: []}
        for (p, kind, i) in r["disp"]:
            if p is None or not num.get((kind, i)):
                ids.setdefault(p if p is not None else LOW, []).append("?")
            else:
                ids[p].append(str(num[(kind, i)].pop(0)))
        exp.append("served %d %d %d" % (len(ids[HIGH]), len(ids[MED]), len(ids[LOW])))
        exp.append("ids H %s M %s L %s" % (" ".join(ids[HIGH]), " ".join(ids[MED]), " ".join(ids[LOW])))
        if r["end"] != "done":
            break
    return sops, exp


def c10_tags(ops, lines):
    recs, tp, prob = c10_trace(ops, lines)
    tags = set()
    lv_busy = {LOW: 0, MED: 0, HIGH: 0}
    q = {LOW: 0, MED: 0, HIGH: 0}
    for r in recs:
        for (p, k, i) in r["arr"]:
            q[p] += 1
            tags.add("arr-" + k)
        served = {LOW: 0, MED: 0, HIGH: 0}
        for (p, k, i) in r["disp"]:
            if p is not None:
                q[p] -= 1
                served[p] += 1
        if all(q[p] > 0 for p in q):
            tags.add("all-levels-backlogged")
        if q[HIGH] >= 4 and (q[LOW] > 0 or q[MED] > 0):
            tags.add("high-saturated-with-lower-pending")
        for p in q:
            if served[p] == 4:
                tags.add("to_process-reached")
            if q[p] > 8:
                tags.add("deep-queue")
    return tags


def gen_c10_case(rng, iters=None):
    """any mix of self-re-adding jobs, always-ready descriptors, zero-delay timers at the three
    priorities, in any proportion; plus late joiners added while the loop runs"""
    ops = ["info"]
    nid = [1]
    nh = [0]
    nfd = [100]
    fds = []
    later = []

    def new_actor(kind=None, level=None, inside=False):
        kind = kind or rng.choice(["job", "job", "timer", "fd"])
        p = level if level is not None else rng.choice([HIGH, HIGH, MED, LOW])
        i = nid[0]
        nid[0] += 1
        forever = rng.random() < 0.5
        times = "" if forever else "times=%d " % rng.randint(0, 12)
        out = []
        if kind == "job":
            out.append("script %d %sjob_add %d %d" % (i, times, p, i))
            out.append("job_add %d %d" % (p, i))
        elif kind == "timer":
            h = nh[0]
            nh[0] += 1
            # the callback takes some (virtual) time, so a zero-delay re-arm is due at the next poll
            out.append("script %d %stimer_add %d 0 %d %d ; advance %d" % (i, times, p, h, i, TICK))
            out.append("timer_add %d 0 %d %d" % (p, h, i))
            out.append("advance %d" % TICK)
        else:
            if nfd[0] >= 160:
                return new_actor("job", level)
            fd = nfd[0]
            nfd[0] += 1
            out.append("open %d" % fd)
            out.append("poll_add %d %d 1 %d" % (p, fd, i))
            # ready in every iteration, or dropping out after a while
            fds.append((fd, None if forever else rng.randint(1, 30)))
        return out

    shape = rng.random()
    if shape < 0.25:
        # heavy HIGH load, a little work below
        for _ in range(rng.randint(4, 12)):
            ops += new_actor(level=HIGH)
        for _ in range(rng.randint(1, 4)):
            ops += new_actor(level=rng.choice([MED, LOW]))
    elif shape < 0.4:
        for _ in range(rng.randint(5, 14)):
            ops += new_actor(level=rng.choice([HIGH, MED]))
        ops += new_actor(level=LOW)
    else:
        for _ in range(rng.randint(1, 16)):
            ops += new_actor()
    n = iters or rng.randint(6, 40)
    for t in range(n):
        if rng.random() < 0.15:
            for _ in range(rng.randint(1, 5)):
                ops += new_actor()
        ops.append("advance %d" % TICK)
        ready = [fd for fd, until in fds if until is None or t < until]
        if rng.random() < 0.3:
            rng.shuffle(ready)
        if rng.random() < 0.1 and ready:
            ready = ready[:rng.randint(0, len(ready))]
        ops.append("iterate" + "".join(" %d:1" % fd for fd in ready[:11]))
    return ops


# ============================================================================= C08
ERRS = ("EINVAL", "ENOENT", "EBADF", "EEXIST")


def c08_walk(ops, lines):
    """Yield the history as a flat sequence of steps, in execution order:
       ('op', ctx, optext, result)      ctx = None (outside callbacks) or (kind, id) of the running callback
       ('iter-begin', n, ready) / ('cb', kind, id, extra) / ('cb-end', kind, id, ret) / ('iter-end', n, end, wait)
    Also returns (steps, problem)."""
    P = parse_log(ops, lines)
    steps = []
    scripts = {}
    runs = {}
    n = 0
    prob = None
    for it in P.items:
        if it[0] == "op":
            t = it[1].split()
            if t[0] == "script":
                sid, times, body, ret = split_script(it[1])
                scripts[sid] = (times, body, ret)
                runs[sid] = 0
                continue
            steps.append(("op", None, it[1], it[3]))
        else:
            n += 1
            ready = []
            for w in it[1].split()[1:]:
                fd, _, ev = w.partition(":")
                ready.append((int(fd), int(ev) if ev else 1))
            steps.append(("iter-begin", n, ready, it[2].wait))
            for kind, i, extra, nested in it[2].cbs:
                steps.append(("cb", kind, i, extra))
                ret = 0
                sc = scripts.get(i)
                res = [l for l in nested if not l.startswith("epoll ")]
                if sc:
                    runs[i] += 1
                    if sc[0] is None or runs[i] <= sc[0]:
                        ret = sc[2]
                        for k, o in enumerate(sc[1]):
                            if k < len(res):
                                steps.append(("op", (kind, i), o, res[k]))
                            elif not P.san:
                                prob = "callback %s %d: missing result for script op %r" % (kind, i, o)
                steps.append(("cb-end", kind, i, ret))
            for m in it[2].misc:
                if m == "usleep":
                    steps.append(("usleep",))
            steps.append(("iter-end", n, it[2].end, it[2].wait))
    if P.san:
        prob = "implementation died: " + P.san
    elif (not P.complete or P.extra) and not prob:
        prob = "output does not have the shape one-result-per-op"
    return steps, prob


def c08_oracle(ops, lines, slack=4):
    """The C08 statement evaluated on the implementation's own output (independent of the model)."""
    steps, prob = c08_walk(ops, lines)
    if prob and prob.startswith("implementation died"):
        return prob
    now = 10 ** 9
    tseq = 0
    jobs = {LOW: [], MED: [], HIGH: []}      # pending jobs in add order: [id, iteration added]
    timers = {}       # H -> dict(id, expiry, state: 'pending'|'fired'|'deleted', p)
    tlist = []        # all timer records
    fds = []          # registrations: dict(fd, id, ev, p, watched, ready(bits since last dispatch), since)
    openfds = set()
    kernel = {}       # fd -> registration the kernel epoll set points to
    sigs = {}         # H -> dict(id, sig, p, live, owed, got)
    allsigs = []
    pipe = []         # delivered signals the loop has not read yet (it reads one per iteration)
    in_run = False
    stop_seen = False       # a stop was requested in this run
    it_no = 0
    cur = None              # running callback (kind, id, record)
    cbs_after_stop = 0
    cur_stop_ctx_done = False
    debt = {}               # (priority, id) -> successful deletes not yet attributed to one of several duplicates
    tainted = set()         # descriptor numbers registered twice at the same time (closed without poll_del and
                            # re-used): which of the two registrations poll_mod/poll_del/the kernel then mean is
                            # decided by slot order; the statement does not cover it and the oracle stays out
    queued_before = None    # records known to sit in a job list at the start of the previous iteration
    must_not_sleep = None   # (description) set at the end of an iteration that leaves such a record queued
    may_wait_50 = False
    alive = lambda: sum(len(v) for v in jobs.values()) + len([t for t in tlist if t["state"] == "pending"]) + \
        len([f for f in fds if f["watched"]]) + sum(s["owed"] for s in allsigs if s["live"]) + 1

    def bound():
        return 3 * math.ceil((alive() + 1) / 4) + slack
    bhist = []              # bound() at the end of every iteration of the current run

    for st in steps:
        if st[0] == "op":
            ctx, op, res = st[1], st[2], st[3]
            t = op.split()
            o = t[0]
            if res in ("bad-op",):
                if o == "timer_add":
                    pass
                continue
            if o == "job_add":
                p, i = int(t[1]), int(t[2])
                if p <= HIGH:
                    if res != "0":
                        return "job_add %d %d returned %s" % (p, i, res)
                    jobs[p].append([i, it_no, (it_no + 1) if (ctx or not in_run) else (it_no + 2)])
                elif res != "EINVAL":
                    return "job_add with priority %d returned %s" % (p, res)
            elif o == "job_del":
                p, i = int(t[1]), int(t[2])
                if p > HIGH:
                    if res != "EINVAL":
                        return "job_del with priority %d returned %s" % (p, res)
                    continue
                pend = [j for j in jobs[p] if j[0] == i]
                real = len(pend) - debt.get((p, i), 0)
                if res == "0":
                    if real <= 0:
                        return "job_del %d %d returned 0 but no such job is pending" % (p, i)
                    if len(pend) == 1:
                        jobs[p].remove(pend[0])
                    else:
                        # several pending jobs with the same (priority, function, data) key: the statement does
                        # not say which one goes; one of them must never run
                        debt[(p, i)] = debt.get((p, i), 0) + 1
                elif res == "ENOENT":
                    if real > 0:
                        return "job_del %d %d returned ENOENT but the job is pending" % (p, i)
                else:
                    return "job_del returned %s" % res
            elif o == "timer_add":
                p, ns, h, i = int(t[1]), int(t[2]), int(t[3]), int(t[4])
                tseq += 1
                if res != "0":
                    return "timer_add returned %s" % res
                rec = {"id": i, "expiry": now + ns + tseq, "state": "pending", "p": p, "since": None}
                timers[h] = rec
                tlist.append(rec)
            elif o in ("timer_del", "timer_running"):
                h = int(t[1])
                rec = timers.get(h)
                live = rec is not None and rec["state"] == "pending"
                if o == "timer_del":
                    if live:
                        if res != "0":
                            return "timer_del of a pending timer (id %d) returned %s" % (rec["id"], res)
                        rec["state"] = "deleted"
                    elif res != "EINVAL":
                        return "timer_del with a stale handle (timer %s) returned %s instead of EINVAL" % (
                            rec and rec["id"], res)
                else:
                    if not live and res != "0":
                        return "timer_running with a stale handle returned %s" % res
            elif o == "open":
                openfds.add(int(t[1]))
            elif o == "close":
                fd = int(t[1])
                openfds.discard(fd)
                kernel.pop(fd, None)
            elif o == "poll_add":
                p, fd, ev, i = int(t[1]), int(t[2]), int(t[3]), int(t[4])
                if fd not in openfds:
                    if res != "EBADF":
                        return "poll_add of a closed descriptor returned %s" % res
                elif fd in kernel:
                    if res != "EEXIST":
                        return "poll_add of an already registered descriptor returned %s" % res
                else:
                    if res != "0":
                        return "poll_add returned %s" % res
                    rec = {"fd": fd, "id": i, "ev": ev, "p": p, "watched": True, "ready": 0, "since": None}
                    if any(f["fd"] == fd and f["watched"] for f in fds):
                        tainted.add(fd)
                    fds.append(rec)
                    kernel[fd] = rec
            elif o == "poll_mod":
                p, fd, ev, i = int(t[1]), int(t[2]), int(t[3]), int(t[4])
                w = [f for f in fds if f["fd"] == fd and f["watched"]]
                if w and fd not in tainted:
                    if res == "0" and w[0]["ev"] != ev and fd in openfds:
                        kernel[fd] = w[0]
                    w[0]["id"], w[0]["ev"], w[0]["p"] = i, ev, p
            elif o == "poll_del":
                fd = int(t[1])
                w = [f for f in fds if f["fd"] == fd and f["watched"]]
                if res == "0":
                    if w:
                        w[0]["watched"] = False
                        if kernel.get(fd) is not None:
                            kernel.pop(fd, None)
                    # a second registration of the same number (closed + reused descriptor) lost its
                    # kernel registration too; it stays in the table but cannot fire
                elif res in ("ENOENT",):
                    if w:
                        w[0]["watched"] = False
                elif res == "EBADF":
                    if w and fd in openfds:
                        return "poll_del %d returned EBADF but the descriptor is watched" % fd
                    if w:
                        w[0]["watched"] = False
            elif o == "sig_add":
                p, sg, h, i = int(t[1]), int(t[2]), int(t[3]), int(t[4])
                if res == "0":
                    rec = {"id": i, "sig": sg, "p": p, "live": True, "owed": 0, "since": None, "h": h}
                    sigs[h] = rec
                    allsigs.append(rec)
                elif res not in ("handle-in-use", "EINVAL"):
                    return "sig_add returned %s" % res
            elif o == "sig_mod":
                p, sg, h, i = int(t[1]), int(t[2]), int(t[3]), int(t[4])
                rec = sigs.get(h)
                if res == "0" and rec and rec["live"]:
                    rec["oldids"] = rec.get("oldids", []) + [rec["id"]]
                    rec["id"], rec["sig"], rec["p"] = i, sg, p
            elif o == "sig_del":
                h = int(t[1])
                rec = sigs.get(h)
                if res == "0" and rec:
                    rec["live"] = False
                    rec["owed"] = 0
            elif o == "signal":
                sg = int(t[1])
                if res == "ok":
                    if not any(s["live"] and s["sig"] == sg for s in allsigs):
                        return "signal %d was taken by the library but no callback is registered for it" % sg
                    pipe.append(sg)         # delivered: the handler wrote it to the pipe
                elif res == "unhandled":
                    if any(s["live"] and s["sig"] == sg for s in allsigs):
                        return "signal %d: a callback is registered but no handler is installed" % sg
            elif o == "advance":
                now += int(t[1])
            elif o == "stop":
                if in_run:
                    stop_seen = True
                    cbs_after_stop = 0
                    if ctx is None:
                        cur_stop_ctx_done = False      # requested while parked: at most one more callback
        elif st[0] == "iter-begin":
            it_no = st[1]
            if not in_run:
                in_run = True
                stop_seen = False
                must_not_sleep = None
            # the loop never goes to sleep while an item it has already queued for dispatch is waiting
            if must_not_sleep is not None and st[3] is not None and st[3] != "0":
                return "iteration %d: the loop went to sleep (epoll_wait timeout %s) although %s is queued for dispatch" % (
                    it_no, st[3], must_not_sleep)
            must_not_sleep = None
            seen_fd = set()
            for fd, ev in st[2]:
                if fd in seen_fd:
                    continue            # the kernel reports a descriptor once
                seen_fd.add(fd)
                r = kernel.get(fd)
                if r is not None and r["watched"] and fd not in tainted:
                    bits = ev & (r["ev"] % 32 | 8 | 16 | (8 if r["ev"] & 32 else 0))
                    if bits:
                        r["ready"] |= bits
                        if r["since"] is None:
                            r["since"] = it_no
            for tr in tlist:
                if tr["state"] == "pending" and tr["expiry"] < now and tr["since"] is None:
                    tr["since"] = it_no
            if pipe:
                # the loop takes ONE delivered signal per iteration and owes a callback to every
                # registration for that signal that exists at this moment
                sg = pipe.pop(0)
                for s in allsigs:
                    if s["live"] and s["sig"] == sg:
                        s["owed"] += 1
                        if s["since"] is None:
                            s["since"] = it_no
            # what is known to sit in a job list during this iteration (see the end of the iteration)
            queued_before = []
            for p in jobs:
                for j in jobs[p]:
                    if j[2] <= it_no:
                        queued_before.append(("job %d" % j[0], "job", j))
            for tr in tlist:
                if tr["state"] == "pending" and tr["expiry"] < now:
                    queued_before.append(("timer %d" % tr["id"], "timer", tr))
            for f in fds:
                if f["watched"] and f["since"] is not None and f["fd"] not in tainted:
                    queued_before.append(("descriptor %d (callback %d)" % (f["fd"], f["id"]), "fd", f))
            for s in allsigs:
                if s["live"] and s["owed"] > 0:
                    queued_before.append(("a delivery of signal %d for callback %d" % (s["sig"], s["id"]), "sig", s))
        elif st[0] == "cb":
            kind, i, extra = st[1], st[2], st[3]
            if stop_seen:
                cbs_after_stop += 1
                if cur_stop_ctx_done:
                    return "iteration %d: callback %s %d dispatched after the loop was stopped" % (it_no, kind, i)
            if kind == "job":
                cands = []
                for p in LEVELS:
                    d = dict(debt)
                    k = 0
                    while k < len(jobs[p]) and jobs[p][k][0] != i and d.get((p, jobs[p][k][0]), 0) > 0:
                        d[(p, jobs[p][k][0])] -= 1          # a deleted duplicate: skipped
                        k += 1
                    if k < len(jobs[p]) and jobs[p][k][0] == i:
                        n_same = len([j for j in jobs[p] if j[0] == i])
                        if n_same - debt.get((p, i), 0) > 0:
                            cands.append((k, jobs[p][k][1], p))
                if not cands:
                    anyp = [p for p in LEVELS if len([j for j in jobs[p] if j[0] == i]) - debt.get((p, i), 0) > 0]
                    if anyp:
                        return "iteration %d: job %d ran before job %d that was added earlier at priority %d" % (
                            it_no, i, jobs[anyp[0]][0][0], anyp[0])
                    return "iteration %d: job callback %d invoked but no such job is pending (ran twice or after a successful delete)" % (it_no, i)
                cands.sort()                                   # fewest skipped, then the older one
                k, _, p = cands[0]
                for j in jobs[p][:k]:
                    debt[(p, j[0])] -= 1
                del jobs[p][:k + 1]
            elif kind == "timer":
                pend = [tr for tr in tlist if tr["id"] == i and tr["state"] == "pending"]
                if not pend:
                    return "iteration %d: timer callback %d invoked but no such timer is pending (fired twice or after a successful delete)" % (it_no, i)
                pend.sort(key=lambda tr: tr["expiry"])
                if not pend[0]["expiry"] < now:
                    return "iteration %d: timer %d fired early" % (it_no, i)
                pend[0]["state"] = "fired"
            elif kind == "fd":
                fd = extra[0]
                rev = int(extra[1])
                fdn = int(fd) if fd != "P" else -1
                w = [f for f in fds if f["fd"] == fdn and f["watched"] and f["id"] == i]
                if fdn in tainted:
                    for f in fds:
                        if f["fd"] == fdn and f["watched"]:
                            f["running"] = True
                            f["ready"] = 0
                            f["since"] = None
                elif not w:
                    return "iteration %d: descriptor callback %d (fd %s) invoked but it is not watched (deleted, or returned a negative value)" % (it_no, i, fd)
                elif w[0]["ready"] == 0 or (rev & ~w[0]["ready"]):
                    return "iteration %d: descriptor callback %d invoked with events %d but the descriptor reported %d" % (
                        it_no, i, rev, w[0]["ready"])
                if w and fdn not in tainted:
                    w[0]["ready"] = 0
                    w[0]["since"] = None
                    w[0]["running"] = True
            elif kind == "sig":
                sg = int(extra[0])
                cand = [s for s in allsigs if s["live"] and s["owed"] > 0 and (s["id"] == i or i in s.get("oldids", []))]
                if not cand:
                    return "iteration %d: signal callback %d (signal %d) invoked but nothing is owed to it (deleted, or more callbacks than deliveries)" % (it_no, i, sg)
                cand[0]["owed"] -= 1
                cand[0]["since"] = it_no if cand[0]["owed"] else None
                cand[0]["running"] = True
            cur_stop_ctx_done = False
        elif st[0] == "cb-end":
            kind, i, ret = st[1], st[2], st[3]
            if kind == "fd":
                for f in fds:
                    if f.pop("running", None):
                        if ret < 0 and f["fd"] not in tainted:
                            f["watched"] = False
            elif kind == "sig":
                for s in allsigs:
                    if s.pop("running", None):
                        if ret != 0:
                            s["live"] = False
                            s["owed"] = 0
            if stop_seen:
                cur_stop_ctx_done = True
        elif st[0] == "iter-end":
            end = st[2]
            if stop_seen and end != "run-returned":
                return "iteration %d: the loop was stopped but qb_loop_run did not return" % it_no
            if end == "run-returned":
                del bhist[:]
                if not stop_seen:
                    return "iteration %d: qb_loop_run returned although the loop was not stopped" % it_no
                in_run = False
                stop_seen = False
                for f in fds:
                    f["since"] = None
                for tr in tlist:
                    tr["since"] = None
                for s in allsigs:
                    s["since"] = None
                for p in jobs:
                    for j in jobs[p]:
                        j[1] = it_no
                        j[2] = it_no + 1
                must_not_sleep = None
            elif end == "done":
                # an item that was queued for dispatch during this iteration and is still queued: the next
                # epoll_wait must not block (remaining_todo > 0, or the timer poll has just queued it)
                for name, kind, r in (queued_before or []):
                    still = ((kind == "job" and any(r is j and not debt.get((p, j[0])) for p in jobs for j in jobs[p])) or
                             (kind == "timer" and r["state"] == "pending") or
                             (kind == "fd" and r["watched"] and r["since"] is not None) or
                             (kind == "sig" and r["live"] and r["owed"] > 0))
                    if still:
                        must_not_sleep = name
                        break
                # the C10 bound for an item is determined by what was queued AHEAD of it, i.e. by the population
                # when it became eligible, not by the (smaller) population now: use the largest bound seen
                # during the last `b` iterations (an item waiting longer than that has failed some earlier test)
                bhist.append(bound())
                b = max(bhist[-(max(bhist) + 3):])
                for p in jobs:
                    for j in jobs[p]:
                        if it_no - j[1] > b + 1 and not debt.get((p, j[0])):
                            return "job %d (priority %d) has been pending for %d iterations of a running loop" % (j[0], p, it_no - j[1])
                for tr in tlist:
                    if tr["state"] == "pending" and tr["since"] is not None and it_no - tr["since"] > b + 1:
                        return "timer %d expired %d iterations ago and has not fired" % (tr["id"], it_no - tr["since"])
                for f in fds:
                    if f["watched"] and f["fd"] not in tainted and f["since"] is not None and kernel.get(f["fd"]) is f and it_no - f["since"] > b:
                        return "descriptor %d (callback %d) has been ready for %d iterations without a callback" % (
                            f["fd"], f["id"], it_no - f["since"])
                for s in allsigs:
                    if s["live"] and s["owed"] and s["since"] is not None and it_no - s["since"] > b + s["owed"] + 1:
                        return "signal callback %d is owed %d deliveries for %d iterations" % (s["id"], s["owed"], it_no - s["since"])
    return prob


def c08_tags(ops, lines):
    steps, prob = c08_walk(ops, lines)
    tags = set()
    for st in steps:
        if st[0] == "op":
            o = st[2].split()[0]
            ctx = "cb" if st[1] else "out"
            if o in ("job_del", "timer_del", "poll_del", "sig_del"):
                tags.add("%s-%s-%s" % (o, ctx, st[3]))
            if o in ("poll_add", "poll_mod") and st[3] != "0":
                tags.add("%s-%s" % (o, st[3]))
            if o == "stop" and st[1]:
                tags.add("stop-in-cb")
            if st[1] and o.endswith("_del"):
                k, i = st[1]
                t = st[2].split()
                if (k == "job" and o == "job_del" and int(t[2]) == i):
                    tags.add("self-delete-job")
        elif st[0] == "cb":
            tags.add("cb-" + st[1])
        elif st[0] == "cb-end":
            if st[1] == "fd" and st[3] < 0:
                tags.add("fd-negative-return")
            if st[1] == "sig" and st[3] != 0:
                tags.add("sig-nonzero-return")
        elif st[0] == "usleep":
            tags.add("stale-epoll-event")
        elif st[0] == "iter-end":
            if st[2] == "run-returned":
                tags.add("run-returned")
            if st[3] not in ("0", "-1", "50"):
                tags.add("timer-timeout")
    return tags


def gen_c08_case(rng, double_add=True, sig_multi=True):
    """histories of add/mod/del on jobs, timers, descriptors, signals from outside the loop and from
    inside callbacks: self-deletion, deletion of queued items, re-adding, descriptors closed and
    reused, stale timer handles, negative returns, signals, stop."""
    ops = []
    nid = [1]
    live_jobs = []        # (p, id)
    handles = list(range(8))
    sig_h = {}            # h -> id  (as far as the generator knows)
    fds_open = set()
    fds_reg = {}          # fd -> id
    sigs_used = [10, 12, 1]
    scripts_for = []

    def fresh():
        i = nid[0]
        nid[0] += 1
        return i

    def an_op(depth, self_kind=None, self_id=None, self_ref=None):
        """one random API/env op (text); may register a script for the new callback"""
        r = rng.random()
        pre = []
        if r < 0.16:
            p = rng.choice([HIGH, MED, LOW])
            if live_jobs and rng.random() < 0.1:
                p, i = rng.choice(live_jobs)       # a second job with the same (priority, data) key
            else:
                i = fresh()
            live_jobs.append((p, i))
            if depth < 2 and rng.random() < 0.5:
                pre.append(make_script(i, depth + 1, "job", (p, i)))
            return pre + ["job_add %d %d" % (p, i)]
        if r < 0.26:
            if self_kind == "job" and rng.random() < 0.3:
                return ["job_del %d %d" % self_ref]
            if live_jobs and rng.random() < 0.85:
                p, i = rng.choice(live_jobs)
                if rng.random() < 0.1:
                    p = rng.choice([HIGH, MED, LOW])
                return ["job_del %d %d" % (p, i)]
            return ["job_del %d %d" % (rng.choice([0, 1, 2, 3]), rng.randint(1, 40))]
        if r < 0.40:
            p = rng.choice([HIGH, MED, LOW])
            i = fresh()
            h = rng.choice(handles)
            ns = rng.choice([0, 0, 0, TICK, 3 * TICK, 1000 * TICK, 10 ** 6 * TICK])
            if depth < 2 and rng.random() < 0.5:
                pre.append(make_script(i, depth + 1, "timer", h))
            return pre + ["timer_add %d %d %d %d" % (p, ns, h, i)]
        if r < 0.50:
            h = self_ref if self_kind == "timer" and rng.random() < 0.3 else rng.choice(handles)
            return ["timer_del %d" % h] if rng.random() < 0.85 else ["timer_running %d" % h]
        if r < 0.62:
            fd = rng.randint(100, 107)
            out = []
            if fd not in fds_open and rng.random() < 0.9:
                out.append("open %d" % fd)
                fds_open.add(fd)
            if fd in fds_reg and not double_add:
                return out + ["poll_del %d" % fd]
            p = rng.choice([HIGH, MED, LOW])
            i = fresh()
            ev = rng.choice([1, 1, 1, 4, 5, 3])
            fds_reg[fd] = i
            if depth < 2 and rng.random() < 0.6:
                pre.append(make_script(i, depth + 1, "fd", fd))
            return out + pre + ["poll_add %d %d %d %d" % (p, fd, ev, i)]
        if r < 0.70:
            fd = self_ref if self_kind == "fd" and rng.random() < 0.4 else rng.randint(100, 108)
            fds_reg.pop(fd, None)
            return ["poll_del %d" % fd]
        if r < 0.75:
            fd = rng.randint(100, 107)
            i = fds_reg.get(fd) if rng.random() < 0.7 and fd in fds_reg else fresh()
            if fd in fds_reg:
                fds_reg[fd] = i
            return ["poll_mod %d %d %d %d" % (rng.choice([HIGH, MED, LOW]), fd, rng.choice([1, 4, 5]), i)]
        if r < 0.79:
            fd = rng.randint(100, 107)
            if fd in fds_open:
                fds_open.discard(fd)
                return ["close %d" % fd]
            fds_open.add(fd)
            return ["open %d" % fd]
        if r < 0.86:
            h = rng.randint(0, 3)
            p = rng.choice([HIGH, MED, LOW])
            sg = rng.choice(sigs_used)
            i = fresh()
            if depth < 2 and rng.random() < 0.5:
                pre.append(make_script(i, depth + 1, "sig", h))
            return pre + ["sig_add %d %d %d %d" % (p, sg, h, i)]
        if r < 0.90:
            if self_kind == "sig":
                # a callback that deletes its own registration must return 0 (the library deletes it
                # itself on a non-zero return; doing both is a double free by the caller)
                return ["sig_del %d" % rng.choice([h for h in range(4) if h != self_ref])]
            return ["sig_del %d" % rng.randint(0, 3)]
        if r < 0.92:
            return ["sig_mod %d %d %d %d" % (rng.choice([HIGH, MED, LOW]), rng.choice(sigs_used), rng.randint(0, 3), fresh())]
        if r < 0.97:
            return ["signal %d" % rng.choice(sigs_used)] * (rng.choice([1, 1, 2, 3]) if sig_multi else 1)
        if depth > 0 and r < 0.985:
            return ["stop"]
        return ["advance %d" % (TICK * rng.choice([1, 1, 2, 1000]))]

    def make_script(i, depth, kind, ref):
        body = []
        for _ in range(rng.choice([0, 1, 1, 2, 3])):
            for o in an_op(depth, kind, i, ref):
                if o.startswith("script ") or o.startswith("open ") or o.startswith("close "):
                    ops.append(o)      # definitions stay outside
                else:
                    body.append(o)
        ret = 0
        if kind == "fd" and rng.random() < 0.2:
            ret = -1
        if kind == "sig" and rng.random() < 0.2 and not any(b.startswith("sig_del") or b.startswith("sig_mod") for b in body):
            ret = 1
        times = "times=%d " % rng.randint(1, 3) if rng.random() < 0.5 else ""
        if kind == "timer" and rng.random() < 0.5:
            body.append("advance %d" % TICK)
        return "script %d %s%s%sret %d" % (i, times, " ; ".join(body[:12]), " ; " if body else "", ret)

    for _ in range(rng.randint(2, 14)):
        ops += an_op(0)
    for t in range(rng.randint(3, 30)):
        if rng.random() < 0.35:
            for _ in range(rng.randint(1, 3)):
                ops += an_op(0)
        ops.append("advance %d" % (TICK * rng.choice([1, 1, 1, 3, 1000])))
        ready = []
        for fd in range(100, 108):
            if rng.random() < 0.6:
                ready.append("%d:%d" % (fd, rng.choice([1, 1, 1, 4, 5, 16, 8])))
        rng.shuffle(ready)
        ops.append("iterate " + " ".join(ready))
    # let the queues drain: nothing new from outside
    for t in range(rng.randint(0, 6)):
        ops.append("advance %d" % TICK)
        ops.append("iterate")
    return ops


SIGS = (10, 12, 1, 15, 17, 23, 28)


def gen_c08_handles(rng):
    """timer handles: every handle variable keeps its value for ever, so old handles are poked (del /
    running) after the timer fired, was deleted, and after its slot was re-used by later timers -
    from outside and from inside callbacks.  random() is steered forward only (`nonce V`), so check
    values stay fresh (the assumption of the property)."""
    ops = []
    nid = [1]
    nh = [0]
    old = []             # handle variables assigned so far
    nonce = 0

    def fresh():
        nid[0] += 1
        return nid[0] - 1

    def new_h():
        nh[0] += 1
        return nh[0] - 1

    if rng.random() < 0.4:
        nonce = rng.choice([rng.randint(1, 2 ** 31 - 100000), 2 ** 31 - 100000, 2 ** 16, 2 ** 24 - 3])
        ops.append("nonce %d" % nonce)

    def poke(h=None):
        h = rng.choice(old) if h is None and old else (h if h is not None else rng.randint(0, 5))
        return "timer_del %d" % h if rng.random() < 0.7 else "timer_running %d" % h

    def add_timer(depth=0):
        p = rng.choice([HIGH, MED, LOW])
        i = fresh()
        h = new_h() if nh[0] < 200 and (not old or rng.random() < 0.8) else rng.choice(old)
        ns = rng.choice([0, 0, 0, TICK, 3 * TICK, 1000 * TICK])
        out = []
        if depth < 2 and rng.random() < 0.45:
            body = []
            for _ in range(rng.choice([1, 1, 2, 3])):
                r = rng.random()
                if r < 0.3:
                    body.append(poke(h))                      # its own handle, from inside its callback
                elif r < 0.6:
                    body.append(poke())
                elif r < 0.9:
                    sub = add_timer(depth + 1)
                    for o in sub:
                        (ops if o.startswith("script ") else body).append(o)
                else:
                    body.append("advance %d" % TICK)
            times = "times=%d " % rng.randint(1, 2) if rng.random() < 0.6 else ""
            out.append("script %d %s%s ; ret 0" % (i, times, " ; ".join(body[:10])))
        out.append("timer_add %d %d %d %d" % (p, ns, h, i))
        if h not in old:
            old.append(h)
        return out

    for _ in range(rng.randint(8, 40)):
        r = rng.random()
        if r < 0.40:
            ops += add_timer()
        elif r < 0.60:
            ops.append(poke())
        elif r < 0.70 and old:
            # the episode the property names: delete (or let fire), re-use the slot, poke the old handle
            h = rng.choice(old)
            ops.append("timer_del %d" % h)
            ops += add_timer()
            ops.append(poke(h))
        elif r < 0.74:
            nonce = rng.randint(1, 2 ** 31 - 100000)
            ops.append("nonce %d" % nonce)
        else:
            ops.append("advance %d" % (TICK * rng.choice([1, 1, 3, 1000])))
            ops.append("iterate")
    for _ in range(rng.randint(2, 8)):
        ops.append("advance %d" % (TICK * rng.choice([1, 3, 1000])))
        if old and rng.random() < 0.5:
            ops.append(poke())
        ops.append("iterate")
    return ops


def gen_c08_queued(rng):
    """items of all four kinds queued together (mostly on one level), callbacks at the front of the
    queue delete the ones behind them, themselves, or re-add; more deletions from outside while
    the rest is still queued; then the loop is left alone so that every survivor must run."""
    ops = []
    nid = [1]
    nth = [0]
    nsh = [0]
    nfd = [100]
    alive = []          # records: dict(kind, id, lv, del)

    def fresh():
        nid[0] += 1
        return nid[0] - 1

    def new_item(lv, kind=None):
        kind = kind or rng.choice(["job", "job", "timer", "fd", "fd", "sig"])
        i = fresh()
        if kind == "job":
            return {"kind": kind, "id": i, "lv": lv, "add": ["job_add %d %d" % (lv, i)], "del": "job_del %d %d" % (lv, i)}
        if kind == "timer" and nth[0] < 250:
            h = nth[0]
            nth[0] += 1
            return {"kind": kind, "id": i, "lv": lv, "add": ["timer_add %d 0 %d %d" % (lv, h, i)], "del": "timer_del %d" % h}
        if kind == "fd" and nfd[0] < 160:
            fd = nfd[0]
            nfd[0] += 1
            return {"kind": kind, "id": i, "lv": lv, "fd": fd, "add": ["open %d" % fd, "poll_add %d %d 1 %d" % (lv, fd, i)],
                    "del": "poll_del %d" % fd}
        if kind == "sig" and nsh[0] < 250:
            h = nsh[0]
            nsh[0] += 1
            sg = rng.choice(SIGS)
            return {"kind": kind, "id": i, "lv": lv, "sig": sg, "h": h, "add": ["sig_add %d %d %d %d" % (lv, sg, h, i)],
                    "del": "sig_del %d" % h}
        return new_item(lv, "job")

    for rnd in range(rng.randint(1, 3)):
        p = rng.choice([HIGH, MED, LOW, LOW])
        batch = []
        for _ in range(rng.randint(2, 10)):
            lv = p if rng.random() < 0.8 else rng.choice([HIGH, MED, LOW])
            batch.append(new_item(lv))
        pool = alive + batch
        # scripts: deletions of other items / of itself, re-adds
        for it in batch:
            if rng.random() < 0.55:
                body = []
                selfdel = False
                for _ in range(rng.choice([1, 1, 2, 3, 4])):
                    r = rng.random()
                    if r < 0.35:
                        body.append(it["del"])
                        selfdel = True
                    elif r < 0.85:
                        body.append(rng.choice(pool)["del"])
                    elif r < 0.93:
                        n = new_item(rng.choice([p, it["lv"]]), "job")
                        pool.append(n)
                        body += n["add"]
                    else:
                        body.append("stop")
                ret = 0
                if it["kind"] == "fd" and rng.random() < 0.25:
                    ret = -1
                if it["kind"] == "sig" and not selfdel and rng.random() < 0.25 and not any(
                        b.startswith("sig_del") for b in body):
                    ret = 1
                times = "times=1 " if rng.random() < 0.3 else ""
                ops.append("script %d %s%s ; ret %d" % (it["id"], times, " ; ".join(body), ret))
        order = batch[:]
        rng.shuffle(order)
        for it in order:
            ops += it["add"]
        sigs = [it for it in batch if it["kind"] == "sig"]
        for it in sigs:
            ops += ["signal %d" % it["sig"]] * rng.choice([1, 1, 2])
        alive = pool
        ops.append("advance %d" % TICK)
        for t in range(rng.randint(1, 5)):
            ready = [it["fd"] for it in alive if it["kind"] == "fd" and rng.random() < 0.8]
            rng.shuffle(ready)
            ops.append("iterate" + "".join(" %d:1" % fd for fd in ready[:10]))
            if rng.random() < 0.4:
                for _ in range(rng.randint(1, 3)):
                    ops.append(rng.choice(alive)["del"])         # from outside, while the rest is still queued
            if rng.random() < 0.2:
                ops.append("advance %d" % TICK)
    for t in range(rng.randint(4, 9)):
        ops.append("iterate")
    return ops
