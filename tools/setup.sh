#!/bin/sh
# One-time setup after a fresh restore (offline): regenerate Gen/*.lean from /repo and build the
# Lean modules + model executables of every property claimed in MANIFEST.json.
set -e
cd "$(dirname "$0")/.."
test -f "${VERIF_REPO:-/repo}/include/config.h" || { echo "missing include/config.h in /repo (run ./configure there)"; exit 1; }
python3 tools/genmain.py
python3 tools/extract.py || true
python3 - <<'PY'
import json, os, subprocess, sys
m = json.load(open("MANIFEST.json"))
targets = []
for c in m["checks"]:
    p = os.path.join("lean", "theorems.d", c["property_id"] + ".json")
    if os.path.exists(p):
        t = json.load(open(p))
        targets += t.get("modules", []) + ["qb_" + d.lower() for d in t.get("drivers", [])]
targets = sorted(set(targets))
print("building:", " ".join(targets))
fail = 0
for t in targets:
    os.makedirs("build", exist_ok=True)
    r = subprocess.run(["flock", "../build/.lean.lock", "lake", "build", t], cwd="lean", stdout=subprocess.PIPE, stderr=subprocess.STDOUT, text=True)
    if r.returncode != 0:
        fail += 1
        print("FAILED:", t)
        print("\n".join(l for l in r.stdout.splitlines() if "error" in l.lower())[:2000])
print("setup %s (%d targets, %d failed)" % ("ok" if not fail else "INCOMPLETE", len(targets), fail))
# a failed target is reported by the property's own check; setup itself stays usable
PY
