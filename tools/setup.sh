#!/bin/sh
# One-time setup after a fresh restore (offline): regenerate Gen/*.lean from /repo, build the
# Lean library (all models, lemmas, property theorems) and the qbmodel executable.
set -e
cd "$(dirname "$0")/.."
test -f "${VERIF_REPO:-/repo}/include/config.h" || { echo "missing include/config.h in /repo (run ./configure there)"; exit 1; }
python3 tools/genmain.py
python3 tools/extract.py || true
cd lean
lake build QbVerif 2>&1 | grep -v "^warning\|^$\|Hint:\|Note:\|\[apply\]" | tail -40
for m in Mains/*.lean; do n=$(basename $m .lean | tr A-Z a-z); lake build qb_$n 2>&1 | tail -3; test -x .lake/build/bin/qb_$n; done
echo "setup ok"
