"""C04 — generator and property oracle for the IPC server life-cycle harness
(harness/ipc/ipcs_life.c; op grammar in its header).  The oracle evaluates the property statement
itself on the implementation's output and knows nothing about the Lean model."""
import re

KINDS = ["accept", "created", "msg", "closed", "destroyed"]
# Finding D20d (fixes/D20d-rate-limit-stale-descriptor.*, not yet in /repo): on the socket transport a rate-limit
# change while a disconnected connection is still in the list re-registers its stale descriptor numbers.  Until
# the repair is committed the generators stay outside that class: socket transport => `rate` only before the
# first connect.  Set to True once the repair is in /repo (and move the witness to corpus/C04).
RATE_ANYWHERE_ON_SOCK = True
RESULT = re.compile(r"^(ok|skip|finished|refused|bad-op|E[A-Z0-9]+)$")


# ----------------------------------------------------------------------------- generator
def gen_entry(rng, kind, cross):
    ops = []
    n = rng.choice([0, 0, 0, 1, 1, 2, 3])
    for _ in range(n):
        t = "s"
        if rng.random() < cross:
            t = str(rng.randint(1, 4))
        r = rng.random()
        if r < 0.30:
            ops.append("d:" + t)
        elif r < 0.55:
            ops.append("r:" + t)
        elif r < 0.80:
            ops.append("u:" + t)
        elif r < 0.90:
            ops.append("e:" + t)
        else:
            ops.append("i")
    if kind == "accept" and rng.random() < 0.15:
        ops.append("ret=-13")
    if kind == "closed" and rng.random() < 0.35:
        ops.append("ret=%d" % rng.choice([1, 1, -1, 7]))
    return ",".join(ops) if ops else "-"


def gen_scripts(rng, cross):
    lines = []
    for k in KINDS:
        if rng.random() < 0.7:
            n = rng.randint(1, 5)
            lines.append("script %s %s" % (k, " ".join(gen_entry(rng, k, cross) for _ in range(n))))
    return lines


def gen_case(rng):
    """random history; ends with `finish` so that the oracle can demand completed life cycles"""
    cross = rng.choice([0.0, 0.0, 0.15, 0.4])
    t = rng.choice(["shm", "sock"])
    ops = ["svc " + t]
    ops += gen_scripts(rng, cross)
    if rng.random() < 0.2:
        ops.append("rate " + rng.choice(["slow", "normal", "fast"]))
    nconn = 0
    for _ in range(rng.randint(3, 22)):
        r = rng.random()
        K = rng.randint(0, 3)
        N = rng.randint(1, max(1, min(4, nconn + 1)))
        if r < 0.22:
            ops.append("connect %d" % K)
            nconn += 1
        elif r < 0.32:
            ops.append("send %d" % K)
        elif r < 0.44:
            ops.append("gone %d" % K)
        elif r < 0.54:
            ops.append("disc %d" % N)
        elif r < 0.64:
            ops.append("ref %d" % N)
        elif r < 0.74:
            ops.append("unref %d" % N)
        elif r < 0.78:
            ops.append("ev %d" % N)
        elif r < 0.82:
            ops.append("iter")
        elif r < 0.86:
            ops.append("job")
        elif r < 0.89:
            ops.append("run")
        elif r < 0.92:
            ops.append("destroy")
        elif r < 0.95:
            ops.append("half %d" % K)
        elif r < 0.97:
            ops.append("halfgone %d" % K)
        elif r < 0.985:
            ops += ["script %s %s" % (k, gen_entry(rng, k, cross)) for k in rng.sample(KINDS, 2)]
        elif t == "shm" or nconn == 0 or RATE_ANYWHERE_ON_SOCK:
            ops.append("rate " + rng.choice(["slow", "normal", "fast"]))
        # a pipelining client / a failing poll handler (independent of the mix above)
        r = rng.random()
        if r < 0.08:
            ops.append("sendn %d %d" % (K, rng.randint(2, 8)))
        elif r < 0.12:
            ops.append("fault %s %d" % (rng.choice(["add", "add", "add", "del", "mod"]), rng.randint(1, 3)))
    ops.append("finish")
    return ops


def gen_shaped(rng):
    """histories aimed at the edges: a user reference that outlives the peer, disconnect of a
    connection that is already shutting down (from outside, from callbacks, by destroy, with a
    retry job pending), disconnect inside created / msg / closed, closed callbacks that
    disconnect their neighbours while the service is destroyed"""
    t = rng.choice(["shm", "sock"])
    ops = ["svc " + t]
    shape = rng.randrange(11)
    if shape == 8:      # a pipelining client: a batch of requests is queued before the dispatcher runs,
                        # msg_process disconnects / takes / drops references / sends on the k-th of them
        n = rng.randint(2, 9)
        ent = [rng.choice(["-", "-", "-", "r:s", "e:s", "i"]) for _ in range(n + 2)]
        for _ in range(rng.randint(1, 2)):
            ent[rng.randrange(n)] = rng.choice(["d:s", "d:s", "d:s,u:s", "r:s,d:s", "d:s,d:s", "u:s", "d:2", "d:s,e:s"])
        ops += ["script msg " + " ".join(ent)]
        if rng.random() < 0.4:
            ops.append("rate " + rng.choice(["slow", "normal", "fast"]))
        ops += ["connect 0"]
        if rng.random() < 0.3:
            ops += ["connect 1"]
        if rng.random() < 0.3:
            ops += ["ref 1"]
        ops += ["sendn 0 %d" % n, rng.choice(["sendn 0 3", "send 0", "gone 0", "sendn 1 2", "unref 1"]),
                rng.choice(["gone 0", "destroy", "iter"])]
    elif shape in (9, 10):    # the application's dispatch_add fails for the n-th descriptor: handshake socket of a
                        # connect / raw peer, or the connection's own descriptor(s); with and without other
                        # connections / references alive; the service must stay usable afterwards
        pre = rng.choice([[], [], ["connect 3"], ["connect 3", "ref 1"], ["half 5"]])
        ops += pre
        ops += ["fault add %d" % rng.randint(1, 3 if t == "sock" else 2)]
        ops += [rng.choice(["connect 0", "connect 0", "half 0"]), rng.choice(["connect 1", "half 1", "connect 0"]),
                rng.choice(["send 1", "sendn 1 3", "connect 2", "iter"]),
                rng.choice(["gone 1", "destroy", "gone 3", "halfgone 1", "fault add 1"]),
                rng.choice(["connect 2", "destroy", "unref 1", "halfgone 5", "send 3"])]
    elif shape == 0:      # reference outlives the peer, then explicit disconnect / destroy
        ops += ["connect 0", "ref 1", rng.choice(["gone 0", "disc 1"]),
                rng.choice(["disc 1", "destroy", "iter", "ev 1"]), rng.choice(["unref 1", "disc 1", "run"])]
    elif shape == 1:    # retry pending, then somebody else disconnects
        ops += ["script closed %s" % " ".join(rng.choice(["ret=1", "ret=1", "ret=0", "d:s,ret=1", "r:s,ret=2"])
                                              for _ in range(rng.randint(1, 4))),
                "connect 0", rng.choice(["gone 0", "disc 1"]), rng.choice(["disc 1", "destroy", "job"]),
                rng.choice(["job", "disc 1", "run"]), rng.choice(["job", "run", "iter"])]
    elif shape == 2:    # disconnect from inside msg / created
        k = rng.choice(["msg", "created"])
        ops += ["script %s %s" % (k, rng.choice(["d:s", "d:s,d:s", "r:s,d:s", "d:s,e:s", "d:s,u:s"])),
                "connect 0", "send 0", rng.choice(["send 0", "unref 1", "gone 0"]), "gone 0"]
    elif shape == 3:    # closed disconnects / releases its neighbours during destroy
        n = rng.randint(2, 4)
        ops += ["script closed %s" % " ".join(rng.choice(["d:1", "d:2", "d:3", "d:s", "-", "u:1", "r:2,ret=1"])
                                              for _ in range(n + 1))]
        ops += ["connect %d" % i for i in range(n)]
        if rng.random() < 0.5:
            ops.append("ref %d" % rng.randint(1, n))
        ops += [rng.choice(["destroy", "gone 0", "disc %d" % n]), "destroy"]
    elif shape == 4:    # rejected connections, references taken in accept
        ops += ["script accept %s" % " ".join(rng.choice(["ret=-13", "r:s,ret=-13", "d:s", "r:s", "i,ret=-13", "-"])
                                              for _ in range(3)),
                "connect 0", "connect 1", "connect 0", rng.choice(["unref 1", "disc 1", "iter"]), "unref 2"]
    elif shape == 5:    # destroyed callbacks that call back in
        ops += ["script destroyed %s" % " ".join(rng.choice(["i", "d:1", "d:2", "r:s", "u:2", "e:2"]) for _ in range(3)),
                "connect 0", "connect 1", rng.choice(["ref 2", "ref 1", "iter"]), "gone 0", "gone 1", "destroy"]
    elif shape == 6:    # service destroyed while handshakes / connections are pending
        ops += ["half 0", "connect 1", rng.choice(["ref 1", "iter", "half 2"]), "destroy",
                rng.choice(["halfgone 0", "gone 1", "unref 1"]), rng.choice(["halfgone 0", "ev 1", "disc 1"])]
    else:               # closed re-enters disconnect on itself
        ops += ["script closed %s" % " ".join(rng.choice(["d:s", "d:s,ret=1", "d:s,d:s", "r:s,d:s,u:s"])
                                              for _ in range(3)),
                "connect 0", rng.choice(["gone 0", "disc 1", "destroy"]), "job", "run"]
    if rng.random() < 0.3:
        ops.insert(1 + rng.randrange(len(ops) - 1), rng.choice(["iter", "ev 1", "ref 1", "unref 1", "run"]))
    ops.append("finish")
    return ops


# ----------------------------------------------------------------------------- oracle
CB = re.compile(r"^cb (accept|created|msg|closed|destroyed) c(\d+)(?: ret=(-?\d+))?(?: rc=(-?\d+))?$")
DO = re.compile(r"^do ([drue]) c(\d+)$")


def parse(out):
    """-> (per-connection callback lists, problems found on the way, finished?)"""
    conns = {}
    problems = []
    appref = {}
    in_created = None       # connection whose `created` callback may still be running
    finished = False
    for line in out:
        if line.startswith("SAN:") or line.startswith("CRASH") or line == "TIMEOUT":
            problems.append("memory error / abort in the server: " + line)
            continue
        m = CB.match(line)
        if m:
            kind, c = m.group(1), int(m.group(2))
            ret = int(m.group(3)) if m.group(3) is not None else 0
            k = conns.setdefault(c, {"cbs": [], "aborted": False})
            k["cbs"].append((kind, ret))
            if kind == "created":
                in_created = c
            if kind == "destroyed":
                rc = int(m.group(4)) if m.group(4) is not None else 0
                if rc != 0:
                    problems.append("destroyed(c%d) invoked at refcount %d" % (c, rc))
                if appref.get(c, 0) != 0:
                    problems.append("destroyed(c%d) invoked while the application holds %d reference(s)"
                                    % (c, appref[c]))
            continue
        m = DO.match(line)
        if m:
            o, c = m.group(1), int(m.group(2))
            if o == "r":
                appref[c] = appref.get(c, 0) + 1
            elif o == "u":
                appref[c] = appref.get(c, 0) - 1
            elif o == "d" and in_created == c:
                conns[c]["aborted"] = True
            continue
        if RESULT.match(line):
            in_created = None
            if line == "finished":
                finished = True
    for c in conns:
        conns[c]["appref"] = appref.get(c, 0)
    return conns, problems, finished


def check_conn(c, k, finished):
    cbs = k["cbs"]
    kinds = [x[0] for x in cbs]
    name = "c%d" % c
    if not kinds or kinds[0] != "accept":
        return "%s: first callback is %s, not accept" % (name, kinds[0] if kinds else "none")
    if kinds.count("accept") != 1:
        return "%s: accept invoked %d times" % (name, kinds.count("accept"))
    if kinds.count("destroyed") > 1:
        return "%s: destroyed invoked %d times" % (name, kinds.count("destroyed"))
    if "destroyed" in kinds and kinds.index("destroyed") != len(kinds) - 1:
        return "%s: %s invoked after destroyed" % (name, kinds[kinds.index("destroyed") + 1])
    body = [x for x in cbs[1:] if x[0] != "destroyed"]
    if cbs[0][1] != 0 and body:
        return "%s: %s invoked although accept refused the connection" % (name, body[0][0])
    # created msg* closed+
    phase = 0       # 0 before created, 1 live, 2 closed returned non-zero, 3 closed returned 0
    for kind, ret in body:
        if kind == "created":
            if phase != 0:
                return "%s: created invoked twice / out of order" % name
            phase = 1
        elif kind == "msg":
            if phase != 1:
                return "%s: msg delivered %s" % (name, "before created" if phase == 0 else "after closed")
        elif kind == "closed":
            if phase == 0:
                return "%s: closed invoked without created" % name
            if phase == 3:
                return "%s: closed invoked again after it returned 0" % name
            phase = 3 if ret == 0 else 2
        else:
            return "%s: unexpected callback %s" % (name, kind)
    if "destroyed" in kinds and phase == 2:
        return "%s: destroyed although the last closed returned non-zero" % name
    if "destroyed" in kinds and phase == 1 and not k["aborted"]:
        return "%s: destroyed without closed" % name
    if k["aborted"] and phase >= 2:
        return "%s: closed invoked for a connection that was disconnected inside created" % name
    if finished:
        if "destroyed" not in kinds and k.get("appref", 0) <= 0:
            return "%s: never destroyed although every reference was dropped and the service destroyed" % name
    return None


def check_served(ops, out):
    """service liveness: every connect that is neither skipped nor refused reaches connection_accept;
    a handshake is refused only when a dispatch_add fault has been armed"""
    groups, cur = [], []
    for line in out:
        cur.append(line)
        if RESULT.match(line):
            groups.append(cur)
            cur = []
    lines = [o for o in ops if not o.startswith("case")]
    armed = False
    for op, g in zip(lines, groups):
        w = op.split()
        if w[0] == "fault" and w[1] == "add":
            armed = True
        if w[0] in ("connect", "half") and g[-1] == "refused" and not armed:
            return "%s: the handshake was dropped although no poll handler failed" % op
        if w[0] == "connect" and g[-1] not in ("skip", "refused", "bad-op"):
            if not any(l.startswith("cb accept ") for l in g):
                return "%s: a connection attempt on a live service was not served (no connection_accept)" % op
    return None


def oracle(ops, out):
    conns, problems, finished = parse(out)
    if problems:
        return problems[0]
    d = check_served(ops, out)
    if d:
        return d
    for c in sorted(conns):
        d = check_conn(c, conns[c], finished)
        if d:
            return d
    if "finish" in ops and not finished:
        return "the run did not complete (no `finished`)"
    return None


def tags(ops, out):
    t = set()
    conns, _, _ = parse(out)
    text = "\n".join(out)
    for c, k in conns.items():
        cl = [r for kind, r in k["cbs"] if kind == "closed"]
        if len(cl) > 1:
            t.add("closed-retried")
        if k["aborted"]:
            t.add("disc-in-created")
        if k["cbs"][0][1] != 0:
            t.add("rejected")
    if re.search(r"cb msg c(\d+)\ndo d c\1", text):
        t.add("disc-in-msg")
    if re.search(r"cb closed c(\d+) ret=-?\d+\n(do [a-z] c\d+\n)*do d c\1", text):
        t.add("disc-in-closed")
    if re.search(r"do u c(\d+)\ncb destroyed c\1", text):
        t.add("app-ref-was-last")
    if re.search(r"cb closed c\d+ ret=-?\d+\n(do .*\n)*cb closed", text):
        t.add("nested-closed")
    if "destroy" in ops and re.search(r"cb closed", text):
        t.add("destroy-mid-case")
    if any(l.startswith("half ") for l in ops):
        t.add("pending-handshake")
    if re.search(r"cb msg c(\d+)\n(do .*\n)*cb msg c\1", text):
        t.add("burst")
    if re.search(r"cb msg c(\d+)\n(do .*\n)*cb msg c\1\n(do [a-z] c\d+\n)*do d c\1", text):
        t.add("disc-in-burst-not-first")
    if "refused" in out:
        t.add("fault-handshake-add")
    if "ENOMEM" in out:
        t.add("fault-connection-add")
    return t
