/* Map harness (C17, C18): ONE driver for the three qb_map implementations, driving the real
 * lib/{map,hashtable,skiplist,trie}.c (linked from the ASan build of /repo/lib) with the op lines
 * of DESIGN.md appendix A, driver `map`.
 *
 *   map IMPL SIZE          IMPL = ht | sl | trie ; SIZE = max_size of qb_hashtable_create   -> ok
 *   put K V [lvl=N]        qb_map_put (fresh copy of the key per call; V = small integer != 0
 *                          cast to a pointer; lvl = level the interposed random() makes
 *                          skiplist_level_generate() produce)                               -> ok
 *   get K                  -> V | none
 *   rm K                   -> 0 | 1
 *   count                  -> N
 *   iter_new I [PREFIX]    qb_map_iter_create / qb_map_pref_iter_create                      -> ok | bad-iter
 *   iter_next I            -> K V | end | bad-iter
 *   iter_free I            -> ok | bad-iter
 *   foreach STOP [PREFIX]  qb_map_foreach with a callback that returns non-zero on its STOP-th
 *                          call (STOP = 0: never); with PREFIX the same loop is done by hand on a
 *                          prefix iterator                                                    -> visit N K V ... end|stop
 *   foreachs STOP SCRIPT [PREFIX]   the same traversal with a callback that operates on the map from
 *                          inside the callback: SCRIPT = `-` or comma-separated items `N:rm:K`, `N:put:K:V[:LVL]`,
 *                          `N:get:K`, `N:count` executed (in script order) during the N-th call of the
 *                          callback; K = hex key or `.` = the key the callback is shown (a fresh copy of
 *                          it); then the callback continues, or stops when N = STOP
 *                          -> visit N K V =R... K V =R... end|stop   (=R: result of each inner op, as the
 *                          result line of the plain op)
 *   nadd K|* EV ID         qb_map_notify_add(key|NULL, cb, EV, (void*)ID)                     -> 0 | E<NAME>
 *   ndel K|* EV            qb_map_notify_del                                                  -> 0 | E<NAME>
 *   ndel2 K|* EV ID        qb_map_notify_del_2                                                -> 0 | E<NAME>
 *   destroy                qb_map_destroy, then a fresh map of the same kind is created       -> ok | EBUSY
 *                          (refused by the harness, EBUSY, while iterators are open)
 * Notifier callbacks print `n ID EV K OLD NEW` lines before the op's result line.
 * Keys are hex (`-` is the empty key), K of a NULL key pointer is printed as `null`.
 * At a `case` line and at EOF everything is torn down (open iterators freed, map destroyed without
 * printing) so that LeakSanitizer (enabled per run through ASAN_OPTIONS=detect_leaks=1) sees
 * what the library failed to release. */
#include "os_base.h"
#include <qb/qbdefs.h>
#include <qb/qbmap.h>
#include "lineio.h"

#define MAXIT 64

static qb_map_t *m = NULL;
static char impl[8] = "";
static size_t msize = 8;
static qb_map_iter_t *its[MAXIT];
static int quiet = 0;

/* every key copy handed to the library stays valid until the case ends */
static char **keys = NULL;
static size_t nkeys = 0, capkeys = 0;

static char *key_copy(const char *hex)
{
	size_t len;
	unsigned char *b = vl_unhex(hex, &len);
	if (!b) return NULL;
	b[len] = 0;
	if (nkeys == capkeys) {
		capkeys = capkeys ? 2 * capkeys : 64;
		keys = realloc(keys, capkeys * sizeof(char *));
	}
	keys[nkeys++] = (char *)b;
	return (char *)b;
}

static void keys_drop(void)
{
	size_t i;
	for (i = 0; i < nkeys; i++) free(keys[i]);
	nkeys = 0;
}

static void put_key(const char *k)
{
	if (k == NULL) fputs("null", stdout);
	else vl_puthex(k, strlen(k));
}

/* ---- random() interposition: skiplist_level_generate() draws until a value >= UINT16_MAX/4 */
static int lvl_left = 0;
long int random(void)
{
	if (lvl_left > 0) { lvl_left--; return 0; }
	return 0xffff;
}

static void notify_cb(uint32_t event, char *key, void *old_value, void *value, void *user_data)
{
	if (quiet) return;
	printf("n %ld %u ", (long)(intptr_t)user_data, event);
	put_key(key);
	printf(" %ld %ld\n", (long)(intptr_t)old_value, (long)(intptr_t)value);
}

/* visited items of a traversal are collected in a memstream so that notifier lines the library
 * emits during the walk (deferred deletions) come before the op's single result line */
struct sitem { int at; char op; char *key; long v; int lvl; };   /* key NULL = the key shown */
struct fe { int stop; int n; FILE *mem; struct sitem *script; int nscript; };

static void fe_item(struct fe *f, const char *key, void *value)
{
	size_t j, l;
	f->n++;
	fputc(' ', f->mem);
	if (key == NULL) fputs("null", f->mem);
	else {
		l = strlen(key);
		if (l == 0) fputc('-', f->mem);
		for (j = 0; j < l; j++) fprintf(f->mem, "%02x", (unsigned char)key[j]);
	}
	fprintf(f->mem, " %ld", (long)(intptr_t)value);
}

static int32_t foreach_cb(const char *key, void *value, void *ud)
{
	struct fe *f = ud;
	fe_item(f, key, value);
	return (f->stop > 0 && f->n >= f->stop) ? 1 : 0;
}

static char *key_dup(const char *k)
{
	char *b = strdup(k);
	if (nkeys == capkeys) {
		capkeys = capkeys ? 2 * capkeys : 64;
		keys = realloc(keys, capkeys * sizeof(char *));
	}
	keys[nkeys++] = b;
	return b;
}

/* the callback of `foreachs`: the item, then the scripted operations of this call number */
static int32_t foreachs_cb(const char *key, void *value, void *ud)
{
	struct fe *f = ud;
	int j;
	fe_item(f, key, value);
	for (j = 0; j < f->nscript; j++) {
		struct sitem *it = &f->script[j];
		char *k = NULL;
		if (it->at != f->n) continue;
		if (it->op != 'c') k = it->key ? key_dup(it->key) : key_dup(key);
		if (it->op == 'r') {
			fprintf(f->mem, " =%d", qb_map_rm(m, k) ? 1 : 0);
		} else if (it->op == 'p') {
			lvl_left = it->lvl;
			qb_map_put(m, k, (void *)(intptr_t)it->v);
			lvl_left = 0;
			fputs(" =ok", f->mem);
		} else if (it->op == 'g') {
			void *v = qb_map_get(m, k);
			if (v) fprintf(f->mem, " =%ld", (long)(intptr_t)v); else fputs(" =none", f->mem);
		} else {
			fprintf(f->mem, " =%zu", qb_map_count_get(m));
		}
	}
	return (f->stop > 0 && f->n >= f->stop) ? 1 : 0;
}

/* SCRIPT -> items; returns -1 on a malformed script */
static int parse_script(char *s, struct sitem **out)
{
	struct sitem *a = NULL;
	int n = 0;
	char *save = NULL, *tok;
	*out = NULL;
	if (strcmp(s, "-") == 0) return 0;
	for (tok = strtok_r(s, ",", &save); tok; tok = strtok_r(NULL, ",", &save)) {
		char *f[5] = { NULL, NULL, NULL, NULL, NULL };
		int nf = 0;
		char *q = tok;
		struct sitem it;
		while (nf < 5) {
			f[nf++] = q;
			q = strchr(q, ':');
			if (!q) break;
			*q++ = 0;
		}
		memset(&it, 0, sizeof it);
		if (nf < 2) { free(a); return -1; }
		it.at = atoi(f[0]);
		if (strcmp(f[1], "rm") == 0 && nf == 3) it.op = 'r';
		else if (strcmp(f[1], "get") == 0 && nf == 3) it.op = 'g';
		else if (strcmp(f[1], "put") == 0 && (nf == 4 || nf == 5)) it.op = 'p';
		else if (strcmp(f[1], "count") == 0 && nf == 2) it.op = 'c';
		else { free(a); return -1; }
		if (it.op != 'c' && strcmp(f[2], ".") != 0) {
			it.key = key_copy(f[2]);
			if (!it.key) { free(a); return -1; }
		}
		if (it.op == 'p') {
			it.v = strtol(f[3], NULL, 10);
			it.lvl = nf == 5 ? atoi(f[4]) : 0;
		}
		a = realloc(a, (n + 1) * sizeof *a);
		a[n++] = it;
	}
	*out = a;
	return n;
}

static qb_map_t *mk(void)
{
	if (strcmp(impl, "ht") == 0) return qb_hashtable_create(msize);
	if (strcmp(impl, "sl") == 0) return qb_skiplist_create();
	if (strcmp(impl, "trie") == 0) return qb_trie_create();
	return NULL;
}

static int open_iters(void)
{
	int i, n = 0;
	for (i = 0; i < MAXIT; i++) if (its[i]) n++;
	return n;
}

static void teardown(void)
{
	int i;
	quiet = 1;
	if (m) {
		for (i = 0; i < MAXIT; i++) if (its[i]) { qb_map_iter_free(its[i]); its[i] = NULL; }
		qb_map_destroy(m);
		m = NULL;
	}
	keys_drop();
	quiet = 0;
}

static int rc_line(int32_t rc)
{
	if (rc == 0) printf("0\n"); else printf("%s\n", vl_errname(rc));
	return 0;
}

int main(void)
{
	char *t[VL_MAXTOK];
	int nt;
	VL_INIT();
	/* one line per op even when the process is killed by the sanitizer half-way */
	while ((nt = vl_read(t)) >= 0) {
		if (strcmp(t[0], "case") == 0) {
			teardown();
			printf("case %s\n", nt > 1 ? t[1] : "");
		} else if (strcmp(t[0], "map") == 0 && nt >= 2) {
			teardown();
			snprintf(impl, sizeof impl, "%s", t[1]);
			msize = nt > 2 ? strtoull(t[2], NULL, 10) : 8;
			m = mk();
			printf(m ? "ok\n" : "bad-op\n");
		} else if (!m) {
			printf("bad-op\n");
		} else if (strcmp(t[0], "put") == 0 && nt >= 3) {
			char *k = key_copy(t[1]);
			long v = strtol(t[2], NULL, 10);
			lvl_left = 0;
			if (nt > 3 && strncmp(t[3], "lvl=", 4) == 0) lvl_left = atoi(t[3] + 4);
			if (!k) { printf("bad-op\n"); continue; }
			qb_map_put(m, k, (void *)(intptr_t)v);
			lvl_left = 0;
			printf("ok\n");
		} else if (strcmp(t[0], "get") == 0 && nt == 2) {
			char *k = key_copy(t[1]);
			void *v;
			if (!k) { printf("bad-op\n"); continue; }
			v = qb_map_get(m, k);
			if (v) printf("%ld\n", (long)(intptr_t)v); else printf("none\n");
		} else if (strcmp(t[0], "rm") == 0 && nt == 2) {
			char *k = key_copy(t[1]);
			if (!k) { printf("bad-op\n"); continue; }
			printf("%d\n", qb_map_rm(m, k) ? 1 : 0);
		} else if (strcmp(t[0], "count") == 0) {
			printf("%zu\n", qb_map_count_get(m));
		} else if (strcmp(t[0], "iter_new") == 0 && nt >= 2) {
			int i = atoi(t[1]);
			if (i < 0 || i >= MAXIT || its[i]) { printf("bad-iter\n"); continue; }
			if (nt > 2) {
				char *p = key_copy(t[2]);
				if (!p) { printf("bad-op\n"); continue; }
				its[i] = qb_map_pref_iter_create(m, p);
			} else {
				its[i] = qb_map_iter_create(m);
			}
			printf(its[i] ? "ok\n" : "ENOMEM\n");
		} else if (strcmp(t[0], "iter_next") == 0 && nt == 2) {
			int i = atoi(t[1]);
			const char *k;
			void *v = NULL;
			if (i < 0 || i >= MAXIT || !its[i]) { printf("bad-iter\n"); continue; }
			k = qb_map_iter_next(its[i], &v);
			if (k) { put_key(k); printf(" %ld\n", (long)(intptr_t)v); } else printf("end\n");
		} else if (strcmp(t[0], "iter_free") == 0 && nt == 2) {
			int i = atoi(t[1]);
			if (i < 0 || i >= MAXIT || !its[i]) { printf("bad-iter\n"); continue; }
			qb_map_iter_free(its[i]);
			its[i] = NULL;
			printf("ok\n");
		} else if (strcmp(t[0], "foreach") == 0 && nt >= 2) {
			struct fe f;
			char *buf = NULL;
			size_t bl = 0;
			int stopped = 0;
			char *p = NULL;
			if (nt > 2) {
				p = key_copy(t[2]);
				if (!p) { printf("bad-op\n"); continue; }
			}
			f.stop = atoi(t[1]);
			f.n = 0;
			f.mem = open_memstream(&buf, &bl);
			if (p) {
				/* qb_map_foreach's loop, by hand, on a prefix iterator */
				const char *k;
				void *v = NULL;
				qb_map_iter_t *it = qb_map_pref_iter_create(m, p);
				for (k = qb_map_iter_next(it, &v); k; k = qb_map_iter_next(it, &v)) {
					if (foreach_cb(k, v, &f)) break;
				}
				qb_map_iter_free(it);
			} else {
				qb_map_foreach(m, foreach_cb, &f);
			}
			stopped = (f.stop > 0 && f.n >= f.stop);
			fclose(f.mem);
			printf("visit %d%s %s\n", f.n, buf ? buf : "", stopped ? "stop" : "end");
			free(buf);
		} else if (strcmp(t[0], "foreachs") == 0 && nt >= 3) {
			struct fe f;
			char *buf = NULL;
			size_t bl = 0;
			int stopped = 0;
			char *p = NULL;
			memset(&f, 0, sizeof f);
			if (nt > 3) {
				p = key_copy(t[3]);
				if (!p) { printf("bad-op\n"); continue; }
			}
			f.nscript = parse_script(t[2], &f.script);
			if (f.nscript < 0) { printf("bad-op\n"); continue; }
			f.stop = atoi(t[1]);
			f.mem = open_memstream(&buf, &bl);
			if (p) {
				const char *k;
				void *v = NULL;
				qb_map_iter_t *it = qb_map_pref_iter_create(m, p);
				for (k = qb_map_iter_next(it, &v); k; k = qb_map_iter_next(it, &v)) {
					if (foreachs_cb(k, v, &f)) break;
				}
				qb_map_iter_free(it);
			} else {
				qb_map_foreach(m, foreachs_cb, &f);
			}
			stopped = (f.stop > 0 && f.n >= f.stop);
			fclose(f.mem);
			printf("visit %d%s %s\n", f.n, buf ? buf : "", stopped ? "stop" : "end");
			free(buf);
			free(f.script);
		} else if ((strcmp(t[0], "nadd") == 0 && nt == 4) || (strcmp(t[0], "ndel2") == 0 && nt == 4) ||
			   (strcmp(t[0], "ndel") == 0 && nt == 3)) {
			char *k = NULL;
			int32_t ev = (int32_t)strtol(t[2], NULL, 10);
			long id = nt == 4 ? strtol(t[3], NULL, 10) : 0;
			if (strcmp(t[1], "*") != 0) {
				k = key_copy(t[1]);
				if (!k) { printf("bad-op\n"); continue; }
			}
			if (t[0][1] == 'a') rc_line(qb_map_notify_add(m, k, notify_cb, ev, (void *)(intptr_t)id));
			else if (nt == 4) rc_line(qb_map_notify_del_2(m, k, notify_cb, ev, (void *)(intptr_t)id));
			else rc_line(qb_map_notify_del(m, k, notify_cb, ev));
		} else if (strcmp(t[0], "destroy") == 0) {
			if (open_iters()) { printf("EBUSY\n"); continue; }
			qb_map_destroy(m);
			m = mk();
			printf("ok\n");
		} else {
			printf("bad-op\n");
		}
	}
	teardown();
	free(keys);
	free(vl_line);
	return 0;
}
