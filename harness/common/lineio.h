/* Shared helpers for the C harnesses: line reader, hex codec, errno names. */
#ifndef VERIF_LINEIO_H
#define VERIF_LINEIO_H
#include <stdio.h>
#include <stdlib.h>
#include <string.h>
#include <errno.h>
#include <stdint.h>

#define VL_MAXTOK 64

static char *vl_line = NULL;
static size_t vl_cap = 0;

/* reads a line, splits into tokens in place; returns ntok, -1 on EOF */
static int vl_read(char **tok)
{
	ssize_t n;
	int nt = 0;
	char *p;
	for (;;) {
		n = getline(&vl_line, &vl_cap, stdin);
		if (n < 0) return -1;
		while (n > 0 && (vl_line[n-1] == '\n' || vl_line[n-1] == '\r' || vl_line[n-1] == ' ')) vl_line[--n] = 0;
		p = vl_line;
		while (*p == ' ') p++;
		if (*p == 0 || *p == '#') continue;
		break;
	}
	nt = 0;
	while (*p && nt < VL_MAXTOK) {
		tok[nt++] = p;
		while (*p && *p != ' ') p++;
		if (*p) { *p++ = 0; while (*p == ' ') p++; }
	}
	return nt;
}

static int vl_hexval(int c)
{
	if (c >= '0' && c <= '9') return c - '0';
	if (c >= 'a' && c <= 'f') return c - 'a' + 10;
	if (c >= 'A' && c <= 'F') return c - 'A' + 10;
	return -1;
}

/* "-" = empty. returns malloc'd buffer (at least 1 byte), length in *len; NULL on error */
static unsigned char *vl_unhex(const char *s, size_t *len)
{
	size_t n = strlen(s), i;
	unsigned char *b;
	if (strcmp(s, "-") == 0) { *len = 0; return malloc(1); }
	if (n % 2) return NULL;
	b = malloc(n / 2 + 1);
	for (i = 0; i < n / 2; i++) {
		int a = vl_hexval(s[2*i]), c = vl_hexval(s[2*i+1]);
		if (a < 0 || c < 0) { free(b); return NULL; }
		b[i] = (unsigned char)(a * 16 + c);
	}
	*len = n / 2;
	return b;
}

static void vl_puthex(const void *buf, size_t len)
{
	const unsigned char *b = buf;
	size_t i;
	if (len == 0) { fputs("-", stdout); return; }
	for (i = 0; i < len; i++) printf("%02x", b[i]);
}

static const char *vl_errname(int e)
{
	static char tmp[32];
	if (e < 0) e = -e;
	switch (e) {
	case EAGAIN: return "EAGAIN";
	case ENOBUFS: return "ENOBUFS";
	case ETIMEDOUT: return "ETIMEDOUT";
	case EBADMSG: return "EBADMSG";
	case EINVAL: return "EINVAL";
	case EMSGSIZE: return "EMSGSIZE";
	case ERANGE: return "ERANGE";
	case EBADF: return "EBADF";
	case ENOENT: return "ENOENT";
	case EEXIST: return "EEXIST";
	case ENOMEM: return "ENOMEM";
	case ENOTCONN: return "ENOTCONN";
	case ECONNRESET: return "ECONNRESET";
	case EPIPE: return "EPIPE";
	case ENOSPC: return "ENOSPC";
	case EACCES: return "EACCES";
	case EPERM: return "EPERM";
	case ENOTSUP: return "ENOTSUP";
	case EIO: return "EIO";
	case ESHUTDOWN: return "ESHUTDOWN";
	case ENOMSG: return "ENOMSG";
	case EINTR: return "EINTR";
	case E2BIG: return "E2BIG";
	case EOVERFLOW: return "EOVERFLOW";
	case EBUSY: return "EBUSY";
	case ENOTEMPTY: return "ENOTEMPTY";
	case EFAULT: return "EFAULT";
	default: snprintf(tmp, sizeof tmp, "E%d", e); return tmp;
	}
}

#define VL_INIT() do { setvbuf(stdout, NULL, _IONBF, 0); } while (0)
#endif
