/* Sequential growable-array harness: drives the real lib/array.c (linked from the ASan build of
 * /repo/lib) with the op lines of DESIGN.md appendix A, driver `array`.
 *
 *   create MAX ESZ AUTO   -> ok | E<NAME>            (qb_array_create_2; frees a previous array)
 *   index I               -> addr BLK OFF | E<NAME>  (qb_array_index)
 *   grow N                -> 0 | E<NAME>             (qb_array_grow)
 *   numbins | epb         -> N                       (qb_array_num_bins_get / _elems_per_bin_get)
 *   cbset 0|1             -> 0                       (qb_array_new_bin_cb_set; the callback prints `newbin B`)
 *   poke I OFF V          -> 0 | E<NAME>             (index, then store byte V at element+OFF; OFF < ESZ)
 *   peek I                -> HEX | E<NAME>           (index, then read the ESZ bytes of the element)
 *
 * Addresses are canonicalised to (block#, offset): the heap block containing the returned pointer
 * is looked up with ASan's __asan_locate_address (begin/size of the allocation, so the offset is
 * NOT computed from the index and an out-of-block pointer is visible as `wild`/`oob`); block
 * numbers are assigned in first-seen order.  Nothing is interposed.
 */
#include "os_base.h"
#include <qb/qbarray.h>
#include "lineio.h"

#if defined(__SANITIZE_ADDRESS__)
#include <sanitizer/asan_interface.h>
#define HAVE_LOCATE 1
#else
#define HAVE_LOCATE 0
#endif

static qb_array_t *arr = NULL;
static size_t esz = 0;

#define MAXBLK 8192
static char *blk_base[MAXBLK];
static int nblk = 0;

static int blk_id(char *base)
{
	int i;
	for (i = 0; i < nblk; i++) if (blk_base[i] == base) return i;
	if (nblk < MAXBLK) { blk_base[nblk] = base; return nblk++; }
	return -1;
}

/* 0 = ok, 1 = not a heap pointer, 2 = element not inside its block */
static int canon(void *p, int32_t idx, int *blk, size_t *off)
{
	char *base = NULL;
	size_t size = 0;
#if HAVE_LOCATE
	char name[16];
	void *ra = NULL;
	size_t rs = 0;
	const char *kind = __asan_locate_address(p, name, sizeof name, &ra, &rs);
	if (strcmp(kind, "heap") != 0) return 1;
	base = ra;
	size = rs;
#else
	base = (char *)p - (size_t)(idx % 16) * esz;
	size = 16 * esz;
#endif
	*off = (size_t)((char *)p - base);
	*blk = blk_id(base);
	if (*off + esz > size) return 2;
	return 0;
}

static void new_bin_cb(qb_array_t *a, uint32_t bin)
{
	printf("newbin %u\n", bin);
}

static void drop(void)
{
	if (arr) { qb_array_free(arr); arr = NULL; }
	nblk = 0;
}

int main(void)
{
	char *t[VL_MAXTOK];
	int nt;
	VL_INIT();
	while ((nt = vl_read(t)) >= 0) {
		if (strcmp(t[0], "case") == 0) {
			drop();
			printf("case %s\n", nt > 1 ? t[1] : "");
		} else if (strcmp(t[0], "create") == 0 && nt == 4) {
			size_t mx = strtoull(t[1], NULL, 10);
			size_t es = strtoull(t[2], NULL, 10);
			size_t ag = strtoull(t[3], NULL, 10);
			drop();
			errno = 0;
			arr = qb_array_create_2(mx, es, ag);
			esz = es;
			if (!arr) printf("%s\n", vl_errname(errno));
			else printf("ok\n");
		} else if (!arr) {
			printf("bad-op\n");
		} else if ((strcmp(t[0], "index") == 0 && nt == 2) ||
			   (strcmp(t[0], "peek") == 0 && nt == 2) ||
			   (strcmp(t[0], "poke") == 0 && nt == 4)) {
			long long iv = strtoll(t[1], NULL, 10);
			void *p = NULL;
			int32_t rc;
			if (iv < INT32_MIN || iv > INT32_MAX) { printf("bad-op\n"); continue; }
			rc = qb_array_index(arr, (int32_t)iv, &p);
			if (rc != 0) {
				printf("%s\n", vl_errname(rc));
			} else {
				int b = -1; size_t off = 0;
				int c = canon(p, (int32_t)iv, &b, &off);
				if (c == 1) printf("wild\n");
				else if (c == 2) printf("oob %d %zu\n", b, off);
				else if (t[0][0] == 'i') printf("addr %d %zu\n", b, off);
				else if (t[0][1] == 'e') { vl_puthex(p, esz); printf("\n"); }
				else {
					size_t o = strtoull(t[2], NULL, 10);
					if (o >= esz) printf("bad-op\n");
					else { ((unsigned char *)p)[o] = (unsigned char)strtoul(t[3], NULL, 10); printf("0\n"); }
				}
			}
		} else if (strcmp(t[0], "grow") == 0 && nt == 2) {
			size_t n = strtoull(t[1], NULL, 10);
			int32_t rc = qb_array_grow(arr, n);
			if (rc != 0) printf("%s\n", vl_errname(rc)); else printf("0\n");
		} else if (strcmp(t[0], "numbins") == 0) {
			printf("%zu\n", qb_array_num_bins_get(arr));
		} else if (strcmp(t[0], "epb") == 0) {
			printf("%zu\n", qb_array_elems_per_bin_get(arr));
		} else if (strcmp(t[0], "cbset") == 0 && nt == 2) {
			printf("%d\n", qb_array_new_bin_cb_set(arr, atoi(t[1]) ? new_bin_cb : NULL));
		} else {
			printf("bad-op\n");
		}
	}
	drop();
	return 0;
}
